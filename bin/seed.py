#!/usr/bin/env python3
"""seed.py <worktree-with-MUTANT-dir> <seed-id> <property> [check ids...]

Confirms a seeded change (patch applies on /repo HEAD, builds, demonstration
passes without it and fails with it, in a scratch worktree), stores it under
/verif/seeded/<seed-id>/ and runs the given checks (default: the property's
own) against /repo with the patch applied, undoing it afterwards.
"""
import json
import os
import shutil
import subprocess
import sys
import time

VERIF = os.path.dirname(os.path.dirname(os.path.abspath(__file__)))
ENV = dict(os.environ, GOFLAGS="-mod=mod", GOPROXY="off", GOSUMDB="off", GOTOOLCHAIN="local")


def sh(cmd, cwd=None, timeout=3600):
    p = subprocess.run(cmd, shell=True, cwd=cwd, env=ENV, stdout=subprocess.PIPE, stderr=subprocess.STDOUT, text=True, timeout=timeout)
    return p.returncode, p.stdout


def main():
    src, seed_id, prop = sys.argv[1], sys.argv[2], sys.argv[3]
    checks = sys.argv[4:] or [prop]
    mut = os.path.join(src, "MUTANT")
    dst = os.path.join(VERIF, "seeded", seed_id)
    if os.path.isdir(mut):
        if os.path.exists(dst):
            shutil.rmtree(dst)
        shutil.copytree(mut, dst)
    patch = os.path.join(dst, "patch.diff")
    meta = {"seed_id": seed_id, "property": prop, "checks_run": {}, "confirmed": {}}
    readme = os.path.join(dst, "README.md")
    if os.path.exists(readme):
        meta["needs_to_manifest"] = "see README.md"
    rc, out = sh("git -C /repo status --short | grep -v '^??' | head -3")
    if out.strip():
        print("refusing: /repo has uncommitted changes:\n" + out)
        sys.exit(2)
    rc, out = sh("git -C /repo apply --check %s" % patch)
    meta["confirmed"]["patch_applies_on_repo_head"] = rc == 0
    if rc != 0:
        rc3, out3 = sh("git -C /repo apply --3way --check %s" % patch)
        meta["confirmed"]["patch_applies_3way"] = rc3 == 0
        print("patch does not apply cleanly:", out[:500])
        if rc3 != 0:
            json.dump(meta, open(os.path.join(dst, "meta.json"), "w"), indent=1)
            sys.exit(1)
    # ---- confirm the demonstration in a scratch worktree
    wt = "/tmp/seedver-%s" % seed_id
    sh("git -C /repo worktree remove --force %s" % wt)
    sh("git -C /repo worktree add -q --detach %s HEAD" % wt)
    try:
        demo_path = open(os.path.join(dst, "demo_path.txt")).read().strip().splitlines()[0].strip()
        demo_cmd = open(os.path.join(dst, "demo_cmd.txt")).read().strip()
        demo_file = None
        for f in os.listdir(dst):
            if f.endswith(".go"):
                demo_file = f
        # several demo files: copy all .go files next to demo_path's directory
        target_dir = os.path.join(wt, os.path.dirname(demo_path))
        os.makedirs(target_dir, exist_ok=True)
        for f in os.listdir(dst):
            if f.endswith(".go"):
                shutil.copy(os.path.join(dst, f), os.path.join(target_dir, f if f != demo_file else os.path.basename(demo_path)))
        cmd = demo_cmd.replace(src, wt)
        if "cd " not in cmd:
            cmd = "cd %s && %s" % (wt, cmd)
        rc_clean, out_clean = sh(cmd, cwd=wt)
        rc, out = sh("git apply %s" % patch, cwd=wt)
        if rc != 0:
            rc, out = sh("git apply --3way %s" % patch, cwd=wt)
        rc_build, out_build = sh("go1.26.8 build ./...", cwd=wt)
        rc_mut, out_mut = sh(cmd, cwd=wt)
        meta["confirmed"].update({
            "demo_passes_without_change": rc_clean == 0,
            "builds_with_change": rc_build == 0,
            "demo_fails_with_change": rc_mut != 0,
            "demo_cmd": cmd,
        })
        if os.environ.get("SEED_FULL_TESTS") == "1":
            rc_t, out_t = sh("go1.26.8 test -vet=off -count=1 ./internal/... ./pkg/... 2>&1 | grep -v 'no test files' | grep -v '^ok' | head -20", cwd=wt)
            meta["confirmed"]["existing_tests_not_ok_lines"] = out_t.strip().splitlines()
        print("demo: clean rc=%d, mutated rc=%d, build rc=%d" % (rc_clean, rc_mut, rc_build))
        if rc_clean != 0:
            print(out_clean[-1500:])
    except Exception as e:  # noqa
        meta["confirmed"]["error"] = repr(e)
        print("demo confirmation error:", e)
    finally:
        sh("git -C /repo worktree remove --force %s" % wt)
    # ---- run my checks against the mutated /repo
    tier = os.environ.get("SEED_TIER", "quick")
    rc, out = sh("git -C /repo apply %s || git -C /repo apply --3way %s" % (patch, patch))
    try:
        for c in checks:
            t0 = time.time()
            rc, out = sh("%s/bin/check %s %s" % (VERIF, c, tier), cwd=VERIF, timeout=7200)
            viol = [l for l in out.splitlines() if l.startswith("VIOLATION")]
            meta["checks_run"][c] = {"tier": tier, "exit": rc, "violation_line": viol[0] if viol else None, "wall_s": round(time.time() - t0, 1)}
            print("check %s %s: exit=%d %s" % (c, tier, rc, viol[0] if viol else ""))
            if rc == 1:
                # keep the head of the failure for the record
                lines = [l for l in out.splitlines() if "VIOLATION[" in l or "failed after" in l]
                meta["checks_run"][c]["headline"] = lines[0][:600] if lines else ""
            elif rc == 2:
                meta["checks_run"][c]["tail"] = out[-1200:]
    finally:
        sh("git -C /repo checkout -- . && git -C /repo clean -fdq -e MUTANT")
        sh("git -C /repo reset -q --hard HEAD")
    # replay files produced against a mutant are not kept
    for f in os.listdir(os.path.join(VERIF, "replays")):
        p = os.path.join(VERIF, "replays", f)
        if os.path.isfile(p):
            os.remove(p)
    meta["caught_by"] = [c for c, r in meta["checks_run"].items() if r["exit"] == 1]
    json.dump(meta, open(os.path.join(dst, "meta.json"), "w"), indent=1)
    print(json.dumps({"seed": seed_id, "caught_by": meta["caught_by"], "confirmed": meta["confirmed"]}, indent=1))


if __name__ == "__main__":
    main()
