#!/usr/bin/env python3
"""Regenerates /verif/MANIFEST.json from checks.json + not_applicable.json."""
import json, os
V = os.path.dirname(os.path.dirname(os.path.abspath(__file__)))
cfg = json.load(open(os.path.join(V, "checks.json")))
na = json.load(open(os.path.join(V, "not_applicable.json")))
props = [json.loads(l)["id"] for l in open(os.path.join(V, "properties.jsonl")) if l.strip()]
hooks = json.load(open(os.path.join(V, "hooks.json")))
checks = []
engines = {}
for pid in props:
    c = cfg["checks"].get(pid)
    if not c:
        continue
    e = {
        "property_id": pid,
        "quick_cmd": "bin/check %s quick" % pid,
        "thorough_cmd": "bin/check %s thorough" % pid,
        "evidence_file": "/verif/evidence/%s.json" % pid,
        "replay_cmd_template": "bin/check %s quick --replay {path}" % pid,
        "engine": c.get("engine", ""),
        "level_claimed": {"category": c["level"], "text": c["text"], "design_ref": c.get("design_ref", "DESIGN.md")},
        "level_note": c["note"],
        "technique": c["technique"],
    }
    checks.append(e)
    engines.setdefault(c.get("engine", ""), {"name": c.get("engine", ""), "path": "/verif/harness/" + c["pkg"].strip("./"), "serves_properties": [], "kind_free_text": "Go test package driven by pgregory.net/rapid (and native go fuzzing where stated)"})["serves_properties"].append(pid)
claimed = {c["property_id"] for c in checks}
nal = []
for pid in props:
    if pid in claimed:
        continue
    nal.append({"property_id": pid, "reason": na.get(pid, "no check built yet for this property (work in progress); nothing is claimed")})
m = {
    "version": 1,
    "setup_cmd": "bin/setup",
    "hooks": hooks,
    "engines": list(engines.values()),
    "checks": checks,
    "not_applicable": nal,
    "notes": "All checks are property-based tests / fuzz targets in the Go module /verif/harness (module path nested under github.com/formancehq/ledger, replace => /repo) and rebuild from /repo's working tree on every run. bin/check <id> <tier>; VERIF_SEED selects the PRNG stream. Exit 2 = inconclusive (harness trouble), never reported as a violation.",
}
json.dump(m, open(os.path.join(V, "MANIFEST.json"), "w"), indent=1)
print("MANIFEST.json: %d checks, %d not_applicable" % (len(checks), len(nal)))
