#!/usr/bin/env python3
"""reseed.py <seed-id> [check ids...] : re-runs checks (default: the seed's property) against /repo with an
already stored seeded change applied, undoes it, and updates seeded/<seed-id>/meta.json."""
import json, os, subprocess, sys, time
V = os.path.dirname(os.path.dirname(os.path.abspath(__file__)))
sid = sys.argv[1]
d = os.path.join(V, "seeded", sid)
meta = json.load(open(os.path.join(d, "meta.json")))
checks = sys.argv[2:] or [meta["property"]]
tier = os.environ.get("SEED_TIER", "quick")
def sh(c, **kw):
    p = subprocess.run(c, shell=True, stdout=subprocess.PIPE, stderr=subprocess.STDOUT, text=True, **kw)
    return p.returncode, p.stdout
rc, out = sh("git -C /repo status --short | grep -v '^??' | head -3")
if out.strip():
    print("refusing: /repo has uncommitted changes:\n" + out); sys.exit(2)
patch = os.path.join(d, "patch.diff")
rc, out = sh("git -C /repo apply %s || git -C /repo apply --3way %s" % (patch, patch))
if rc != 0:
    print("patch does not apply:", out[:400]); sys.exit(1)
try:
    for c in checks:
        t0 = time.time()
        rc, out = sh("%s/bin/check %s %s" % (V, c, tier), cwd=V, timeout=7200)
        viol = [l for l in out.splitlines() if l.startswith("VIOLATION")]
        r = {"tier": tier, "exit": rc, "violation_line": viol[0] if viol else None, "wall_s": round(time.time() - t0, 1)}
        if rc == 1:
            lines = [l for l in out.splitlines() if "VIOLATION[" in l or "failed after" in l or ": C2" in l]
            r["headline"] = lines[0][:600] if lines else ""
        if os.environ.get("VERIF_NO_PINNED"):
            r["pinned_reproducers_skipped"] = True
            meta.setdefault("generated_search_only", {})[c] = r
        else:
            meta.setdefault("checks_run", {})[c] = r
        print("check %s %s: exit=%d %s" % (c, tier, rc, viol[0] if viol else ""))
finally:
    sh("git -C /repo checkout -- . && git -C /repo reset -q --hard HEAD")
for f in os.listdir(os.path.join(V, "replays")):
    p = os.path.join(V, "replays", f)
    if os.path.isfile(p):
        os.remove(p)
meta["caught_by"] = [c for c, r in meta["checks_run"].items() if r["exit"] == 1]
json.dump(meta, open(os.path.join(d, "meta.json"), "w"), indent=1)
