#!/usr/bin/env python3
"""Driver for the /verif property checks.

usage: check <Cxx> <quick|thorough> [--replay <rapid fail file>]

exit 0  property held on everything explored (KNOWN-FINDING lines may be printed)
exit 1  VIOLATION property=<id> replay=<path>   (a violation not in known_findings.jsonl)
exit 2  harness trouble: build failure, timeout, worker death, unsupported SQL shape,
        generator starvation, short case count. Never a VIOLATION line.
"""
import json
import os
import re
import shutil
import signal
import subprocess
import sys
import tempfile
import time

VERIF = os.path.dirname(os.path.dirname(os.path.abspath(__file__)))
HARNESS = os.path.join(VERIF, "harness")
REPO = "/repo"
GO = shutil.which("go1.26.8") or "/usr/local/bin/go1.26.8"


def log(*a):
    print(*a, flush=True)


def go_env():
    env = dict(os.environ)
    env.update(
        GOFLAGS="-mod=mod",
        GOPROXY="off",
        GOSUMDB="off",
        GOTOOLCHAIN="local",
        GONOSUMDB="*",
        GONOSUMCHECK="1",
        GOFLAGS_EXTRA="",
    )
    env.setdefault("GOMAXPROCS", "4")
    return env


def refresh_gosum():
    """harness/go.sum = /repo/go.sum + the lines for the harness-only deps."""
    extra = os.path.join(HARNESS, "go.sum.extra")
    dst = os.path.join(HARNESS, "go.sum")
    try:
        with open(os.path.join(REPO, "go.sum")) as f:
            lines = f.read().splitlines()
        with open(extra) as f:
            lines += f.read().splitlines()
        want = "\n".join(sorted(set(l for l in lines if l.strip()))) + "\n"
        cur = open(dst).read() if os.path.exists(dst) else ""
        if cur != want:
            tmp = dst + ".%d" % os.getpid()
            with open(tmp, "w") as f:
                f.write(want)
            os.replace(tmp, dst)
    except OSError as e:
        log("warning: could not refresh go.sum: %s" % e)


def load_cfg(prop):
    with open(os.path.join(VERIF, "checks.json")) as f:
        cfg = json.load(f)
    if prop not in cfg["checks"]:
        log("unknown property %s" % prop)
        sys.exit(2)
    c = dict(cfg["defaults"])
    c.update(cfg["checks"][prop])
    return c


def build(pkg, out, env, tags):
    cmd = [GO, "test", "-c", "-vet=off", "-tags", tags, "-o", out, pkg]
    t0 = time.time()
    p = subprocess.run(cmd, cwd=HARNESS, env=env, stdout=subprocess.PIPE, stderr=subprocess.STDOUT, text=True)
    if p.returncode != 0 or not os.path.exists(out):
        log("BUILD-FAILED (harness trouble, not a violation):")
        log(p.stdout[-6000:])
        return False
    log("built %s in %.1fs" % (pkg, time.time() - t0))
    return True


def validate_evidence(ev):
    try:
        import jsonschema
    except ImportError:
        return None
    schema_path = "/root/.vp/EVIDENCE.schema.json"
    if not os.path.exists(schema_path):
        schema_path = os.path.join(VERIF, "schema", "EVIDENCE.schema.json")
    if not os.path.exists(schema_path):
        return None
    with open(schema_path) as f:
        schema = json.load(f)
    try:
        jsonschema.validate(ev, schema)
    except jsonschema.ValidationError as e:
        return str(e)[:500]
    return None


def main():
    args = sys.argv[1:]
    if len(args) < 2:
        log(__doc__)
        sys.exit(2)
    prop, tier = args[0], args[1]
    replay = None
    if "--replay" in args:
        replay = os.path.abspath(args[args.index("--replay") + 1])
    if tier not in ("quick", "thorough"):
        log("tier must be quick or thorough")
        sys.exit(2)
    tier = os.environ.get("VERIF_TIER", tier) if False else tier
    cfg = load_cfg(prop)
    seed = int(os.environ.get("VERIF_SEED", "1") or "1")
    if seed == 0:
        seed = 1
    env = go_env()
    env["VERIF_TIER"] = tier
    env["VERIF_SEED"] = str(seed)
    env["VERIF_DIR"] = VERIF
    env["VERIF_PROPERTY"] = prop

    refresh_gosum()
    t_start = time.time()
    work = tempfile.mkdtemp(prefix="verif-%s-" % prop, dir=os.environ.get("VERIF_TMP", None))
    rc = 2
    try:
        rc = run(prop, tier, cfg, seed, env, work, replay, t_start)
    finally:
        shutil.rmtree(work, ignore_errors=True)
    sys.exit(rc)


def run(prop, tier, cfg, seed, env, work, replay, t_start):
    pkg = cfg["pkg"]
    test = cfg.get("test", "Test" + prop)
    # a property may be served by tests of several packages ("also": [{"pkg":..,"test":..}])
    targets = [(pkg, test)] + [(a["pkg"], a["test"]) for a in cfg.get("also", [])]
    bins = []
    for ti, (tpkg, ttest) in enumerate(targets):
        binpath = os.path.join(work, "check%d.test" % ti)
        if not build(tpkg, binpath, env, cfg.get("tags", "verif")):
            return 2
        bins.append((binpath, ttest))

    shards = int(cfg.get("shards", 16)) if tier == "thorough" else 1
    if replay:
        shards = 1
        env["VERIF_REPLAY"] = replay
    timeout = int(cfg.get("timeout_" + tier, 900 if tier == "quick" else 3600))
    procs = []
    for i, (binpath, test) in [(i, b) for i in range(shards) for b in bins]:
        d = os.path.join(work, "shard%d-%s" % (i, os.path.basename(binpath)))
        os.makedirs(d)
        # testdata next to the test binary's cwd: rapid replays testdata/rapid first, keep it empty
        e = dict(env)
        e["VERIF_SHARD"] = str(i)
        e["VERIF_SHARDS"] = str(shards)
        e["VERIF_OUT"] = os.path.join(d, "stats.json")
        if shards > 1:
            e["GOMAXPROCS"] = str(cfg.get("gomaxprocs_shard", 2))
        else:
            e["GOMAXPROCS"] = str(cfg.get("gomaxprocs", 8))
        logf = open(os.path.join(d, "log.txt"), "w")
        cmd = [binpath, "-test.run", test if test.startswith("^") else "^%s$" % test, "-test.timeout", "0", "-test.count", "1", "-test.v"]
        p = subprocess.Popen(cmd, cwd=d, env=e, stdout=logf, stderr=subprocess.STDOUT, start_new_session=True)
        procs.append((i, d, p, logf))

    deadline = t_start + timeout
    timed_out = False
    for i, d, p, logf in procs:
        try:
            p.wait(timeout=max(1, deadline - time.time()))
        except subprocess.TimeoutExpired:
            timed_out = True
            try:
                os.killpg(p.pid, signal.SIGKILL)
            except OSError:
                pass
            p.wait()
        logf.close()

    # optional native fuzzing stage (thorough only); a crasher is a violation, nothing else is
    fuzz_violation = None
    fuzz_info = None
    if tier == "thorough" and not replay and cfg.get("fuzz") and not timed_out:
        fuzz_violation, fuzz_info = run_fuzz(prop, cfg, env, work)

    stats = []
    violation = None
    harness_trouble = None
    for i, d, p, logf in procs:
        out = open(os.path.join(d, "log.txt"), errors="replace").read()
        for fn in sorted(os.listdir(d)):
            if not fn.startswith("stats.json"):
                continue
            try:
                stats.append(json.load(open(os.path.join(d, fn))))
            except ValueError:
                pass
        if p.returncode == 0:
            continue
        if timed_out and p.returncode < 0:
            harness_trouble = harness_trouble or "shard %d timed out after %ds" % (i, timeout)
            continue
        if "HARNESS-ERROR" in out or "panic: test timed out" in out or p.returncode < 0 or "fatal error: out of memory" in out or "cannot allocate memory" in out:
            m = re.search(r"HARNESS-ERROR[^\n]*", out)
            harness_trouble = harness_trouble or (m.group(0) if m else "shard %d died (rc=%s)" % (i, p.returncode))
            save_log(prop, tier, seed, i, out, "harness")
            continue
        if "--- FAIL" not in out and "FAIL" not in out and "panic:" not in out:
            harness_trouble = harness_trouble or "shard %d exited %s without a test failure" % (i, p.returncode)
            save_log(prop, tier, seed, i, out, "harness")
            continue
        # a genuine test failure: property violation
        if violation is None:
            violation = save_violation(prop, tier, seed, i, d, out)

    if fuzz_violation and violation is None:
        violation = fuzz_violation
    if fuzz_info and not str(fuzz_info.get("status", "")).startswith("ok") and not fuzz_violation:
        harness_trouble = harness_trouble or "native fuzz stage: %s" % fuzz_info.get("status")

    ev_path = os.path.join(VERIF, "evidence", "%s.json" % prop)
    known_lines = []
    if stats:
        ev, known_lines = merge(prop, tier, seed, cfg, stats, time.time() - t_start, violation, fuzz_info)
        os.makedirs(os.path.dirname(ev_path), exist_ok=True)
        if not replay:
            err = validate_evidence(ev)
            if err:
                log("evidence does not validate: %s" % err)
                harness_trouble = harness_trouble or "evidence invalid"
            tmp = ev_path + ".tmp%d" % os.getpid()
            with open(tmp, "w") as f:
                json.dump(ev, f, indent=1, sort_keys=True)
                f.write("\n")
            os.replace(tmp, ev_path)
            log("evidence: %s evaluations=%d distinct_nontrivial=%d wall=%.1fs" % (
                ev_path, ev["coverage"].get("evaluations", 0), ev["coverage"].get("distinct_nontrivial", 0), ev["wall_s"]))
    elif not violation:
        harness_trouble = harness_trouble or "no stats produced"

    for l in known_lines:
        log(l)

    if violation:
        log("VIOLATION property=%s replay=%s" % (prop, violation))
        return 1
    if harness_trouble:
        log("INCONCLUSIVE (harness trouble): %s" % harness_trouble)
        return 2
    # short case count => inconclusive
    if stats and not replay:
        want = sum(int(s.get("extra", {}).get("requested_checks", 0)) for s in stats)
        got = sum(int(s.get("extra", {}).get("completed_checks", 0)) for s in stats)
        if want and got < want:
            log("INCONCLUSIVE: completed %d of %d requested cases" % (got, want))
            return 2
    log("OK property=%s tier=%s seed=%d" % (prop, tier, seed))
    return 0


def save_log(prop, tier, seed, shard, out, kind):
    d = os.path.join(VERIF, "replays", "logs")
    os.makedirs(d, exist_ok=True)
    p = os.path.join(d, "%s-%s-seed%d-shard%d.%s.log" % (prop, tier, seed, shard, kind))
    with open(p, "w") as f:
        f.write(out[-200000:])
    return p


def save_violation(prop, tier, seed, shard, d, out):
    os.makedirs(os.path.join(VERIF, "replays"), exist_ok=True)
    base = os.path.join(VERIF, "replays", "%s-%s-seed%d-shard%d" % (prop, tier, seed, shard))
    with open(base + ".log", "w") as f:
        f.write(out[-400000:])
    m = re.search(r'-rapid\.failfile="([^"]+)"', out)
    if m:
        src = os.path.join(d, m.group(1))
        if os.path.exists(src):
            shutil.copy(src, base + ".fail")
            tail = "\n".join(out.splitlines()[-60:])
            log(tail)
            return base + ".fail"
    tail = "\n".join(out.splitlines()[-60:])
    log(tail)
    return base + ".log"


def run_fuzz(prop, cfg, env, work):
    fz = cfg["fuzz"]
    pkg = fz.get("pkg", cfg["pkg"])
    target = fz["target"]
    secs = int(os.environ.get("VERIF_FUZZTIME", fz.get("seconds", 120)))
    cache = os.path.join(work, "fuzzcache")
    os.makedirs(cache)
    e = dict(env)
    e["GOMAXPROCS"] = "16"
    # go test -fuzz needs the package directory; new crashers land in <pkg>/testdata/fuzz/<target>
    pkgdir = os.path.join(HARNESS, pkg.lstrip("./"))
    crashdir = os.path.join(pkgdir, "testdata", "fuzz", target)
    before = set(os.listdir(crashdir)) if os.path.isdir(crashdir) else set()
    cmd = [GO, "test", "-vet=off", "-tags", cfg.get("tags", "verif"), pkg, "-run", "^$", "-fuzz", "^%s$" % target,
           "-fuzztime", "%ds" % secs, "-test.fuzzcachedir", cache]
    t0 = time.time()
    try:
        p = subprocess.run(cmd, cwd=HARNESS, env=e, stdout=subprocess.PIPE, stderr=subprocess.STDOUT, text=True, timeout=secs + 600)
    except subprocess.TimeoutExpired:
        return None, {"target": target, "status": "timeout"}
    out = p.stdout
    info = {"target": target, "seconds": round(time.time() - t0, 1), "status": "ok" if p.returncode == 0 else "rc=%d" % p.returncode}
    m = re.findall(r"execs: (\d+)", out)
    if m:
        info["execs"] = int(m[-1])
    after = set(os.listdir(crashdir)) if os.path.isdir(crashdir) else set()
    new = sorted(after - before)
    if p.returncode != 0 and new:
        dst = os.path.join(VERIF, "replays", "%s-fuzz-%s" % (prop, new[0]))
        shutil.move(os.path.join(crashdir, new[0]), dst)
        for n in new[1:]:
            os.remove(os.path.join(crashdir, n))
        with open(dst + ".log", "w") as f:
            f.write(out[-100000:])
        log("\n".join(out.splitlines()[-40:]))
        return dst, info
    if p.returncode != 0:
        info["status"] = "inconclusive rc=%d" % p.returncode
        info["tail"] = out[-2000:]
    return None, info


def merge(prop, tier, seed, cfg, stats, wall, violation, fuzz_info):
    distinct = set()
    classes, excluded, extra = {}, {}, {}
    samples, known, assumptions = [], [], []
    evaluations = 0
    for s in stats:
        evaluations += int(s.get("evaluations", 0))
        distinct.update(s.get("distinct") or [])
        for k, v in (s.get("classes") or {}).items():
            classes[k] = classes.get(k, 0) + v
        for k, v in (s.get("excluded") or {}).items():
            excluded[k] = excluded.get(k, 0) + v
        for k, v in (s.get("extra") or {}).items():
            if isinstance(v, (int, float)) and not isinstance(v, bool):
                extra[k] = extra.get(k, 0) + v
            else:
                extra.setdefault(k, v)
        for x in s.get("samples") or []:
            if len(samples) < 8:
                samples.append(x)
        for k in s.get("known") or []:
            if k not in known:
                known.append(k)
        for a in s.get("assumptions") or []:
            if a not in assumptions:
                assumptions.append(a)
    s0 = stats[0]
    rules = []
    for s in stats:
        if s.get("rule") and s["rule"] not in rules:
            rules.append(s["rule"])
    cov = {
        "evaluations": evaluations,
        "distinct_nontrivial": len(distinct),
        "rule": " || ".join(rules),
        "samples": samples,
        "classes": classes,
        "shards": len(stats),
    }
    if excluded:
        cov["excluded_known_finding_cases"] = excluded
    for k, v in extra.items():
        cov.setdefault(k, v)
    if fuzz_info:
        cov["native_fuzz"] = fuzz_info
    if cov.get("exhaustive") not in (True, False):
        cov.pop("exhaustive", None)
    ev = {
        "property_id": prop,
        "tier": tier,
        "seed": seed,
        # the level is the one claimed for the property (checks.json -> MANIFEST level_claimed.category): a check
        # made of several legs (histories, schedules, a fault leg) is reported at its claimed level, whichever
        # leg's record happens to come first
        "level": cfg.get("level") or s0.get("level", "exploration"),
        "coverage": cov,
        "assumptions": assumptions,
        "wall_s": round(wall, 2),
        "violations": 1 if violation else 0,
    }
    return ev, known


if __name__ == "__main__":
    main()
