#!/usr/bin/env python3
"""Rewrites the seeded-changes table of DESIGN.md (between the SEEDED-TABLE markers) from seeded/*/meta.json."""
import json, os, re
V = os.path.dirname(os.path.dirname(os.path.abspath(__file__)))
rows = []
for d in sorted(os.listdir(os.path.join(V, "seeded"))):
    mp = os.path.join(V, "seeded", d, "meta.json")
    if not os.path.exists(mp):
        continue
    m = json.load(open(mp))
    needs = m.get("needs_summary") or ""
    if not needs:
        rd = os.path.join(V, "seeded", d, "README.md")
        if os.path.exists(rd):
            head = open(rd).read().strip().splitlines()[0].lstrip("# ").strip()
            needs = head
    conf = m.get("confirmed", {})
    ok = all(conf.get(k) for k in ("patch_applies_on_repo_head", "demo_passes_without_change", "builds_with_change", "demo_fails_with_change"))
    caught = ", ".join("%s (%s, %ss)" % (c, r.get("tier"), int(r.get("wall_s", 0))) for c, r in m.get("checks_run", {}).items() if r.get("exit") == 1) or "—"
    missed = ", ".join(c for c, r in m.get("checks_run", {}).items() if r.get("exit") != 1) or ""
    if m.get("not_realisable"):
        missed = (missed + " - " if missed else "") + "cannot manifest on the real stack, see 8.2"
    rows.append("| %s | %s | %s | %s | %s | %s |" % (d, m.get("property"), needs.replace("|", "/")[:220], "yes" if ok else "no", caught, missed))
table = "### 8.1 Seeded changes\n\n| seed | property | change (needs to manifest: see seeded/<seed>/README.md) | confirmed | caught by | run but silent |\n|---|---|---|---|---|---|\n" + "\n".join(rows) + "\n"
p = os.path.join(V, "DESIGN.md")
s = open(p).read()
s = re.sub(r"<!-- SEEDED-TABLE-BEGIN -->.*<!-- SEEDED-TABLE-END -->", "<!-- SEEDED-TABLE-BEGIN -->\n" + table + "<!-- SEEDED-TABLE-END -->", s, flags=re.S)
open(p, "w").write(s)
print("%d seeded changes" % len(rows))
