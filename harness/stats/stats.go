// Package stats collects what a property check actually explored (case
// counts, distinct non-trivial cases, class histogram, samples) and writes it
// as JSON for bin/check to merge into /verif/evidence/<id>.json.
//
// It also carries the run configuration every check shares: tier, seed and
// shard come from the environment (VERIF_TIER, VERIF_SEED, VERIF_SHARD) so a
// run is a pure function of the code under test and those values.
package stats

import (
	"encoding/json"
	"flag"
	"fmt"
	"hash/fnv"
	"os"
	"sort"
	"strconv"
	"sync"
	"testing"
	"time"

	"pgregory.net/rapid"
)

const maxSamples = 6

type Collector struct {
	mu          sync.Mutex
	Property    string
	Level       string
	Rule        string
	Assumptions []string

	evaluations int
	distinct    map[uint64]struct{}
	classes     map[string]int
	excluded    map[string]int
	samples     []any
	extra       map[string]any
	known       []string
	start       time.Time
	written     bool
}

func New(property, level, rule string, assumptions ...string) *Collector {
	return &Collector{
		Property:    property,
		Level:       level,
		Rule:        rule,
		Assumptions: assumptions,
		distinct:    map[uint64]struct{}{},
		classes:     map[string]int{},
		excluded:    map[string]int{},
		extra:       map[string]any{},
		start:       time.Now(),
	}
}

func Tier() string {
	if v := os.Getenv("VERIF_TIER"); v == "thorough" {
		return "thorough"
	}
	return "quick"
}

func Thorough() bool { return Tier() == "thorough" }

// Seed returns the PRNG seed for this process: VERIF_SEED (0 or unset -> 1),
// mixed with the shard number for sharded thorough runs.
func Seed() uint64 {
	s, _ := strconv.ParseUint(os.Getenv("VERIF_SEED"), 10, 64)
	if s == 0 {
		s = 1
	}
	shard, _ := strconv.ParseUint(os.Getenv("VERIF_SHARD"), 10, 64)
	return s*1000 + shard + 1
}

func Shard() int {
	shard, _ := strconv.Atoi(os.Getenv("VERIF_SHARD"))
	return shard
}

func Shards() int {
	n, _ := strconv.Atoi(os.Getenv("VERIF_SHARDS"))
	if n <= 0 {
		n = 1
	}
	return n
}

// SkipPinned reports whether the pinned reproducers are to be skipped (VERIF_NO_PINNED=1). Only used when measuring
// whether the generated search alone catches a seeded change; the registered commands never set it.
func SkipPinned() bool { return os.Getenv("VERIF_NO_PINNED") != "" }

// N picks the case count for the tier. Thorough counts are per shard.
func N(quick, thorough int) int {
	if s := os.Getenv("VERIF_CHECKS"); s != "" {
		if n, err := strconv.Atoi(s); err == nil && n > 0 {
			return n
		}
	}
	if Thorough() {
		return thorough
	}
	return quick
}

var flagMu sync.Mutex

// Check runs a rapid property n times with the process seed (offset by
// salt so that several sub-properties of one test do not share a stream).
// When VERIF_REPLAY names a rapid fail file, that file is replayed instead.
func Check(t *testing.T, n int, salt uint64, prop func(*rapid.T)) {
	t.Helper()
	flagMu.Lock()
	_ = flag.Set("rapid.checks", strconv.Itoa(n))
	_ = flag.Set("rapid.seed", strconv.FormatUint(Seed()+salt*7919, 10))
	if f := os.Getenv("VERIF_REPLAY"); f != "" {
		_ = flag.Set("rapid.failfile", f)
	}
	if os.Getenv("VERIF_SHRINKTIME") != "" {
		_ = flag.Set("rapid.shrinktime", os.Getenv("VERIF_SHRINKTIME"))
	}
	flagMu.Unlock()
	rapid.Check(t, prop)
}

// Case records one generated case. key canonically identifies the case (two
// cases with the same key are the same case); nontrivial says whether it
// satisfies the property's non-triviality rule; sample is only called for
// the first few non-trivial cases.
func (c *Collector) Case(key string, nontrivial bool, sample func() any, classes ...string) {
	if c == nil {
		return
	}
	c.mu.Lock()
	defer c.mu.Unlock()
	c.evaluations++
	for _, cl := range classes {
		c.classes[cl]++
	}
	if !nontrivial {
		return
	}
	h := fnv.New64a()
	_, _ = h.Write([]byte(key))
	k := h.Sum64()
	if _, ok := c.distinct[k]; ok {
		return
	}
	c.distinct[k] = struct{}{}
	if len(c.samples) < maxSamples && sample != nil {
		c.samples = append(c.samples, sample())
	}
}

// Class bumps a class counter without counting an evaluation.
func (c *Collector) Class(classes ...string) {
	if c == nil {
		return
	}
	c.mu.Lock()
	defer c.mu.Unlock()
	for _, cl := range classes {
		c.classes[cl]++
	}
}

// Excluded counts a case (or comparison) skipped because it falls in the
// class of a listed known finding.
func (c *Collector) Excluded(finding string) {
	if c == nil {
		return
	}
	c.mu.Lock()
	defer c.mu.Unlock()
	c.excluded[finding]++
}

func (c *Collector) Set(key string, v any) {
	if c == nil {
		return
	}
	c.mu.Lock()
	defer c.mu.Unlock()
	c.extra[key] = v
}

func (c *Collector) Add(key string, n int) {
	if c == nil {
		return
	}
	c.mu.Lock()
	defer c.mu.Unlock()
	cur, _ := c.extra[key].(int)
	c.extra[key] = cur + n
}

func (c *Collector) Known(line string) {
	if c == nil {
		return
	}
	c.mu.Lock()
	defer c.mu.Unlock()
	c.known = append(c.known, line)
}

func (c *Collector) Evaluations() int {
	c.mu.Lock()
	defer c.mu.Unlock()
	return c.evaluations
}

type File struct {
	Property    string         `json:"property_id"`
	Tier        string         `json:"tier"`
	Seed        uint64         `json:"seed"`
	Shard       int            `json:"shard"`
	Level       string         `json:"level"`
	Rule        string         `json:"rule"`
	Assumptions []string       `json:"assumptions"`
	Evaluations int            `json:"evaluations"`
	Distinct    []string       `json:"distinct"`
	Classes     map[string]int `json:"classes"`
	Excluded    map[string]int `json:"excluded"`
	Samples     []any          `json:"samples"`
	Extra       map[string]any `json:"extra"`
	Known       []string       `json:"known"`
	WallS       float64        `json:"wall_s"`
	Failed      bool           `json:"failed"`
}

// Write dumps the collector to $VERIF_OUT (one file per process). It is
// meant to be deferred (or registered with t.Cleanup) by every TestCxx.
func (c *Collector) Write(t *testing.T) {
	c.mu.Lock()
	defer c.mu.Unlock()
	if c.written {
		return
	}
	c.written = true
	out := os.Getenv("VERIF_OUT")
	if out == "" {
		return
	}
	keys := make([]string, 0, len(c.distinct))
	for k := range c.distinct {
		keys = append(keys, strconv.FormatUint(k, 16))
	}
	sort.Strings(keys)
	seed, _ := strconv.ParseUint(os.Getenv("VERIF_SEED"), 10, 64)
	f := File{
		Property:    c.Property,
		Tier:        Tier(),
		Seed:        seed,
		Shard:       Shard(),
		Level:       c.Level,
		Rule:        c.Rule,
		Assumptions: c.Assumptions,
		Evaluations: c.evaluations,
		Distinct:    keys,
		Classes:     c.classes,
		Excluded:    c.excluded,
		Samples:     c.samples,
		Extra:       c.extra,
		Known:       c.known,
		WallS:       time.Since(c.start).Seconds(),
		Failed:      t != nil && t.Failed(),
	}
	data, err := json.Marshal(f)
	if err != nil {
		// a sample that cannot be marshalled is a harness problem, keep the counts
		f.Samples = []any{fmt.Sprintf("unmarshallable samples: %v", err)}
		data, _ = json.Marshal(f)
	}
	// several Test functions may serve one property in one process: never overwrite
	path := out
	for i := 2; ; i++ {
		if _, err := os.Stat(path); err != nil {
			break
		}
		path = fmt.Sprintf("%s.%d", out, i)
	}
	_ = os.WriteFile(path, data, 0o644)
}

// HarnessError reports a problem of the harness itself (never a property
// violation). bin/check maps it to exit status 2.
func HarnessError(t interface {
	Fatalf(string, ...any)
}, format string, args ...any) {
	t.Fatalf("HARNESS-ERROR: "+format, args...)
}
