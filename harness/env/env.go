// Package env wires the real ledger stack (system controller -> ledger
// controller chain -> storage driver -> ledger store -> bun) onto the pgsim
// stand-in. Everything above the database/sql driver is the code under test.
package env

import (
	"context"
	"database/sql"
	"fmt"
	"net/http"
	"time"

	"github.com/uptrace/bun"
	"github.com/uptrace/bun/dialect/pgdialect"

	"github.com/formancehq/go-libs/v5/pkg/authn/jwt"
	"github.com/formancehq/go-libs/v5/pkg/storage/migrations"

	ledger "github.com/formancehq/ledger/internal"
	"github.com/formancehq/ledger/internal/api"
	"github.com/formancehq/ledger/internal/api/bulking"
	ledgercontroller "github.com/formancehq/ledger/internal/controller/ledger"
	systemcontroller "github.com/formancehq/ledger/internal/controller/system"
	"github.com/formancehq/ledger/internal/storage/bucket"
	"github.com/formancehq/ledger/internal/storage/driver"
	ledgerstore "github.com/formancehq/ledger/internal/storage/ledger"
	systemstore "github.com/formancehq/ledger/internal/storage/system"
	"github.com/formancehq/ledger/verifharness/pgsim"
)

// simBucket is the real DefaultBucket except for schema migrations, which the
// stand-in replaces by creating the bucket's tables natively (PL/pgSQL and DDL
// cannot run here). AddLedger — sequences, per-feature triggers — is the real code.
type simBucket struct {
	*bucket.DefaultBucket
	name string
	sim  *pgsim.DB
}

func (b *simBucket) Migrate(context.Context, bun.IDB, ...migrations.Option) error {
	b.sim.EnsureBucket(b.name)
	return nil
}
func (b *simBucket) IsInitialized(context.Context, bun.IDB) (bool, error) {
	b.sim.EnsureBucket(b.name)
	return true, nil
}
func (b *simBucket) IsUpToDate(context.Context, bun.IDB) (bool, error) { return true, nil }

// HasMinimalVersion is what the API's ledger middleware asks (through IsDatabaseUpToDate) before it runs a handler,
// once per ledger and process. The real bucket reads the migrations table; here the answer is known but the round
// trip is kept, so that the request still meets the database (a scheduling point, a fault position) between the
// resolution of its ledger and its handler.
func (b *simBucket) HasMinimalVersion(ctx context.Context, db bun.IDB) (bool, error) {
	if db != nil {
		if _, err := db.ExecContext(ctx, "select 1"); err != nil {
			return false, err
		}
	}
	return true, nil
}
func (b *simBucket) GetLastVersion(context.Context, bun.IDB) (int, error) {
	return bucket.MinimalSchemaVersion, nil
}
func (b *simBucket) GetMigrationsInfo(context.Context, bun.IDB) ([]migrations.Info, error) {
	return nil, nil
}

type simBucketFactory struct{ sim *pgsim.DB }

func (f simBucketFactory) Create(name string) bucket.Bucket {
	return &simBucket{DefaultBucket: bucket.NewDefault(nil, name), name: name, sim: f.sim}
}
func (f simBucketFactory) GetMigrator(string, bun.IDB) *migrations.Migrator { return nil }

// Env is one simulated deployment.
type Env struct {
	Sim    *pgsim.DB
	SQL    *sql.DB
	Bun    *bun.DB
	Driver *driver.Driver
	System *systemcontroller.DefaultController
}

type Options struct {
	Listener    ledgercontroller.Listener
	Enforcement ledgercontroller.SchemaEnforcementMode
	Interpreter bool // also register the interpreter parser
	// ScriptCache: capacity of the compiled-script cache in front of both Numscript parsers, wired as
	// system.NewFXModule does. 0 = the service's default (--numscript-cache-max-count=1024), < 0 = no cache.
	ScriptCache int
}

func New(o Options) *Env {
	sim := pgsim.NewDB()
	sqldb := pgsim.OpenDB(sim)
	db := bun.NewDB(sqldb, pgdialect.New(), bun.WithDiscardUnknownColumns())
	d := driver.New(db, ledgerstore.NewFactory(db), simBucketFactory{sim}, systemstore.NewStoreFactory())
	var (
		machineParser     ledgercontroller.NumscriptParser = ledgercontroller.NewDefaultNumscriptParser()
		interpreterParser ledgercontroller.NumscriptParser = ledgercontroller.NewInterpreterNumscriptParser(nil)
	)
	if o.ScriptCache >= 0 {
		n := uint(o.ScriptCache)
		if n == 0 {
			n = 1024
		}
		machineParser = ledgercontroller.NewCachedNumscriptParser(machineParser, ledgercontroller.CacheConfiguration{MaxCount: n})
		interpreterParser = ledgercontroller.NewCachedNumscriptParser(interpreterParser, ledgercontroller.CacheConfiguration{MaxCount: n})
	}
	opts := []systemcontroller.Option{
		systemcontroller.WithEnableFeatures(true),
		// the service retries a request the database refused for lack of connections (serve: 10 retries, 100 ms apart);
		// here as well, with a delay that does not slow the checks down
		systemcontroller.WithDatabaseRetryConfiguration(systemcontroller.DatabaseRetryConfiguration{MaxRetry: 10, Delay: 200 * time.Microsecond}),
		systemcontroller.WithParser(machineParser, machineParser, interpreterParser),
	}
	if o.Enforcement != "" {
		opts = append(opts, systemcontroller.WithSchemaEnforcementMode(o.Enforcement))
	}
	sys := systemcontroller.NewDefaultController(
		systemcontroller.NewControllerStorageDriverAdapter(d, systemstore.New(db)),
		o.Listener,
		nil,
		opts...,
	)
	return &Env{Sim: sim, SQL: sqldb, Bun: db, Driver: d, System: sys}
}

func (e *Env) Close() { _ = e.SQL.Close() }

// CreateLedger creates a ledger through the real system controller.
func (e *Env) CreateLedger(ctx context.Context, name, bucketName string, feats map[string]string) error {
	cfg := ledger.Configuration{Bucket: bucketName, Features: feats}
	return e.System.CreateLedger(ctx, name, cfg)
}

// Ledger returns the full controller chain for a ledger (a new chain per call, like one per request).
func (e *Env) Ledger(ctx context.Context, name string) (ledgercontroller.Controller, error) {
	c, err := e.System.GetLedgerController(ctx, name)
	if err != nil {
		return nil, fmt.Errorf("GetLedgerController(%s): %w", name, err)
	}
	return c, nil
}

// Router builds the real HTTP API (v1 and v2 routers, recover middleware included) over this deployment.
func (e *Env) Router(opts ...api.RouterOption) http.Handler {
	all := append([]api.RouterOption{api.WithBulkerFactory(bulking.NewDefaultBulkerFactory(bulking.WithParallelism(4)))}, opts...)
	return api.NewRouter(e.System, jwt.NewNoAuth(), nil, "verif", false, all...)
}
