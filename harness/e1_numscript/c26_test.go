package e1

import (
	"context"
	"fmt"
	"sort"
	"strings"
	"testing"

	"pgregory.net/rapid"

	ledger "github.com/formancehq/ledger/internal"
	ledgercontroller "github.com/formancehq/ledger/internal/controller/ledger"
	"github.com/formancehq/ledger/verifharness/known"
	"github.com/formancehq/ledger/verifharness/stats"
)

type adapterRun struct {
	ParseErr error
	Err      error
	Panic    any
	Res      *ledgercontroller.NumscriptExecutionResult
}

func runAdapter(parser ledgercontroller.NumscriptParser, p *Program) (r adapterRun) {
	defer func() {
		if e := recover(); e != nil {
			r.Panic = e
		}
	}()
	rt, err := parser.Parse(p.Render(len(p.Stmts)))
	if err != nil {
		r.ParseErr = err
		return r
	}
	res, err := rt.Execute(context.Background(), &progStore{p: p}, p.CopyVars())
	if err != nil {
		r.Err = err
		return r
	}
	r.Res = res
	return r
}

func nonZero(ps ledger.Postings) []string {
	out := []string{}
	for _, q := range ps {
		if q.Amount != nil && q.Amount.Sign() != 0 {
			out = append(out, fmt.Sprintf("%s->%s %s %s", q.Source, q.Destination, q.Amount, q.Asset))
		}
	}
	return out
}

func metaString(m map[string]string) string {
	keys := make([]string, 0, len(m))
	for k := range m {
		keys = append(keys, k)
	}
	sort.Strings(keys)
	var sb strings.Builder
	for _, k := range keys {
		sb.WriteString(fmt.Sprintf("%q=%q;", k, m[k]))
	}
	return sb.String()
}

func accountMetaString[M ~map[string]string](m map[string]M) string {
	keys := make([]string, 0, len(m))
	for k := range m {
		if len(m[k]) > 0 {
			keys = append(keys, k)
		}
	}
	sort.Strings(keys)
	var sb strings.Builder
	for _, k := range keys {
		sb.WriteString(k + "{" + metaString(m[k]) + "}")
	}
	return sb.String()
}

// keptNotLast is the structural signature of known finding C26-kept-not-last:
// a destination block in which a branch that keeps funds (a `kept`, or a nested
// block containing one) is followed by another branch of the same block.
func containsKept(k KeptOrDest) bool {
	if k.Kept {
		return true
	}
	d := k.D
	switch d.Kind {
	case DstInOrder:
		for _, b := range d.Clauses {
			if containsKept(b) {
				return true
			}
		}
		return containsKept(d.Remaining)
	case DstAllotment:
		for _, b := range d.Clauses {
			if containsKept(b) {
				return true
			}
		}
	}
	return false
}

func keptNotLast(d *Dest) bool {
	if d == nil {
		return false
	}
	var branches []KeptOrDest
	switch d.Kind {
	case DstInOrder:
		branches = append(append(branches, d.Clauses...), d.Remaining)
	case DstAllotment:
		branches = d.Clauses
	default:
		return false
	}
	for i, b := range branches {
		if i != len(branches)-1 && containsKept(b) {
			return true
		}
		if !b.Kept && keptNotLast(b.D) {
			return true
		}
	}
	return false
}

func programKeptNotLast(p *Program) bool {
	for i := range p.Stmts {
		if p.Stmts[i].Kind == StSend && keptNotLast(p.Stmts[i].Dst) {
			return true
		}
	}
	return false
}

// pinnedKeptNotLast is the reproducer of C26-kept-not-last recorded at design time.
func pinnedKeptNotLast() *Program {
	p := &Program{Vars: map[string]string{}, Meta: map[string]map[string]string{}, Features: map[string]bool{}}
	p.Balances = map[string]map[string]*bigInt{"a": {"USD/2": newInt(100)}, "bank": {"USD/2": newInt(30)}}
	one3 := mustRat("1/3")
	p.Stmts = []Stmt{{Kind: StSend, Asset: "USD/2", Mon: Mon{Text: "[USD/2 110]", Asset: "USD/2", Amount: newInt(110)},
		Src: &Source{Kind: SrcInOrder, Subs: []*Source{
			{Kind: SrcAccount, Acc: Acc{Text: "@a", Addr: "a"}},
			{Kind: SrcAccount, Acc: Acc{Text: "@bank", Addr: "bank"}},
		}},
		Dst: &Dest{Kind: DstAllotment, Portions: []Portion{{Text: "1/3", Rat: one3}, {Text: "1/3", Rat: one3}, {Text: "remaining", Rat: one3, Remaining: true}},
			Clauses: []KeptOrDest{
				{D: &Dest{Kind: DstAccount, Acc: Acc{Text: "@u:1", Addr: "u:1"}}},
				{Kept: true},
				{D: &Dest{Kind: DstAccount, Acc: Acc{Text: "@u:2", Addr: "u:2"}}},
			}},
	}}
	return p
}

const findingSave = "C26-save-below-zero"

// programSaveExceeds is the signature of C26-save-below-zero: a fixed-amount
// save larger than the balance the account starts with.
func programSaveExceeds(p *Program) bool {
	// what earlier saves of the script have left of each (account, asset) balance the script starts with
	left := map[string]*bigInt{}
	for i := range p.Stmts {
		s := &p.Stmts[i]
		if s.Kind != StSave {
			continue
		}
		asset := s.Asset
		if !s.All {
			asset = s.Mon.Asset
		}
		key := s.Acc.Addr + "\x00" + asset
		bal, seen := left[key]
		if !seen {
			bal = new(bigInt)
			if v, ok := p.Balances[s.Acc.Addr][asset]; ok {
				bal = new(bigInt).Set(v)
			}
		}
		if s.All {
			if bal.Sign() > 0 {
				bal = new(bigInt)
			}
			left[key] = bal
			continue
		}
		if s.Mon.Amount.Cmp(bal) > 0 {
			return true
		}
		left[key] = new(bigInt).Sub(bal, s.Mon.Amount)
	}
	return false
}

func pinnedSaveBelowZero() *Program {
	p := &Program{Vars: map[string]string{}, Meta: map[string]map[string]string{}, Features: map[string]bool{}, Balances: map[string]map[string]*bigInt{}}
	p.Stmts = []Stmt{
		{Kind: StSave, Asset: "EUR", Mon: Mon{Text: "[EUR 1]", Asset: "EUR", Amount: newInt(1)}, Acc: Acc{Text: "@bank", Addr: "bank"}},
		{Kind: StSend, Asset: "EUR", All: true, AssetText: "EUR",
			Src: &Source{Kind: SrcAccount, Acc: Acc{Text: "@bank", Addr: "bank"}, Overdraft: OdBounded, Bound: Mon{Text: "[EUR 1]", Asset: "EUR", Amount: newInt(1)}},
			Dst: &Dest{Kind: DstAccount, Acc: Acc{Text: "@a", Addr: "a"}}},
	}
	return p
}

const findingMerge = "C26-merged-across-zero"

// mergeEquivalent reports whether the interpreter's posting list is exactly the
// machine's list with zero-amount postings dropped and some runs of neighbours
// sharing source, destination and asset merged into one posting: the (only)
// transformation known finding C26-merged-across-zero describes.
func mergeEquivalent(machine, interp ledger.Postings) bool {
	var m []ledger.Posting
	for _, q := range machine {
		if q.Amount != nil && q.Amount.Sign() != 0 {
			m = append(m, q)
		}
	}
	i := 0
	for _, want := range interp {
		if want.Amount == nil || want.Amount.Sign() == 0 {
			continue
		}
		sum := new(bigInt)
		for sum.Cmp(want.Amount) < 0 {
			if i >= len(m) || m[i].Source != want.Source || m[i].Destination != want.Destination || m[i].Asset != want.Asset {
				return false
			}
			sum.Add(sum, m[i].Amount)
			i++
		}
		if sum.Cmp(want.Amount) != 0 {
			return false
		}
	}
	return i == len(m)
}

func pinnedMergedAcrossZero() *Program {
	p := &Program{Vars: map[string]string{}, Meta: map[string]map[string]string{}, Features: map[string]bool{}, Balances: map[string]map[string]*bigInt{}}
	half := mustRat("1/2")
	w := func() *Source { return &Source{Kind: SrcAccount, Acc: Acc{Text: "@world", Addr: "world"}} }
	p.Stmts = []Stmt{{Kind: StSend, Asset: "USD/2", Mon: Mon{Text: "[USD/2 2]", Asset: "USD/2", Amount: newInt(2)},
		SrcAllot: &SourceAllotment{Portions: []Portion{{Text: "1/2", Rat: half}, {Text: "0/1", Rat: mustRat("0/1")}, {Text: "1/2", Rat: half}},
			Sources: []*Source{w(), {Kind: SrcAccount, Acc: Acc{Text: "@a", Addr: "a"}, Overdraft: OdUnbounded}, w()}},
		Dst: &Dest{Kind: DstAccount, Acc: Acc{Text: "@bank", Addr: "bank"}}}}
	return p
}

func compareRuntimes(p *Program) (diff string, bothOK bool, nPostings int) {
	mr := runAdapter(ledgercontroller.NewDefaultNumscriptParser(), p)
	ir := runAdapter(ledgercontroller.NewInterpreterNumscriptParser(nil), p)
	if mr.Panic != nil || ir.Panic != nil {
		// crashes are C27's business; here they only count as "failed"
		mfail := mr.Panic != nil || mr.ParseErr != nil || mr.Err != nil
		ifail := ir.Panic != nil || ir.ParseErr != nil || ir.Err != nil
		if mfail != ifail {
			return fmt.Sprintf("one runtime panicked/failed and the other succeeded: machine panic=%v err=%v, interpreter panic=%v err=%v", mr.Panic, mr.Err, ir.Panic, ir.Err), false, 0
		}
		return "", false, 0
	}
	mfail := mr.ParseErr != nil || mr.Err != nil
	ifail := ir.ParseErr != nil || ir.Err != nil
	if mfail && ifail {
		return "", false, 0
	}
	if mfail != ifail {
		return fmt.Sprintf("machine: parseErr=%v err=%v; interpreter: parseErr=%v err=%v", mr.ParseErr, mr.Err, ir.ParseErr, ir.Err), false, 0
	}
	mp, ip := nonZero(mr.Res.Postings), nonZero(ir.Res.Postings)
	if strings.Join(mp, "; ") != strings.Join(ip, "; ") && known.IsOpen(findingMerge) && mergeEquivalent(mr.Res.Postings, ir.Res.Postings) {
		return findingMerge, true, len(mp)
	}
	if strings.Join(mp, "; ") != strings.Join(ip, "; ") {
		return fmt.Sprintf("postings differ\n  machine:     %s\n  interpreter: %s", strings.Join(mp, "; "), strings.Join(ip, "; ")), true, len(mp)
	}
	if metaString(mr.Res.Metadata) != metaString(ir.Res.Metadata) {
		return fmt.Sprintf("tx metadata differ\n  machine:     %s\n  interpreter: %s", metaString(mr.Res.Metadata), metaString(ir.Res.Metadata)), true, len(mp)
	}
	if accountMetaString(mr.Res.AccountMetadata) != accountMetaString(ir.Res.AccountMetadata) {
		return fmt.Sprintf("account metadata differ\n  machine:     %s\n  interpreter: %s", accountMetaString(mr.Res.AccountMetadata), accountMetaString(ir.Res.AccountMetadata)), true, len(mp)
	}
	return "", true, len(mp)
}

const ruleC26 = "C22 generator (machine grammar, which the interpreter accepts) x generated balances/variables/account metadata; both runtime adapters (MachineNumscriptRuntimeAdapter, DefaultInterpreterMachineAdapter) executed on the same store; compared: both fail, or equal non-zero postings in order + tx metadata + account metadata; non-trivial = both succeed with >= 2 non-zero postings; distinct = by script text + variables + balances"

func TestC26(t *testing.T) {
	st := stats.New("C26", "exploration", ruleC26,
		"zero-amount postings are ignored (the documented difference)",
		"the interpreter is the external module github.com/formancehq/numscript; discrepancies rooted there are recorded, not fixed")
	defer st.Write(t)

	const finding = "C26-kept-not-last"
	excludeKept := known.IsOpen(finding)
	if excludeKept {
		if diff, _, _ := compareRuntimes(pinnedKeptNotLast()); diff != "" {
			line := known.Line(finding)
			fmt.Println(line)
			st.Known(line)
		}
	}

	excludeSave := known.IsOpen(findingSave)
	if excludeSave {
		if diff, _, _ := compareRuntimes(pinnedSaveBelowZero()); diff != "" {
			line := known.Line(findingSave)
			fmt.Println(line)
			st.Known(line)
		}
	}
	if known.IsOpen(findingMerge) {
		if diff, _, _ := compareRuntimes(pinnedMergedAcrossZero()); diff == findingMerge {
			line := known.Line(findingMerge)
			fmt.Println(line)
			st.Known(line)
		}
	}

	n := stats.N(10000, 40000)
	st.Set("requested_checks", n)
	stats.Check(t, n, 26, func(rt *rapid.T) {
		p := GenProgram(rt, Opts{MaxStmts: 3, MaxDepth: 3, BigAmount: true, Common: true})
		classes := p.FeatureList()
		if excludeKept && programKeptNotLast(p) {
			// known finding class: compared nowhere, counted
			st.Excluded(finding)
			st.Case(p.Key(), false, nil, append(classes, "excluded:"+finding)...)
			st.Add("completed_checks", 1)
			return
		}
		if excludeSave && programSaveExceeds(p) {
			st.Excluded(findingSave)
			st.Case(p.Key(), false, nil, append(classes, "excluded:"+findingSave)...)
			st.Add("completed_checks", 1)
			return
		}
		diff, bothOK, np := compareRuntimes(p)
		if diff == findingMerge {
			st.Excluded(findingMerge)
			st.Case(p.Key(), false, nil, append(classes, "excluded:"+findingMerge)...)
			st.Add("completed_checks", 1)
			return
		}
		if diff != "" && strings.Contains(diff, "machine: parseErr=compilation error") && strings.Contains(diff, "is already empty at this stage") {
			// the machine's compiler refuses, statically, a source that names an account it has already emptied; the
			// generator avoids such sources but gives up after a few draws (and inside `max ... from`). Such a program is
			// outside the subset both runtimes support, which is what the property quantifies over: counted, not compared
			st.Case(p.Key(), false, nil, append(classes, "outside-common-subset:account-named-twice-in-a-source")...)
			st.Add("completed_checks", 1)
			return
		}
		if diff != "" {
			rt.Fatalf("C26: runtimes disagree: %s\nvars: %v\nbalances: %v\nmeta: %v\n%s", diff, p.Vars, p.Describe()["balances"], p.Meta, p.Render(len(p.Stmts)))
		}
		if bothOK {
			classes = append(classes, "both-ok")
		} else {
			classes = append(classes, "both-fail")
		}
		st.Case(p.Key(), bothOK && np >= 2, func() any { return p.Describe() }, classes...)
		st.Add("completed_checks", 1)
	})
}
