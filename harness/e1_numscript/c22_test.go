package e1

import (
	"fmt"
	"math/big"
	"sort"
	"testing"

	"pgregory.net/rapid"

	"github.com/formancehq/ledger/internal/machine"
	"github.com/formancehq/ledger/internal/machine/vm"
	"github.com/formancehq/ledger/verifharness/stats"
)

// prefixRuns executes the program's prefixes of length 1..n on the real VM and
// returns, per statement, the postings it added. It stops at the first prefix
// that does not run to completion.
type stmtResult struct {
	Run   machineRun
	Delta []vm.Posting
}

func prefixRuns(t *rapid.T, p *Program) []stmtResult {
	var out []stmtResult
	var prev []vm.Posting
	for k := 1; k <= len(p.Stmts); k++ {
		r := runMachine(p, k)
		if r.Panic != nil || r.Phase != "ok" {
			out = append(out, stmtResult{Run: r})
			return out
		}
		if len(r.Postings) < len(prev) {
			stats.HarnessError(t, "prefix %d has fewer postings than prefix %d\n%s", k, k-1, p.Render(k))
		}
		for i := range prev {
			a, b := prev[i], r.Postings[i]
			if a.Source != b.Source || a.Destination != b.Destination || a.Asset != b.Asset || a.Amount.Cmp(b.Amount) != 0 {
				stats.HarnessError(t, "prefix %d does not extend prefix %d (posting %d differs)\n%s", k, k-1, i, p.Render(k))
			}
		}
		out = append(out, stmtResult{Run: r, Delta: r.Postings[len(prev):]})
		prev = r.Postings
	}
	return out
}

func initialRef(p *Program) refBalances {
	b := refBalances{}
	for a, m := range p.Balances {
		for as, v := range m {
			b.add(a, as, v)
		}
	}
	return b
}

func applySave(b refBalances, st *Stmt) {
	if st.All {
		if b.get(st.Acc.Addr, st.Asset).Sign() > 0 {
			b.add(st.Acc.Addr, st.Asset, new(big.Int).Neg(b.get(st.Acc.Addr, st.Asset)))
		}
		return
	}
	b.add(st.Acc.Addr, st.Mon.Asset, new(big.Int).Neg(st.Mon.Amount))
}

func applyPostings(b refBalances, ps []vm.Posting) {
	for _, q := range ps {
		amt := q.Amount.ToBigInt()
		b.add(q.Source, q.Asset, new(big.Int).Neg(amt))
		b.add(q.Destination, q.Asset, amt)
	}
}

func checkC22(t *rapid.T, st *stats.Collector, p *Program) {
	results := prefixRuns(t, p)
	bal := initialRef(p)
	completed := 0
	nonZero := false
	for k, res := range results {
		stmt := &p.Stmts[k]
		if res.Run.Phase != "ok" || res.Run.Panic != nil {
			break
		}
		completed++
		switch stmt.Kind {
		case StSave:
			if len(res.Delta) != 0 {
				t.Fatalf("C22: save statement %d produced postings %s\n%s", k, postingsString(res.Delta), p.Render(k+1))
			}
			applySave(bal, stmt)
		case StSetTxMeta, StSetAccountMeta:
			if len(res.Delta) != 0 {
				t.Fatalf("C22: metadata statement %d produced postings %s\n%s", k, postingsString(res.Delta), p.Render(k+1))
			}
		case StSend:
			sum := new(big.Int)
			for _, q := range res.Delta {
				if q.Amount.ToBigInt().Sign() < 0 {
					t.Fatalf("C22: negative posting amount in send %d: %s\n%s", k, postingsString(res.Delta), p.Render(k+1))
				}
				if q.Asset != stmt.Asset {
					t.Fatalf("C22: send %d of asset %s produced a posting in %s: %s\n%s", k, stmt.Asset, q.Asset, postingsString(res.Delta), p.Render(k+1))
				}
				if q.Amount.ToBigInt().Sign() > 0 {
					nonZero = true
				}
				sum.Add(sum, q.Amount.ToBigInt())
			}
			var sent *big.Int
			if stmt.All {
				parts, ok := refAvailable(stmt.Src, stmt.Asset, bal.clone())
				if !ok {
					st.Class("send-all-not-modelled")
					applyPostings(bal, res.Delta)
					continue
				}
				sent = total(parts)
			} else {
				sent = stmt.Mon.Amount
				if sent.Sign() < 0 {
					t.Fatalf("C22: send %d of a negative amount %s succeeded\n%s", k, sent, p.Render(k+1))
				}
			}
			kept := refKept(KeptOrDest{D: stmt.Dst}, sent)
			want := new(big.Int).Sub(sent, kept)
			if sum.Cmp(want) != 0 {
				t.Fatalf("C22: send %d: postings sum to %s, want sent %s - kept %s = %s\npostings: %s\nvars: %v\nbalances: %v\n%s",
					k, sum, sent, kept, want, postingsString(res.Delta), p.Vars, p.Describe()["balances"], p.Render(k+1))
			}
			applyPostings(bal, res.Delta)
		}
		// tracked balances == initial - saved + postings, after every completed prefix
		for acc, m := range res.Run.Machine.Balances {
			for as, v := range m {
				if !res.Run.Queried[string(acc)+"\x00"+string(as)] {
					// an entry the machine never resolved from the store (repay of kept
					// funds of an untracked unbounded source creates one); not a tracked balance
					st.Class("untracked-balance-entry")
					continue
				}
				want := bal.get(string(acc), string(as))
				if v.ToBigInt().Cmp(want) != 0 {
					t.Fatalf("C22: after statement %d the machine tracks %s/%s = %s, initial balances plus postings give %s\nvars: %v\nbalances: %v\n%s",
						k, acc, as, v, want, p.Vars, p.Describe()["balances"], p.Render(k+1))
				}
			}
		}
	}
	full := completed == len(p.Stmts)
	classes := append([]string{}, p.FeatureList()...)
	if len(results) > 0 {
		last := results[len(results)-1].Run
		classes = append(classes, "outcome:"+last.Phase)
	}
	if full {
		classes = append(classes, "full-success")
	}
	st.Case(p.Key(), full && nonZero && p.Nested(), func() any { return p.Describe() }, classes...)
}

const ruleC22 = "grammar-generated Numscript programs (1-4 statements; nested in-order/max/allotment sources and destinations, overdrafts, kept, save, metadata, variables incl. balance()/meta() origins) run prefix by prefix on the real compiler+VM against generated balances; non-trivial = whole program succeeds, has a non-zero posting and a nested construct; distinct = by script text + variables + balances"

func TestC22(t *testing.T) {
	st := stats.New("C22", "exploration", ruleC22,
		"statement k's postings are the difference between running the k-prefix and the (k-1)-prefix; the harness checks that prefixes extend each other",
		"send [A *] over a source whose overdraft/max is in another asset is not modelled (counted as send-all-not-modelled)")
	defer st.Write(t)
	n := stats.N(10000, 40000)
	st.Set("requested_checks", n)
	stats.Check(t, n, 22, func(rt *rapid.T) {
		var p *Program
		if rapid.IntRange(0, 7).Draw(rt, "focusedRepay") == 0 {
			p = GenRepayProgram(rt) // one account in several parts of a funding, remainder given back, then drawn on again
		} else {
			p = GenProgram(rt, Opts{MaxStmts: 4, MaxDepth: 3, BigAmount: true})
		}
		checkC22(rt, st, p)
		st.Add("completed_checks", 1)
	})
}

// ---------------------------------------------------------------------- C23

type boundInfo struct {
	unbounded bool
	bound     *big.Int
}

func collectBounds(s *Source, asset string, out map[string]*boundInfo) {
	switch s.Kind {
	case SrcAccount:
		if s.Acc.Addr == "world" {
			return
		}
		key := s.Acc.Addr + "\x00" + asset
		bi := out[key]
		if bi == nil {
			bi = &boundInfo{bound: new(big.Int)}
			out[key] = bi
		}
		switch s.Overdraft {
		case OdUnbounded:
			bi.unbounded = true
		case OdBounded:
			if s.Bound.Asset == asset && s.Bound.Amount.Cmp(bi.bound) > 0 {
				bi.bound = s.Bound.Amount
			}
		}
	case SrcMaxed:
		collectBounds(s.Sub, asset, out)
	case SrcInOrder:
		for _, sub := range s.Subs {
			collectBounds(sub, asset, out)
		}
	}
}

func checkC23(t *rapid.T, st *stats.Collector, p *Program) {
	r := runMachine(p, len(p.Stmts))
	classes := append(p.FeatureList(), "outcome:"+r.Phase)
	if r.Panic != nil || r.Phase != "ok" {
		st.Case(p.Key(), false, nil, classes...)
		return
	}
	bounds := map[string]*boundInfo{}
	unboundedAcc := map[string]bool{}
	for i := range p.Stmts {
		s := &p.Stmts[i]
		if s.Kind != StSend {
			continue
		}
		if s.SrcAllot != nil {
			for _, src := range s.SrcAllot.Sources {
				collectBounds(src, s.Asset, bounds)
			}
		} else {
			collectBounds(s.Src, s.Asset, bounds)
		}
	}
	for k, bi := range bounds {
		if bi.unbounded {
			unboundedAcc[k[:indexByte(k, 0)]] = true
		}
	}
	final := initialRef(p)
	applyPostings(final, r.Postings)
	fundedThenSpent, negInitial := false, false
	keys := make([]string, 0, len(bounds))
	for k := range bounds {
		keys = append(keys, k)
	}
	sort.Strings(keys)
	for _, k := range keys {
		bi := bounds[k]
		acc, asset := k[:indexByte(k, 0)], k[indexByte(k, 0)+1:]
		if unboundedAcc[acc] {
			continue
		}
		init := new(big.Int)
		if v, ok := p.Balances[acc][asset]; ok {
			init = v
		}
		floor := new(big.Int).Neg(bi.bound)
		if init.Cmp(floor) < 0 {
			floor = init
		}
		if init.Sign() < 0 {
			negInitial = true
		}
		end := final.get(acc, asset)
		if end.Cmp(floor) < 0 {
			t.Fatalf("C23: bounded source %s/%s ends at %s, below min(initial %s, -bound %s)\npostings: %s\nvars: %v\nbalances: %v\n%s",
				acc, asset, end, init, bi.bound, postingsString(r.Postings), p.Vars, p.Describe()["balances"], p.Render(len(p.Stmts)))
		}
		// did it receive funds in this script and send some too?
		in, out := false, false
		for _, q := range r.Postings {
			if q.Asset == asset && q.Amount.ToBigInt().Sign() > 0 {
				if q.Destination == acc {
					in = true
				}
				if q.Source == acc && in {
					out = true
				}
			}
		}
		if in && out {
			fundedThenSpent = true
		}
	}
	if fundedThenSpent {
		classes = append(classes, "funded-then-spent")
	}
	if negInitial {
		classes = append(classes, "negative-initial-source")
	}
	st.Case(p.Key(), len(r.Postings) > 0 && (fundedThenSpent || negInitial), func() any { return p.Describe() }, classes...)
}

func indexByte(s string, b byte) int {
	for i := 0; i < len(s); i++ {
		if s[i] == b {
			return i
		}
	}
	return -1
}

const ruleC23 = "same generator as C22, and in one case out of five a focused one (one bounded account backs several non-adjacent parts of a funding whose remainder is given back - unexhausted max, account variable equal to a literal account, allotment naming it twice, kept remainder - and is then drawn on again for everything or for an amount around what it has left) or another focused one (an account already in debt named by 2-4 statements with different allowances, next to a funded fallback source); after each successful run every non-world source account never declared unbounded is compared with min(initial, -largest declared bound) per asset; non-trivial = successful run in which a bounded source either received funds earlier in the script and then spent, or started negative; distinct = by script text + variables + balances"

func genC23Program(rt *rapid.T) *Program {
	switch rapid.IntRange(0, 9).Draw(rt, "focused") {
	case 0, 1:
		return GenRepayProgram(rt)
	case 2, 3:
		return GenOverdraftProgram(rt)
	}
	return GenProgram(rt, Opts{MaxStmts: 4, MaxDepth: 3, BigAmount: false})
}

// TestC06Scripts: the allowance part of C06 at the level of one script (the anchor machine.go:withdrawAll): the same
// oracle as C23 - no bounded source ends below min(initial balance, -largest allowance it was given) - under the
// generators that revolve around overdrafts.
func TestC06Scripts(t *testing.T) {
	st := stats.New("C06", "exploration", "script level: "+ruleC23)
	defer st.Write(t)
	n := stats.N(6000, 25000)
	st.Set("requested_checks_scripts", n)
	stats.Check(t, n, 623, func(rt *rapid.T) {
		var p *Program
		if rapid.IntRange(0, 2).Draw(rt, "general") == 0 {
			p = GenProgram(rt, Opts{MaxStmts: 4, MaxDepth: 3, BigAmount: false})
		} else {
			p = GenOverdraftProgram(rt)
		}
		checkC23(rt, st, p)
		st.Add("completed_checks_scripts", 1)
	})
}

func TestC23(t *testing.T) {
	st := stats.New("C23", "exploration", ruleC23)
	defer st.Write(t)
	n := stats.N(10000, 40000)
	st.Set("requested_checks", n)
	stats.Check(t, n, 23, func(rt *rapid.T) {
		checkC23(rt, st, genC23Program(rt))
		st.Add("completed_checks", 1)
	})
}

// ---------------------------------------------------------------------- C24

func checkAllocation(t *rapid.T, where string, amount *big.Int, portions []*big.Rat, parts []*big.Int) {
	if len(parts) != len(portions) {
		t.Fatalf("C24 (%s): %d parts for %d portions", where, len(parts), len(portions))
	}
	sum := new(big.Int)
	seenZeroExtra := false
	for i, part := range parts {
		floor := new(big.Int).Mul(amount, portions[i].Num())
		floor.Quo(floor, portions[i].Denom())
		extra := new(big.Int).Sub(part, floor)
		if extra.Sign() < 0 || extra.Cmp(big.NewInt(1)) > 0 {
			t.Fatalf("C24 (%s): part %d = %s is not within [floor, floor+1] (floor %s) amount=%s portions=%v parts=%v", where, i, part, floor, amount, portions, parts)
		}
		if extra.Sign() == 0 {
			seenZeroExtra = true
		} else if seenZeroExtra {
			t.Fatalf("C24 (%s): leftover unit given to part %d after an earlier part got none: amount=%s portions=%v parts=%v", where, i, amount, portions, parts)
		}
		sum.Add(sum, part)
	}
	if sum.Cmp(amount) != 0 {
		t.Fatalf("C24 (%s): parts sum to %s, amount is %s; portions=%v parts=%v", where, sum, amount, portions, parts)
	}
}

// genPortionVector draws portions summing exactly to one over an arbitrary
// (possibly huge) common denominator, so reduced denominators vary freely.
func genPortionVector(t *rapid.T) []*big.Rat {
	n := rapid.IntRange(1, 12).Draw(t, "nPortions")
	var den *big.Int
	switch rapid.IntRange(0, 3).Draw(t, "denKind") {
	case 0:
		den = big.NewInt(int64(rapid.IntRange(1, 12).Draw(t, "smallDen")))
	case 1:
		den = big.NewInt(int64(rapid.IntRange(1, 1000000).Draw(t, "midDen")))
	case 2:
		den = big.NewInt(100)
	default:
		den = new(big.Int).SetBytes(rapid.SliceOfN(rapid.Byte(), 1, 12).Draw(t, "bigDen"))
		if den.Sign() == 0 {
			den.SetInt64(1)
		}
	}
	cuts := make([]*big.Int, 0, n+1)
	cuts = append(cuts, new(big.Int))
	for i := 0; i < n-1; i++ {
		var c *big.Int
		if den.IsInt64() && den.Int64() < 1<<40 {
			c = big.NewInt(rapid.Int64Range(0, den.Int64()).Draw(t, "cut"))
		} else {
			c = new(big.Int).SetBytes(rapid.SliceOfN(rapid.Byte(), 0, 12).Draw(t, "cutBytes"))
			c.Mod(c, new(big.Int).Add(den, big.NewInt(1)))
		}
		cuts = append(cuts, c)
	}
	cuts = append(cuts, den)
	sort.Slice(cuts, func(i, j int) bool { return cuts[i].Cmp(cuts[j]) < 0 })
	out := make([]*big.Rat, n)
	for i := 0; i < n; i++ {
		out[i] = new(big.Rat).SetFrac(new(big.Int).Sub(cuts[i+1], cuts[i]), den)
	}
	return out
}

const ruleC24 = "portion vectors of length 1-12 summing to exactly one over arbitrary common denominators (zeros included), optionally with one entry given as `remaining`, against amounts from the edge list {0,1,2,99,100,2^53±1,2^63±1,2^64±1,10^30} and random big values; through machine.NewAllotment+Allocate and through a compiled `send` with an allotment destination; non-trivial = amount not split exactly and >= 3 parts; distinct = by portions+amount"

func TestC24(t *testing.T) {
	st := stats.New("C24", "exploration", ruleC24)
	defer st.Write(t)
	n := stats.N(5000, 50000)
	st.Set("requested_checks", n)
	stats.Check(t, n, 24, func(rt *rapid.T) {
		rats := genPortionVector(rt)
		amount := genAmount(rt)
		portions := make([]machine.Portion, len(rats))
		remainingAt := -1
		if rapid.Bool().Draw(rt, "withRemaining") {
			remainingAt = rapid.IntRange(0, len(rats)-1).Draw(rt, "remainingAt")
		}
		for i, r := range rats {
			if i == remainingAt {
				portions[i] = machine.NewPortionRemaining()
				continue
			}
			ps, err := machine.NewPortionSpecific(*new(big.Rat).Set(r))
			if err != nil {
				stats.HarnessError(rt, "portion %v rejected: %v", r, err)
			}
			portions[i] = *ps
		}
		allot, err := machine.NewAllotment(portions)
		if err != nil {
			rt.Fatalf("C24: NewAllotment rejected portions summing to one: %v (%v)", err, rats)
		}
		parts := allot.Allocate(machine.NewMonetaryIntFromBigInt(new(big.Int).Set(amount)))
		got := make([]*big.Int, len(parts))
		for i, p := range parts {
			got[i] = p.ToBigInt()
		}
		checkAllocation(rt, "Allocate", amount, rats, got)

		// the same split through the compiler and VM: one destination account per portion
		viaScript := rapid.IntRange(0, 3).Draw(rt, "viaScript") == 0
		if viaScript {
			p := &Program{Vars: map[string]string{}, Balances: map[string]map[string]*big.Int{}, Meta: map[string]map[string]string{}, Features: map[string]bool{}}
			d := &Dest{Kind: DstAllotment}
			for i, r := range rats {
				txt := r.Num().String() + "/" + r.Denom().String()
				if i == remainingAt {
					txt = "remaining"
				}
				d.Portions = append(d.Portions, Portion{Text: txt, Rat: r, Remaining: i == remainingAt})
				d.Clauses = append(d.Clauses, KeptOrDest{D: &Dest{Kind: DstAccount, Acc: Acc{Text: fmt.Sprintf("@d%d", i), Addr: fmt.Sprintf("d%d", i)}}})
			}
			p.Stmts = []Stmt{{Kind: StSend, Asset: "USD/2", Mon: Mon{Text: "[USD/2 " + amount.String() + "]", Asset: "USD/2", Amount: amount},
				Src: &Source{Kind: SrcAccount, Acc: Acc{Text: "@world", Addr: "world"}}, Dst: d}}
			r := runMachine(p, 1)
			if r.Panic != nil {
				rt.Fatalf("C24: panic running allotment script: %v\n%s", r.Panic, p.Render(1))
			}
			if r.Phase == "ok" {
				per := make([]*big.Int, len(rats))
				for i := range per {
					per[i] = new(big.Int)
				}
				for _, q := range r.Postings {
					var idx int
					if _, err := fmt.Sscanf(q.Destination, "d%d", &idx); err != nil || idx >= len(per) {
						rt.Fatalf("C24: unexpected posting destination %q", q.Destination)
					}
					per[idx].Add(per[idx], q.Amount.ToBigInt())
				}
				checkAllocation(rt, "script", amount, rats, per)
				st.Class("via-script-ok")
			} else {
				// the compiler may reject e.g. a constant 100% next to `remaining`; that is not this property's concern
				st.Class("via-script-" + r.Phase + "-error")
			}
		}
		inexact := false
		for i, r := range rats {
			x := new(big.Int).Mul(amount, r.Num())
			if new(big.Int).Mod(x, r.Denom()).Sign() != 0 {
				inexact = true
			}
			_ = i
		}
		classes := []string{fmt.Sprintf("len:%d", len(rats))}
		if remainingAt >= 0 {
			classes = append(classes, "with-remaining")
		}
		if amount.BitLen() > 64 {
			classes = append(classes, "amount>2^64")
		}
		if inexact {
			classes = append(classes, "inexact")
		}
		st.Case(fmt.Sprint(rats, remainingAt, amount), inexact && len(rats) >= 3, func() any {
			return map[string]any{"portions": fmt.Sprint(rats), "remaining_at": remainingAt, "amount": amount.String(), "parts": fmt.Sprint(got)}
		}, classes...)
		st.Add("completed_checks", 1)
	})
}
