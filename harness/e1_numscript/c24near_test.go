package e1

import (
	"fmt"
	"math/big"
	"strings"
	"testing"

	"pgregory.net/rapid"

	"github.com/formancehq/ledger/verifharness/stats"
)

const ruleNearMiss = "allotments that miss 100% by a hair: a portion vector of length 2-6 summing to exactly one, one non-zero portion of which is lowered or raised by eps (10^-17..10^-40 or 2^-54..2^-120), written as fractions or as decimal percentages, no `remaining`; used as the destination or the source allotment of `send [A n]` from world / to one account with n in 10^16..10^42; the script must be refused, or - if it runs - its postings must sum to n exactly, each part within [floor, floor+1] of its share (C22: a send moves exactly its amount; C24: parts sum to the amount); non-trivial = eps below 2^-53 (not representable next to 1 in a float64); distinct = by portions + amount"

// runNearMiss is registered for C22 and C24.
func runNearMiss(t *testing.T, id string) {
	st := stats.New(id, "exploration", ruleNearMiss)
	defer st.Write(t)
	n := stats.N(1500, 12000)
	st.Set("requested_checks_near_miss", n)
	stats.Check(t, n, 2424, func(rt *rapid.T) {
		var rats []*big.Rat
		for {
			rats = genPortionVector(rt)
			if len(rats) >= 2 {
				break
			}
		}
		if len(rats) > 6 {
			rats = append(rats[:5:5], func() *big.Rat {
				s := new(big.Rat)
				for _, r := range rats[5:] {
					s.Add(s, r)
				}
				return s
			}())
		}
		// eps
		var eps *big.Rat
		if rapid.Bool().Draw(rt, "decimalEps") {
			k := rapid.IntRange(17, 40).Draw(rt, "epsDigits")
			eps = new(big.Rat).SetFrac(big.NewInt(int64(rapid.IntRange(1, 9).Draw(rt, "epsLead"))), new(big.Int).Exp(big.NewInt(10), big.NewInt(int64(k)), nil))
		} else {
			k := rapid.IntRange(54, 120).Draw(rt, "epsBits")
			eps = new(big.Rat).SetFrac(big.NewInt(1), new(big.Int).Lsh(big.NewInt(1), uint(k)))
		}
		above := rapid.IntRange(0, 3).Draw(rt, "above") == 0
		var idx []int
		for i, r := range rats {
			if r.Cmp(eps) > 0 {
				idx = append(idx, i)
			}
		}
		if len(idx) == 0 {
			rt.Skip("no portion larger than eps")
		}
		at := idx[rapid.IntRange(0, len(idx)-1).Draw(rt, "at")]
		mod := make([]*big.Rat, len(rats))
		for i, r := range rats {
			mod[i] = new(big.Rat).Set(r)
		}
		if above {
			mod[at].Add(mod[at], eps)
		} else {
			mod[at].Sub(mod[at], eps)
		}
		// amount
		amount := new(big.Int).Exp(big.NewInt(10), big.NewInt(int64(rapid.IntRange(16, 42).Draw(rt, "amountDigits"))), nil)
		amount.Mul(amount, big.NewInt(int64(rapid.IntRange(1, 9).Draw(rt, "amountLead"))))
		amount.Add(amount, big.NewInt(int64(rapid.IntRange(0, 1000).Draw(rt, "amountTail"))))
		percent := rapid.Bool().Draw(rt, "asPercent")
		text := func(r *big.Rat) string {
			if percent {
				// exact decimal percentage when the denominator allows it
				p := new(big.Rat).Mul(r, big.NewRat(100, 1))
				for digits := 0; digits <= 60; digits++ {
					scaled := new(big.Rat).Mul(p, new(big.Rat).SetInt(new(big.Int).Exp(big.NewInt(10), big.NewInt(int64(digits)), nil)))
					if scaled.IsInt() {
						s := scaled.Num().String()
						if digits == 0 {
							return s + "%"
						}
						for len(s) <= digits {
							s = "0" + s
						}
						return s[:len(s)-digits] + "." + s[len(s)-digits:] + "%"
					}
				}
			}
			return r.Num().String() + "/" + r.Denom().String()
		}
		onSource := rapid.Bool().Draw(rt, "onSource")
		p := &Program{Vars: map[string]string{}, Balances: map[string]map[string]*big.Int{}, Meta: map[string]map[string]string{}, Features: map[string]bool{}}
		mon := Mon{Text: "[COIN " + amount.String() + "]", Asset: "COIN", Amount: amount}
		stmt := Stmt{Kind: StSend, Asset: "COIN", Mon: mon}
		if onSource {
			sa := &SourceAllotment{}
			for i, r := range mod {
				sa.Portions = append(sa.Portions, Portion{Text: text(r), Rat: r})
				acc := fmt.Sprintf("s%d", i)
				sa.Sources = append(sa.Sources, &Source{Kind: SrcAccount, Acc: Acc{Text: "@" + acc, Addr: acc}})
				p.Balances[acc] = map[string]*big.Int{"COIN": new(big.Int).Set(amount)}
			}
			stmt.SrcAllot = sa
			stmt.Dst = &Dest{Kind: DstAccount, Acc: Acc{Text: "@sink", Addr: "sink"}}
		} else {
			d := &Dest{Kind: DstAllotment}
			for i, r := range mod {
				d.Portions = append(d.Portions, Portion{Text: text(r), Rat: r})
				d.Clauses = append(d.Clauses, KeptOrDest{D: &Dest{Kind: DstAccount, Acc: Acc{Text: fmt.Sprintf("@d%d", i), Addr: fmt.Sprintf("d%d", i)}}})
			}
			stmt.Src = &Source{Kind: SrcAccount, Acc: Acc{Text: "@world", Addr: "world"}}
			stmt.Dst = d
		}
		p.Stmts = []Stmt{stmt}
		r := runMachine(p, 1)
		if r.Panic != nil {
			rt.Fatalf("%s: panic running a script whose allotment misses 100%% by %s: %v\n%s", id, eps.String(), r.Panic, p.Render(1))
		}
		outcome := "refused:" + r.Phase
		if r.Phase == "ok" {
			outcome = "ran"
			sum := new(big.Int)
			per := make([]*big.Int, len(mod))
			for i := range per {
				per[i] = new(big.Int)
			}
			for _, q := range r.Postings {
				sum.Add(sum, q.Amount.ToBigInt())
				var i int
				name := q.Destination
				if onSource {
					name = q.Source
				}
				if _, err := fmt.Sscanf(strings.TrimLeft(name, "ds"), "%d", &i); err == nil && i < len(per) {
					per[i].Add(per[i], q.Amount.ToBigInt())
				}
			}
			if sum.Cmp(amount) != 0 {
				rt.Fatalf("%s: the script runs although its allotment sums to 1 %s %s, and the send of %s moves %s (short by %s)\npostings: %s\n%s", id,
					map[bool]string{true: "+", false: "-"}[above], eps.String(), amount, sum, new(big.Int).Sub(amount, sum), postingsString(r.Postings), p.Render(1))
			}
		}
		small := eps.Cmp(new(big.Rat).SetFrac(big.NewInt(1), new(big.Int).Lsh(big.NewInt(1), 53))) < 0
		st.Case(fmt.Sprint(mod, amount, onSource, percent), small, func() any {
			return map[string]any{"portions": fmt.Sprint(mod), "eps": eps.String(), "above": above, "amount": amount.String(), "on_source": onSource, "outcome": outcome, "script": p.Render(1)}
		}, "outcome:"+outcome, fmt.Sprintf("above:%v", above), fmt.Sprintf("on-source:%v", onSource), fmt.Sprintf("percent:%v", percent), fmt.Sprintf("len:%d", len(mod)))
		st.Add("completed_checks_near_miss", 1)
	})
}

func TestC24NearMiss(t *testing.T) { runNearMiss(t, "C24") }
func TestC22NearMiss(t *testing.T) { runNearMiss(t, "C22") }
