// Reference semantics for the aggregate effect of a send statement: how much
// a destination tree keeps, how much a source tree can provide for
// `send [A *]`, and how an allotment splits an amount. Written from the
// language documentation / property statements; shares no code with the VM.
package e1

import "math/big"

// refAllocate splits amount along portions that sum to one: floor of each
// share, then the leftover units one by one to the earliest parts.
func refAllocate(amount *big.Int, portions []*big.Rat) []*big.Int {
	parts := make([]*big.Int, len(portions))
	total := new(big.Int)
	for i, p := range portions {
		x := new(big.Int).Mul(amount, p.Num())
		x.Quo(x, p.Denom())
		parts[i] = x
		total.Add(total, x)
	}
	left := new(big.Int).Sub(amount, total)
	for i := 0; i < len(parts) && left.Sign() > 0; i++ {
		parts[i].Add(parts[i], big.NewInt(1))
		left.Sub(left, big.NewInt(1))
	}
	return parts
}

func rats(ps []Portion) []*big.Rat {
	out := make([]*big.Rat, len(ps))
	for i, p := range ps {
		out[i] = p.Rat
	}
	return out
}

func min(a, b *big.Int) *big.Int {
	if a.Cmp(b) < 0 {
		return a
	}
	return b
}

// refKept returns how much of amount the destination tree keeps (sends nowhere).
func refKept(k KeptOrDest, amount *big.Int) *big.Int {
	if k.Kept {
		return new(big.Int).Set(amount)
	}
	d := k.D
	switch d.Kind {
	case DstInOrder:
		kept := new(big.Int)
		remaining := new(big.Int).Set(amount)
		for i, m := range d.Maxes {
			take := new(big.Int).Set(min(m.Amount, remaining))
			if take.Sign() < 0 {
				take.SetInt64(0)
			}
			kept.Add(kept, refKept(d.Clauses[i], take))
			remaining.Sub(remaining, take)
		}
		kept.Add(kept, refKept(d.Remaining, remaining))
		return kept
	case DstAllotment:
		kept := new(big.Int)
		parts := refAllocate(amount, rats(d.Portions))
		for i := range parts {
			kept.Add(kept, refKept(d.Clauses[i], parts[i]))
		}
		return kept
	}
	return new(big.Int)
}

type refPart struct {
	acc string
	amt *big.Int
}

type refBalances map[string]map[string]*big.Int

func (b refBalances) get(acc, asset string) *big.Int {
	if m, ok := b[acc]; ok {
		if v, ok := m[asset]; ok {
			return v
		}
	}
	return new(big.Int)
}

func (b refBalances) add(acc, asset string, d *big.Int) {
	if acc == "world" {
		return
	}
	if b[acc] == nil {
		b[acc] = map[string]*big.Int{}
	}
	b[acc][asset] = new(big.Int).Add(b.get(acc, asset), d)
}

func (b refBalances) clone() refBalances {
	out := refBalances{}
	for a, m := range b {
		out[a] = map[string]*big.Int{}
		for as, v := range m {
			out[a][as] = new(big.Int).Set(v)
		}
	}
	return out
}

// refAvailable computes the funds a source tree (without allotment) provides
// when everything available is taken, drawing down bal as it goes. ok is false
// when the tree has a shape the reference does not cover (the caller then
// skips the comparison and counts it).
func refAvailable(s *Source, asset string, bal refBalances) (parts []refPart, ok bool) {
	switch s.Kind {
	case SrcAccount:
		if s.Acc.Addr == "world" || s.Overdraft == OdUnbounded {
			// provides nothing by itself when "all" is requested; only a max above bounds it
			return []refPart{{s.Acc.Addr, new(big.Int)}}, true
		}
		bound := new(big.Int)
		if s.Overdraft == OdBounded {
			if s.Bound.Asset != asset {
				return nil, false
			}
			bound = s.Bound.Amount
		}
		avail := new(big.Int).Add(bal.get(s.Acc.Addr, asset), bound)
		if avail.Sign() <= 0 {
			return []refPart{{s.Acc.Addr, new(big.Int)}}, true
		}
		bal.add(s.Acc.Addr, asset, new(big.Int).Neg(avail))
		return []refPart{{s.Acc.Addr, avail}}, true
	case SrcInOrder:
		for _, sub := range s.Subs {
			ps, ok := refAvailable(sub, asset, bal)
			if !ok {
				return nil, false
			}
			parts = append(parts, ps...)
		}
		return parts, true
	case SrcMaxed:
		if s.Max.Asset != asset || s.Max.Amount.Sign() < 0 {
			return nil, false
		}
		ps, ok := refAvailable(s.Sub, asset, bal)
		if !ok {
			return nil, false
		}
		left := new(big.Int).Set(s.Max.Amount)
		for _, p := range ps {
			take := new(big.Int).Set(min(p.amt, left))
			back := new(big.Int).Sub(p.amt, take)
			bal.add(p.acc, asset, back) // what the cap does not take goes back
			left.Sub(left, take)
			parts = append(parts, refPart{p.acc, take})
		}
		if left.Sign() > 0 {
			if fb := unboundedTail(s.Sub); fb != "" {
				bal.add(fb, asset, new(big.Int).Neg(left))
				parts = append(parts, refPart{fb, left})
			}
		}
		return parts, true
	}
	return nil, false
}

// unboundedTail names the account that absorbs any missing amount: the last
// account of the tree when it is @world or has an unbounded overdraft.
func unboundedTail(s *Source) string {
	switch s.Kind {
	case SrcAccount:
		if s.Acc.Addr == "world" || s.Overdraft == OdUnbounded {
			return s.Acc.Addr
		}
	case SrcInOrder:
		return unboundedTail(s.Subs[len(s.Subs)-1])
	}
	return ""
}

func total(parts []refPart) *big.Int {
	t := new(big.Int)
	for _, p := range parts {
		t.Add(t, p.amt)
	}
	return t
}
