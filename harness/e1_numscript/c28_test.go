package e1

import (
	"regexp"
	"testing"

	"pgregory.net/rapid"

	ledger "github.com/formancehq/ledger/internal"
	ledgercontroller "github.com/formancehq/ledger/internal/controller/ledger"
	"github.com/formancehq/ledger/verifharness/stats"
)

// Own copies of the documented patterns (docs + pkg/assets, pkg/accounts), so
// that the oracle does not depend on the validators under test.
var (
	refAssetRe   = regexp.MustCompile(`^[A-Z][A-Z0-9]{0,16}(_[A-Z]{1,16})?(/[0-9]{1,6})?$`)
	refAccountRe = regexp.MustCompile(`^[a-zA-Z0-9_-]+(:[a-zA-Z0-9_-]+)*$`)
)

func wellFormed(q ledger.Posting) string {
	switch {
	case !refAccountRe.MatchString(q.Source):
		return "source " + q.Source
	case !refAccountRe.MatchString(q.Destination):
		return "destination " + q.Destination
	case !refAssetRe.MatchString(q.Asset):
		return "asset " + q.Asset
	case q.Amount == nil || q.Amount.Sign() < 0:
		return "amount"
	}
	return ""
}

const ruleC28 = "C22 generator plus literal assets at the edge of the lexer rule (A/, /2, 2USD, USD/1234567, 19-letter names, ...), variables and meta()-sourced accounts, in one case out of three with cross-type values (an asset string given to an account variable or stored as account metadata, an address given to an asset or monetary variable), run through both runtime adapters (machine and interpreter); every posting of every successful execution result is matched against own copies of the account and asset patterns; non-trivial = successful run of a program using an edge literal or a meta()/variable account; distinct = by script + vars + balances. (The postings/template/import creation paths are exercised by the ledger-level check in engine E2.)"

func TestC28(t *testing.T) {
	st := stats.New("C28", "exploration", ruleC28)
	defer st.Write(t)
	n := stats.N(8000, 30000)
	st.Set("requested_checks", n)
	parsers := map[string]ledgercontroller.NumscriptParser{
		"machine":     ledgercontroller.NewDefaultNumscriptParser(),
		"interpreter": ledgercontroller.NewInterpreterNumscriptParser(nil),
	}
	stats.Check(t, n, 28, func(rt *rapid.T) {
		p := GenProgram(rt, Opts{MaxStmts: 2, MaxDepth: 2, BigAmount: true, Common: true, EdgeLiterals: true})
		classes := p.FeatureList()
		// cross-type confusion: a value that is valid for the other kind of variable (an asset where an
		// account is expected and vice versa, also through meta()-sourced accounts); both runtimes must
		// refuse it or, at any rate, never let it into a posting
		confused := false
		if rapid.IntRange(0, 2).Draw(rt, "crossType") == 0 {
			for _, d := range p.Decls {
				switch {
				case d.Type == "account" && d.Origin == "" && rapid.Bool().Draw(rt, "assetAsAccount"):
					p.Vars[d.Name] = rapid.SampledFrom([]string{"USD/2", "COIN/6", "JPY/0", "EUR_X/1"}).Draw(rt, "assetLike")
					confused = true
				case d.Type == "asset" && d.Origin == "" && rapid.Bool().Draw(rt, "accountAsAsset"):
					p.Vars[d.Name] = rapid.SampledFrom([]string{"a", "bank", "u:1", "x_y-z", "world"}).Draw(rt, "accountLike")
					confused = true
				case d.Type == "monetary" && d.Origin == "" && rapid.IntRange(0, 3).Draw(rt, "accountAsMonetaryAsset") == 0:
					p.Vars[d.Name] = rapid.SampledFrom([]string{"a", "bank", "x_y-z"}).Draw(rt, "accountLike") + " 5"
					confused = true
				}
			}
			for holder, m := range p.Meta {
				for k := range m {
					if rapid.IntRange(0, 2).Draw(rt, "assetInMeta") == 0 {
						p.Meta[holder][k] = rapid.SampledFrom([]string{"USD/2", "COIN/6", "JPY/0"}).Draw(rt, "assetLikeMeta")
						confused = true
					}
				}
			}
		}
		if confused {
			classes = append(classes, "cross-type-value")
		}
		anyOK := false
		for _, name := range []string{"machine", "interpreter"} {
			r := runAdapter(parsers[name], p)
			if r.Panic != nil || r.ParseErr != nil || r.Err != nil {
				classes = append(classes, name+":rejected")
				continue
			}
			anyOK = true
			classes = append(classes, name+":ok")
			for _, q := range r.Res.Postings {
				if bad := wellFormed(q); bad != "" {
					rt.Fatalf("C28: %s runtime produced a posting with an ill-formed %s: %s->%s %v %q\nvars: %v\n%s", name, bad, q.Source, q.Destination, q.Amount, q.Asset, p.Vars, p.Render(len(p.Stmts)))
				}
			}
		}
		st.Case(p.Key(), anyOK && (p.Features["edge-asset"] || p.Features["origin:meta"] || p.Features["var:account"] || p.Features["var:asset"]), func() any { return p.Describe() }, classes...)
		st.Add("completed_checks", 1)
	})
}
