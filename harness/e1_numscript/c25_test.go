package e1

import (
	"context"
	"encoding/json"
	"errors"
	"fmt"
	"math/big"
	"strings"
	"testing"

	"pgregory.net/rapid"

	ledger "github.com/formancehq/ledger/internal"
	"github.com/formancehq/ledger/internal/api/bulking"
	ledgercontroller "github.com/formancehq/ledger/internal/controller/ledger"
	"github.com/formancehq/ledger/internal/machine"
	"github.com/formancehq/ledger/verifharness/gen"
	"github.com/formancehq/ledger/verifharness/stats"
)

// genPostings draws a postings list over the small account universe with
// repeated accounts, source==destination, world on either side, zero and huge amounts.
func genPostings(t *rapid.T, max int) ledger.Postings {
	n := rapid.IntRange(1, max).Draw(t, "nPostings")
	ps := make(ledger.Postings, 0, n)
	for i := 0; i < n; i++ {
		src := gen.Account().Draw(t, "src")
		dst := gen.Account().Draw(t, "dst")
		if rapid.IntRange(0, 9).Draw(t, "selfPosting") == 0 {
			dst = src
		}
		ps = append(ps, ledger.Posting{Source: src, Destination: dst, Asset: gen.Asset().Draw(t, "asset"), Amount: gen.SmallAmount().Draw(t, "amount")})
	}
	return ps
}

// genFocused draws a request that revolves around one (account, asset) pair with a small, possibly
// negative starting balance: zero-amount uses, credits and spends of comparable size in every order.
// (The uniform generator almost never lines up "overdrawn account used for 0, credited, then spent".)
func genFocused(t *rapid.T) (ledger.Postings, map[string]map[string]*big.Int) {
	focus := gen.NonWorldAccount().Draw(t, "focusAccount")
	asset := gen.Asset().Draw(t, "focusAsset")
	bal := map[string]map[string]*big.Int{}
	for _, a := range gen.NonWorld {
		bal[a] = map[string]*big.Int{}
		if rapid.IntRange(0, 2).Draw(t, "otherFunded") == 0 {
			bal[a][asset] = big.NewInt(int64(rapid.IntRange(0, 6).Draw(t, "otherBalance")))
		}
	}
	if v := rapid.IntRange(-6, 6).Draw(t, "focusBalance"); v != 0 || rapid.Bool().Draw(t, "explicitZero") {
		bal[focus][asset] = big.NewInt(int64(v))
	}
	n := rapid.IntRange(2, 8).Draw(t, "nPostings")
	small := []int64{0, 0, 1, 2, 3, 5, 6}
	var ps ledger.Postings
	for i := 0; i < n; i++ {
		amt := big.NewInt(rapid.SampledFrom(small).Draw(t, "amount"))
		other := gen.Account().Draw(t, "other")
		switch rapid.IntRange(0, 4).Draw(t, "role") {
		case 0, 1:
			ps = append(ps, ledger.Posting{Source: focus, Destination: other, Asset: asset, Amount: amt})
		case 2:
			ps = append(ps, ledger.Posting{Source: "world", Destination: focus, Asset: asset, Amount: amt})
		case 3:
			ps = append(ps, ledger.Posting{Source: other, Destination: focus, Asset: asset, Amount: amt})
		default:
			ps = append(ps, ledger.Posting{Source: other, Destination: gen.Account().Draw(t, "dst"), Asset: gen.Asset().Draw(t, "asset"), Amount: amt})
		}
	}
	return ps, bal
}

func genBalances(t *rapid.T) map[string]map[string]*big.Int {
	out := map[string]map[string]*big.Int{}
	for _, a := range gen.NonWorld {
		out[a] = map[string]*big.Int{}
		for _, as := range gen.Assets {
			switch rapid.IntRange(0, 5).Draw(t, "balKind") {
			case 0:
			case 1:
				out[a][as] = big.NewInt(-int64(rapid.IntRange(1, 100).Draw(t, "neg")))
			default:
				out[a][as] = gen.SmallAmount().Draw(t, "bal")
			}
		}
	}
	return out
}

// refPostingsOutcome applies the postings one by one: insufficient funds iff a
// non-world source would be taken below zero by a posting (never with force).
func refPostingsOutcome(ps ledger.Postings, bal map[string]map[string]*big.Int, force bool) (insufficient bool, dependsOnEarlier bool) {
	cur := refBalances{}
	for a, m := range bal {
		for as, v := range m {
			cur.add(a, as, v)
		}
	}
	initial := cur.clone()
	for _, q := range ps {
		if q.Source != "world" && !force && q.Amount.Sign() > 0 {
			if cur.get(q.Source, q.Asset).Cmp(q.Amount) < 0 {
				return true, false
			}
			if initial.get(q.Source, q.Asset).Cmp(q.Amount) < 0 {
				dependsOnEarlier = true
			}
		}
		cur.add(q.Source, q.Asset, new(big.Int).Neg(q.Amount))
		cur.add(q.Destination, q.Asset, q.Amount)
	}
	return false, dependsOnEarlier
}

const ruleC25 = "postings lists (1-20 postings over 8 accounts incl. world, 3 assets, repeated accounts, source==destination, zero/edge amounts) x generated starting balances (absent, negative, positive) x force; half of the cases revolve around one (account, asset) pair with a small possibly negative balance, zero-amount uses, credits and spends of comparable size; through bulking.TransactionRequest.ToCore -> TxToScriptData -> compile -> MachineNumscriptRuntimeAdapter.Execute; non-trivial = success that depends on an earlier posting funding a later source, or an insufficient-funds failure; distinct = by postings+balances+force"

func TestC25(t *testing.T) {
	st := stats.New("C25", "exploration", ruleC25,
		"default (machine) runtime only: the interpreter runtime trims zero-amount postings by documented design")
	defer st.Write(t)
	n := stats.N(8000, 30000)
	st.Set("requested_checks", n)
	stats.Check(t, n, 25, func(rt *rapid.T) {
		var ps ledger.Postings
		var bal map[string]map[string]*big.Int
		if rapid.Bool().Draw(rt, "focused") {
			ps, bal = genFocused(rt)
		} else {
			ps = genPostings(rt, 20)
			bal = genBalances(rt)
		}
		force := rapid.IntRange(0, 3).Draw(rt, "force") == 0
		req := bulking.TransactionRequest{Postings: ps, Force: force}
		core, err := req.ToCore()
		if err != nil {
			rt.Fatalf("C25: valid postings rejected by ToCore: %v (%v)", err, ps)
		}
		p := &Program{Vars: core.Vars, Balances: bal, Meta: map[string]map[string]string{}, Features: map[string]bool{}}
		runtime, err := ledgercontroller.NewDefaultNumscriptParser().Parse(core.Plain)
		if err != nil {
			rt.Fatalf("C25: generated script does not compile: %v\n%s", err, core.Plain)
		}
		vars := map[string]string{}
		for k, v := range core.Vars {
			vars[k] = v
		}
		res, err := runtime.Execute(context.Background(), &progStore{p: p}, vars)
		wantInsufficient, depends := refPostingsOutcome(ps, bal, force)
		desc := func() any {
			return map[string]any{"postings": postingsJSON(ps), "balances": p.Describe()["balances"], "force": force}
		}
		classes := []string{}
		if force {
			classes = append(classes, "force")
		}
		switch {
		case err != nil:
			if !errors.Is(err, &machine.ErrInsufficientFund{}) {
				rt.Fatalf("C25: unexpected error kind %v\npostings: %s\nbalances: %v force=%v", err, postingsJSON(ps), p.Describe()["balances"], force)
			}
			if force {
				rt.Fatalf("C25: insufficient funds with force set: %v\npostings: %s", err, postingsJSON(ps))
			}
			if !wantInsufficient {
				rt.Fatalf("C25: insufficient funds although applying the postings in order never takes a source below zero: %v\npostings: %s\nbalances: %v", err, postingsJSON(ps), p.Describe()["balances"])
			}
			classes = append(classes, "insufficient-funds")
		default:
			if wantInsufficient {
				rt.Fatalf("C25: accepted although applying the postings in order takes a non-world source below zero\npostings: %s\nbalances: %v\nresult: %s", postingsJSON(ps), p.Describe()["balances"], postingsJSON(res.Postings))
			}
			if len(res.Postings) != len(ps) {
				rt.Fatalf("C25: %d postings recorded for %d submitted\nsubmitted: %s\nrecorded:  %s", len(res.Postings), len(ps), postingsJSON(ps), postingsJSON(res.Postings))
			}
			for i := range ps {
				a, b := ps[i], res.Postings[i]
				if a.Source != b.Source || a.Destination != b.Destination || a.Asset != b.Asset || a.Amount.Cmp(b.Amount) != 0 {
					rt.Fatalf("C25: posting %d recorded differently\nsubmitted: %s\nrecorded:  %s", i, postingsJSON(ps), postingsJSON(res.Postings))
				}
			}
			classes = append(classes, "success")
			if depends {
				classes = append(classes, "funded-by-earlier-posting")
			}
		}
		st.Case(fmt.Sprint(postingsJSON(ps), p.Describe()["balances"], force), (err == nil && depends) || err != nil, desc, classes...)
		st.Add("completed_checks", 1)
	})
}

func postingsJSON(ps ledger.Postings) string {
	parts := make([]string, len(ps))
	for i, q := range ps {
		parts[i] = fmt.Sprintf("%s->%s %s %s", q.Source, q.Destination, q.Amount, q.Asset)
	}
	return strings.Join(parts, "; ")
}

// ---------------------------------------------------------------------- C36 (numscript / request decoding part)

const ruleC36E1 = "amounts from {0,1,2,99,100,2^53±1,2^63±1,2^64±1,10^30,random big} sent through five request forms decoded by the real API structs (bulking.TransactionRequest JSON): postings with a JSON-number amount, script literal, two literals of one asset in one script, monetary variable in string form, monetary variable as {asset, amount: <JSON number>} and {asset, amount: \"string\"}, and a script splitting the amount over three destinations (portions with numerators above 1, amounts also drawn within 3 of 2^52, 2^53, 2^61..2^64); executed on the machine runtime; the posting that comes out must carry exactly the integer that went in (the parts of a split must add up to it and each lie within one unit of its exact share); non-trivial = amount above 2^53; distinct = by form+amount"

func TestC36(t *testing.T) {
	st := stats.New("C36", "exploration", ruleC36E1)
	defer st.Write(t)
	n := stats.N(5000, 20000)
	st.Set("requested_checks", n)
	two53 := new(big.Int).Lsh(big.NewInt(1), 53)
	stats.Check(t, n, 36, func(rt *rapid.T) {
		amount := gen.Amount().Draw(rt, "amount")
		if rapid.Bool().Draw(rt, "edge") {
			amount = new(big.Int).Set(rapid.SampledFrom(gen.EdgeAmounts).Draw(rt, "edgeAmount"))
		}
		form := rapid.SampledFrom([]string{"postings-number", "script-literal", "script-two-literals", "var-string", "var-object-number", "var-object-string", "script-allotment", "script-allotment"}).Draw(rt, "form")
		if form == "script-allotment" {
			// a split of the amount: the parts must add up to it exactly at any magnitude - in particular just below
			// 2^63 / 2^64, where a product amount x numerator no longer fits a machine word
			if rapid.IntRange(0, 2).Draw(rt, "nearWord") == 0 {
				base := rapid.SampledFrom([]uint{52, 53, 61, 62, 63, 64}).Draw(rt, "wordBit")
				amount = new(big.Int).Lsh(big.NewInt(1), base)
				amount.Add(amount, big.NewInt(int64(rapid.IntRange(-3, 3).Draw(rt, "wordOffset"))))
			}
			split := rapid.SampledFrom([][]string{{"2/3", "1/6"}, {"33.33%", "12.345%"}, {"1/2", "1/4"}, {"66.67%", "0.01%"}, {"3/7", "2/7"}, {"99.9%", "0%"}}).Draw(rt, "split")
			script := fmt.Sprintf("send [USD/2 %s] (\n source = @world\n destination = {\n  %s to @a\n  %s to @b\n  remaining to @c\n }\n)", amount, split[0], split[1])
			runtime, err := ledgercontroller.NewDefaultNumscriptParser().Parse(script)
			if err != nil {
				rt.Fatalf("C36: script does not compile: %v\n%s", err, script)
			}
			res, err := runtime.Execute(context.Background(), &progStore{p: &Program{Balances: map[string]map[string]*big.Int{}, Meta: map[string]map[string]string{}}}, map[string]string{})
			if err != nil {
				rt.Fatalf("C36: %s split %v from @world: execution failed: %v", amount, split, err)
			}
			sum := new(big.Int)
			got := map[string]*big.Int{"a": new(big.Int), "b": new(big.Int), "c": new(big.Int)}
			for _, p := range res.Postings {
				sum.Add(sum, p.Amount)
				if got[p.Destination] != nil {
					got[p.Destination].Add(got[p.Destination], p.Amount)
				}
				if p.Amount.Sign() < 0 {
					rt.Fatalf("C36: %s split %v: negative posting %s", amount, split, postingsJSON(res.Postings))
				}
			}
			if sum.Cmp(amount) != 0 {
				rt.Fatalf("C36: %s split %v: the postings add up to %s: %s", amount, split, sum, postingsJSON(res.Postings))
			}
			for i, dst := range []string{"a", "b"} {
				r := mustRat(split[i])
				floor := new(big.Int).Mul(amount, r.Num())
				floor.Quo(floor, r.Denom())
				if d := new(big.Int).Sub(got[dst], floor); d.Sign() < 0 || d.Cmp(big.NewInt(1)) > 0 {
					rt.Fatalf("C36: %s split %v: @%s receives %s, floor(amount x %s) is %s", amount, split, dst, got[dst], split[i], floor)
				}
			}
			st.Case(form+amount.String()+strings.Join(split, "|"), amount.Cmp(two53) > 0, func() any {
				return map[string]any{"form": form, "amount": amount.String(), "split": split}
			}, "form:"+form)
			st.Add("completed_checks", 1)
			return
		}
		second := new(big.Int).Set(rapid.SampledFrom(gen.EdgeAmounts).Draw(rt, "secondAmount"))
		var body string
		switch form {
		case "postings-number":
			body = fmt.Sprintf(`{"postings":[{"source":"world","destination":"a","asset":"USD/2","amount":%s}]}`, amount)
		case "script-literal":
			body = fmt.Sprintf(`{"script":{"plain":"send [USD/2 %s] (\n source = @world\n destination = @a\n)"}}`, amount)
		case "script-two-literals":
			// two literals of one asset in one script (the compiler shares identical literals)
			body = fmt.Sprintf(`{"script":{"plain":"send [USD/2 %s] (\n source = @world\n destination = @a\n)\nsend [USD/2 %s] (\n source = @world\n destination = @b\n)"}}`, amount, second)
		case "var-string":
			body = fmt.Sprintf(`{"script":{"plain":"vars {\n monetary $m\n}\nsend $m (\n source = @world\n destination = @a\n)","vars":{"m":"USD/2 %s"}}}`, amount)
		case "var-object-number":
			body = fmt.Sprintf(`{"script":{"plain":"vars {\n monetary $m\n}\nsend $m (\n source = @world\n destination = @a\n)","vars":{"m":{"asset":"USD/2","amount":%s}}}}`, amount)
		case "var-object-string":
			body = fmt.Sprintf(`{"script":{"plain":"vars {\n monetary $m\n}\nsend $m (\n source = @world\n destination = @a\n)","vars":{"m":{"asset":"USD/2","amount":"%s"}}}}`, amount)
		}
		var req bulking.TransactionRequest
		if err := json.Unmarshal([]byte(body), &req); err != nil {
			rt.Fatalf("C36: request body rejected: %v\n%s", err, body)
		}
		core, err := req.ToCore()
		if err != nil {
			rt.Fatalf("C36: ToCore rejected %s: %v", body, err)
		}
		runtime, err := ledgercontroller.NewDefaultNumscriptParser().Parse(core.Plain)
		if err != nil {
			rt.Fatalf("C36: script does not compile: %v\n%s", err, core.Plain)
		}
		p := &Program{Balances: map[string]map[string]*big.Int{}, Meta: map[string]map[string]string{}}
		vars := map[string]string{}
		for k, v := range core.Vars {
			vars[k] = v
		}
		res, err := runtime.Execute(context.Background(), &progStore{p: p}, vars)
		if err != nil {
			rt.Fatalf("C36: amount %s in form %s: execution failed: %v (vars %v)", amount, form, err, core.Vars)
		}
		if form == "script-two-literals" {
			// zero-amount postings are kept by the machine runtime
			if len(res.Postings) != 2 || res.Postings[0].Amount.Cmp(amount) != 0 || res.Postings[1].Amount.Cmp(second) != 0 {
				rt.Fatalf("C36: literals %s and %s in one script came out as %s", amount, second, postingsJSON(res.Postings))
			}
			st.Case(form+amount.String()+"/"+second.String(), amount.Cmp(two53) > 0 || second.Cmp(two53) > 0, func() any {
				return map[string]any{"form": form, "amounts": []string{amount.String(), second.String()}}
			}, "form:"+form)
			st.Add("completed_checks", 1)
			return
		}
		if len(res.Postings) != 1 || res.Postings[0].Amount.Cmp(amount) != 0 {
			rt.Fatalf("C36: amount %s sent as %s came out as %s (vars %v)", amount, form, postingsJSON(res.Postings), core.Vars)
		}
		// JSON rendering of the resulting transaction keeps the integer
		out, err := json.Marshal(ledger.NewTransaction().WithPostings(res.Postings...))
		if err != nil {
			rt.Fatalf("C36: marshal: %v", err)
		}
		if !strings.Contains(string(out), `"amount":`+amount.String()) {
			rt.Fatalf("C36: amount %s not rendered exactly in %s", amount, out)
		}
		st.Case(form+amount.String(), amount.Cmp(two53) > 0, func() any { return map[string]any{"form": form, "amount": amount.String()} }, "form:"+form)
		st.Add("completed_checks", 1)
	})
}
