package e1

import (
	"fmt"
	"math/big"

	"pgregory.net/rapid"
)

// GenRepayProgram draws scripts in which one bounded account backs several non-adjacent parts of a funding
// whose remainder is given back (a `max` that is not exhausted, an account variable equal to an account also
// named literally, a kept remainder), followed by further sends drawing on that same account - so that what
// the account may still spend depends on the remainder having been given back exactly once.
func GenRepayProgram(t *rapid.T) *Program {
	p := &Program{Vars: map[string]string{}, Balances: map[string]map[string]*big.Int{}, Meta: map[string]map[string]string{}, Features: map[string]bool{"focused:repay": true}}
	g := &genState{t: t, o: Opts{MaxStmts: 3, MaxDepth: 2}, p: p, noArith: true}
	asset := rapid.SampledFrom([]string{"USD/2", "COIN"}).Draw(t, "asset")
	hot := rapid.SampledFrom([]string{"a", "u:1"}).Draw(t, "hot")
	other := "bank"
	for _, a := range srcAccounts {
		p.Balances[a] = map[string]*big.Int{}
	}
	balHot := int64(rapid.IntRange(1, 100).Draw(t, "hotBalance"))
	p.Balances[hot][asset] = big.NewInt(balHot)
	if rapid.IntRange(0, 3).Draw(t, "otherFunded") != 0 {
		p.Balances[other][asset] = big.NewInt(int64(rapid.IntRange(0, 60).Draw(t, "otherBalance")))
	}
	lit := func(a string) Acc { return Acc{Text: "@" + a, Addr: a} }
	hotRef := func(label string) Acc {
		if rapid.IntRange(0, 2).Draw(t, label) == 0 {
			return Acc{Text: g.newVar("account", hot, ""), Addr: hot}
		}
		return lit(hot)
	}
	mon := func(v int64) Mon {
		return Mon{Text: fmt.Sprintf("[%s %d]", asset, v), Asset: asset, Amount: big.NewInt(v)}
	}
	accSrc := func(a Acc) *Source { return &Source{Kind: SrcAccount, Acc: a} }
	// ---- first statement: the hot account backs two parts of the funding
	first := Stmt{Kind: StSend, Asset: asset}
	want := int64(rapid.IntRange(0, 12).Draw(t, "firstAmount"))
	first.Mon = mon(want)
	switch rapid.IntRange(0, 2).Draw(t, "shape") {
	case 0:
		// { max [m] from hot   other   hot }
		m := int64(rapid.IntRange(1, 20).Draw(t, "max"))
		first.Src = &Source{Kind: SrcInOrder, Subs: []*Source{
			{Kind: SrcMaxed, Max: mon(m), Sub: accSrc(hotRef("maxedRef"))}, accSrc(lit(other)), accSrc(hotRef("secondRef"))}}
		p.Features["repay:max-then-again"] = true
	case 1:
		// { $v   other   @hot } with $v = hot
		first.Src = &Source{Kind: SrcInOrder, Subs: []*Source{
			accSrc(Acc{Text: g.newVar("account", hot, ""), Addr: hot}), accSrc(lit(other)), accSrc(lit(hot))}}
		p.Features["repay:variable-equals-literal"] = true
	default:
		// allotment naming the hot account in two lines
		first.SrcAllot = &SourceAllotment{
			Portions: []Portion{{Text: "1/3", Rat: big.NewRat(1, 3)}, {Text: "1/3", Rat: big.NewRat(1, 3)}, {Text: "remaining", Rat: big.NewRat(1, 3), Remaining: true}},
			Sources:  []*Source{accSrc(hotRef("allotRef1")), accSrc(lit(other)), accSrc(hotRef("allotRef2"))}}
		p.Features["repay:allotment-twice"] = true
	}
	if rapid.IntRange(0, 2).Draw(t, "keptDest") == 0 {
		// part of what was sent is kept: given back to where it came from at the end of the statement
		k := int64(rapid.IntRange(0, 6).Draw(t, "destMax"))
		first.Dst = &Dest{Kind: DstInOrder, Maxes: []Mon{mon(k)}, Clauses: []KeptOrDest{{D: &Dest{Kind: DstAccount, Acc: lit("c")}}}, Remaining: KeptOrDest{Kept: true}}
		p.Features["dst:kept"] = true
	} else {
		first.Dst = &Dest{Kind: DstAccount, Acc: lit("c")}
	}
	p.Stmts = append(p.Stmts, first)
	// ---- then the hot account is drawn on again, for everything or for an amount around what it has left
	for i, n := 0, rapid.IntRange(1, 2).Draw(t, "followUps"); i < n; i++ {
		st := Stmt{Kind: StSend, Asset: asset, Dst: &Dest{Kind: DstAccount, Acc: lit(fmt.Sprintf("d:%d", i))}}
		if rapid.IntRange(0, 2).Draw(t, "all") == 0 {
			st.All = true
			st.AssetText = asset
			p.Features["send:all"] = true
		} else {
			st.Mon = mon(int64(rapid.IntRange(1, int(balHot)+15).Draw(t, "followAmount")))
		}
		st.Src = accSrc(hotRef("followRef"))
		if rapid.IntRange(0, 4).Draw(t, "followOverdraft") == 0 {
			st.Src.Overdraft = OdBounded
			st.Src.Bound = mon(int64(rapid.IntRange(0, 10).Draw(t, "followBound")))
		}
		p.Stmts = append(p.Stmts, st)
	}
	return p
}

// GenOverdraftProgram draws scripts in which one account that is already in debt (or gets there in the first
// statement) is named by several statements with different overdraft allowances, usually next to a funded fallback
// source so that a statement which can take nothing from it still succeeds - what the account may spend later must
// not depend on an earlier statement having looked at it.
func GenOverdraftProgram(t *rapid.T) *Program {
	p := &Program{Vars: map[string]string{}, Balances: map[string]map[string]*big.Int{}, Meta: map[string]map[string]string{}, Features: map[string]bool{"focused:overdraft": true}}
	g := &genState{t: t, o: Opts{MaxStmts: 4, MaxDepth: 2}, p: p, noArith: true}
	asset := rapid.SampledFrom([]string{"USD/2", "COIN"}).Draw(t, "asset")
	hot := rapid.SampledFrom([]string{"a", "u:1"}).Draw(t, "hot")
	for _, a := range srcAccounts {
		p.Balances[a] = map[string]*big.Int{}
	}
	switch rapid.IntRange(0, 2).Draw(t, "hotStart") {
	case 0:
		p.Balances[hot][asset] = big.NewInt(-int64(rapid.IntRange(1, 150).Draw(t, "debt")))
		p.Features["balance:negative"] = true
	case 1:
		p.Balances[hot][asset] = big.NewInt(int64(rapid.IntRange(0, 30).Draw(t, "hotBalance")))
	}
	p.Balances["bank"][asset] = big.NewInt(int64(rapid.IntRange(0, 200).Draw(t, "fallbackBalance")))
	lit := func(a string) Acc { return Acc{Text: "@" + a, Addr: a} }
	mon := func(v int64) Mon {
		return Mon{Text: fmt.Sprintf("[%s %d]", asset, v), Asset: asset, Amount: big.NewInt(v)}
	}
	hotSrc := func(label string) *Source {
		s := &Source{Kind: SrcAccount, Acc: lit(hot)}
		if rapid.IntRange(0, 4).Draw(t, label+"Var") == 0 {
			s.Acc = Acc{Text: g.newVar("account", hot, ""), Addr: hot}
		}
		switch rapid.IntRange(0, 3).Draw(t, label+"Overdraft") {
		case 0:
		default:
			s.Overdraft = OdBounded
			s.Bound = mon(int64(rapid.SampledFrom([]int{0, 5, 20, 50, 100, 200}).Draw(t, label+"Bound")))
			p.Features["src:bounded-overdraft"] = true
		}
		return s
	}
	for i, n := 0, rapid.IntRange(2, 4).Draw(t, "statements"); i < n; i++ {
		st := Stmt{Kind: StSend, Asset: asset, Dst: &Dest{Kind: DstAccount, Acc: lit(fmt.Sprintf("d:%d", i))}}
		if rapid.IntRange(0, 5).Draw(t, "all") == 0 {
			st.All = true
			st.AssetText = asset
		} else {
			st.Mon = mon(int64(rapid.IntRange(0, 80).Draw(t, "amount")))
		}
		switch rapid.IntRange(0, 3).Draw(t, "sourceShape") {
		case 0:
			st.Src = hotSrc("alone")
		case 1:
			st.Src = &Source{Kind: SrcInOrder, Subs: []*Source{hotSrc("first"), {Kind: SrcAccount, Acc: lit("bank")}}}
		case 2:
			st.Src = &Source{Kind: SrcInOrder, Subs: []*Source{{Kind: SrcAccount, Acc: lit("bank")}, hotSrc("second")}}
		default:
			st.Src = &Source{Kind: SrcInOrder, Subs: []*Source{{Kind: SrcMaxed, Max: mon(int64(rapid.IntRange(0, 30).Draw(t, "max"))), Sub: hotSrc("maxed")}, {Kind: SrcAccount, Acc: lit("bank")}}}
		}
		p.Stmts = append(p.Stmts, st)
	}
	// a `save` on the hot account somewhere in the script (a third of the programs): what is put aside is out of
	// reach of the later sends, and putting aside never makes room for more overdraft
	if rapid.IntRange(0, 2).Draw(t, "withSave") == 0 {
		sv := Stmt{Kind: StSave, Asset: asset, Acc: lit(hot)}
		switch rapid.IntRange(0, 3).Draw(t, "saveShape") {
		case 0:
			sv.All = true
			sv.AssetText = asset
		case 1:
			v := int64(rapid.IntRange(0, 60).Draw(t, "saved"))
			sv.Mon = Mon{Text: g.newVar("monetary", fmt.Sprintf("%s %d", asset, v), ""), Asset: asset, Amount: big.NewInt(v)}
		default:
			sv.Mon = mon(int64(rapid.IntRange(0, 60).Draw(t, "saved")))
		}
		at := rapid.IntRange(0, len(p.Stmts)-1).Draw(t, "saveAt")
		p.Stmts = append(p.Stmts[:at:at], append([]Stmt{sv}, p.Stmts[at:]...)...)
		p.Features["stmt:save"] = true
	}
	return p
}
