package e1

import (
	"context"
	"errors"
	"fmt"
	"math/big"
	"sync"
	"testing"

	"pgregory.net/rapid"

	ledger "github.com/formancehq/ledger/internal"
	"github.com/formancehq/ledger/internal/api/bulking"
	ledgercontroller "github.com/formancehq/ledger/internal/controller/ledger"
	"github.com/formancehq/ledger/internal/machine"
	"github.com/formancehq/ledger/verifharness/stats"
)

const ruleC25Shared = "postings requests through ONE compiled-script cache, as the service wires it (CachedParser in front of the machine parser, capacity 1, 2 or 1024): 2-6 requests of 1-4 postings each over one starting state (pairs that differ only by force, by one posting or by their amounts share the names of their variables) go through ToCore -> TxToScriptData -> CachedParser.Parse -> Execute, first one after the other (each twice, in a drawn order), then from 8 goroutines at once for 25 rounds (the Go scheduler draws the interleaving); every execution must record exactly the postings of its own request, or fail with insufficient funds exactly when the reference says so - whatever the other requests are; non-trivial = >= 2 requests with different scripts but the same variable names; distinct = by requests + balances"

type c25Req struct {
	ps     ledger.Postings
	force  bool
	script string
	vars   map[string]string
	want   bool // insufficient funds expected
}

func c25Outcome(parser ledgercontroller.NumscriptParser, r *c25Req, bal map[string]map[string]*big.Int) string {
	runtime, err := parser.Parse(r.script)
	if err != nil {
		return fmt.Sprintf("the generated script does not compile: %v", err)
	}
	vars := map[string]string{}
	for k, v := range r.vars {
		vars[k] = v
	}
	p := &Program{Vars: r.vars, Balances: bal, Meta: map[string]map[string]string{}, Features: map[string]bool{}}
	res, err := runtime.Execute(context.Background(), &progStore{p: p}, vars)
	switch {
	case err != nil && errors.Is(err, &machine.ErrInsufficientFund{}):
		if !r.want {
			return fmt.Sprintf("insufficient funds although applying the postings in order never takes a source below zero (force=%v): %v", r.force, err)
		}
	case err != nil:
		return fmt.Sprintf("unexpected error: %v", err)
	default:
		if r.want {
			return "accepted although applying the postings in order takes a non-world source below zero; recorded " + postingsJSON(res.Postings)
		}
		if len(res.Postings) != len(r.ps) {
			return fmt.Sprintf("%d postings recorded for %d submitted: %s", len(res.Postings), len(r.ps), postingsJSON(res.Postings))
		}
		for i := range r.ps {
			a, b := r.ps[i], res.Postings[i]
			if a.Source != b.Source || a.Destination != b.Destination || a.Asset != b.Asset || a.Amount.Cmp(b.Amount) != 0 {
				return "recorded differently: " + postingsJSON(res.Postings)
			}
		}
	}
	return ""
}

func TestC25SharedParser(t *testing.T) {
	st := stats.New("C25", "exploration", ruleC25Shared, "the concurrent half runs under the Go scheduler: its interleavings are not drawn by the library and a failure there is reported with the requests but cannot be replayed from the seed")
	defer st.Write(t)
	n := stats.N(400, 3000)
	st.Set("requested_checks_shared_parser", n)
	stats.Check(t, n, 2525, func(rt *rapid.T) {
		var base ledger.Postings
		var bal map[string]map[string]*big.Int
		if rapid.Bool().Draw(rt, "focused") {
			base, bal = genFocused(rt)
		} else {
			base = genPostings(rt, 4)
			bal = genBalances(rt)
		}
		if len(base) > 4 {
			base = base[:4]
		}
		k := rapid.IntRange(2, 6).Draw(rt, "requests")
		reqs := make([]*c25Req, 0, k)
		for i := 0; i < k; i++ {
			ps := append(ledger.Postings{}, base...)
			force := false
			switch rapid.IntRange(0, 5).Draw(rt, "variation") {
			case 0: // same postings, forced
				force = true
			case 1: // one posting less / more
				if len(ps) > 1 && rapid.Bool().Draw(rt, "drop") {
					ps = ps[:len(ps)-1]
				} else {
					ps = append(ps, genPostings(rt, 1)...)
				}
			case 2: // reversed
				for a, b := 0, len(ps)-1; a < b; a, b = a+1, b-1 {
					ps[a], ps[b] = ps[b], ps[a]
				}
			case 3: // other amounts, same shape
				for j := range ps {
					q := ps[j]
					ps[j] = ledger.NewPosting(q.Source, q.Destination, q.Asset, big.NewInt(int64(rapid.IntRange(0, 9).Draw(rt, "amount"))))
				}
			case 4: // something else entirely
				ps = genPostings(rt, 4)
				force = rapid.Bool().Draw(rt, "force")
			}
			core, err := bulking.TransactionRequest{Postings: ps, Force: force}.ToCore()
			if err != nil {
				rt.Fatalf("C25: valid postings rejected by ToCore: %v (%v)", err, ps)
			}
			want, _ := refPostingsOutcome(ps, bal, force)
			reqs = append(reqs, &c25Req{ps: ps, force: force, script: core.Plain, vars: core.Vars, want: want})
		}
		capacity := rapid.SampledFrom([]uint{1, 2, 1024}).Draw(rt, "cacheCapacity")
		parser := ledgercontroller.NewCachedNumscriptParser(ledgercontroller.NewDefaultNumscriptParser(), ledgercontroller.CacheConfiguration{MaxCount: capacity})
		describe := func() string {
			s := ""
			for i, r := range reqs {
				s += fmt.Sprintf("  request %d (force=%v): %s\n", i, r.force, postingsJSON(r.ps))
			}
			return s + fmt.Sprintf("  balances: %v; cache capacity %d", (&Program{Balances: bal}).Describe()["balances"], capacity)
		}
		// one after the other
		order := rapid.Permutation(append(seq(k), seq(k)...)).Draw(rt, "order")
		for _, i := range order {
			if msg := c25Outcome(parser, reqs[i], bal); msg != "" {
				rt.Fatalf("C25: request %d, sent after others through the same script cache: %s\n%s", i, msg, describe())
			}
		}
		// all at once
		var wg sync.WaitGroup
		var mu sync.Mutex
		first := ""
		for g := 0; g < 8; g++ {
			wg.Add(1)
			go func(g int) {
				defer wg.Done()
				for round := 0; round < 25; round++ {
					for j := 0; j < k; j++ {
						i := (g + j + round) % k
						if msg := c25Outcome(parser, reqs[i], bal); msg != "" {
							mu.Lock()
							if first == "" {
								first = fmt.Sprintf("request %d, sent while the others were being sent through the same script cache (goroutine %d, round %d): %s", i, g, round, msg)
							}
							mu.Unlock()
							return
						}
					}
				}
			}(g)
		}
		wg.Wait()
		if first != "" {
			rt.Fatalf("C25: %s\n%s", first, describe())
		}
		scripts, sameVars := map[string]bool{}, false
		for i, a := range reqs {
			scripts[a.script] = true
			for _, b := range reqs[:i] {
				if a.script != b.script && len(a.vars) == len(b.vars) {
					sameVars = true
				}
			}
		}
		st.Case(describe(), sameVars, func() any {
			return map[string]any{"requests": describe(), "distinct_scripts": len(scripts)}
		}, fmt.Sprintf("distinct-scripts:%d", len(scripts)), fmt.Sprintf("cache-capacity:%d", capacity), fmt.Sprintf("same-variable-names:%v", sameVars))
		st.Add("completed_checks_shared_parser", 1)
		st.Add("concurrent_executions", 8*25*k)
	})
}

func seq(n int) []int {
	out := make([]int, n)
	for i := range out {
		out[i] = i
	}
	return out
}
