package e1

import (
	"context"
	"encoding/json"
	"fmt"
	"math/big"
	"regexp"
	"strings"
	"testing"
	"time"

	"pgregory.net/rapid"

	ledgercontroller "github.com/formancehq/ledger/internal/controller/ledger"
	"github.com/formancehq/ledger/internal/machine/script/compiler"
	"github.com/formancehq/ledger/verifharness/stats"
)

var tokenRe = regexp.MustCompile(`\s+|[A-Za-z_$@][A-Za-z0-9_:$/.-]*|[0-9]+(?:[./][0-9]+)?%?|"[^"\n]*"|.`)

var hostileTokens = []string{
	"@world", "$x", "$va0", "$vm1", "[", "]", "*", "kept", "remaining", "1/0", "0/0", "3/2", "max", "{", "}", "(", ")", "-", "+", "100%", "101%", "0%",
	"allowing unbounded overdraft", "allowing overdraft up to", "balance(@a, USD/2)", `meta(@a, "k")`, "999999999999999999999999999999999999999", "send", "save", "from", "to", "source", "destination", "=",
	"vars", "monetary", "account", "portion", "number", "string", "asset", "fail", "print", "set_tx_meta", "set_account_meta", `"`, "\n", "//", "/*", "*/", "\x00", "é", "[USD/2 -1]", "[A/ 1]", "@a:", "@:a", "USD/2",
}

var hostileVarValues = []string{
	"", "abc", "USD/2 -5", "USD/2 5", "USD/2", " 5", "1/0", "0/0", "150%", "-1", "1e3", "☃", "world", "a:b:", "USD/2 1e3", "USD/2 99999999999999999999999999999", "null", "{}", "[]", "a b c", "EUR 0", "1/3", "50%", "42",
}

type c27Outcome struct {
	Stage string // parse-error | exec-error | ok
	Panic any
	Err   error
}

// runAny feeds arbitrary text/vars/balances through the production path:
// DefaultNumscriptParser.Parse then MachineNumscriptRuntimeAdapter.Execute.
func runAny(script string, vars map[string]string, store *progStore) (o c27Outcome, partial bool) {
	defer func() {
		if e := recover(); e != nil {
			o.Panic = e
		}
	}()
	rt, err := ledgercontroller.NewDefaultNumscriptParser().Parse(script)
	if err != nil {
		return c27Outcome{Stage: "parse-error", Err: err}, false
	}
	res, err := rt.Execute(context.Background(), store, vars)
	if err != nil {
		return c27Outcome{Stage: "exec-error", Err: err}, res != nil
	}
	return c27Outcome{Stage: "ok"}, false
}

// withWatchdog runs f and reports whether it finished within the budget. The
// budget is five orders of magnitude above a normal run of these tiny inputs.
func withWatchdog(f func()) bool {
	done := make(chan struct{})
	go func() {
		defer close(done)
		f()
	}()
	select {
	case <-done:
		return true
	case <-time.After(90 * time.Second):
		return false
	}
}

func mutate(t *rapid.T, src string) (string, int) {
	toks := tokenRe.FindAllString(src, -1)
	n := rapid.IntRange(0, 4).Draw(t, "nMutations")
	for i := 0; i < n && len(toks) > 0; i++ {
		pos := rapid.IntRange(0, len(toks)-1).Draw(t, "mutPos")
		switch rapid.IntRange(0, 4).Draw(t, "mutKind") {
		case 0: // delete
			toks = append(toks[:pos], toks[pos+1:]...)
		case 1: // duplicate
			toks = append(toks[:pos+1], toks[pos:]...)
		case 2: // swap
			other := rapid.IntRange(0, len(toks)-1).Draw(t, "mutOther")
			toks[pos], toks[other] = toks[other], toks[pos]
		case 3: // replace with a hostile token
			toks[pos] = rapid.SampledFrom(hostileTokens).Draw(t, "hostile")
		case 4: // insert a hostile token
			toks = append(toks[:pos+1], toks[pos:]...)
			toks[pos] = " " + rapid.SampledFrom(hostileTokens).Draw(t, "hostileIns") + " "
		}
	}
	return strings.Join(toks, ""), n
}

const ruleC27 = "an exhaustive matrix of the 6 variable types x 37 hostile values on scripts that use the variable; then valid generated programs with 0-4 token-level mutations (delete/duplicate/swap/replace/insert hostile tokens), variable maps with missing/extra/ill-typed values, arbitrary (negative, huge, absent) balances and metadata, plus raw byte strings through Compile; run through DefaultNumscriptParser.Parse + MachineNumscriptRuntimeAdapter.Execute; non-trivial = the (possibly mutated) input still compiles; distinct = by final script text + vars"

func checkC27(rt *rapid.T, st *stats.Collector, script string, vars map[string]string, p *Program, classes []string) {
	store := &progStore{p: p}
	var o c27Outcome
	var partial bool
	varsCopy := map[string]string{}
	for k, v := range vars {
		varsCopy[k] = v
	}
	if !withWatchdog(func() { o, partial = runAny(script, varsCopy, store) }) {
		rt.Fatalf("C27: compiling/running did not return within the budget (hang)\nvars: %v\n%s", vars, script)
	}
	if o.Panic != nil {
		rt.Fatalf("C27: panic: %v\nvars: %v\nbalances: %v\nscript:\n%s", o.Panic, vars, p.Describe()["balances"], script)
	}
	if partial {
		rt.Fatalf("C27: runtime error %v returned together with a non-nil result\n%s", o.Err, script)
	}
	classes = append(classes, "outcome:"+o.Stage)
	key, _ := json.Marshal([]any{script, vars})
	st.Case(string(key), o.Stage != "parse-error", func() any {
		return map[string]any{"script": script, "vars": vars, "outcome": o.Stage}
	}, classes...)
}

func TestC27(t *testing.T) {
	st := stats.New("C27", "exploration", ruleC27,
		"a single case that does not return within 90 s of wall time counts as a hang; normal cases take well under a millisecond")
	defer st.Write(t)
	// exhaustive small matrix first: every variable type x every hostile value, on a script that uses the variable
	typed := map[string]string{
		"account":  "vars {\n account $x\n}\nsend [USD/2 1] (\n source = @world\n destination = $x\n)",
		"asset":    "vars {\n asset $x\n}\nsend [$x 1] (\n source = @world\n destination = @a\n)",
		"number":   "vars {\n number $x\n}\nsend [USD/2 1] (\n source = @world\n destination = @a\n)\nset_tx_meta(\"n\", $x)",
		"string":   "vars {\n string $x\n}\nsend [USD/2 1] (\n source = @world\n destination = @a\n)\nset_tx_meta(\"s\", $x)",
		"monetary": "vars {\n monetary $x\n}\nsend $x (\n source = @world\n destination = @a\n)",
		"portion":  "vars {\n portion $x\n}\nsend [USD/2 10] (\n source = @world\n destination = {\n  $x to @a\n  remaining to @b\n }\n)",
	}
	matrix := 0
	for typ, script := range typed {
		for _, val := range append(append([]string{}, hostileVarValues...), "true", "false", "0", "00", "1/1", "-0", "+1", " ", "\t", "USD/2 null", "null null", "@a", "$x") {
			p := &Program{Balances: map[string]map[string]*big.Int{}, Meta: map[string]map[string]string{}, Features: map[string]bool{}}
			o, partial := runAny(script, map[string]string{"x": val}, &progStore{p: p})
			if o.Panic != nil {
				t.Fatalf("C27: a %s variable given the value %q makes the runtime panic: %v\nscript:\n%s", typ, val, o.Panic, script)
			}
			if partial {
				t.Fatalf("C27: a %s variable given the value %q: a result is returned together with an error (%v)", typ, val, o.Err)
			}
			matrix++
		}
	}
	st.Set("typed_variable_matrix", matrix)
	n := stats.N(10000, 60000)
	st.Set("requested_checks", n)
	stats.Check(t, n, 27, func(rt *rapid.T) {
		p := GenProgram(rt, Opts{MaxStmts: 3, MaxDepth: 3, BigAmount: true})
		script, nm := mutate(rt, p.Render(len(p.Stmts)))
		vars := p.CopyVars()
		classes := []string{fmt.Sprintf("mutations:%d", nm)}
		// variable confusion
		switch rapid.IntRange(0, 5).Draw(rt, "varConfusion") {
		case 0:
			for k := range vars {
				if rapid.Bool().Draw(rt, "dropVar") {
					delete(vars, k)
					classes = append(classes, "var-missing")
					break
				}
			}
		case 1:
			vars["extra"] = rapid.SampledFrom(hostileVarValues).Draw(rt, "extraVal")
			classes = append(classes, "var-extra")
		case 2, 3:
			names := make([]string, 0, len(vars))
			for k := range vars {
				names = append(names, k)
			}
			if len(names) > 0 {
				sortStrings(names)
				k := rapid.SampledFrom(names).Draw(rt, "confusedVar")
				vars[k] = rapid.SampledFrom(hostileVarValues).Draw(rt, "confusedVal")
				classes = append(classes, "var-illtyped")
			}
		}
		// hostile balances: overwrite a few with extreme values
		if rapid.Bool().Draw(rt, "hostileBalances") {
			for _, a := range srcAccounts {
				if rapid.IntRange(0, 2).Draw(rt, "hb") == 0 {
					v := new(big.Int).Neg(new(big.Int).Exp(big.NewInt(10), big.NewInt(40), nil))
					if rapid.Bool().Draw(rt, "hbSign") {
						v.Neg(v)
					}
					if p.Balances[a] == nil {
						p.Balances[a] = map[string]*big.Int{}
					}
					p.Balances[a][rapid.SampledFrom([]string{"USD/2", "EUR", "COIN/6"}).Draw(rt, "hbAsset")] = v
				}
			}
			classes = append(classes, "hostile-balances")
		}
		// hostile metadata values for meta() origins
		if rapid.IntRange(0, 3).Draw(rt, "hostileMeta") == 0 {
			for holder, m := range p.Meta {
				for k := range m {
					p.Meta[holder][k] = rapid.SampledFrom(hostileVarValues).Draw(rt, "metaVal")
				}
			}
			classes = append(classes, "hostile-meta")
		}
		checkC27(rt, st, script, vars, p, classes)
		st.Add("completed_checks", 1)
	})

	// raw bytes through the compiler only
	nb := stats.N(2000, 20000)
	stats.Check(t, nb, 127, func(rt *rapid.T) {
		var src string
		if rapid.Bool().Draw(rt, "ascii") {
			src = rapid.StringOfN(rapid.RuneFrom([]rune("sendsourcedestination=@$[](){}\n \t*/%0123456789abcUSDmaxfromtokeptremaining\"-+:_")), 0, 200, -1).Draw(rt, "src")
		} else {
			src = string(rapid.SliceOfN(rapid.Byte(), 0, 200).Draw(rt, "bytes"))
		}
		var pan any
		ok := withWatchdog(func() {
			defer func() { pan = recover() }()
			_, _ = compiler.Compile(src)
		})
		if !ok {
			rt.Fatalf("C27: Compile did not return within the budget for %q", src)
		}
		if pan != nil {
			rt.Fatalf("C27: Compile panicked on %q: %v", src, pan)
		}
		st.Class("raw-bytes")
	})
}

func sortStrings(s []string) {
	for i := 1; i < len(s); i++ {
		for j := i; j > 0 && s[j] < s[j-1]; j-- {
			s[j], s[j-1] = s[j-1], s[j]
		}
	}
}

// FuzzCompileRun is the coverage-guided target of the thorough tier.
func FuzzCompileRun(f *testing.F) {
	seedPrograms := []string{
		"send [USD/2 100] (\n\tsource = @world\n\tdestination = @a\n)\n",
		"vars {\n\taccount $a\n\tmonetary $m = balance($a, USD/2)\n}\nsend $m (\n\tsource = $a\n\tdestination = {\n\t\t1/2 to @b\n\t\tremaining kept\n\t}\n)\n",
		"send [EUR *] (\n\tsource = {\n\t\tmax [EUR 5] from @a\n\t\t@b allowing overdraft up to [EUR 10]\n\t}\n\tdestination = {\n\t\tmax [EUR 1] to @x\n\t\tremaining to @y\n\t}\n)\nsave [EUR 1] from @a\nset_tx_meta(\"k\", 42)\n",
		"vars {\n\tportion $p\n}\nsend [COIN/6 7] (\n\tsource = {\n\t\t$p from @a\n\t\tremaining from @world\n\t}\n\tdestination = @z\n)\nset_account_meta(@z, \"k\", [EUR 1])\n",
	}
	for _, s := range seedPrograms {
		f.Add(s, `{"a":"a","p":"1/3"}`, int64(1))
	}
	for _, h := range hostileTokens {
		f.Add(seedPrograms[0]+h, `{"a":"`+h+`"}`, int64(-5))
	}
	f.Fuzz(func(t *testing.T, script, varsJSON string, balSeed int64) {
		if len(script) > 4096 {
			return
		}
		vars := map[string]string{}
		_ = json.Unmarshal([]byte(varsJSON), &vars)
		p := &Program{Vars: vars, Balances: map[string]map[string]*big.Int{}, Meta: map[string]map[string]string{}, Features: map[string]bool{}}
		for i, a := range []string{"a", "b", "a:b", "u:1", "bank"} {
			p.Balances[a] = map[string]*big.Int{"USD/2": big.NewInt(balSeed * int64(i+1)), "EUR": big.NewInt(balSeed >> uint(i)), "COIN/6": big.NewInt(-balSeed)}
			p.Meta[a] = map[string]string{"k": varsJSON}
		}
		o, partial := runAny(script, vars, &progStore{p: p})
		if o.Panic != nil {
			t.Fatalf("C27: panic: %v", o.Panic)
		}
		if partial {
			t.Fatalf("C27: error with partial result")
		}
	})
}
