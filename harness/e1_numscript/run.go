package e1

import (
	"context"
	"fmt"
	"math/big"
	"strings"

	"github.com/formancehq/go-libs/v5/pkg/query"
	"github.com/formancehq/go-libs/v5/pkg/storage/bun/paginate"
	"github.com/formancehq/go-libs/v5/pkg/types/metadata"

	ledger "github.com/formancehq/ledger/internal"
	ledgercontroller "github.com/formancehq/ledger/internal/controller/ledger"
	"github.com/formancehq/ledger/internal/machine"
	"github.com/formancehq/ledger/internal/machine/script/compiler"
	"github.com/formancehq/ledger/internal/machine/vm"
	"github.com/formancehq/ledger/internal/storage/common"
	ledgerstore "github.com/formancehq/ledger/internal/storage/ledger"
)

// progStore serves the balances and account metadata a generated program was
// drawn with, through both store interfaces the runtimes use.
type progStore struct {
	ledgercontroller.Store // nil: only the two read methods below are reached
	p                      *Program
	balanceQueries         int
	queried                map[string]bool // account\x00asset pairs the runtime asked balances for
}

func (s *progStore) GetBalances(_ context.Context, q ledgerstore.BalanceQuery) (ledger.Balances, error) {
	s.balanceQueries++
	ret := ledger.Balances{}
	for acc, assets := range q {
		ret[acc] = map[string]*big.Int{}
		for _, as := range assets {
			if s.queried == nil {
				s.queried = map[string]bool{}
			}
			s.queried[acc+"\x00"+as] = true
			if v, ok := s.p.Balances[acc][as]; ok {
				ret[acc][as] = new(big.Int).Set(v)
			} else {
				ret[acc][as] = new(big.Int)
			}
		}
	}
	return ret, nil
}

func (s *progStore) account(address string) *ledger.Account {
	md := metadata.Metadata{}
	for k, v := range s.p.Meta[address] {
		md[k] = v
	}
	return &ledger.Account{Address: address, Metadata: md}
}

// vm.Store
func (s *progStore) GetAccount(_ context.Context, address string) (*ledger.Account, error) {
	return s.account(address), nil
}

type accountsResource struct{ s *progStore }

func (r accountsResource) GetOne(_ context.Context, q common.ResourceQuery[any]) (*ledger.Account, error) {
	var address string
	if q.Builder != nil {
		_ = q.Builder.Walk(func(_ string, key string, value *any) error {
			if key == "address" {
				address, _ = (*value).(string)
			}
			return nil
		})
	}
	return r.s.account(address), nil
}

func (r accountsResource) Count(context.Context, common.ResourceQuery[any]) (int, error) {
	return 0, nil
}

func (r accountsResource) Paginate(context.Context, common.PaginatedQuery[any]) (*paginate.Cursor[ledger.Account], error) {
	return &paginate.Cursor[ledger.Account]{}, nil
}

func (s *progStore) Accounts() common.PaginatedResource[ledger.Account, any] {
	return accountsResource{s}
}

var _ = query.Match

type vmStore struct{ s *progStore }

func (v vmStore) GetBalances(ctx context.Context, q vm.BalanceQuery) (vm.Balances, error) {
	return v.s.GetBalances(ctx, q)
}

func (v vmStore) GetAccount(ctx context.Context, address string) (*ledger.Account, error) {
	return v.s.GetAccount(ctx, address)
}

// machineRun is the outcome of one direct VM execution.
type machineRun struct {
	Phase    string // compile | vars | resources | balances | execute | ok
	Err      error
	Panic    any
	Postings []vm.Posting
	Machine  *vm.Machine
	Queried  map[string]bool
}

// runMachine compiles and runs the first n statements on the real VM, phase by
// phase (the same sequence MachineNumscriptRuntimeAdapter.Execute performs),
// keeping the machine so that its tracked balances can be inspected.
func runMachine(p *Program, n int) (r machineRun) {
	defer func() {
		if e := recover(); e != nil {
			r.Panic = e
		}
	}()
	r.Phase = "compile"
	prog, err := compiler.Compile(p.Render(n))
	if err != nil {
		r.Err = err
		return r
	}
	m := vm.NewMachine(*prog)
	m.Printer = func(c chan machine.Value) {
		for range c {
		}
	}
	ps := &progStore{p: p}
	st := vmStore{ps}
	defer func() { r.Queried = ps.queried }()
	r.Phase = "vars"
	if err := m.SetVarsFromJSON(p.CopyVars()); err != nil {
		r.Err = err
		return r
	}
	r.Phase = "resources"
	if err := m.ResolveResources(context.Background(), st); err != nil {
		r.Err = err
		return r
	}
	r.Phase = "balances"
	if err := m.ResolveBalances(context.Background(), st); err != nil {
		r.Err = err
		return r
	}
	r.Phase = "execute"
	if err := m.Execute(); err != nil {
		r.Err = err
		r.Machine = m
		return r
	}
	r.Phase = "ok"
	r.Postings = m.Postings
	r.Machine = m
	return r
}

func postingsString(ps []vm.Posting) string {
	var sb strings.Builder
	for _, p := range ps {
		sb.WriteString(fmt.Sprintf("%s->%s %s %s; ", p.Source, p.Destination, p.Amount, p.Asset))
	}
	return sb.String()
}
