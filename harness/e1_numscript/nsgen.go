// Grammar-based Numscript program generator. Programs are built as typed
// ASTs whose leaves carry both their source text (literal or variable) and
// the value the generator knows they resolve to, so that the reference
// evaluator in nsref.go never has to parse or run Numscript itself.
//
// Static rules of the machine compiler are satisfied by construction
// (portions sum to 100% or use `remaining`, unbounded sources only last in an
// in-order block, no account emptied twice in one block, no allotment or
// unbounded source under `send [A *]`, ...), so most programs compile.
package e1

import (
	"fmt"
	"math/big"
	"sort"
	"strings"

	"pgregory.net/rapid"

	"github.com/formancehq/ledger/verifharness/gen"
)

type Acc struct {
	Text string // "@a:b" or "$va0"
	Addr string
}

type Mon struct {
	Text   string // "[USD/2 10]", "$vm0", "[USD/2 5] + $vm1", ...
	Asset  string
	Amount *big.Int // may be negative for a subtraction
}

type Portion struct {
	Text      string // "1/3", "25%", "$p0", "remaining"
	Rat       *big.Rat
	Remaining bool
	Var       bool
}

const (
	SrcAccount = iota
	SrcMaxed
	SrcInOrder
)

const (
	OdNone = iota
	OdBounded
	OdUnbounded
)

type Source struct {
	Kind      int
	Acc       Acc
	Overdraft int
	Bound     Mon
	Max       Mon
	Sub       *Source
	Subs      []*Source
}

type SourceAllotment struct {
	Portions []Portion
	Sources  []*Source
}

const (
	DstAccount = iota
	DstInOrder
	DstAllotment
)

type KeptOrDest struct {
	Kept bool
	D    *Dest
}

type Dest struct {
	Kind      int
	Acc       Acc
	Maxes     []Mon
	Clauses   []KeptOrDest // in-order: one per max; allotment: one per portion
	Remaining KeptOrDest   // in-order only
	Portions  []Portion    // allotment only
}

const (
	StSend = iota
	StSave
	StSetTxMeta
	StSetAccountMeta
)

type Stmt struct {
	Kind      int
	Asset     string // send / save asset
	AssetText string
	All       bool
	Mon       Mon
	Src       *Source
	SrcAllot  *SourceAllotment
	Dst       *Dest
	DestFirst bool
	Acc       Acc    // save / set_account_meta
	Key       string // meta key
	ValText   string // meta value expression text
	ValString string // the value as the machine renders it with NewStringFromValue
}

type VarDecl struct {
	Type   string
	Name   string
	Origin string // "" | `meta(@a, "k")` | `balance(@a, USD/2)`
}

type Program struct {
	Decls    []VarDecl
	Vars     map[string]string // values passed by the caller
	Stmts    []Stmt
	Balances map[string]map[string]*big.Int // initial store balances
	Meta     map[string]map[string]string   // initial store account metadata
	Features map[string]bool
}

// ---------------------------------------------------------------- rendering

func (s *Source) render(sb *strings.Builder, indent string) {
	switch s.Kind {
	case SrcAccount:
		sb.WriteString(s.Acc.Text)
		switch s.Overdraft {
		case OdBounded:
			sb.WriteString(" allowing overdraft up to " + s.Bound.Text)
		case OdUnbounded:
			sb.WriteString(" allowing unbounded overdraft")
		}
	case SrcMaxed:
		sb.WriteString("max " + s.Max.Text + " from ")
		s.Sub.render(sb, indent)
	case SrcInOrder:
		sb.WriteString("{\n")
		for _, sub := range s.Subs {
			sb.WriteString(indent + "\t")
			sub.render(sb, indent+"\t")
			sb.WriteString("\n")
		}
		sb.WriteString(indent + "}")
	}
}

func (k KeptOrDest) render(sb *strings.Builder, indent string) {
	if k.Kept {
		sb.WriteString("kept")
		return
	}
	sb.WriteString("to ")
	k.D.render(sb, indent)
}

func (d *Dest) render(sb *strings.Builder, indent string) {
	switch d.Kind {
	case DstAccount:
		sb.WriteString(d.Acc.Text)
	case DstInOrder:
		sb.WriteString("{\n")
		for i, m := range d.Maxes {
			sb.WriteString(indent + "\tmax " + m.Text + " ")
			d.Clauses[i].render(sb, indent+"\t")
			sb.WriteString("\n")
		}
		sb.WriteString(indent + "\tremaining ")
		d.Remaining.render(sb, indent+"\t")
		sb.WriteString("\n" + indent + "}")
	case DstAllotment:
		sb.WriteString("{\n")
		for i, p := range d.Portions {
			sb.WriteString(indent + "\t" + p.Text + " ")
			d.Clauses[i].render(sb, indent+"\t")
			sb.WriteString("\n")
		}
		sb.WriteString(indent + "}")
	}
}

func (st *Stmt) render(sb *strings.Builder) {
	switch st.Kind {
	case StSend:
		if st.All {
			sb.WriteString("send [" + st.AssetText + " *] (\n")
		} else {
			sb.WriteString("send " + st.Mon.Text + " (\n")
		}
		src := func() {
			sb.WriteString("\tsource = ")
			if st.SrcAllot != nil {
				sb.WriteString("{\n")
				for i, p := range st.SrcAllot.Portions {
					sb.WriteString("\t\t" + p.Text + " from ")
					st.SrcAllot.Sources[i].render(sb, "\t\t")
					sb.WriteString("\n")
				}
				sb.WriteString("\t}")
			} else {
				st.Src.render(sb, "\t")
			}
			sb.WriteString("\n")
		}
		dst := func() {
			sb.WriteString("\tdestination = ")
			st.Dst.render(sb, "\t")
			sb.WriteString("\n")
		}
		if st.DestFirst {
			dst()
			src()
		} else {
			src()
			dst()
		}
		sb.WriteString(")")
	case StSave:
		if st.All {
			sb.WriteString("save [" + st.AssetText + " *] from " + st.Acc.Text)
		} else {
			sb.WriteString("save " + st.Mon.Text + " from " + st.Acc.Text)
		}
	case StSetTxMeta:
		sb.WriteString(fmt.Sprintf("set_tx_meta(%q, %s)", st.Key, st.ValText))
	case StSetAccountMeta:
		sb.WriteString(fmt.Sprintf("set_account_meta(%s, %q, %s)", st.Acc.Text, st.Key, st.ValText))
	}
}

// Render gives the source text of the program restricted to its first n statements.
func (p *Program) Render(n int) string {
	var sb strings.Builder
	if len(p.Decls) > 0 {
		sb.WriteString("vars {\n")
		for _, d := range p.Decls {
			sb.WriteString("\t" + d.Type + " $" + d.Name)
			if d.Origin != "" {
				sb.WriteString(" = " + d.Origin)
			}
			sb.WriteString("\n")
		}
		sb.WriteString("}\n")
	}
	for i := 0; i < n && i < len(p.Stmts); i++ {
		if i > 0 {
			sb.WriteString("\n")
		}
		p.Stmts[i].render(&sb)
	}
	sb.WriteString("\n")
	return sb.String()
}

func (p *Program) CopyVars() map[string]string {
	out := make(map[string]string, len(p.Vars))
	for k, v := range p.Vars {
		out[k] = v
	}
	return out
}

func (p *Program) Describe() map[string]any {
	bal := map[string]string{}
	for a, m := range p.Balances {
		for as, v := range m {
			bal[a+"/"+as] = v.String()
		}
	}
	return map[string]any{"script": p.Render(len(p.Stmts)), "vars": p.Vars, "balances": bal, "meta": p.Meta}
}

// --------------------------------------------------------------- generation

type Opts struct {
	MaxStmts  int
	MaxDepth  int
	BigAmount bool // allow edge amounts (>2^64) in literals
	// Common restricts to the language subset both runtimes implement the same way.
	Common bool
	// EdgeLiterals adds literal assets/accounts at the edge of the lexer rules (C28).
	EdgeLiterals bool
}

type genState struct {
	// noArith suppresses a+b / a-b monetary expressions. `save <a> + <b> from x`
	// only protects <a> on the machine (VisitSaveFromAccount pushes the address
	// of the left operand); no listed property defines what save must protect,
	// so the generator does not go there rather than asserting its own idea.
	noArith bool
	t       *rapid.T
	o       Opts
	p       *Program
	nvar    int
}

func (g *genState) pick(label string, n int) int { return rapid.IntRange(0, n-1).Draw(g.t, label) }

func (g *genState) chance(label string, pct int) bool {
	return rapid.IntRange(0, 99).Draw(g.t, label) < pct
}

func (g *genState) newVar(ty, val, origin string) string {
	name := fmt.Sprintf("v%s%d", ty[:1], g.nvar)
	g.nvar++
	g.p.Decls = append(g.p.Decls, VarDecl{Type: ty, Name: name, Origin: origin})
	if origin == "" {
		g.p.Vars[name] = val
	}
	g.p.Features["var:"+ty] = true
	return "$" + name
}

func (g *genState) amount() *big.Int {
	if g.o.BigAmount {
		return gen.Amount().Draw(g.t, "amount")
	}
	return gen.SmallAmount().Draw(g.t, "amount")
}

var srcAccounts = []string{"a", "a:b", "u:1", "u:2", "bank"}

// account draws an account expression; world is only produced when allowWorld.
func (g *genState) account(label string, allowWorld bool) Acc {
	pool := srcAccounts
	if allowWorld {
		pool = append([]string{"world", "world"}, srcAccounts...)
	}
	addr := rapid.SampledFrom(pool).Draw(g.t, label)
	if addr != "world" {
		switch g.pick(label+"Form", 10) {
		case 0, 1:
			return Acc{Text: g.newVar("account", addr, ""), Addr: addr}
		case 2:
			// account read from the metadata of another account
			holder := rapid.SampledFrom(srcAccounts).Draw(g.t, label+"Holder")
			key := "acc_" + strings.ReplaceAll(addr, ":", "_")
			if g.p.Meta[holder] == nil {
				g.p.Meta[holder] = map[string]string{}
			}
			g.p.Meta[holder][key] = addr
			g.p.Features["origin:meta"] = true
			return Acc{Text: g.newVar("account", "", fmt.Sprintf("meta(@%s, %q)", holder, key)), Addr: addr}
		}
	}
	return Acc{Text: "@" + addr, Addr: addr}
}

func (g *genState) assetText(asset string) string {
	if g.pick("assetForm", 6) == 0 {
		return g.newVar("asset", asset, "")
	}
	return asset
}

// monetary draws a monetary expression in the given asset.
func (g *genState) monetary(label, asset string, amt *big.Int) Mon {
	if amt == nil {
		amt = g.amount()
	}
	lit := func(a *big.Int) string { return "[" + g.assetText(asset) + " " + a.String() + "]" }
	form := g.pick(label+"Form", 12)
	if g.noArith && (form == 2 || form == 3) {
		form = 11
	}
	switch form {
	case 0, 1:
		return Mon{Text: g.newVar("monetary", asset+" "+amt.String(), ""), Asset: asset, Amount: amt}
	case 2:
		// a + b
		if amt.Sign() > 0 {
			a := new(big.Int).Div(amt, big.NewInt(3))
			b := new(big.Int).Sub(amt, a)
			g.p.Features["expr:add"] = true
			return Mon{Text: lit(a) + " + " + lit(b), Asset: asset, Amount: amt}
		}
	case 3:
		// a - b
		b := big.NewInt(int64(g.pick(label+"Sub", 5)))
		a := new(big.Int).Add(amt, b)
		g.p.Features["expr:sub"] = true
		return Mon{Text: lit(a) + " - " + lit(b), Asset: asset, Amount: amt}
	case 4:
		// balance() of some account holding exactly amt, when the store can be arranged so
		holder := rapid.SampledFrom(srcAccounts).Draw(g.t, label+"BalHolder")
		if cur, ok := g.p.Balances[holder][asset]; ok && cur.Sign() >= 0 {
			g.p.Features["origin:balance"] = true
			return Mon{Text: g.newVar("monetary", "", fmt.Sprintf("balance(@%s, %s)", holder, asset)), Asset: asset, Amount: new(big.Int).Set(cur)}
		}
	}
	return Mon{Text: lit(amt), Asset: asset, Amount: amt}
}

var portionPool = []string{"0/1", "1/2", "1/3", "1/4", "1/7", "2/3", "3/4", "10%", "12.5%", "50%", "33%", "0%", "1/1000", "99.9%", "1/9"}

func mustRat(s string) *big.Rat {
	if strings.HasSuffix(s, "%") {
		r, _ := new(big.Rat).SetString(strings.TrimSuffix(s, "%"))
		return r.Mul(r, big.NewRat(1, 100))
	}
	r, _ := new(big.Rat).SetString(s)
	return r
}

// portions draws n portions that the compiler accepts: constants summing to
// exactly 1, or constants (and variables) summing below 1 plus `remaining`.
func (g *genState) portions(n int) []Portion {
	one := big.NewRat(1, 1)
	out := make([]Portion, 0, n)
	if n == 1 {
		if g.chance("singlePortionRemaining", 50) {
			return []Portion{{Text: "remaining", Remaining: true, Rat: big.NewRat(1, 1)}}
		}
		return []Portion{{Text: "100%", Rat: big.NewRat(1, 1)}}
	}
	useRemaining := g.chance("useRemaining", 60)
	total := new(big.Rat)
	constTotal := new(big.Rat)
	for i := 0; i < n-1; i++ {
		txt := rapid.SampledFrom(portionPool).Draw(g.t, "portion")
		r := mustRat(txt)
		if new(big.Rat).Add(total, r).Cmp(one) >= 0 {
			txt, r = "0%", new(big.Rat)
		}
		total.Add(total, r)
		if useRemaining && g.pick("portionVar", 6) == 0 {
			out = append(out, Portion{Text: g.newVar("portion", txt, ""), Rat: r, Var: true})
		} else {
			constTotal.Add(constTotal, r)
			out = append(out, Portion{Text: txt, Rat: r})
		}
	}
	rest := new(big.Rat).Sub(one, total)
	if useRemaining {
		out = append(out, Portion{Text: "remaining", Rat: rest, Remaining: true})
		// remaining may sit anywhere
		k := g.pick("remainingPos", n)
		out[k], out[n-1] = out[n-1], out[k]
	} else {
		out = append(out, Portion{Text: rest.Num().String() + "/" + rest.Denom().String(), Rat: rest})
	}
	return out
}

// source draws a source tree. used collects the account expressions already
// emptied in the enclosing in-order block; allowUnbounded says whether an
// unbounded (or @world) account may appear at this position.
func (g *genState) source(asset string, depth int, used map[string]bool, allowUnbounded bool) *Source {
	kind := SrcAccount
	if depth < g.o.MaxDepth {
		switch g.pick("srcKind", 10) {
		case 0, 1:
			kind = SrcMaxed
		case 2, 3, 4:
			kind = SrcInOrder
		}
	}
	switch kind {
	case SrcMaxed:
		g.p.Features["src:max"] = true
		sub := g.source(asset, depth+1, map[string]bool{}, true)
		return &Source{Kind: SrcMaxed, Max: g.monetary("srcMax", asset, nil), Sub: sub}
	case SrcInOrder:
		g.p.Features["src:inorder"] = true
		n := 1 + g.pick("srcInOrderN", 3)
		s := &Source{Kind: SrcInOrder}
		for i := 0; i < n; i++ {
			s.Subs = append(s.Subs, g.source(asset, depth+1, used, allowUnbounded && i == n-1))
		}
		return s
	}
	var acc Acc
	for tries := 0; ; tries++ {
		acc = g.account("srcAcc", allowUnbounded)
		if !used[acc.Text] || tries > 8 {
			break
		}
	}
	used[acc.Text] = true
	s := &Source{Kind: SrcAccount, Acc: acc}
	if acc.Addr == "world" {
		g.p.Features["src:world"] = true
		return s
	}
	switch g.pick("overdraft", 10) {
	case 0, 1:
		s.Overdraft = OdBounded
		s.Bound = g.monetary("bound", asset, nil)
		g.p.Features["src:bounded-overdraft"] = true
	case 2:
		if allowUnbounded {
			s.Overdraft = OdUnbounded
			g.p.Features["src:unbounded"] = true
		}
	}
	return s
}

func (g *genState) keptOrDest(asset string, depth int, allowKept bool) KeptOrDest {
	if allowKept && g.pick("kept", 5) == 0 {
		g.p.Features["dst:kept"] = true
		return KeptOrDest{Kept: true}
	}
	return KeptOrDest{D: g.dest(asset, depth)}
}

func (g *genState) dest(asset string, depth int) *Dest {
	kind := DstAccount
	if depth < g.o.MaxDepth {
		switch g.pick("dstKind", 10) {
		case 0, 1:
			kind = DstInOrder
		case 2, 3:
			kind = DstAllotment
		}
	}
	switch kind {
	case DstInOrder:
		g.p.Features["dst:inorder"] = true
		n := 1 + g.pick("dstInOrderN", 3)
		d := &Dest{Kind: DstInOrder}
		for i := 0; i < n; i++ {
			d.Maxes = append(d.Maxes, g.monetary("dstMax", asset, nil))
			d.Clauses = append(d.Clauses, g.keptOrDest(asset, depth+1, true))
		}
		d.Remaining = g.keptOrDest(asset, depth+1, true)
		return d
	case DstAllotment:
		g.p.Features["dst:allotment"] = true
		n := 1 + g.pick("dstAllotN", 4)
		d := &Dest{Kind: DstAllotment, Portions: g.portions(n)}
		for i := 0; i < n; i++ {
			d.Clauses = append(d.Clauses, g.keptOrDest(asset, depth+1, true))
		}
		return d
	}
	return &Dest{Kind: DstAccount, Acc: g.account("dstAcc", true)}
}

// EdgeAssets are literals around the boundary between the machine's lexer
// rule ASSET: [A-Z/0-9]+ and the ledger's asset pattern.
var EdgeAssets = []string{"A/", "/", "/2", "1", "2USD", "A//2", "USD/1234567", "ABCDEFGHIJKLMNOPQRS", "USD/", "U/S/D", "USD/2/", "0", "A/B", "USD/0", "A", "AB1/123456", "ABCDEFGHIJKLMNOPQ/6"}

func (g *genState) send() Stmt {
	asset := gen.Asset().Draw(g.t, "sendAsset")
	if g.o.EdgeLiterals && g.pick("edgeAsset", 3) == 0 {
		asset = rapid.SampledFrom(EdgeAssets).Draw(g.t, "edgeAssetLit")
		g.p.Features["edge-asset"] = true
	}
	st := Stmt{Kind: StSend, Asset: asset, DestFirst: g.pick("destFirst", 5) == 0 && !g.o.Common}
	if g.pick("sendAll", 5) == 0 {
		st.All = true
		st.AssetText = g.assetText(asset)
		st.Src = g.source(asset, 0, map[string]bool{}, false)
		g.p.Features["send:all"] = true
	} else {
		st.Mon = g.monetary("sendMon", asset, nil)
		if g.pick("srcAllot", 5) == 0 {
			n := 1 + g.pick("srcAllotN", 3)
			st.SrcAllot = &SourceAllotment{Portions: g.portions(n)}
			for i := 0; i < n; i++ {
				st.SrcAllot.Sources = append(st.SrcAllot.Sources, g.source(asset, 1, map[string]bool{}, true))
			}
			g.p.Features["src:allotment"] = true
		} else {
			st.Src = g.source(asset, 0, map[string]bool{}, true)
		}
	}
	st.Dst = g.dest(asset, 0)
	return st
}

func (g *genState) metaValue() (text, rendered string) {
	switch g.pick("metaValKind", 7) {
	case 6:
		// a number variable (the only place the shared grammar takes one)
		n := g.pick("numVar", 1000)
		return g.newVar("number", fmt.Sprint(n), ""), fmt.Sprint(n)
	case 0:
		return "@a:b", "a:b"
	case 1:
		n := g.pick("metaNum", 1000)
		return fmt.Sprint(n), fmt.Sprint(n)
	case 2:
		return "[EUR 42]", "EUR 42"
	case 3:
		return "USD/2", "USD/2"
	case 4:
		s := rapid.SampledFrom([]string{"hello", "x y", "é∑", "a:b", ""}).Draw(g.t, "metaStr")
		return g.newVar("string", s, ""), s
	}
	s := rapid.SampledFrom([]string{"v1", "some value", "42"}).Draw(g.t, "metaLit")
	return fmt.Sprintf("%q", s), s
}

func (g *genState) stmt() Stmt {
	switch g.pick("stmtKind", 12) {
	case 0:
		asset := gen.Asset().Draw(g.t, "saveAsset")
		st := Stmt{Kind: StSave, Asset: asset, Acc: g.account("saveAcc", false)}
		if g.pick("saveAll", 3) == 0 {
			st.All = true
			st.AssetText = g.assetText(asset)
		} else {
			g.noArith = true
			st.Mon = g.monetary("saveMon", asset, nil)
			g.noArith = false
		}
		g.p.Features["stmt:save"] = true
		return st
	case 1:
		txt, val := g.metaValue()
		g.p.Features["stmt:set_tx_meta"] = true
		return Stmt{Kind: StSetTxMeta, Key: rapid.SampledFrom([]string{"k1", "k2", "note"}).Draw(g.t, "txMetaKey"), ValText: txt, ValString: val}
	case 2:
		txt, val := g.metaValue()
		g.p.Features["stmt:set_account_meta"] = true
		return Stmt{Kind: StSetAccountMeta, Acc: g.account("metaAcc", false), Key: rapid.SampledFrom([]string{"k1", "k2", "role"}).Draw(g.t, "accMetaKey"), ValText: txt, ValString: val}
	}
	return g.send()
}

// GenProgram draws initial balances, then a program over them.
func GenProgram(t *rapid.T, o Opts) *Program {
	p := &Program{Vars: map[string]string{}, Balances: map[string]map[string]*big.Int{}, Meta: map[string]map[string]string{}, Features: map[string]bool{}}
	g := &genState{t: t, o: o, p: p}
	for _, a := range srcAccounts {
		p.Balances[a] = map[string]*big.Int{}
		for _, as := range gen.Assets {
			switch rapid.IntRange(0, 9).Draw(t, "balKind") {
			case 0, 1:
				// absent: never-used account/asset pair
			case 2:
				p.Balances[a][as] = big.NewInt(-int64(rapid.IntRange(1, 200).Draw(t, "negBal")))
				p.Features["balance:negative"] = true
			default:
				p.Balances[a][as] = g.amount()
			}
		}
	}
	n := 1 + rapid.IntRange(0, o.MaxStmts-1).Draw(t, "nStmts")
	hasSend := false
	for i := 0; i < n; i++ {
		st := g.stmt()
		if st.Kind == StSend {
			hasSend = true
		}
		p.Stmts = append(p.Stmts, st)
	}
	if !hasSend {
		p.Stmts = append(p.Stmts, g.send())
	}
	return p
}

// Key canonically identifies the generated case.
func (p *Program) Key() string {
	var sb strings.Builder
	sb.WriteString(p.Render(len(p.Stmts)))
	names := make([]string, 0, len(p.Vars))
	for k := range p.Vars {
		names = append(names, k)
	}
	sort.Strings(names)
	for _, k := range names {
		sb.WriteString(k + "=" + p.Vars[k] + ";")
	}
	for _, a := range srcAccounts {
		for _, as := range gen.Assets {
			if v, ok := p.Balances[a][as]; ok {
				sb.WriteString(a + "/" + as + "=" + v.String() + ";")
			}
		}
	}
	return sb.String()
}

func (p *Program) Nested() bool {
	for _, f := range []string{"src:inorder", "src:max", "src:allotment", "dst:inorder", "dst:allotment"} {
		if p.Features[f] {
			return true
		}
	}
	return false
}

func (p *Program) FeatureList() []string {
	out := make([]string, 0, len(p.Features))
	for f := range p.Features {
		out = append(out, f)
	}
	sort.Strings(out)
	return out
}

func genAmount(t *rapid.T) *big.Int { return gen.Amount().Draw(t, "amount") }

type bigInt = big.Int

func newInt(v int64) *big.Int { return big.NewInt(v) }

// ScriptMeta folds the program's set_tx_meta / set_account_meta statements in order: the metadata a successful run
// of the whole program attaches to the transaction and to accounts (values as the machine runtime renders them).
func (p *Program) ScriptMeta() (tx map[string]string, accounts map[string]map[string]string) {
	tx, accounts = map[string]string{}, map[string]map[string]string{}
	for _, st := range p.Stmts {
		switch st.Kind {
		case StSetTxMeta:
			tx[st.Key] = st.ValString
		case StSetAccountMeta:
			if accounts[st.Acc.Addr] == nil {
				accounts[st.Acc.Addr] = map[string]string{}
			}
			accounts[st.Acc.Addr][st.Key] = st.ValString
		}
	}
	return tx, accounts
}
