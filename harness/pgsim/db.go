package pgsim

import (
	"fmt"
	"hash/fnv"
	"sort"
	"strings"
	"sync"
	"time"
)

// Column of a table. Type is one of: varchar, text, numeric, bigint, int,
// bool, timestamp, timestamptz, jsonb, bytea, volumes, serial.
type Column struct {
	Name    string
	Type    string
	NotNull bool
	Default string // SQL expression text, "" for none
}

type UniqueIndex struct {
	Name    string
	Cols    []string
	Partial string // SQL predicate text over the row ("" = none)
	partial Expr
}

type Trigger struct {
	Name     string
	Timing   string // before | after
	Event    string // insert | update
	Ledger   string // WHEN (new.ledger = '<ledger>')
	Function string
}

type Table struct {
	Schema   string
	Name     string
	Cols     []Column
	colIdx   map[string]int
	Uniques  []UniqueIndex
	Triggers []Trigger
	rows     []*Row
	defaults []Expr
	serial   int64
}

func (t *Table) col(name string) int {
	if i, ok := t.colIdx[name]; ok {
		return i
	}
	return -1
}

type Row struct {
	vals   []Value
	xmin   int64 // creating (sub)transaction
	xmax   int64 // deleting / superseding (sub)transaction, 0 = none
	locker int64 // top-level xid holding a row lock (FOR UPDATE), 0 = none
	seq    int64 // physical insertion order (stands in for ctid / bigserial seq)
	next   *Row  // version that superseded this one (valid while xmax is not aborted)
}

type txStatus uint8

const (
	txInProgress txStatus = iota
	txCommitted
	txAborted
)

type xact struct {
	id     int64
	parent *xact // nil for a top-level transaction
	status txStatus
	top    *xact
	start  time.Time
	// transaction_date() of the top-level transaction (set on first use)
	txDate    *time.Time
	failed    bool // aborted state until rollback (25P02)
	advisory  map[int64]int
	savepoint string
	conn      *connState
	cseq      int64 // commit sequence number of a committed top-level transaction
}

// Hooks let a test own the schedule and inject faults at statement boundaries.
type Hooks struct {
	// BeforeStatement is called, without the database lock, before every
	// statement a connection executes. Returning an error fails the statement.
	BeforeStatement func(connID int64, inTx bool, sql string) error
	// AfterStatement is called after a statement has been executed successfully (effects applied).
	AfterStatement func(connID int64, inTx bool, sql string) error
	// BeforeCommit can fail a COMMIT (the transaction is then rolled back).
	BeforeCommit func(connID int64) error
	// Blocked/Unblocked bracket a lock wait; a cooperative scheduler uses them
	// to run another writer. When Blocked is nil a condition variable is used.
	Blocked   func(connID int64, waitFor int64)
	Unblocked func(connID int64)
	// OnCommit is called under the database lock with the commit sequence number;
	// explicit is true for the COMMIT of a transaction block, false for an autocommitted statement.
	OnCommit func(connID int64, commitSeq int64, explicit bool)
}

// DB is one simulated PostgreSQL cluster.
type DB struct {
	mu   sync.Mutex
	cond *sync.Cond

	tables    map[string]*Table // "schema.table"
	sequences map[string]*int64
	seqCalled map[string]bool
	seqCache  map[string]int64             // CACHE setting of a sequence (absent = 1)
	seqLocal  map[int64]map[string]*[2]int64 // per session: the preallocated values not yet handed out [next, last]
	xacts     map[int64]*xact
	nextXid   int64
	nextConn  int64
	rowSeq    int64
	commitSeq int64

	advisory map[int64]*advisoryLock
	// deadlocks counts the deadlock errors raised so far
	deadlocks int
	waits     map[int64]int64 // top xid -> top xid it waits for

	clock time.Time
	Hooks Hooks

	// Statements counts executed statements by leading keyword (coverage info).
	Statements map[string]int
	// Log, when non-nil, receives every statement text.
	Log func(connID int64, sql string)

	planCache sync.Map // sql text -> []any (parsed statements)
}

type advisoryLock struct {
	owner   int64 // conn id (session lock) or -topxid (transaction lock)
	count   int
	session bool
}

func NewDB() *DB {
	db := &DB{
		tables:     map[string]*Table{},
		sequences:  map[string]*int64{},
		seqCalled:  map[string]bool{},
		seqCache:   map[string]int64{},
		seqLocal:   map[int64]map[string]*[2]int64{},
		xacts:      map[int64]*xact{},
		advisory:   map[int64]*advisoryLock{},
		waits:      map[int64]int64{},
		clock:      time.Date(2024, 1, 1, 0, 0, 0, 0, time.UTC),
		Statements: map[string]int{},
	}
	db.cond = sync.NewCond(&db.mu)
	db.createSystemSchema()
	return db
}

// Now advances and returns the logical clock (strictly increasing, microsecond precision).
func (db *DB) now() time.Time {
	db.clock = db.clock.Add(time.Millisecond)
	return db.clock
}

// AdvanceClock moves the logical clock forward.
func (db *DB) AdvanceClock(d time.Duration) {
	db.mu.Lock()
	defer db.mu.Unlock()
	if d > 0 {
		db.clock = db.clock.Add(d)
	}
}

// Clock reads the logical clock without advancing it.
func (db *DB) Clock() time.Time {
	db.mu.Lock()
	defer db.mu.Unlock()
	return db.clock
}

func (db *DB) addTable(t *Table) {
	t.colIdx = map[string]int{}
	for i, c := range t.Cols {
		t.colIdx[c.Name] = i
	}
	t.defaults = make([]Expr, len(t.Cols))
	for i, c := range t.Cols {
		if c.Default != "" {
			e, err := parseExpr(c.Default)
			if err != nil {
				panic(fmt.Sprintf("bad default %q: %v", c.Default, err))
			}
			t.defaults[i] = e
		}
	}
	for i := range t.Uniques {
		if t.Uniques[i].Partial != "" {
			e, err := parseExpr(t.Uniques[i].Partial)
			if err != nil {
				panic(err)
			}
			t.Uniques[i].partial = e
		}
	}
	db.tables[t.Schema+"."+t.Name] = t
}

func parseExpr(src string) (Expr, error) {
	toks, err := lex(src)
	if err != nil {
		return nil, err
	}
	p := &parser{toks: toks, src: src}
	e, err := p.expr()
	if err != nil {
		return nil, err
	}
	if p.peek().kind != tEOF {
		return nil, p.errHere("trailing input in expression")
	}
	return e, nil
}

func (db *DB) createSystemSchema() {
	db.addTable(&Table{Schema: "_system", Name: "ledgers", Cols: []Column{
		{Name: "id", Type: "serial"},
		{Name: "name", Type: "varchar", NotNull: true},
		{Name: "added_at", Type: "timestamp", Default: "now()"},
		{Name: "bucket", Type: "varchar", NotNull: true},
		{Name: "metadata", Type: "jsonb"},
		{Name: "features", Type: "jsonb"},
		{Name: "state", Type: "varchar", Default: "'initializing'"},
		{Name: "deleted_at", Type: "timestamp"},
	}, Uniques: []UniqueIndex{{Name: "ledgers_pkey", Cols: []string{"name"}}}})
	seq := int64(0)
	db.sequences[`_system.ledgers_id_seq`] = &seq
}

// EnsureBucket creates the tables of a bucket schema (what the bucket
// migrations leave behind at the current schema version) if they are missing.
func (db *DB) EnsureBucket(name string) {
	db.mu.Lock()
	defer db.mu.Unlock()
	db.ensureBucketLocked(name)
}

func (db *DB) ensureBucketLocked(b string) {
	if _, ok := db.tables[b+".transactions"]; ok {
		return
	}
	td := `"` + b + `".transaction_date()`
	db.addTable(&Table{Schema: b, Name: "transactions", Cols: []Column{
		{Name: "ledger", Type: "varchar", NotNull: true},
		{Name: "id", Type: "numeric", NotNull: true},
		{Name: "timestamp", Type: "timestamp", NotNull: true, Default: td},
		{Name: "reference", Type: "varchar"},
		{Name: "reverted_at", Type: "timestamp"},
		{Name: "updated_at", Type: "timestamp"},
		{Name: "postings", Type: "varchar", NotNull: true},
		{Name: "sources", Type: "jsonb", NotNull: true},
		{Name: "destinations", Type: "jsonb", NotNull: true},
		{Name: "sources_arrays", Type: "jsonb", NotNull: true},
		{Name: "destinations_arrays", Type: "jsonb", NotNull: true},
		{Name: "metadata", Type: "jsonb", NotNull: true, Default: `'{}'::jsonb`},
		{Name: "post_commit_volumes", Type: "jsonb"},
		{Name: "inserted_at", Type: "timestamp", Default: td},
		{Name: "template", Type: "text"},
	}, Uniques: []UniqueIndex{
		{Name: "transactions_ledger", Cols: []string{"ledger", "id"}},
		{Name: "transactions_reference", Cols: []string{"ledger", "reference"}, Partial: "reference <> ''"},
	}})
	db.addTable(&Table{Schema: b, Name: "transactions_metadata", Cols: []Column{
		{Name: "seq", Type: "serial"},
		{Name: "ledger", Type: "varchar", NotNull: true},
		{Name: "revision", Type: "numeric", NotNull: true, Default: "0"},
		{Name: "date", Type: "timestamp", NotNull: true},
		{Name: "metadata", Type: "jsonb", NotNull: true, Default: `'{}'::jsonb`},
		{Name: "transactions_id", Type: "bigint"},
	}})
	db.addTable(&Table{Schema: b, Name: "accounts", Cols: []Column{
		{Name: "ledger", Type: "varchar", NotNull: true},
		{Name: "address", Type: "varchar", NotNull: true},
		{Name: "address_array", Type: "jsonb"},
		{Name: "insertion_date", Type: "timestamp", NotNull: true, Default: td},
		{Name: "updated_at", Type: "timestamp", NotNull: true, Default: td},
		{Name: "metadata", Type: "jsonb", NotNull: true, Default: `'{}'::jsonb`},
		{Name: "first_usage", Type: "timestamp", NotNull: true, Default: td},
	}, Uniques: []UniqueIndex{{Name: "accounts_ledger", Cols: []string{"ledger", "address"}}}})
	db.addTable(&Table{Schema: b, Name: "accounts_metadata", Cols: []Column{
		{Name: "seq", Type: "serial"},
		{Name: "ledger", Type: "varchar", NotNull: true},
		{Name: "metadata", Type: "jsonb", NotNull: true, Default: `'{}'::jsonb`},
		{Name: "revision", Type: "numeric", Default: "0"},
		{Name: "date", Type: "timestamp"},
		{Name: "accounts_address", Type: "varchar"},
	}})
	db.addTable(&Table{Schema: b, Name: "accounts_volumes", Cols: []Column{
		{Name: "ledger", Type: "varchar", NotNull: true},
		{Name: "accounts_address", Type: "varchar", NotNull: true},
		{Name: "asset", Type: "varchar", NotNull: true},
		{Name: "input", Type: "numeric", NotNull: true},
		{Name: "output", Type: "numeric", NotNull: true},
	}, Uniques: []UniqueIndex{{Name: "accounts_volumes_pkey", Cols: []string{"ledger", "accounts_address", "asset"}}}})
	db.addTable(&Table{Schema: b, Name: "moves", Cols: []Column{
		{Name: "seq", Type: "serial"},
		{Name: "ledger", Type: "varchar", NotNull: true},
		{Name: "accounts_address", Type: "varchar", NotNull: true},
		{Name: "asset", Type: "varchar", NotNull: true},
		{Name: "amount", Type: "numeric", NotNull: true},
		{Name: "insertion_date", Type: "timestamp", NotNull: true, Default: td},
		{Name: "effective_date", Type: "timestamp", NotNull: true, Default: td},
		{Name: "post_commit_volumes", Type: "volumes"},
		{Name: "post_commit_effective_volumes", Type: "volumes"},
		{Name: "is_source", Type: "bool", NotNull: true},
		{Name: "transactions_id", Type: "bigint"},
	}})
	db.addTable(&Table{Schema: b, Name: "logs", Cols: []Column{
		{Name: "ledger", Type: "varchar", NotNull: true},
		{Name: "id", Type: "numeric", NotNull: true},
		{Name: "type", Type: "log_type", NotNull: true},
		{Name: "hash", Type: "bytea"},
		{Name: "date", Type: "timestamp", NotNull: true, Default: td},
		{Name: "data", Type: "jsonb", NotNull: true},
		{Name: "idempotency_key", Type: "varchar"},
		{Name: "memento", Type: "bytea"},
		{Name: "idempotency_hash", Type: "bytea"},
		{Name: "schema_version", Type: "text"},
	}, Uniques: []UniqueIndex{
		{Name: "logs_ledger", Cols: []string{"ledger", "id"}},
		{Name: "logs_idempotency_key", Cols: []string{"ledger", "idempotency_key"}},
	}})
	db.addTable(&Table{Schema: b, Name: "schemas", Cols: []Column{
		{Name: "ledger", Type: "varchar"},
		{Name: "version", Type: "text", NotNull: true},
		{Name: "created_at", Type: "timestamp", NotNull: true, Default: "now()"},
		{Name: "chart", Type: "jsonb", NotNull: true},
		{Name: "transactions", Type: "jsonb", NotNull: true, Default: `'{}'::jsonb`},
		{Name: "queries", Type: "jsonb", NotNull: true, Default: `'{}'::jsonb`},
	}, Uniques: []UniqueIndex{{Name: "schemas_pkey", Cols: []string{"ledger", "version"}}}})
}

func (db *DB) table(schema, name string) (*Table, error) {
	if schema == "" {
		// unqualified: system schema models (bun uses "_system.ledgers" as a table name)
		if t, ok := db.tables["_system."+name]; ok {
			return t, nil
		}
		return nil, pgErr("42P01", "relation %q does not exist", name)
	}
	if t, ok := db.tables[schema+"."+name]; ok {
		return t, nil
	}
	if schema != "_system" && schema != "public" {
		// bucket schemas are created on first use by the harness; unknown ones are an error
		return nil, pgErr("42P01", "relation %q.%q does not exist", schema, name)
	}
	return nil, pgErr("42P01", "relation %q.%q does not exist", schema, name)
}

// ----------------------------------------------------------- transactions

func (db *DB) newXact(parent *xact, conn *connState) *xact {
	db.nextXid++
	x := &xact{id: db.nextXid, parent: parent, conn: conn}
	if parent != nil {
		x.top = parent.top
	} else {
		x.top = x
		x.start = db.now()
		x.advisory = map[int64]int{}
	}
	db.xacts[x.id] = x
	return x
}

// effectiveStatus resolves the status of a (sub)transaction: a sub-transaction
// is only committed once all its ancestors are.
func (db *DB) effectiveStatus(xid int64) txStatus {
	x := db.xacts[xid]
	for x != nil {
		switch x.status {
		case txAborted:
			return txAborted
		case txInProgress:
			return txInProgress
		}
		x = x.parent
	}
	return txCommitted
}

func (db *DB) topOf(xid int64) int64 {
	if x := db.xacts[xid]; x != nil {
		return x.top.id
	}
	return 0
}

// visible reports whether a row version is visible to a statement run by cur
// (nil = autocommit reader seeing only committed data).
func (db *DB) visible(r *Row, cur *xact) bool {
	curTop := int64(-1)
	if cur != nil {
		curTop = cur.top.id
	}
	mine := func(xid int64) bool {
		return db.topOf(xid) == curTop && db.ownLive(xid)
	}
	if !(db.effectiveStatus(r.xmin) == txCommitted || mine(r.xmin)) {
		return false
	}
	if r.xmax != 0 {
		if db.effectiveStatus(r.xmax) == txCommitted || mine(r.xmax) {
			return false
		}
	}
	return true
}

// committedAt: xid belongs to a transaction that committed no later than the snapshot.
func (db *DB) committedAt(xid int64, snap int64) bool {
	if db.effectiveStatus(xid) != txCommitted {
		return false
	}
	x := db.xacts[xid]
	return x == nil || x.top.cseq <= snap
}

// visibleSnap is READ COMMITTED statement visibility: a row version is seen
// when it was created by a transaction committed before the statement began
// (snap) or by an earlier statement of the current transaction, and not
// deleted likewise. Versions created by the running statement itself (cur)
// are not seen, versions it deleted still are (command-id rule): the main
// query does not see the effects of its own data-modifying CTEs.
func (db *DB) visibleSnap(r *Row, cur *xact, snap int64) bool {
	curTop, curID := int64(-1), int64(-1)
	if cur != nil {
		curTop, curID = cur.top.id, cur.id
	}
	mine := func(xid int64) bool {
		return xid != curID && db.topOf(xid) == curTop && db.ownLive(xid)
	}
	if !(db.committedAt(r.xmin, snap) || mine(r.xmin)) {
		return false
	}
	if r.xmax != 0 && (db.committedAt(r.xmax, snap) || mine(r.xmax)) {
		return false
	}
	return true
}

// ownLive: the sub-transaction xid (belonging to the current top transaction) has not been rolled back.
func (db *DB) ownLive(xid int64) bool {
	x := db.xacts[xid]
	for x != nil {
		if x.status == txAborted {
			return false
		}
		x = x.parent
	}
	return true
}

// lockedByOther returns the top xid of another in-progress transaction that
// has updated/deleted/locked this row version, or 0.
func (db *DB) lockedByOther(r *Row, cur *xact) int64 {
	curTop := int64(-1)
	if cur != nil {
		curTop = cur.top.id
	}
	if r.xmax != 0 && db.effectiveStatus(r.xmax) == txInProgress {
		if t := db.topOf(r.xmax); t != curTop {
			return t
		}
	}
	if r.locker != 0 && r.locker != curTop {
		if x := db.xacts[r.locker]; x != nil && x.status == txInProgress {
			return r.locker
		}
	}
	return 0
}

type errRetry struct{ waitFor int64 }

func (e *errRetry) Error() string { return "pgsim: statement must wait for another transaction" }

// endXact commits or aborts a top-level transaction and wakes waiters.
func (db *DB) endXact(x *xact, commit bool) {
	// savepoints still open when the top-level transaction ends (e.g. the one
	// re-established by ROLLBACK TO SAVEPOINT) end with it
	for _, sub := range db.xacts {
		if sub != x && sub.top == x && sub.status == txInProgress {
			if commit {
				sub.status = txCommitted
			} else {
				sub.status = txAborted
			}
		}
	}
	if commit {
		x.status = txCommitted
		db.commitSeq++
		x.cseq = db.commitSeq
	} else {
		x.status = txAborted
	}
	// release transaction-level advisory locks
	for key, l := range db.advisory {
		if !l.session && l.owner == -x.id {
			delete(db.advisory, key)
		}
	}
	delete(db.waits, x.id)
	db.cond.Broadcast()
}

func (db *DB) abortSub(x *xact) {
	x.status = txAborted
}

// wouldDeadlock reports whether making `from` wait for `to` closes a cycle.
func (db *DB) wouldDeadlock(from, to int64) bool {
	seen := map[int64]bool{}
	for cur := to; cur != 0; cur = db.waits[cur] {
		if cur == from {
			return true
		}
		if seen[cur] {
			return false
		}
		seen[cur] = true
	}
	return false
}

// --------------------------------------------------------------- helpers

func hashText(s string) int64 {
	h := fnv.New32a()
	_, _ = h.Write([]byte(s))
	return int64(int32(h.Sum32()))
}

// Dump renders every visible (committed) row of every table, for snapshots.
func (db *DB) Dump() map[string][]string {
	db.mu.Lock()
	defer db.mu.Unlock()
	out := map[string][]string{}
	for name, t := range db.tables {
		var rows []string
		for _, r := range t.rows {
			if !db.visible(r, nil) {
				continue
			}
			parts := make([]string, len(r.vals))
			for i, v := range r.vals {
				parts[i] = t.Cols[i].Name + "=" + v.String()
			}
			rows = append(rows, strings.Join(parts, " | "))
		}
		sort.Strings(rows)
		out[name] = rows
	}
	return out
}

// Rows returns the committed rows of one table as column->value maps, in insertion order.
func (db *DB) Rows(schema, table string) []map[string]Value {
	db.mu.Lock()
	defer db.mu.Unlock()
	t, ok := db.tables[schema+"."+table]
	if !ok {
		return nil
	}
	var out []map[string]Value
	for _, r := range t.rows {
		if !db.visible(r, nil) {
			continue
		}
		m := map[string]Value{}
		for i, v := range r.vals {
			m[t.Cols[i].Name] = v
		}
		out = append(out, m)
	}
	return out
}

// Sequence returns the current value of a sequence (0 when never used).
func (db *DB) Sequence(name string) int64 {
	db.mu.Lock()
	defer db.mu.Unlock()
	if p, ok := db.sequences[name]; ok {
		return *p
	}
	return 0
}

// CommitSeq is the number of top-level transactions committed so far.
func (db *DB) CommitSeq() int64 {
	db.mu.Lock()
	defer db.mu.Unlock()
	return db.commitSeq
}

// TriggersOn lists the triggers installed on a table (for feature checks).
func (db *DB) TriggersOn(schema, table string) []Trigger {
	db.mu.Lock()
	defer db.mu.Unlock()
	t, ok := db.tables[schema+"."+table]
	if !ok {
		return nil
	}
	return append([]Trigger(nil), t.Triggers...)
}

// XactActive reports whether the top-level transaction xid is still in progress.
func (db *DB) XactActive(xid int64) bool {
	db.mu.Lock()
	defer db.mu.Unlock()
	x, ok := db.xacts[xid]
	return ok && x.top.status == txInProgress
}

// Deadlocks returns how many deadlock errors (40P01) the stand-in has raised so far.
func (db *DB) Deadlocks() int {
	db.mu.Lock()
	defer db.mu.Unlock()
	return db.deadlocks
}

// SessionLockHeld says whether the session a lock wait names (the pseudo id -(1<<40)-conn used for session-level
// advisory locks) still holds a session-level advisory lock.
func (db *DB) SessionLockHeld(waitFor int64) bool {
	db.mu.Lock()
	defer db.mu.Unlock()
	conn := -waitFor - (1 << 40)
	for _, l := range db.advisory {
		if l.session && l.owner == conn && l.count > 0 {
			return true
		}
	}
	return false
}
