package pgsim

import (
	"math/big"
	"strings"
)

type parser struct {
	toks []token
	pos  int
	src  string
}

// ParseStatements splits on top-level semicolons and parses each statement.
func ParseStatements(src string) ([]any, error) {
	toks, err := lex(src)
	if err != nil {
		return nil, err
	}
	p := &parser{toks: toks, src: src}
	var out []any
	for {
		for p.isOp(";") {
			p.pos++
		}
		if p.peek().kind == tEOF {
			break
		}
		st, err := p.statement()
		if err != nil {
			return nil, err
		}
		out = append(out, st)
		if !p.isOp(";") && p.peek().kind != tEOF {
			return nil, p.errHere("unexpected trailing input")
		}
	}
	return out, nil
}

func (p *parser) peek() token { return p.toks[p.pos] }
func (p *parser) peekAt(n int) token {
	if p.pos+n < len(p.toks) {
		return p.toks[p.pos+n]
	}
	return p.toks[len(p.toks)-1]
}
func (p *parser) next() token {
	t := p.toks[p.pos]
	if p.pos < len(p.toks)-1 {
		p.pos++
	}
	return t
}

func (p *parser) errHere(msg string) error {
	t := p.peek()
	near := p.src[t.pos:min(t.pos+40, len(p.src))]
	return unsupported("%s at or near %q in: %s", msg, near, truncate(p.src, 600))
}

func truncate(s string, n int) string {
	s = strings.Join(strings.Fields(s), " ")
	if len(s) > n {
		return s[:n] + "…"
	}
	return s
}

func (p *parser) isKw(kw string) bool {
	t := p.peek()
	return t.kind == tIdent && t.text == kw
}

func (p *parser) isKwAt(n int, kw string) bool {
	t := p.peekAt(n)
	return t.kind == tIdent && t.text == kw
}

func (p *parser) acceptKw(kws ...string) bool {
	for i, kw := range kws {
		if !p.isKwAt(i, kw) {
			return false
		}
	}
	p.pos += len(kws)
	return true
}

func (p *parser) expectKw(kw string) error {
	if !p.acceptKw(kw) {
		return p.errHere("expected " + strings.ToUpper(kw))
	}
	return nil
}

func (p *parser) isOp(op string) bool {
	t := p.peek()
	return t.kind == tOp && t.text == op
}

func (p *parser) acceptOp(op string) bool {
	if p.isOp(op) {
		p.pos++
		return true
	}
	return false
}

func (p *parser) expectOp(op string) error {
	if !p.acceptOp(op) {
		return p.errHere("expected " + op)
	}
	return nil
}

var reserved = map[string]bool{
	"select": true, "from": true, "where": true, "group": true, "order": true, "limit": true, "offset": true, "union": true,
	"join": true, "left": true, "inner": true, "cross": true, "on": true, "as": true, "and": true, "or": true, "not": true,
	"returning": true, "set": true, "values": true, "for": true, "having": true, "with": true, "lateral": true, "when": true,
	"then": true, "else": true, "end": true, "case": true, "is": true, "in": true, "like": true, "between": true, "desc": true,
	"asc": true, "nulls": true, "do": true, "using": true, "right": true, "full": true, "window": true, "fetch": true, "into": true,
	"distinct": true, "conflict": true, "over": true, "ilike": true, "insert": true, "update": true, "delete": true, "default": true,
}

func (p *parser) identifier() (string, error) {
	t := p.peek()
	if t.kind == tQIdent {
		p.pos++
		return t.text, nil
	}
	if t.kind == tIdent {
		p.pos++
		return t.text, nil
	}
	return "", p.errHere("expected identifier")
}

// qualifiedName parses a.b.c into parts.
func (p *parser) qualifiedName() ([]string, error) {
	var parts []string
	for {
		id, err := p.identifier()
		if err != nil {
			return nil, err
		}
		parts = append(parts, id)
		if p.isOp(".") && (p.peekAt(1).kind == tIdent || p.peekAt(1).kind == tQIdent) {
			p.pos++
			continue
		}
		return parts, nil
	}
}

func (p *parser) optAlias() string {
	if p.acceptKw("as") {
		id, _ := p.identifier()
		return id
	}
	t := p.peek()
	if t.kind == tQIdent || (t.kind == tIdent && !reserved[t.text]) {
		p.pos++
		return t.text
	}
	// "values" is accepted by PostgreSQL as a bare alias: (subquery) values
	if t.kind == tIdent && t.text == "values" && !(p.peekAt(1).kind == tOp && p.peekAt(1).text == "(") {
		p.pos++
		return t.text
	}
	return ""
}

// ------------------------------------------------------------- statements

func (p *parser) statement() (any, error) {
	switch {
	case p.isKw("select") || p.isKw("with") || p.isKw("values") || p.isOp("("):
		if p.isKw("with") {
			return p.withStatement()
		}
		return p.selectStmt()
	case p.isKw("insert"):
		return p.insertStmt(nil)
	case p.isKw("update"):
		return p.updateStmt(nil)
	case p.isKw("delete"):
		return p.deleteStmt(nil)
	case p.isKw("begin") || p.acceptKw("start", "transaction"):
		p.skipToEnd()
		return &Misc{Kind: "begin"}, nil
	case p.isKw("commit") || p.isKw("end"):
		p.skipToEnd()
		return &Misc{Kind: "commit"}, nil
	case p.isKw("rollback"):
		p.pos++
		p.acceptKw("transaction")
		if p.acceptKw("to") {
			p.acceptKw("savepoint")
			name, err := p.identifier()
			if err != nil {
				return nil, err
			}
			return &Misc{Kind: "rollback_to", Name: name}, nil
		}
		p.skipToEnd()
		return &Misc{Kind: "rollback"}, nil
	case p.isKw("savepoint"):
		p.pos++
		name, err := p.identifier()
		if err != nil {
			return nil, err
		}
		return &Misc{Kind: "savepoint", Name: name}, nil
	case p.isKw("release"):
		p.pos++
		p.acceptKw("savepoint")
		name, err := p.identifier()
		if err != nil {
			return nil, err
		}
		return &Misc{Kind: "release", Name: name}, nil
	case p.isKw("set") || p.isKw("show") || p.isKw("reset"):
		p.skipToEnd()
		return &Misc{Kind: "noop"}, nil
	case p.isKw("create"):
		return p.createStmt()
	case p.isKw("drop"):
		start := p.peek().pos
		p.skipToEnd()
		return &Misc{Kind: "drop", Name: strings.TrimSpace(p.src[start:p.peek().pos])}, nil
	case p.isKw("lock"):
		p.skipToEnd()
		return &Misc{Kind: "noop"}, nil
	case p.isKw("call"):
		start := p.peek().pos
		p.skipToEnd()
		return nil, unsupported("CALL: %s", truncate(p.src[start:], 200))
	}
	return nil, p.errHere("unknown statement")
}

func (p *parser) skipToEnd() {
	for !p.isOp(";") && p.peek().kind != tEOF {
		p.pos++
	}
}

func (p *parser) createStmt() (any, error) {
	p.pos++ // create
	switch {
	case p.acceptKw("sequence"):
		p.acceptKw("if", "not", "exists")
		name, err := p.qualifiedName()
		if err != nil {
			return nil, err
		}
		m := &Misc{Kind: "create_sequence", Name: strings.Join(name, "."), Args: map[string]string{}}
		for !p.isOp(";") && p.peek().kind != tEOF {
			// CACHE n: every session preallocates n values at a time (the other options do not matter here)
			if p.isKwAt(0, "cache") && p.peekAt(1).kind == tNumber {
				m.Args["cache"] = p.peekAt(1).text
				p.pos++
			}
			p.pos++
		}
		return m, nil
	case p.acceptKw("trigger"):
		name, err := p.identifier()
		if err != nil {
			return nil, err
		}
		m := &Misc{Kind: "create_trigger", Name: name, Args: map[string]string{}}
		// before|after insert|update [of col] on <table> for each row [when (...)] execute procedure <fn>()
		if p.acceptKw("before") {
			m.Args["timing"] = "before"
		} else if p.acceptKw("after") {
			m.Args["timing"] = "after"
		} else {
			return nil, p.errHere("expected BEFORE or AFTER")
		}
		ev, err := p.identifier()
		if err != nil {
			return nil, err
		}
		m.Args["event"] = ev
		if p.acceptKw("of") {
			col, err := p.identifier()
			if err != nil {
				return nil, err
			}
			m.Args["of"] = col
		}
		if err := p.expectKw("on"); err != nil {
			return nil, err
		}
		tbl, err := p.qualifiedName()
		if err != nil {
			return nil, err
		}
		m.Args["table"] = strings.Join(tbl, ".")
		for !p.isKw("when") && !p.isKw("execute") && p.peek().kind != tEOF {
			p.pos++
		}
		if p.acceptKw("when") {
			start := p.peek().pos
			if _, err := p.expr(); err != nil {
				return nil, err
			}
			m.Args["when"] = p.src[start:p.peek().pos]
			// extract new.ledger = '<name>'
			toks, _ := lex(m.Args["when"])
			for i := 0; i+4 < len(toks); i++ {
				if toks[i].text == "new" && toks[i+1].text == "." && toks[i+2].text == "ledger" && toks[i+3].text == "=" && toks[i+4].kind == tString {
					m.Args["ledger"] = toks[i+4].text
				}
			}
		}
		if err := p.expectKw("execute"); err != nil {
			return nil, err
		}
		if !p.acceptKw("procedure") && !p.acceptKw("function") {
			return nil, p.errHere("expected PROCEDURE")
		}
		fn, err := p.qualifiedName()
		if err != nil {
			return nil, err
		}
		m.Args["function"] = fn[len(fn)-1]
		p.skipToEnd()
		return m, nil
	}
	start := p.peek().pos
	p.skipToEnd()
	return &Misc{Kind: "create_other", Name: truncate(p.src[start:], 100)}, nil
}

func (p *parser) withStatement() (any, error) {
	ctes, err := p.withClause()
	if err != nil {
		return nil, err
	}
	switch {
	case p.isKw("insert"):
		return p.insertStmt(ctes)
	case p.isKw("update"):
		return p.updateStmt(ctes)
	case p.isKw("delete"):
		return p.deleteStmt(ctes)
	}
	s, err := p.selectStmt()
	if err != nil {
		return nil, err
	}
	s.With = append(ctes, s.With...)
	return s, nil
}

func (p *parser) withClause() ([]CTE, error) {
	if err := p.expectKw("with"); err != nil {
		return nil, err
	}
	p.acceptKw("recursive")
	var ctes []CTE
	for {
		name, err := p.identifier()
		if err != nil {
			return nil, err
		}
		cte := CTE{Name: name}
		if p.acceptOp("(") {
			for {
				c, err := p.identifier()
				if err != nil {
					return nil, err
				}
				cte.Cols = append(cte.Cols, c)
				if !p.acceptOp(",") {
					break
				}
			}
			if err := p.expectOp(")"); err != nil {
				return nil, err
			}
		}
		if err := p.expectKw("as"); err != nil {
			return nil, err
		}
		p.acceptKw("materialized")
		if err := p.expectOp("("); err != nil {
			return nil, err
		}
		q, err := p.query()
		if err != nil {
			return nil, err
		}
		if err := p.expectOp(")"); err != nil {
			return nil, err
		}
		cte.Q = q
		ctes = append(ctes, cte)
		if !p.acceptOp(",") {
			break
		}
	}
	return ctes, nil
}

// query parses anything allowed inside a CTE or subquery.
func (p *parser) query() (Query, error) {
	switch {
	case p.isKw("insert"):
		return p.insertStmt(nil)
	case p.isKw("update"):
		return p.updateStmt(nil)
	case p.isKw("delete"):
		return p.deleteStmt(nil)
	case p.isKw("with"):
		return p.withStatement()
	}
	return p.selectStmt()
}

func (p *parser) selectStmt() (*Select, error) {
	s, err := p.selectCore()
	if err != nil {
		return nil, err
	}
	cur := s
	for p.isKw("union") {
		p.pos++
		all := p.acceptKw("all")
		if !all {
			p.acceptKw("distinct")
		}
		nxt, err := p.selectCore()
		if err != nil {
			return nil, err
		}
		cur.Next = nxt
		cur.UnionAll = all
		cur = nxt
	}
	// trailing ORDER BY / LIMIT of a set operation applies to the whole; only support it on a plain select
	return s, nil
}

func (p *parser) selectCore() (*Select, error) {
	if p.acceptOp("(") {
		inner, err := p.query()
		if err != nil {
			return nil, err
		}
		if err := p.expectOp(")"); err != nil {
			return nil, err
		}
		sel, ok := inner.(*Select)
		if !ok {
			return nil, p.errHere("parenthesised non-select in set operation")
		}
		// wrap so that its own ORDER/LIMIT stay local
		return &Select{Items: []SelectItem{{X: &Star{}}}, From: []FromItem{&SubqueryRef{Q: sel, Alias: "_paren"}}}, nil
	}
	s := &Select{}
	if p.isKw("with") {
		ctes, err := p.withClause()
		if err != nil {
			return nil, err
		}
		s.With = ctes
	}
	if p.acceptKw("values") {
		rows, err := p.valuesRows()
		if err != nil {
			return nil, err
		}
		s.Values = rows
		return s, nil
	}
	if err := p.expectKw("select"); err != nil {
		return nil, err
	}
	if p.acceptKw("distinct") {
		if p.acceptKw("on") {
			if err := p.expectOp("("); err != nil {
				return nil, err
			}
			list, err := p.exprList()
			if err != nil {
				return nil, err
			}
			if err := p.expectOp(")"); err != nil {
				return nil, err
			}
			s.DistinctOn = list
		} else {
			s.Distinct = true
		}
	} else {
		p.acceptKw("all")
	}
	// select list (may be empty before FROM in theory; not supported)
	for {
		item, err := p.selectItem()
		if err != nil {
			return nil, err
		}
		s.Items = append(s.Items, item)
		if !p.acceptOp(",") {
			break
		}
	}
	if p.acceptKw("from") {
		for {
			fi, err := p.fromItem()
			if err != nil {
				return nil, err
			}
			s.From = append(s.From, fi)
			if !p.acceptOp(",") {
				break
			}
		}
	}
	if p.acceptKw("where") {
		e, err := p.expr()
		if err != nil {
			return nil, err
		}
		s.Where = e
	}
	if p.acceptKw("group", "by") {
		list, err := p.exprList()
		if err != nil {
			return nil, err
		}
		s.GroupBy = list
	}
	if p.acceptKw("having") {
		e, err := p.expr()
		if err != nil {
			return nil, err
		}
		s.Having = e
	}
	for {
		switch {
		case p.acceptKw("order", "by"):
			ob, err := p.orderList()
			if err != nil {
				return nil, err
			}
			s.OrderBy = ob
			continue
		case p.acceptKw("limit"):
			if p.acceptKw("all") {
				continue
			}
			e, err := p.expr()
			if err != nil {
				return nil, err
			}
			s.Limit = e
			continue
		case p.acceptKw("offset"):
			e, err := p.expr()
			if err != nil {
				return nil, err
			}
			s.Offset = e
			p.acceptKw("rows")
			p.acceptKw("row")
			continue
		case p.isKw("for") && (p.isKwAt(1, "update") || p.isKwAt(1, "no") || p.isKwAt(1, "share") || p.isKwAt(1, "key")):
			p.pos++
			for p.peek().kind == tIdent && !reserved[p.peek().text] || p.isKw("update") {
				p.pos++
			}
			s.ForUpdate = true
			continue
		}
		break
	}
	return s, nil
}

func (p *parser) valuesRows() ([][]Expr, error) {
	var rows [][]Expr
	for {
		if err := p.expectOp("("); err != nil {
			return nil, err
		}
		var row []Expr
		for {
			if p.acceptKw("default") {
				row = append(row, &DefaultExpr{})
			} else {
				e, err := p.expr()
				if err != nil {
					return nil, err
				}
				row = append(row, e)
			}
			if !p.acceptOp(",") {
				break
			}
		}
		if err := p.expectOp(")"); err != nil {
			return nil, err
		}
		rows = append(rows, row)
		if !p.acceptOp(",") {
			break
		}
	}
	return rows, nil
}

func (p *parser) selectItem() (SelectItem, error) {
	if p.isOp("*") {
		p.pos++
		return SelectItem{X: &Star{}}, nil
	}
	e, err := p.expr()
	if err != nil {
		return SelectItem{}, err
	}
	item := SelectItem{X: e}
	if p.acceptKw("as") {
		id, err := p.identifier()
		if err != nil {
			return item, err
		}
		item.Alias = id
	} else {
		t := p.peek()
		if t.kind == tQIdent || (t.kind == tIdent && !reserved[t.text]) {
			p.pos++
			item.Alias = t.text
		}
	}
	return item, nil
}

func (p *parser) orderList() ([]OrderItem, error) {
	var out []OrderItem
	for {
		e, err := p.expr()
		if err != nil {
			return nil, err
		}
		it := OrderItem{X: e}
		if p.acceptKw("desc") {
			it.Desc = true
		} else {
			p.acceptKw("asc")
		}
		if p.acceptKw("nulls") {
			it.NullsSet = true
			if p.acceptKw("last") {
				it.NullsLast = true
			} else if !p.acceptKw("first") {
				return nil, p.errHere("expected FIRST or LAST")
			}
		}
		out = append(out, it)
		if !p.acceptOp(",") {
			break
		}
	}
	return out, nil
}

func (p *parser) tableRef() (TableRef, error) {
	p.acceptKw("only")
	name, err := p.qualifiedName()
	if err != nil {
		return TableRef{}, err
	}
	tr := TableRef{Name: name[len(name)-1]}
	if len(name) > 1 {
		tr.Schema = name[len(name)-2]
	}
	return tr, nil
}

func (p *parser) fromItem() (FromItem, error) {
	left, err := p.fromPrimary()
	if err != nil {
		return nil, err
	}
	for {
		kind := ""
		switch {
		case p.acceptKw("join"), p.acceptKw("inner", "join"):
			kind = "inner"
		case p.acceptKw("left", "join"), p.acceptKw("left", "outer", "join"):
			kind = "left"
		case p.acceptKw("cross", "join"):
			kind = "cross"
		case p.isKw("right") || p.isKw("full") || p.isKw("natural"):
			return nil, p.errHere("join kind")
		default:
			return left, nil
		}
		right, err := p.fromPrimary()
		if err != nil {
			return nil, err
		}
		j := &JoinRef{Left: left, Right: right, Kind: kind}
		if kind != "cross" {
			if p.acceptKw("on") {
				e, err := p.expr()
				if err != nil {
					return nil, err
				}
				j.On = e
			} else {
				return nil, p.errHere("expected ON")
			}
		}
		left = j
	}
}

func (p *parser) fromPrimary() (FromItem, error) {
	lateral := p.acceptKw("lateral")
	if p.acceptOp("(") {
		// subquery or parenthesised join
		if p.isKw("select") || p.isKw("with") || p.isKw("values") || p.isOp("(") || p.isKw("insert") || p.isKw("update") {
			q, err := p.query()
			if err != nil {
				return nil, err
			}
			if err := p.expectOp(")"); err != nil {
				return nil, err
			}
			sr := &SubqueryRef{Q: q, Lateral: lateral}
			sr.Alias = p.optAlias()
			if sr.Alias != "" && p.acceptOp("(") {
				for {
					c, err := p.identifier()
					if err != nil {
						return nil, err
					}
					sr.Cols = append(sr.Cols, c)
					if !p.acceptOp(",") {
						break
					}
				}
				if err := p.expectOp(")"); err != nil {
					return nil, err
				}
			}
			return sr, nil
		}
		fi, err := p.fromItem()
		if err != nil {
			return nil, err
		}
		if err := p.expectOp(")"); err != nil {
			return nil, err
		}
		return fi, nil
	}
	// function in FROM is not supported
	tr, err := p.tableRef()
	if err != nil {
		return nil, err
	}
	if p.isOp("(") {
		return nil, p.errHere("set-returning function in FROM")
	}
	tr.Alias = p.optAlias()
	return &tr, nil
}

func (p *parser) returning() ([]SelectItem, error) {
	if !p.acceptKw("returning") {
		return nil, nil
	}
	var items []SelectItem
	for {
		it, err := p.selectItem()
		if err != nil {
			return nil, err
		}
		items = append(items, it)
		if !p.acceptOp(",") {
			break
		}
	}
	return items, nil
}

func (p *parser) insertStmt(ctes []CTE) (*Insert, error) {
	p.pos++ // insert
	if err := p.expectKw("into"); err != nil {
		return nil, err
	}
	tr, err := p.tableRef()
	if err != nil {
		return nil, err
	}
	ins := &Insert{With: ctes, Table: tr}
	if p.acceptKw("as") {
		a, err := p.identifier()
		if err != nil {
			return nil, err
		}
		ins.Table.Alias = a
	}
	if p.isOp("(") && !(p.isKwAt(1, "select") || p.isKwAt(1, "with")) {
		p.pos++
		for {
			c, err := p.identifier()
			if err != nil {
				return nil, err
			}
			ins.Cols = append(ins.Cols, c)
			if !p.acceptOp(",") {
				break
			}
		}
		if err := p.expectOp(")"); err != nil {
			return nil, err
		}
	}
	switch {
	case p.acceptKw("default", "values"):
		ins.Rows = [][]Expr{{}}
	case p.acceptKw("values"):
		rows, err := p.valuesRows()
		if err != nil {
			return nil, err
		}
		ins.Rows = rows
	default:
		q, err := p.selectStmt()
		if err != nil {
			return nil, err
		}
		ins.Select = q
	}
	if p.acceptKw("on", "conflict") {
		oc := &OnConflict{}
		if p.acceptOp("(") {
			for {
				c, err := p.identifier()
				if err != nil {
					return nil, err
				}
				oc.Target = append(oc.Target, c)
				if !p.acceptOp(",") {
					break
				}
			}
			if err := p.expectOp(")"); err != nil {
				return nil, err
			}
			if p.acceptKw("where") { // partial index predicate
				if _, err := p.expr(); err != nil {
					return nil, err
				}
			}
		}
		if err := p.expectKw("do"); err != nil {
			return nil, err
		}
		if p.acceptKw("nothing") {
			oc.DoNothing = true
		} else {
			if !p.acceptKw("update", "set") {
				return nil, p.errHere("expected DO UPDATE SET")
			}
			set, err := p.assignments()
			if err != nil {
				return nil, err
			}
			oc.Set = set
			if p.acceptKw("where") {
				e, err := p.expr()
				if err != nil {
					return nil, err
				}
				oc.Where = e
			}
		}
		ins.Conflict = oc
	}
	ret, err := p.returning()
	if err != nil {
		return nil, err
	}
	ins.Returning = ret
	return ins, nil
}

func (p *parser) assignments() ([]Assignment, error) {
	var out []Assignment
	for {
		name, err := p.qualifiedName()
		if err != nil {
			return nil, err
		}
		if err := p.expectOp("="); err != nil {
			return nil, err
		}
		var x Expr
		if p.acceptKw("default") {
			x = &DefaultExpr{}
		} else {
			x, err = p.expr()
			if err != nil {
				return nil, err
			}
		}
		out = append(out, Assignment{Col: name[len(name)-1], X: x})
		if !p.acceptOp(",") {
			break
		}
	}
	return out, nil
}

func (p *parser) updateStmt(ctes []CTE) (*Update, error) {
	p.pos++ // update
	tr, err := p.tableRef()
	if err != nil {
		return nil, err
	}
	u := &Update{With: ctes, Table: tr}
	if p.acceptKw("as") {
		a, err := p.identifier()
		if err != nil {
			return nil, err
		}
		u.Table.Alias = a
	} else if t := p.peek(); (t.kind == tIdent && !reserved[t.text]) || t.kind == tQIdent {
		p.pos++
		u.Table.Alias = t.text
	}
	if err := p.expectKw("set"); err != nil {
		return nil, err
	}
	u.Set, err = p.assignments()
	if err != nil {
		return nil, err
	}
	if p.acceptKw("from") {
		for {
			fi, err := p.fromItem()
			if err != nil {
				return nil, err
			}
			u.From = append(u.From, fi)
			if !p.acceptOp(",") {
				break
			}
		}
	}
	if p.acceptKw("where") {
		e, err := p.expr()
		if err != nil {
			return nil, err
		}
		u.Where = e
	}
	u.Returning, err = p.returning()
	return u, err
}

func (p *parser) deleteStmt(ctes []CTE) (*Delete, error) {
	p.pos++ // delete
	if err := p.expectKw("from"); err != nil {
		return nil, err
	}
	tr, err := p.tableRef()
	if err != nil {
		return nil, err
	}
	d := &Delete{With: ctes, Table: tr}
	if p.acceptKw("as") {
		a, err := p.identifier()
		if err != nil {
			return nil, err
		}
		d.Table.Alias = a
	}
	if p.acceptKw("where") {
		e, err := p.expr()
		if err != nil {
			return nil, err
		}
		d.Where = e
	}
	d.Returning, err = p.returning()
	return d, err
}

// ------------------------------------------------------------ expressions

func (p *parser) exprList() ([]Expr, error) {
	var out []Expr
	for {
		e, err := p.expr()
		if err != nil {
			return nil, err
		}
		out = append(out, e)
		if !p.acceptOp(",") {
			break
		}
	}
	return out, nil
}

func (p *parser) expr() (Expr, error) { return p.orExpr() }

func (p *parser) orExpr() (Expr, error) {
	l, err := p.andExpr()
	if err != nil {
		return nil, err
	}
	for p.acceptKw("or") {
		r, err := p.andExpr()
		if err != nil {
			return nil, err
		}
		l = &Binary{Op: "or", L: l, R: r}
	}
	return l, nil
}

func (p *parser) andExpr() (Expr, error) {
	l, err := p.notExpr()
	if err != nil {
		return nil, err
	}
	for p.acceptKw("and") {
		r, err := p.notExpr()
		if err != nil {
			return nil, err
		}
		l = &Binary{Op: "and", L: l, R: r}
	}
	return l, nil
}

func (p *parser) notExpr() (Expr, error) {
	if p.acceptKw("not") {
		x, err := p.notExpr()
		if err != nil {
			return nil, err
		}
		return &Unary{Op: "not", X: x}, nil
	}
	return p.isExpr()
}

func (p *parser) isExpr() (Expr, error) {
	l, err := p.cmpExpr()
	if err != nil {
		return nil, err
	}
	for {
		switch {
		case p.acceptKw("is"):
			not := p.acceptKw("not")
			switch {
			case p.acceptKw("null"):
				l = &IsNull{X: l, Not: not}
			case p.acceptKw("true"):
				l = &IsBool{X: l, Not: not, Value: true}
			case p.acceptKw("false"):
				l = &IsBool{X: l, Not: not, Value: false}
			case p.acceptKw("distinct", "from"):
				r, err := p.cmpExpr()
				if err != nil {
					return nil, err
				}
				op := "is distinct from"
				if not {
					op = "is not distinct from"
				}
				l = &Binary{Op: op, L: l, R: r}
			default:
				return nil, p.errHere("IS what?")
			}
		case p.acceptKw("isnull"):
			l = &IsNull{X: l}
		case p.acceptKw("notnull"):
			l = &IsNull{X: l, Not: true}
		default:
			return l, nil
		}
	}
}

var cmpOps = map[string]bool{"=": true, "<": true, ">": true, "<=": true, ">=": true, "<>": true, "!=": true}

func (p *parser) cmpExpr() (Expr, error) {
	l, err := p.inExpr()
	if err != nil {
		return nil, err
	}
	for {
		t := p.peek()
		if t.kind == tOp && cmpOps[t.text] {
			p.pos++
			r, err := p.inExpr()
			if err != nil {
				return nil, err
			}
			op := t.text
			if op == "!=" {
				op = "<>"
			}
			l = &Binary{Op: op, L: l, R: r}
			continue
		}
		return l, nil
	}
}

// inExpr handles [NOT] IN / LIKE / BETWEEN.
func (p *parser) inExpr() (Expr, error) {
	l, err := p.otherOpExpr()
	if err != nil {
		return nil, err
	}
	for {
		save := p.pos
		not := p.acceptKw("not")
		switch {
		case p.acceptKw("in"):
			if err := p.expectOp("("); err != nil {
				return nil, err
			}
			if p.isKw("select") || p.isKw("with") || p.isKw("values") {
				q, err := p.query()
				if err != nil {
					return nil, err
				}
				if err := p.expectOp(")"); err != nil {
					return nil, err
				}
				l = &InSub{X: l, Q: q, Not: not}
			} else {
				var list []Expr
				if !p.isOp(")") {
					list, err = p.exprList()
					if err != nil {
						return nil, err
					}
				}
				if err := p.expectOp(")"); err != nil {
					return nil, err
				}
				l = &InList{X: l, List: list, Not: not}
			}
		case p.acceptKw("like"), p.acceptKw("ilike"):
			op := p.toks[p.pos-1].text
			r, err := p.otherOpExpr()
			if err != nil {
				return nil, err
			}
			var e Expr = &Binary{Op: op, L: l, R: r}
			if not {
				e = &Unary{Op: "not", X: e}
			}
			l = e
		case p.acceptKw("between"):
			lo, err := p.otherOpExpr()
			if err != nil {
				return nil, err
			}
			if err := p.expectKw("and"); err != nil {
				return nil, err
			}
			hi, err := p.otherOpExpr()
			if err != nil {
				return nil, err
			}
			l = &Between{X: l, Lo: lo, Hi: hi, Not: not}
		default:
			p.pos = save
			return l, nil
		}
	}
}

func isOtherOp(t token) bool {
	if t.kind != tOp {
		return false
	}
	switch t.text {
	case "||", "@>", "<@", "->", "->>", "#>", "#>>", "?", "?|", "?&", "@@", "&&", "~", "!~", "~*", "#-":
		return true
	}
	return false
}

func (p *parser) otherOpExpr() (Expr, error) {
	l, err := p.addExpr()
	if err != nil {
		return nil, err
	}
	for isOtherOp(p.peek()) {
		op := p.next().text
		r, err := p.addExpr()
		if err != nil {
			return nil, err
		}
		l = &Binary{Op: op, L: l, R: r}
	}
	return l, nil
}

func (p *parser) addExpr() (Expr, error) {
	l, err := p.mulExpr()
	if err != nil {
		return nil, err
	}
	for p.isOp("+") || p.isOp("-") {
		op := p.next().text
		r, err := p.mulExpr()
		if err != nil {
			return nil, err
		}
		l = &Binary{Op: op, L: l, R: r}
	}
	return l, nil
}

func (p *parser) mulExpr() (Expr, error) {
	l, err := p.unaryExpr()
	if err != nil {
		return nil, err
	}
	for p.isOp("*") || p.isOp("/") || p.isOp("%") {
		op := p.next().text
		r, err := p.unaryExpr()
		if err != nil {
			return nil, err
		}
		l = &Binary{Op: op, L: l, R: r}
	}
	return l, nil
}

func (p *parser) unaryExpr() (Expr, error) {
	if p.isOp("-") || p.isOp("+") {
		op := p.next().text
		x, err := p.unaryExpr()
		if err != nil {
			return nil, err
		}
		if op == "+" {
			return x, nil
		}
		if l, ok := x.(*Lit); ok && l.V.K == KNum {
			return &Lit{V: Num(new(big.Int).Neg(l.V.N))}, nil
		}
		return &Unary{Op: "-", X: x}, nil
	}
	return p.postfixExpr()
}

func (p *parser) typeName() (TypeName, error) {
	name, err := p.qualifiedName()
	if err != nil {
		return TypeName{}, err
	}
	tn := TypeName{Name: strings.ToLower(name[len(name)-1])}
	if len(name) > 1 {
		tn.Schema = name[len(name)-2]
	}
	// multi-word types
	switch tn.Name {
	case "timestamp", "time":
		if p.acceptKw("without", "time", "zone") {
		} else if p.acceptKw("with", "time", "zone") {
			tn.Name += "tz"
		}
	case "double":
		p.acceptKw("precision")
	case "character":
		if p.acceptKw("varying") {
			tn.Name = "varchar"
		}
	}
	if p.isOp("(") && p.peekAt(1).kind == tNumber {
		for !p.isOp(")") && p.peek().kind != tEOF {
			p.pos++
		}
		p.pos++
	}
	if p.isOp("[") && p.peekAt(1).kind == tOp && p.peekAt(1).text == "]" {
		p.pos += 2
		tn.Array = true
	}
	return tn, nil
}

func (p *parser) postfixExpr() (Expr, error) {
	x, err := p.primary()
	if err != nil {
		return nil, err
	}
	for {
		switch {
		case p.acceptOp("::"):
			tn, err := p.typeName()
			if err != nil {
				return nil, err
			}
			x = &Cast{X: x, Type: tn}
		case p.isOp("["):
			p.pos++
			idx := &Index{X: x}
			if !p.isOp(":") {
				lo, err := p.expr()
				if err != nil {
					return nil, err
				}
				idx.Lo = lo
			}
			if p.acceptOp(":") {
				idx.Slice = true
				if !p.isOp("]") {
					hi, err := p.expr()
					if err != nil {
						return nil, err
					}
					idx.Hi = hi
				}
			}
			if err := p.expectOp("]"); err != nil {
				return nil, err
			}
			x = idx
		case p.isOp(".") && isParenthesised(x):
			p.pos++
			if p.acceptOp("*") {
				return nil, p.errHere("(x).* expansion")
			}
			name, err := p.identifier()
			if err != nil {
				return nil, err
			}
			x = &Field{X: x, Name: name}
		default:
			return x, nil
		}
	}
}

// paren marks an expression that was written inside parentheses, which is what
// allows composite field selection: (expr).field
type paren struct{ X Expr }

func isParenthesised(x Expr) bool {
	_, ok := x.(*paren)
	return ok
}

func (p *parser) primary() (Expr, error) {
	t := p.peek()
	switch t.kind {
	case tNumber:
		p.pos++
		if strings.Contains(t.text, ".") {
			return nil, unsupported("non-integer numeric literal %s", t.text)
		}
		n, _ := new(big.Int).SetString(t.text, 10)
		return &Lit{V: Num(n)}, nil
	case tString:
		p.pos++
		return &Lit{V: Text(t.text)}, nil
	case tParam:
		return nil, unsupported("bind parameter $%s (bun inlines arguments)", t.text)
	case tOp:
		if t.text == "(" {
			p.pos++
			if p.isKw("select") || p.isKw("with") || p.isKw("values") {
				q, err := p.query()
				if err != nil {
					return nil, err
				}
				if err := p.expectOp(")"); err != nil {
					return nil, err
				}
				return &paren{X: &Subquery{Q: q}}, nil
			}
			first, err := p.expr()
			if err != nil {
				return nil, err
			}
			if p.acceptOp(",") {
				rest, err := p.exprList()
				if err != nil {
					return nil, err
				}
				if err := p.expectOp(")"); err != nil {
					return nil, err
				}
				return &paren{X: &RowCtor{Items: append([]Expr{first}, rest...)}}, nil
			}
			if err := p.expectOp(")"); err != nil {
				return nil, err
			}
			return &paren{X: first}, nil
		}
		return nil, p.errHere("unexpected operator")
	case tQIdent, tIdent:
		if t.kind == tIdent {
			switch t.text {
			case "null":
				p.pos++
				return &Lit{V: Null}, nil
			case "true":
				p.pos++
				return &Lit{V: Bool(true)}, nil
			case "false":
				p.pos++
				return &Lit{V: Bool(false)}, nil
			case "case":
				return p.caseExpr()
			case "exists":
				if p.peekAt(1).kind == tOp && p.peekAt(1).text == "(" {
					p.pos += 2
					q, err := p.query()
					if err != nil {
						return nil, err
					}
					if err := p.expectOp(")"); err != nil {
						return nil, err
					}
					return &Exists{Q: q}, nil
				}
			case "array":
				if p.peekAt(1).kind == tOp && p.peekAt(1).text == "[" {
					p.pos += 2
					var items []Expr
					if !p.isOp("]") {
						var err error
						items, err = p.exprList()
						if err != nil {
							return nil, err
						}
					}
					if err := p.expectOp("]"); err != nil {
						return nil, err
					}
					return &ArrayCtor{Items: items}, nil
				}
			case "row":
				if p.peekAt(1).kind == tOp && p.peekAt(1).text == "(" {
					p.pos += 2
					items, err := p.exprList()
					if err != nil {
						return nil, err
					}
					if err := p.expectOp(")"); err != nil {
						return nil, err
					}
					return &RowCtor{Items: items}, nil
				}
			case "cast":
				if p.peekAt(1).kind == tOp && p.peekAt(1).text == "(" {
					p.pos += 2
					x, err := p.expr()
					if err != nil {
						return nil, err
					}
					if err := p.expectKw("as"); err != nil {
						return nil, err
					}
					tn, err := p.typeName()
					if err != nil {
						return nil, err
					}
					if err := p.expectOp(")"); err != nil {
						return nil, err
					}
					return &Cast{X: x, Type: tn}, nil
				}
			case "timestamp", "date", "interval":
				if p.peekAt(1).kind == tString {
					p.pos++
					s := p.next()
					return &Cast{X: &Lit{V: Text(s.text)}, Type: TypeName{Name: t.text}}, nil
				}
			case "current_timestamp":
				p.pos++
				return &Func{Name: "now"}, nil
			}
			if reserved[t.text] && t.text != "left" && t.text != "right" && t.text != "default" && t.text != "values" {
				return nil, p.errHere("unexpected keyword")
			}
		}
		name, err := p.qualifiedName()
		if err != nil {
			return nil, err
		}
		if p.isOp("(") {
			return p.funcCall(name)
		}
		if p.isOp(".") && p.peekAt(1).kind == tOp && p.peekAt(1).text == "*" {
			p.pos += 2
			return &Star{Table: name[len(name)-1]}, nil
		}
		switch len(name) {
		case 1:
			return &ColRef{Name: name[0]}, nil
		case 2:
			return &ColRef{Table: name[0], Name: name[1]}, nil
		default:
			return &ColRef{Table: name[len(name)-2], Name: name[len(name)-1]}, nil
		}
	}
	return nil, p.errHere("unexpected token")
}

func (p *parser) caseExpr() (Expr, error) {
	p.pos++ // case
	c := &Case{}
	if !p.isKw("when") {
		op, err := p.expr()
		if err != nil {
			return nil, err
		}
		c.Operand = op
	}
	for p.acceptKw("when") {
		cond, err := p.expr()
		if err != nil {
			return nil, err
		}
		if err := p.expectKw("then"); err != nil {
			return nil, err
		}
		then, err := p.expr()
		if err != nil {
			return nil, err
		}
		c.Whens = append(c.Whens, When{Cond: cond, Then: then})
	}
	if p.acceptKw("else") {
		e, err := p.expr()
		if err != nil {
			return nil, err
		}
		c.Else = e
	}
	if err := p.expectKw("end"); err != nil {
		return nil, err
	}
	return c, nil
}

func (p *parser) funcCall(name []string) (Expr, error) {
	p.pos++ // (
	f := &Func{Name: strings.ToLower(name[len(name)-1])}
	if len(name) > 1 {
		f.Schema = name[len(name)-2]
	}
	if p.acceptOp("*") {
		f.Star = true
	} else if !p.isOp(")") {
		if p.acceptKw("distinct") {
			f.Distinct = true
		}
		args, err := p.exprList()
		if err != nil {
			return nil, err
		}
		f.Args = args
		if p.isKw("order") {
			return nil, p.errHere("ORDER BY inside aggregate")
		}
	}
	if err := p.expectOp(")"); err != nil {
		return nil, err
	}
	if p.acceptKw("filter") {
		return nil, p.errHere("FILTER clause")
	}
	if p.acceptKw("over") {
		if err := p.expectOp("("); err != nil {
			return nil, err
		}
		w := &WindowSpec{}
		if p.acceptKw("partition", "by") {
			list, err := p.exprList()
			if err != nil {
				return nil, err
			}
			w.PartitionBy = list
		}
		if p.acceptKw("order", "by") {
			ob, err := p.orderList()
			if err != nil {
				return nil, err
			}
			w.OrderBy = ob
		}
		if !p.isOp(")") {
			return nil, p.errHere("window frame clause")
		}
		p.pos++
		f.Over = w
	}
	return f, nil
}
