package pgsim

type Expr interface{}

type (
	Lit    struct{ V Value }
	ColRef struct{ Table, Name string }
	Star   struct{ Table string }
	Unary  struct {
		Op string
		X  Expr
	}
	Binary struct {
		Op   string
		L, R Expr
	}
	IsNull struct {
		X   Expr
		Not bool
	}
	IsBool struct { // x IS [NOT] TRUE/FALSE
		X     Expr
		Not   bool
		Value bool
	}
	InList struct {
		X    Expr
		List []Expr
		Not  bool
	}
	InSub struct {
		X   Expr
		Q   Query
		Not bool
	}
	Exists   struct{ Q Query }
	Subquery struct{ Q Query }
	Func     struct {
		Schema, Name string
		Args         []Expr
		Star         bool
		Distinct     bool
		Over         *WindowSpec
	}
	Cast struct {
		X    Expr
		Type TypeName
	}
	Case struct {
		Operand Expr
		Whens   []When
		Else    Expr
	}
	When struct {
		Cond, Then Expr
	}
	RowCtor   struct{ Items []Expr }
	ArrayCtor struct{ Items []Expr }
	Field     struct {
		X    Expr
		Name string
	}
	Index struct {
		X      Expr
		Lo, Hi Expr
		Slice  bool
	}
	Between struct {
		X, Lo, Hi Expr
		Not       bool
	}
	DefaultExpr struct{}
)

type WindowSpec struct {
	PartitionBy []Expr
	OrderBy     []OrderItem
}

type TypeName struct {
	Schema string
	Name   string // lower case, e.g. jsonb, numeric, bigint, timestamp, volumes, varchar
	Array  bool
}

type OrderItem struct {
	X         Expr
	Desc      bool
	NullsSet  bool
	NullsLast bool
}

type SelectItem struct {
	X     Expr
	Alias string
}

type Query interface{}

type CTE struct {
	Name string
	Cols []string
	Q    Query
}

type Select struct {
	With       []CTE
	Distinct   bool
	DistinctOn []Expr
	Items      []SelectItem
	From       []FromItem
	Where      Expr
	GroupBy    []Expr
	Having     Expr
	OrderBy    []OrderItem
	Limit      Expr
	Offset     Expr
	ForUpdate  bool
	// set operation: this UNION [ALL] Next
	Next     *Select
	UnionAll bool
	// Paren: a parenthesised select used as a set-operation operand keeps its own order/limit
	Values [][]Expr // VALUES (...),(...) used as a query
}

type FromItem interface{}

type (
	TableRef struct {
		Schema, Name, Alias string
	}
	SubqueryRef struct {
		Q       Query
		Alias   string
		Cols    []string
		Lateral bool
	}
	JoinRef struct {
		Left, Right FromItem
		Kind        string // inner, left, cross
		On          Expr
	}
)

type Insert struct {
	With      []CTE
	Table     TableRef
	Cols      []string
	Rows      [][]Expr // VALUES
	Select    Query    // INSERT ... SELECT
	Conflict  *OnConflict
	Returning []SelectItem
}

type OnConflict struct {
	Target    []string
	DoNothing bool
	Set       []Assignment
	Where     Expr
}

type Assignment struct {
	Col string
	X   Expr
}

type Update struct {
	With      []CTE
	Table     TableRef
	Set       []Assignment
	From      []FromItem
	Where     Expr
	Returning []SelectItem
}

type Delete struct {
	With      []CTE
	Table     TableRef
	Where     Expr
	Returning []SelectItem
}

// Misc is a statement handled by name (transaction control, DDL subset).
type Misc struct {
	Kind string // begin, commit, rollback, savepoint, release, rollback_to, create_sequence, create_trigger, set, noop
	Name string
	Args map[string]string
}
