package pgsim

import (
	"strconv"
	"context"
	"database/sql"
	"database/sql/driver"
	"errors"
	"fmt"
	"io"
	"strings"

	"github.com/jackc/pgx/v5/pgconn"
)

// connState is one backend (database/sql connection).
type connState struct {
	id  int64
	cur *xact // innermost open (sub)transaction, nil in autocommit
}

type connector struct{ db *DB }

func (c connector) Connect(context.Context) (driver.Conn, error) {
	c.db.mu.Lock()
	defer c.db.mu.Unlock()
	c.db.nextConn++
	return &conn{db: c.db, st: &connState{id: c.db.nextConn}}, nil
}

func (c connector) Driver() driver.Driver { return drv{} }

type drv struct{}

func (drv) Open(string) (driver.Conn, error) { return nil, errors.New("pgsim: use OpenDB") }

// OpenDB returns a *sql.DB served by the simulated cluster.
func OpenDB(db *DB) *sql.DB {
	sqldb := sql.OpenDB(connector{db})
	return sqldb
}

type conn struct {
	db     *DB
	st     *connState
	closed bool
}

var (
	_ driver.ConnBeginTx        = (*conn)(nil)
	_ driver.ExecerContext      = (*conn)(nil)
	_ driver.QueryerContext     = (*conn)(nil)
	_ driver.Pinger             = (*conn)(nil)
	_ driver.SessionResetter    = (*conn)(nil)
	_ driver.NamedValueChecker  = (*conn)(nil)
	_ driver.ConnPrepareContext = (*conn)(nil)
)

func (c *conn) Prepare(q string) (driver.Stmt, error) { return &stmt{c: c, q: q}, nil }
func (c *conn) PrepareContext(_ context.Context, q string) (driver.Stmt, error) {
	return &stmt{c: c, q: q}, nil
}
func (c *conn) Ping(context.Context) error         { return nil }
func (c *conn) ResetSession(context.Context) error { return nil }
func (c *conn) CheckNamedValue(*driver.NamedValue) error {
	return nil
}

func (c *conn) Close() error {
	c.db.mu.Lock()
	defer c.db.mu.Unlock()
	if c.closed {
		return nil
	}
	c.closed = true
	if c.st.cur != nil {
		c.db.endXact(c.st.cur.top, false)
		c.st.cur = nil
	}
	for key, l := range c.db.advisory {
		if l.session && l.owner == c.st.id {
			delete(c.db.advisory, key)
		}
	}
	c.db.cond.Broadcast()
	return nil
}

func (c *conn) Begin() (driver.Tx, error) { return c.BeginTx(context.Background(), driver.TxOptions{}) }

func (c *conn) BeginTx(ctx context.Context, _ driver.TxOptions) (driver.Tx, error) {
	if _, err := c.run(ctx, "BEGIN", nil); err != nil {
		return nil, err
	}
	return &tx{c: c}, nil
}

type tx struct{ c *conn }

func (t *tx) Commit() error {
	_, err := t.c.run(context.Background(), "COMMIT", nil)
	return err
}

func (t *tx) Rollback() error {
	_, err := t.c.run(context.Background(), "ROLLBACK", nil)
	return err
}

type stmt struct {
	c *conn
	q string
}

func (s *stmt) Close() error  { return nil }
func (s *stmt) NumInput() int { return -1 }
func (s *stmt) Exec(args []driver.Value) (driver.Result, error) {
	return s.c.ExecContext(context.Background(), s.q, toNamed(args))
}
func (s *stmt) Query(args []driver.Value) (driver.Rows, error) {
	return s.c.QueryContext(context.Background(), s.q, toNamed(args))
}

func toNamed(args []driver.Value) []driver.NamedValue {
	out := make([]driver.NamedValue, len(args))
	for i, a := range args {
		out[i] = driver.NamedValue{Ordinal: i + 1, Value: a}
	}
	return out
}

type result struct{ n int64 }

func (r result) LastInsertId() (int64, error) { return 0, errors.New("not supported") }
func (r result) RowsAffected() (int64, error) { return r.n, nil }

func (c *conn) ExecContext(ctx context.Context, q string, args []driver.NamedValue) (driver.Result, error) {
	rel, err := c.run(ctx, q, args)
	if err != nil {
		return nil, err
	}
	n := int64(0)
	if rel != nil {
		n = int64(rel.affected)
		if rel.affected == 0 && len(rel.rows) > 0 {
			n = int64(len(rel.rows))
		}
	}
	return result{n}, nil
}

func (c *conn) QueryContext(ctx context.Context, q string, args []driver.NamedValue) (driver.Rows, error) {
	rel, err := c.run(ctx, q, args)
	if err != nil {
		return nil, err
	}
	if rel == nil {
		rel = &relation{}
	}
	return &rows{rel: rel}, nil
}

type rows struct {
	rel *relation
	i   int
}

func (r *rows) Columns() []string {
	out := make([]string, len(r.rel.cols))
	for i, c := range r.rel.cols {
		out[i] = c.Name
	}
	return out
}
func (r *rows) Close() error { return nil }
func (r *rows) Next(dest []driver.Value) error {
	if r.i >= len(r.rel.rows) {
		return io.EOF
	}
	row := r.rel.rows[r.i]
	r.i++
	for i := range dest {
		dest[i] = toDriver(row[i])
	}
	return nil
}

func toDriver(v Value) driver.Value {
	switch v.K {
	case KNull:
		return nil
	case KBool:
		return v.B
	case KNum:
		// like pgx for numeric: text; bun and database/sql convert text to any integer kind
		return v.N.String()
	case KText:
		return v.S
	case KTime:
		return v.T
	case KJSON:
		return []byte(jsonText(v.J))
	case KBytes:
		return v.Bs
	case KArray:
		parts := make([]string, len(v.A))
		for i, e := range v.A {
			if e.IsNull() {
				parts[i] = "NULL"
			} else if e.K == KText {
				parts[i] = `"` + strings.ReplaceAll(strings.ReplaceAll(e.S, `\`, `\\`), `"`, `\"`) + `"`
			} else {
				parts[i] = e.String()
			}
		}
		return "{" + strings.Join(parts, ",") + "}"
	case KRow:
		return v.String()
	}
	return v.String()
}

func toPgError(err error) error {
	var pe *PgError
	if errors.As(err, &pe) {
		return &pgconn.PgError{Severity: "ERROR", Code: pe.Code, Message: pe.Message, ConstraintName: pe.Constraint}
	}
	return err
}

// run executes one or more statements on this connection.
func (c *conn) run(ctx context.Context, q string, args []driver.NamedValue) (*relation, error) {
	if len(args) > 0 {
		return nil, unsupported("bind arguments (bun inlines them): %s", truncate(q, 120))
	}
	db := c.db
	if err := ctx.Err(); err != nil {
		return nil, err
	}
	if h := db.Hooks.BeforeStatement; h != nil {
		if err := h(c.st.id, c.st.cur != nil, q); err != nil {
			return nil, c.failStatement(err)
		}
	}
	var stmts []any
	if cached, ok := db.planCache.Load(q); ok {
		stmts = cached.([]any)
	} else {
		var err error
		stmts, err = ParseStatements(q)
		if err != nil {
			return nil, c.failStatement(toPgError(err))
		}
		db.planCache.Store(q, stmts)
	}
	db.mu.Lock()
	if db.Log != nil {
		db.Log(c.st.id, q)
	}
	kw := strings.ToLower(strings.Fields(q + " x")[0])
	db.Statements[kw]++
	var last *relation
	var err error
	for _, st := range stmts {
		last, err = c.runStatement(ctx, st, q)
		if err != nil {
			break
		}
	}
	db.mu.Unlock()
	if err != nil {
		return nil, toPgError(err)
	}
	if h := db.Hooks.AfterStatement; h != nil {
		if herr := h(c.st.id, c.st.cur != nil, q); herr != nil {
			return nil, c.failStatement(herr)
		}
	}
	return last, nil
}

// failStatement puts an open transaction in the aborted state, like any failed statement does.
func (c *conn) failStatement(err error) error {
	c.db.mu.Lock()
	defer c.db.mu.Unlock()
	if c.st.cur != nil {
		c.st.cur.top.failed = true
	}
	return err
}

func (c *conn) runStatement(ctx context.Context, st any, q string) (*relation, error) {
	db := c.db
	if m, ok := st.(*Misc); ok {
		switch m.Kind {
		case "begin":
			if c.st.cur != nil {
				return nil, nil // already in a transaction: warning only
			}
			c.st.cur = db.newXact(nil, c.st)
			return nil, nil
		case "commit":
			if c.st.cur == nil {
				return nil, nil
			}
			top := c.st.cur.top
			c.st.cur = nil
			if top.failed {
				db.endXact(top, false)
				return nil, nil // COMMIT of an aborted transaction is a ROLLBACK
			}
			if h := db.Hooks.BeforeCommit; h != nil {
				db.mu.Unlock()
				herr := h(c.st.id)
				db.mu.Lock()
				if herr != nil {
					db.endXact(top, false)
					return nil, herr
				}
			}
			db.endXact(top, true)
			if h := db.Hooks.OnCommit; h != nil {
				h(c.st.id, db.commitSeq, true)
			}
			return nil, nil
		case "rollback":
			if c.st.cur == nil {
				return nil, nil
			}
			top := c.st.cur.top
			c.st.cur = nil
			db.endXact(top, false)
			return nil, nil
		case "savepoint":
			if c.st.cur == nil {
				return nil, pgErr("25P01", "SAVEPOINT can only be used in transaction blocks")
			}
			if c.st.cur.top.failed {
				return nil, pgErr("25P02", "current transaction is aborted, commands ignored until end of transaction block")
			}
			sp := db.newXact(c.st.cur, c.st)
			sp.savepoint = m.Name
			c.st.cur = sp
			return nil, nil
		case "release", "rollback_to":
			if c.st.cur == nil {
				return nil, pgErr("25P01", "%s can only be used in transaction blocks", strings.ToUpper(m.Kind))
			}
			var sp *xact
			for x := c.st.cur; x != nil; x = x.parent {
				if x.savepoint == m.Name {
					sp = x
					break
				}
			}
			if sp == nil {
				return nil, pgErr("3B001", "savepoint %q does not exist", m.Name)
			}
			if m.Kind == "release" {
				if c.st.cur.top.failed {
					return nil, pgErr("25P02", "current transaction is aborted, commands ignored until end of transaction block")
				}
				for x := c.st.cur; x != sp.parent; x = x.parent {
					x.status = txCommitted
				}
				c.st.cur = sp.parent
				return nil, nil
			}
			for x := c.st.cur; x != sp.parent; x = x.parent {
				x.status = txAborted
			}
			nsp := db.newXact(sp.parent, c.st)
			nsp.savepoint = m.Name
			c.st.cur = nsp
			c.st.cur.top.failed = false
			db.cond.Broadcast()
			return nil, nil
		case "noop", "create_other", "drop":
			return nil, nil
		case "create_sequence":
			key := normSeq(m.Name)
			if _, ok := db.sequences[key]; ok {
				return nil, pgErr("42P07", "relation %q already exists", m.Name)
			}
			v := int64(0)
			db.sequences[key] = &v
			if n, err := strconv.ParseInt(m.Args["cache"], 10, 64); err == nil && n > 1 {
				db.seqCache[key] = n
			}
			return nil, nil
		}
	}

	// a statement that touches data: needs a (possibly implicit) transaction
	implicit := false
	if c.st.cur == nil {
		c.st.cur = db.newXact(nil, c.st)
		implicit = true
	} else if c.st.cur.top.failed {
		return nil, pgErr("25P02", "current transaction is aborted, commands ignored until end of transaction block")
	}
	top := c.st.cur.top
	// READ COMMITTED: one snapshot per statement, kept while the statement waits for locks
	stmt := &stmtState{snap: db.commitSeq}
	for {
		stmt.seqIdx = 0
		if err := ctx.Err(); err != nil {
			if implicit {
				c.st.cur = nil
				db.endXact(top, false)
			} else {
				top.failed = true
			}
			return nil, err
		}
		sub := db.newXact(c.st.cur, c.st)
		ec := &execCtx{db: db, x: sub, conn: c.st, ctes: map[string]*relation{}, winMu: map[*Func]map[string]Value{}, stmt: stmt}
		var rel *relation
		var err error
		if m, ok := st.(*Misc); ok && m.Kind == "create_trigger" {
			err = ec.installTrigger(m)
		} else {
			rel, err = ec.runQuery(st, nil)
		}
		var retry *errRetry
		if errors.As(err, &retry) {
			db.abortSub(sub)
			if retry.waitFor > 0 && db.wouldDeadlock(top.id, retry.waitFor) {
				err = &PgError{Code: "40P01", Message: "deadlock detected"}
				db.deadlocks++
			} else {
				db.waits[top.id] = retry.waitFor
				if db.Hooks.Blocked != nil {
					db.mu.Unlock()
					db.Hooks.Blocked(c.st.id, retry.waitFor)
					db.mu.Lock()
				} else {
					db.cond.Wait()
				}
				delete(db.waits, top.id)
				if db.Hooks.Unblocked != nil {
					db.Hooks.Unblocked(c.st.id)
				}
				continue
			}
		}
		if err != nil {
			db.abortSub(sub)
			if implicit {
				c.st.cur = nil
				db.endXact(top, false)
			} else {
				top.failed = true
			}
			var un *ErrUnsupported
			if errors.As(err, &un) {
				return nil, fmt.Errorf("%w [statement: %s]", err, truncate(q, 1500))
			}
			return nil, err
		}
		sub.status = txCommitted // merged into its parent
		if implicit {
			c.st.cur = nil
			db.endXact(top, true)
			if h := db.Hooks.OnCommit; h != nil {
				h(c.st.id, db.commitSeq, false)
			}
		}
		return rel, nil
	}
}
