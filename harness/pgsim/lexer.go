package pgsim

import (
	"strings"
)

type tokKind uint8

const (
	tEOF tokKind = iota
	tIdent
	tQIdent // "quoted"
	tString
	tNumber
	tOp
	tParam
)

type token struct {
	kind tokKind
	text string // identifiers lower-cased (unquoted), strings unescaped
	pos  int
}

func isIdentStart(c byte) bool {
	return c == '_' || (c >= 'a' && c <= 'z') || (c >= 'A' && c <= 'Z') || c >= 0x80
}

func isIdentPart(c byte) bool { return isIdentStart(c) || (c >= '0' && c <= '9') || c == '$' }

const opChars = "+-*/<>=~!@#%^&|`?"

func lex(src string) ([]token, error) {
	var toks []token
	i := 0
	n := len(src)
	for i < n {
		c := src[i]
		switch {
		case c == ' ' || c == '\t' || c == '\n' || c == '\r':
			i++
		case c == '-' && i+1 < n && src[i+1] == '-':
			for i < n && src[i] != '\n' {
				i++
			}
		case c == '/' && i+1 < n && src[i+1] == '*':
			j := strings.Index(src[i+2:], "*/")
			if j < 0 {
				return nil, pgErr("42601", "unterminated comment")
			}
			i += j + 4
		case c == '\'' || ((c == 'E' || c == 'e') && i+1 < n && src[i+1] == '\''):
			escape := false
			start := i
			if c != '\'' {
				escape = true
				i++
			}
			i++
			var sb strings.Builder
			closed := false
			for i < n {
				ch := src[i]
				if ch == '\'' {
					if i+1 < n && src[i+1] == '\'' {
						sb.WriteByte('\'')
						i += 2
						continue
					}
					i++
					closed = true
					break
				}
				if escape && ch == '\\' && i+1 < n {
					i++
					switch src[i] {
					case 'n':
						sb.WriteByte('\n')
					case 't':
						sb.WriteByte('\t')
					case 'r':
						sb.WriteByte('\r')
					default:
						sb.WriteByte(src[i])
					}
					i++
					continue
				}
				sb.WriteByte(ch)
				i++
			}
			if !closed {
				return nil, pgErr("42601", "unterminated quoted string at or near %q", src[start:min(start+20, n)])
			}
			toks = append(toks, token{tString, sb.String(), start})
		case c == '"':
			start := i
			i++
			var sb strings.Builder
			closed := false
			for i < n {
				if src[i] == '"' {
					if i+1 < n && src[i+1] == '"' {
						sb.WriteByte('"')
						i += 2
						continue
					}
					i++
					closed = true
					break
				}
				sb.WriteByte(src[i])
				i++
			}
			if !closed {
				return nil, pgErr("42601", "unterminated quoted identifier")
			}
			toks = append(toks, token{tQIdent, sb.String(), start})
		case c >= '0' && c <= '9':
			start := i
			for i < n && (src[i] >= '0' && src[i] <= '9') {
				i++
			}
			if i < n && src[i] == '.' && i+1 < n && src[i+1] >= '0' && src[i+1] <= '9' {
				i++
				for i < n && (src[i] >= '0' && src[i] <= '9') {
					i++
				}
			}
			toks = append(toks, token{tNumber, src[start:i], start})
		case isIdentStart(c):
			start := i
			for i < n && isIdentPart(src[i]) {
				i++
			}
			toks = append(toks, token{tIdent, strings.ToLower(src[start:i]), start})
		case c == '$' && i+1 < n && src[i+1] >= '0' && src[i+1] <= '9':
			start := i
			i++
			for i < n && src[i] >= '0' && src[i] <= '9' {
				i++
			}
			toks = append(toks, token{tParam, src[start+1 : i], start})
		case c == '(' || c == ')' || c == ',' || c == ';' || c == '[' || c == ']' || c == '.':
			toks = append(toks, token{tOp, string(c), i})
			i++
		case c == ':':
			if i+1 < n && src[i+1] == ':' {
				toks = append(toks, token{tOp, "::", i})
				i += 2
			} else {
				toks = append(toks, token{tOp, ":", i})
				i++
			}
		case strings.IndexByte(opChars, c) >= 0:
			start := i
			for i < n && strings.IndexByte(opChars, src[i]) >= 0 {
				// do not swallow a comment start or a unary minus glued to an operator
				if i > start && (src[i] == '-' && i+1 < n && src[i+1] == '-') {
					break
				}
				if i > start && src[i] == '/' && i+1 < n && src[i+1] == '*' {
					break
				}
				i++
			}
			op := src[start:i]
			// split trailing +/- off multi-char operators ("=-1" lexes as "=" "-")
			for len(op) > 1 && (op[len(op)-1] == '-' || op[len(op)-1] == '+') && !strings.ContainsAny(op[:len(op)-1], "~!@#%^&|`?") {
				op = op[:len(op)-1]
				i--
			}
			toks = append(toks, token{tOp, op, start})
		default:
			return nil, pgErr("42601", "syntax error at or near %q", string(c))
		}
	}
	toks = append(toks, token{tEOF, "", n})
	return toks, nil
}
