package pgsim

import (
	"fmt"
	"sort"
	"strings"
)

// runQuery executes a query (select / values / data-modifying statement with
// RETURNING) and returns its result relation. outer is the scope of the
// enclosing row for correlated subqueries (nil at top level).
func (c *execCtx) runQuery(q Query, outer *scope) (*relation, error) {
	switch s := q.(type) {
	case *Select:
		return c.runSelect(s, outer)
	case *Insert:
		return c.runInsert(s, outer)
	case *Update:
		return c.runUpdate(s, outer)
	case *Delete:
		return c.runDelete(s, outer)
	}
	return nil, unsupported("query node %T", q)
}

func (c *execCtx) withCTEs(ctes []CTE, outer *scope) (*execCtx, error) {
	if len(ctes) == 0 {
		return c, nil
	}
	// CTEs are evaluated on first reference; data-modifying CTEs nobody reads run
	// after the main query (finishCTEs), as PostgreSQL does. All share the statement snapshot.
	cc := c.child()
	cc.cteDefs = map[string]*CTE{}
	cc.cteOuter = outer
	for i := range ctes {
		cc.cteDefs[ctes[i].Name] = &ctes[i]
		cc.cteOrder = append(cc.cteOrder, ctes[i].Name)
	}
	return cc, nil
}

func (c *execCtx) evalCTE(name string) error {
	cte := c.cteDefs[name]
	delete(c.cteDefs, name)
	rel, err := c.runQuery(cte.Q, c.cteOuter)
	if err != nil {
		return err
	}
	cols := make([]colDesc, len(rel.cols))
	for i, cd := range rel.cols {
		cols[i] = colDesc{Table: cte.Name, Name: cd.Name, Type: cd.Type}
		if i < len(cte.Cols) {
			cols[i].Name = cte.Cols[i]
		}
	}
	c.ctes[cte.Name] = &relation{cols: cols, rows: rel.rows}
	return nil
}

// finishCTEs runs the data-modifying CTEs that were never referenced and reports a deferred CTE error.
func (c *execCtx) finishCTEs(err error) error {
	if err != nil {
		return err
	}
	if c.cteErr != nil {
		return c.cteErr
	}
	for _, name := range c.cteOrder {
		cte, ok := c.cteDefs[name]
		if !ok {
			continue
		}
		if _, isSelect := cte.Q.(*Select); isSelect {
			continue
		}
		if err := c.evalCTE(name); err != nil {
			return err
		}
	}
	return c.cteErr
}

func (c *execCtx) runSelect(s *Select, outer *scope) (*relation, error) {
	cc, err := c.withCTEs(s.With, outer)
	if err != nil {
		return nil, err
	}
	rel, err := cc.runSelectSetOps(s, outer)
	if cc != c {
		err = cc.finishCTEs(err)
	}
	if err != nil {
		return nil, err
	}
	return rel, nil
}

func (cc *execCtx) runSelectSetOps(s *Select, outer *scope) (*relation, error) {
	rel, err := cc.runSelectCore(s, outer)
	if err != nil {
		return nil, err
	}
	for cur := s; cur.Next != nil; cur = cur.Next {
		nxt, err := cc.runSelectCore(cur.Next, outer)
		if err != nil {
			return nil, err
		}
		if len(nxt.cols) != len(rel.cols) {
			return nil, pgErr("42601", "each UNION query must have the same number of columns")
		}
		rel = &relation{cols: rel.cols, rows: append(append([][]Value{}, rel.rows...), nxt.rows...)}
		if !cur.UnionAll {
			seen := map[string]bool{}
			var out [][]Value
			for _, r := range rel.rows {
				k := groupKey(r)
				if !seen[k] {
					seen[k] = true
					out = append(out, r)
				}
			}
			rel.rows = out
		}
	}
	return rel, nil
}

type tuple struct {
	vals []Value
	// base rows backing this tuple, for FOR UPDATE locking
	base []*Row
}

type source struct {
	cols   []colDesc
	tuples []tuple
}

func (c *execCtx) scanTable(tr *TableRef, outer *scope) (*source, error) {
	alias := tr.Alias
	if alias == "" {
		alias = tr.Name
	}
	if tr.Schema == "" {
		if rel := c.lookupCTE(tr.Name); rel != nil {
			for cur := c; cur != nil; cur = cur.parent {
				if cur.cteErr != nil {
					return nil, cur.cteErr
				}
			}
			src := &source{}
			for _, cd := range rel.cols {
				src.cols = append(src.cols, colDesc{Table: alias, Name: cd.Name, Type: cd.Type})
			}
			for _, r := range rel.rows {
				src.tuples = append(src.tuples, tuple{vals: r})
			}
			return src, nil
		}
	}
	t, err := c.db.table(tr.Schema, tr.Name)
	if err != nil {
		return nil, err
	}
	src := &source{}
	for _, col := range t.Cols {
		src.cols = append(src.cols, colDesc{Table: alias, Name: col.Name, Type: col.Type})
	}
	for _, r := range t.rows {
		if c.vis(r) {
			src.tuples = append(src.tuples, tuple{vals: r.vals, base: []*Row{r}})
		}
	}
	return src, nil
}

func scopeOf(cols []colDesc, vals []Value, parent *scope) *scope {
	return &scope{cols: cols, vals: vals, parent: parent}
}

func (c *execCtx) fromItem(fi FromItem, outer *scope, left *source) (*source, error) {
	switch f := fi.(type) {
	case *TableRef:
		return c.scanTable(f, outer)
	case *SubqueryRef:
		rel, err := c.runQuery(f.Q, outer)
		if err != nil {
			return nil, err
		}
		src := &source{}
		for i, cd := range rel.cols {
			name := cd.Name
			if i < len(f.Cols) {
				name = f.Cols[i]
			}
			src.cols = append(src.cols, colDesc{Table: f.Alias, Name: name, Type: cd.Type})
		}
		for _, r := range rel.rows {
			src.tuples = append(src.tuples, tuple{vals: r})
		}
		return src, nil
	case *JoinRef:
		l, err := c.fromItem(f.Left, outer, nil)
		if err != nil {
			return nil, err
		}
		return c.join(l, f, outer)
	}
	return nil, unsupported("FROM item %T", fi)
}

func isLateral(fi FromItem) bool {
	if s, ok := fi.(*SubqueryRef); ok {
		return s.Lateral
	}
	return false
}

func (c *execCtx) join(l *source, j *JoinRef, outer *scope) (*source, error) {
	out := &source{}
	var rightCols []colDesc
	var staticRight *source
	if !isLateral(j.Right) {
		r, err := c.fromItem(j.Right, outer, nil)
		if err != nil {
			return nil, err
		}
		staticRight = r
		rightCols = r.cols
	}
	for _, lt := range l.tuples {
		lsc := scopeOf(l.cols, lt.vals, outer)
		right := staticRight
		if right == nil {
			r, err := c.fromItem(j.Right, lsc, nil)
			if err != nil {
				return nil, err
			}
			right = r
			rightCols = r.cols
		}
		matched := false
		for _, rt := range right.tuples {
			vals := append(append(make([]Value, 0, len(lt.vals)+len(rt.vals)), lt.vals...), rt.vals...)
			if j.On != nil {
				sc := scopeOf(append(append([]colDesc{}, l.cols...), right.cols...), vals, outer)
				v, err := c.eval(j.On, sc)
				if err != nil {
					return nil, err
				}
				if !truthy(v) {
					continue
				}
			}
			matched = true
			out.tuples = append(out.tuples, tuple{vals: vals, base: append(append([]*Row{}, lt.base...), rt.base...)})
		}
		if !matched && j.Kind == "left" {
			vals := append(append(make([]Value, 0, len(lt.vals)+len(rightCols)), lt.vals...), make([]Value, len(rightCols))...)
			out.tuples = append(out.tuples, tuple{vals: vals, base: lt.base})
		}
	}
	if rightCols == nil && isLateral(j.Right) {
		// no left rows: still need the right side's columns for name resolution
		if sq, ok := j.Right.(*SubqueryRef); ok {
			if cols, err := c.describeQuery(sq.Q, outer, l); err == nil {
				for _, cd := range cols {
					rightCols = append(rightCols, colDesc{Table: sq.Alias, Name: cd.Name, Type: cd.Type})
				}
			}
		}
	}
	out.cols = append(append([]colDesc{}, l.cols...), rightCols...)
	return out, nil
}

// describeQuery returns the output columns of a query without rows, by
// running it against an all-NULL outer row.
func (c *execCtx) describeQuery(q Query, outer *scope, l *source) ([]colDesc, error) {
	sc := scopeOf(l.cols, make([]Value, len(l.cols)), outer)
	rel, err := c.runQuery(q, sc)
	if err != nil {
		return nil, err
	}
	return rel.cols, nil
}

func outputName(it SelectItem) string {
	if it.Alias != "" {
		return it.Alias
	}
	e := it.X
	for {
		switch x := e.(type) {
		case *paren:
			e = x.X
			continue
		case *ColRef:
			return x.Name
		case *Func:
			return x.Name
		case *Cast:
			e = x.X
			if _, ok := e.(*Lit); ok {
				return x.Type.Name
			}
			continue
		case *Field:
			return x.Name
		case *Case:
			return "case"
		case *Subquery:
			if s, ok := x.Q.(*Select); ok && len(s.Items) == 1 {
				return outputName(s.Items[0])
			}
		case *Lit:
			if x.V.K == KBool {
				return "bool"
			}
		}
		return "?column?"
	}
}

func (c *execCtx) runSelectCore(s *Select, outer *scope) (*relation, error) {
	if s.With != nil && false {
		return nil, nil
	}
	cc := c
	if len(s.With) > 0 && s.Values == nil {
		// CTEs of a nested select core (set-operation operand)
	}
	if s.Values != nil {
		rel := &relation{}
		for i, row := range s.Values {
			vals := make([]Value, len(row))
			for k, e := range row {
				v, err := cc.eval(e, outer)
				if err != nil {
					return nil, err
				}
				vals[k] = v
			}
			if i == 0 {
				for k := range row {
					rel.cols = append(rel.cols, colDesc{Name: fmt.Sprintf("column%d", k+1)})
				}
			} else if len(vals) != len(rel.cols) {
				return nil, pgErr("42601", "VALUES lists must all be the same length")
			}
			rel.rows = append(rel.rows, vals)
		}
		return rel, nil
	}

	// FROM
	src := &source{tuples: []tuple{{}}}
	for i, fi := range s.From {
		var nxt *source
		var err error
		if i == 0 {
			nxt, err = cc.fromItem(fi, outer, nil)
			if err != nil {
				return nil, err
			}
			src = nxt
			continue
		}
		// comma join = cross join (lateral allowed)
		nxt, err = cc.join(src, &JoinRef{Right: fi, Kind: "cross"}, outer)
		if err != nil {
			return nil, err
		}
		src = nxt
	}

	// WHERE
	var rows []*scope
	var bases [][]*Row
	for _, t := range src.tuples {
		sc := scopeOf(src.cols, t.vals, outer)
		if s.Where != nil {
			v, err := cc.eval(s.Where, sc)
			if err != nil {
				return nil, err
			}
			if !truthy(v) {
				continue
			}
		}
		rows = append(rows, sc)
		bases = append(bases, t.base)
	}

	if s.ForUpdate {
		// rows are locked one after the other in output order (LockRows sits above the sort);
		// locks already taken are kept while the statement waits for the next one
		idx := make([]int, len(rows))
		for i := range idx {
			idx[i] = i
		}
		if len(s.OrderBy) > 0 {
			keys := make([][]Value, len(rows))
			sortable := true
			for i, r := range rows {
				for _, ob := range s.OrderBy {
					v, err := cc.eval(ob.X, r)
					if err != nil {
						sortable = false
						break
					}
					keys[i] = append(keys[i], v)
				}
				if !sortable {
					break
				}
			}
			if sortable {
				sort.SliceStable(idx, func(a, b int) bool {
					for k, ob := range s.OrderBy {
						if cmp := orderCompare(keys[idx[a]][k], keys[idx[b]][k], ob); cmp != 0 {
							return cmp < 0
						}
					}
					return false
				})
			}
		}
		drop := map[int]bool{}
		for _, i := range idx {
			b := bases[i]
			if len(b) == 0 {
				continue
			}
			if len(b) > 1 {
				return nil, unsupported("FOR UPDATE over a join")
			}
			latest, changed, err := cc.latestVersion(b[0])
			if err != nil {
				return nil, err
			}
			if latest == nil {
				drop[i] = true
				continue
			}
			if changed {
				// re-check the WHERE clause on the newest version and return that version
				nsc := scopeOf(src.cols, latest.vals, outer)
				if s.Where != nil {
					v, err := cc.eval(s.Where, nsc)
					if err != nil {
						return nil, err
					}
					if !truthy(v) {
						drop[i] = true
						continue
					}
				}
				rows[i] = nsc
			}
			if cc.x != nil {
				latest.locker = cc.x.top.id
			}
		}
		if len(drop) > 0 {
			var kept []*scope
			for i, r := range rows {
				if !drop[i] {
					kept = append(kept, r)
				}
			}
			rows = kept
		}
	}

	// GROUP BY / aggregates
	grouped := len(s.GroupBy) > 0
	if !grouped {
		for _, it := range s.Items {
			if hasAggregate(it.X) {
				grouped = true
			}
		}
		if s.Having != nil && hasAggregate(s.Having) {
			grouped = true
		}
	}
	if grouped {
		var order []string
		groups := map[string][]*scope{}
		for _, r := range rows {
			keys := make([]Value, len(s.GroupBy))
			for i, g := range s.GroupBy {
				v, err := cc.eval(g, r)
				if err != nil {
					return nil, err
				}
				keys[i] = v
			}
			k := groupKey(keys)
			if _, ok := groups[k]; !ok {
				order = append(order, k)
			}
			groups[k] = append(groups[k], r)
		}
		if len(s.GroupBy) == 0 && len(order) == 0 {
			order = []string{""}
			groups[""] = nil
		}
		var grows []*scope
		for _, k := range order {
			members := groups[k]
			g := &scope{cols: src.cols, parent: outer, group: members}
			if len(members) > 0 {
				g.vals = members[0].vals
			} else {
				g.vals = make([]Value, len(src.cols))
				g.group = []*scope{}
			}
			if s.Having != nil {
				v, err := cc.eval(s.Having, g)
				if err != nil {
					return nil, err
				}
				if !truthy(v) {
					continue
				}
			}
			grows = append(grows, g)
		}
		rows = grows
	}
	for i, r := range rows {
		r.window = rows
		r.self = i
	}

	// projection
	rel := &relation{}
	type outRow struct {
		vals []Value
		sc   *scope
	}
	var outs []outRow
	colsBuilt := false
	buildCols := func() {
		for _, it := range s.Items {
			if st, ok := it.X.(*Star); ok {
				for _, cd := range src.cols {
					if st.Table == "" || cd.Table == st.Table {
						rel.cols = append(rel.cols, colDesc{Name: cd.Name, Type: cd.Type})
					}
				}
				continue
			}
			cd := colDesc{Name: outputName(it)}
			if cr, ok := unparen(it.X).(*ColRef); ok {
				for _, sc := range src.cols {
					if sc.Name == cr.Name && (cr.Table == "" || cr.Table == sc.Table) {
						cd.Type = sc.Type
						break
					}
				}
			}
			rel.cols = append(rel.cols, cd)
		}
		colsBuilt = true
	}
	buildCols()
	_ = colsBuilt
	for _, r := range rows {
		var vals []Value
		for _, it := range s.Items {
			if st, ok := it.X.(*Star); ok {
				matched := false
				for i, cd := range src.cols {
					if st.Table == "" || cd.Table == st.Table {
						vals = append(vals, r.vals[i])
						matched = true
					}
				}
				if !matched && st.Table != "" {
					return nil, pgErr("42P01", "missing FROM-clause entry for table %q", st.Table)
				}
				continue
			}
			v, err := cc.eval(it.X, r)
			if err != nil {
				return nil, err
			}
			vals = append(vals, v)
		}
		outs = append(outs, outRow{vals: vals, sc: r})
	}

	// ORDER BY (output column names take precedence, then input columns)
	orderKeys := func(o outRow) ([]Value, error) {
		keys := make([]Value, len(s.OrderBy))
		for i, ob := range s.OrderBy {
			if v, ok, err := outputColumnValue(ob.X, rel.cols, o.vals); err != nil {
				return nil, err
			} else if ok {
				keys[i] = v
				continue
			}
			// evaluate against output columns first, then the input row
			osc := &scope{cols: rel.cols, vals: o.vals, parent: o.sc}
			osc.window, osc.group = o.sc.window, o.sc.group
			v, err := cc.eval(ob.X, osc)
			if err != nil {
				return nil, err
			}
			keys[i] = v
		}
		return keys, nil
	}
	if len(s.OrderBy) > 0 {
		type keyed struct {
			o    outRow
			keys []Value
		}
		ks := make([]keyed, len(outs))
		for i, o := range outs {
			k, err := orderKeys(o)
			if err != nil {
				return nil, err
			}
			ks[i] = keyed{o, k}
		}
		sort.SliceStable(ks, func(i, j int) bool {
			for k, ob := range s.OrderBy {
				if cmp := orderCompare(ks[i].keys[k], ks[j].keys[k], ob); cmp != 0 {
					return cmp < 0
				}
			}
			return false
		})
		for i := range ks {
			outs[i] = ks[i].o
		}
	}

	// DISTINCT ON / DISTINCT
	if len(s.DistinctOn) > 0 || s.Distinct {
		seen := map[string]bool{}
		var kept []outRow
		for _, o := range outs {
			var keys []Value
			if s.Distinct {
				keys = o.vals
			} else {
				for _, d := range s.DistinctOn {
					if v, ok, err := outputColumnValue(d, rel.cols, o.vals); err != nil {
						return nil, err
					} else if ok {
						keys = append(keys, v)
						continue
					}
					osc := &scope{cols: rel.cols, vals: o.vals, parent: o.sc}
					v, err := cc.eval(d, osc)
					if err != nil {
						return nil, err
					}
					keys = append(keys, v)
				}
			}
			k := groupKey(keys)
			if seen[k] {
				continue
			}
			seen[k] = true
			kept = append(kept, o)
		}
		outs = kept
	}

	// OFFSET / LIMIT
	if s.Offset != nil {
		v, err := cc.eval(s.Offset, outer)
		if err != nil {
			return nil, err
		}
		if v.K == KNum {
			n := int(v.N.Int64())
			if n > len(outs) {
				n = len(outs)
			}
			if n > 0 {
				outs = outs[n:]
			}
		}
	}
	if s.Limit != nil {
		v, err := cc.eval(s.Limit, outer)
		if err != nil {
			return nil, err
		}
		if v.K == KNum {
			n := int(v.N.Int64())
			if n < 0 {
				return nil, pgErr("2201W", "LIMIT must not be negative")
			}
			if n < len(outs) {
				outs = outs[:n]
			}
		}
	}
	for _, o := range outs {
		rel.rows = append(rel.rows, o.vals)
	}
	return rel, nil
}

func unparen(e Expr) Expr {
	for {
		p, ok := e.(*paren)
		if !ok {
			return e
		}
		e = p.X
	}
}

// outputColumnValue resolves an ORDER BY / DISTINCT ON item that is a bare
// output column name (or ordinal).
func outputColumnValue(e Expr, cols []colDesc, vals []Value) (Value, bool, error) {
	switch x := unparen(e).(type) {
	case *ColRef:
		if x.Table != "" {
			return Null, false, nil
		}
		for i, cd := range cols {
			if cd.Name == x.Name {
				return vals[i], true, nil
			}
		}
	case *Lit:
		if x.V.K == KNum {
			i := int(x.V.N.Int64())
			if i < 1 || i > len(vals) {
				return Null, false, pgErr("42P10", "ORDER BY position %d is not in select list", i)
			}
			return vals[i-1], true, nil
		}
	}
	return Null, false, nil
}

// ------------------------------------------------------------------ DML

func (c *execCtx) projectReturning(items []SelectItem, t *Table, alias string, rows [][]Value, outer *scope) (*relation, error) {
	rel := &relation{}
	if alias == "" {
		alias = t.Name
	}
	tcols := make([]colDesc, len(t.Cols))
	for i, col := range t.Cols {
		tcols[i] = colDesc{Table: alias, Name: col.Name, Type: col.Type}
	}
	for _, it := range items {
		if _, ok := it.X.(*Star); ok {
			for _, col := range t.Cols {
				rel.cols = append(rel.cols, colDesc{Name: col.Name, Type: col.Type})
			}
			continue
		}
		rel.cols = append(rel.cols, colDesc{Name: outputName(it)})
	}
	for _, r := range rows {
		sc := scopeOf(tcols, r, outer)
		var vals []Value
		for _, it := range items {
			if _, ok := it.X.(*Star); ok {
				vals = append(vals, r[:len(t.Cols)]...)
				continue
			}
			v, err := c.eval(it.X, sc)
			if err != nil {
				return nil, err
			}
			vals = append(vals, v)
		}
		rel.rows = append(rel.rows, vals)
	}
	return rel, nil
}

func (c *execCtx) runInsert(ins *Insert, outer *scope) (*relation, error) {
	cc, err := c.withCTEs(ins.With, outer)
	if err != nil {
		return nil, err
	}
	rel, err := c.runInsertBody(cc, ins, outer)
	if cc != c {
		err = cc.finishCTEs(err)
	}
	if err != nil {
		return nil, err
	}
	return rel, nil
}

func (c *execCtx) runInsertBody(cc *execCtx, ins *Insert, outer *scope) (*relation, error) {
	var err error
	t, err := cc.db.table(ins.Table.Schema, ins.Table.Name)
	if err != nil {
		return nil, err
	}
	cols := ins.Cols
	if len(cols) == 0 {
		for _, col := range t.Cols {
			cols = append(cols, col.Name)
		}
	}
	idx := make([]int, len(cols))
	for i, name := range cols {
		idx[i] = t.col(name)
		if idx[i] < 0 {
			return nil, pgErr("42703", "column %q of relation %q does not exist", name, t.Name)
		}
	}
	// source rows
	var input [][]Value
	var isDefault [][]bool
	if ins.Select != nil {
		rel, err := cc.runQuery(ins.Select, outer)
		if err != nil {
			return nil, err
		}
		for _, r := range rel.rows {
			if len(r) != len(cols) {
				return nil, pgErr("42601", "INSERT has %d target columns but %d expressions", len(cols), len(r))
			}
			input = append(input, r)
			isDefault = append(isDefault, make([]bool, len(r)))
		}
	} else {
		for _, row := range ins.Rows {
			if len(row) > len(cols) {
				return nil, pgErr("42601", "INSERT has more expressions than target columns")
			}
			vals := make([]Value, len(cols))
			defs := make([]bool, len(cols))
			for i := range cols {
				if i >= len(row) {
					defs[i] = true
					continue
				}
				if _, ok := row[i].(*DefaultExpr); ok {
					defs[i] = true
					continue
				}
				v, err := cc.eval(row[i], outer)
				if err != nil {
					return nil, err
				}
				vals[i] = v
			}
			input = append(input, vals)
			isDefault = append(isDefault, defs)
		}
	}

	alias := ins.Table.Alias
	if alias == "" {
		alias = t.Name
	}
	var affected [][]Value
	for ri, in := range input {
		newVals := make([]Value, len(t.Cols))
		given := make([]bool, len(t.Cols))
		for i, ci := range idx {
			if isDefault[ri][i] {
				continue
			}
			v, err := coerceToColumn(in[i], t.Cols[ci])
			if err != nil {
				return nil, err
			}
			newVals[ci] = v
			given[ci] = true
		}
		for ci, col := range t.Cols {
			if given[ci] {
				continue
			}
			switch {
			case col.Type == "serial":
				t.serial++
				newVals[ci] = Int(t.serial)
				if t.Schema == "_system" && t.Name == "ledgers" {
					// ids keep growing even if the insert is rolled back
				}
			case t.defaults[ci] != nil:
				v, err := cc.eval(t.defaults[ci], nil)
				if err != nil {
					return nil, err
				}
				v, err = coerceToColumn(v, col)
				if err != nil {
					return nil, err
				}
				newVals[ci] = v
			}
		}
		if err := cc.beforeInsert(t, newVals); err != nil {
			return nil, err
		}
		for ci, col := range t.Cols {
			if col.NotNull && newVals[ci].IsNull() {
				return nil, &PgError{Code: "23502", Message: fmt.Sprintf("null value in column %q of relation %q violates not-null constraint", col.Name, t.Name)}
			}
		}
		// uniqueness
		conflictRow, conflictIdx, err := cc.findConflict(t, newVals, nil)
		if err != nil {
			return nil, err
		}
		if conflictRow != nil {
			if ins.Conflict == nil || (len(ins.Conflict.Target) > 0 && !sameCols(ins.Conflict.Target, conflictIdx.Cols)) {
				return nil, uniqueViolation(t, conflictIdx, newVals)
			}
			if ins.Conflict.DoNothing {
				continue
			}
			// DO UPDATE
			if other := cc.db.lockedByOther(conflictRow, cc.x); other != 0 {
				return nil, &errRetry{waitFor: other}
			}
			tcols := make([]colDesc, len(t.Cols))
			ecols := make([]colDesc, len(t.Cols))
			for i, col := range t.Cols {
				tcols[i] = colDesc{Table: alias, Name: col.Name, Type: col.Type}
				ecols[i] = colDesc{Table: "excluded", Name: col.Name, Type: col.Type}
			}
			sc := scopeOf(tcols, conflictRow.vals, scopeOf(ecols, newVals, outer))
			if ins.Conflict.Where != nil {
				v, err := cc.eval(ins.Conflict.Where, sc)
				if err != nil {
					return nil, err
				}
				if !truthy(v) {
					continue
				}
			}
			updated, err := cc.applySet(t, conflictRow.vals, ins.Conflict.Set, sc)
			if err != nil {
				return nil, err
			}
			nr, err := cc.updateRow(t, conflictRow, updated)
			if err != nil {
				return nil, err
			}
			affected = append(affected, nr.vals)
			continue
		}
		nr := cc.insertRow(t, newVals)
		if err := cc.afterInsert(t, nr); err != nil {
			return nil, err
		}
		affected = append(affected, nr.vals)
	}
	rel := &relation{}
	if len(ins.Returning) > 0 {
		rel, err = cc.projectReturning(ins.Returning, t, alias, affected, outer)
		if err != nil {
			return nil, err
		}
	}
	rel.affected = len(affected)
	return rel, nil
}

func sameCols(a, b []string) bool {
	if len(a) != len(b) {
		return false
	}
	x := append([]string{}, a...)
	y := append([]string{}, b...)
	sort.Strings(x)
	sort.Strings(y)
	for i := range x {
		if x[i] != y[i] {
			return false
		}
	}
	return true
}

func uniqueViolation(t *Table, idx *UniqueIndex, vals []Value) error {
	parts := make([]string, len(idx.Cols))
	for i, cname := range idx.Cols {
		parts[i] = vals[t.col(cname)].String()
	}
	return &PgError{Code: "23505", Constraint: idx.Name,
		Message: fmt.Sprintf("duplicate key value violates unique constraint %q: Key (%s)=(%s) already exists", idx.Name, strings.Join(idx.Cols, ", "), strings.Join(parts, ", "))}
}

// findConflict looks for a row that collides with vals on any unique index.
// Rows written by other in-progress transactions make the statement wait.
func (c *execCtx) findConflict(t *Table, vals []Value, self *Row) (*Row, *UniqueIndex, error) {
	for ui := range t.Uniques {
		idx := &t.Uniques[ui]
		applies := func(v []Value) (bool, error) {
			for _, cname := range idx.Cols {
				if v[t.col(cname)].IsNull() {
					return false, nil
				}
			}
			if idx.partial != nil {
				cols := make([]colDesc, len(t.Cols))
				for i, col := range t.Cols {
					cols[i] = colDesc{Table: t.Name, Name: col.Name}
				}
				r, err := c.eval(idx.partial, scopeOf(cols, v, nil))
				if err != nil {
					return false, err
				}
				return truthy(r), nil
			}
			return true, nil
		}
		ok, err := applies(vals)
		if err != nil {
			return nil, nil, err
		}
		if !ok {
			continue
		}
		for _, r := range t.rows {
			if r == self {
				continue
			}
			same := true
			for _, cname := range idx.Cols {
				ci := t.col(cname)
				if r.vals[ci].IsNull() {
					same = false
					break
				}
				if cmp, err := compare(r.vals[ci], vals[ci]); err != nil || cmp != 0 {
					same = false
					break
				}
			}
			if !same {
				continue
			}
			if ok, err := applies(r.vals); err != nil || !ok {
				continue
			}
			if c.db.visible(r, c.x) {
				return r, idx, nil
			}
			// not visible: inserted by an in-progress transaction of someone else -> wait;
			// deleted by someone else in progress -> wait as well
			if c.db.effectiveStatus(r.xmin) == txInProgress && !c.sameTop(r.xmin) {
				return nil, nil, &errRetry{waitFor: c.db.topOf(r.xmin)}
			}
			if c.db.effectiveStatus(r.xmin) == txCommitted && r.xmax != 0 && c.db.effectiveStatus(r.xmax) == txInProgress && !c.sameTop(r.xmax) {
				return nil, nil, &errRetry{waitFor: c.db.topOf(r.xmax)}
			}
		}
	}
	return nil, nil, nil
}

func (c *execCtx) sameTop(xid int64) bool {
	return c.x != nil && c.db.topOf(xid) == c.x.top.id
}

func (c *execCtx) insertRow(t *Table, vals []Value) *Row {
	c.db.rowSeq++
	r := &Row{vals: vals, xmin: c.x.id, seq: c.db.rowSeq}
	t.rows = append(t.rows, r)
	return r
}

// latestVersion implements the READ COMMITTED rule for rows a statement wants
// to update, delete or lock: starting from the version its snapshot sees, follow
// the chain of versions committed since; wait while another transaction has a
// pending change or lock on it. It returns nil when the row was deleted (or
// already changed by this very statement), and changed=true when the caller has
// to re-check its WHERE clause against the newer version.
func (c *execCtx) latestVersion(r *Row) (cur *Row, changed bool, err error) {
	cur = r
	for cur.xmax != 0 {
		st := c.db.effectiveStatus(cur.xmax)
		if st == txAborted {
			break
		}
		if c.sameTop(cur.xmax) {
			if !c.db.ownLive(cur.xmax) {
				break
			}
			return nil, false, nil // already modified by this transaction (this statement)
		}
		if st == txInProgress {
			return nil, false, &errRetry{waitFor: c.db.topOf(cur.xmax)}
		}
		if cur.next == nil {
			return nil, false, nil // deleted
		}
		cur = cur.next
		changed = true
	}
	if other := c.db.lockedByOther(cur, c.x); other != 0 {
		return nil, false, &errRetry{waitFor: other}
	}
	return cur, changed, nil
}

// updateRow supersedes old with a new version carrying vals.
func (c *execCtx) updateRow(t *Table, old *Row, vals []Value) (*Row, error) {
	for ci, col := range t.Cols {
		if col.NotNull && vals[ci].IsNull() {
			return nil, &PgError{Code: "23502", Message: fmt.Sprintf("null value in column %q of relation %q violates not-null constraint", col.Name, t.Name)}
		}
	}
	if conflict, idx, err := c.findConflict(t, vals, old); err != nil {
		return nil, err
	} else if conflict != nil {
		return nil, uniqueViolation(t, idx, vals)
	}
	old.xmax = c.x.id
	c.db.rowSeq++
	nr := &Row{vals: vals, xmin: c.x.id, seq: old.seq}
	if old.locker != 0 {
		nr.locker = old.locker
	}
	old.next = nr
	t.rows = append(t.rows, nr)
	if err := c.afterUpdate(t, old, nr); err != nil {
		return nil, err
	}
	return nr, nil
}

func (c *execCtx) applySet(t *Table, cur []Value, set []Assignment, sc *scope) ([]Value, error) {
	out := append([]Value{}, cur...)
	for _, a := range set {
		ci := t.col(a.Col)
		if ci < 0 {
			return nil, pgErr("42703", "column %q of relation %q does not exist", a.Col, t.Name)
		}
		var v Value
		var err error
		if _, ok := a.X.(*DefaultExpr); ok {
			if t.defaults[ci] != nil {
				v, err = c.eval(t.defaults[ci], nil)
			}
		} else {
			v, err = c.eval(a.X, sc)
		}
		if err != nil {
			return nil, err
		}
		v, err = coerceToColumn(v, t.Cols[ci])
		if err != nil {
			return nil, err
		}
		out[ci] = v
	}
	return out, nil
}

func (c *execCtx) runUpdate(u *Update, outer *scope) (*relation, error) {
	cc, err := c.withCTEs(u.With, outer)
	if err != nil {
		return nil, err
	}
	rel, err := c.runUpdateBody(cc, u, outer)
	if cc != c {
		err = cc.finishCTEs(err)
	}
	if err != nil {
		return nil, err
	}
	return rel, nil
}

func (c *execCtx) runUpdateBody(cc *execCtx, u *Update, outer *scope) (*relation, error) {
	var err error
	t, err := cc.db.table(u.Table.Schema, u.Table.Name)
	if err != nil {
		return nil, err
	}
	alias := u.Table.Alias
	if alias == "" {
		alias = t.Name
	}
	tcols := make([]colDesc, len(t.Cols))
	for i, col := range t.Cols {
		tcols[i] = colDesc{Table: alias, Name: col.Name, Type: col.Type}
	}
	// FROM items
	from := &source{tuples: []tuple{{}}}
	for i, fi := range u.From {
		if i == 0 {
			from, err = cc.fromItem(fi, outer, nil)
		} else {
			from, err = cc.join(from, &JoinRef{Right: fi, Kind: "cross"}, outer)
		}
		if err != nil {
			return nil, err
		}
	}
	type target struct {
		row *Row
		sc  *scope
	}
	var targets []target
	done := map[*Row]bool{}
	snapshot := append([]*Row{}, t.rows...)
	for _, r := range snapshot {
		if !cc.vis(r) {
			continue
		}
		for _, ft := range from.tuples {
			fsc := scopeOf(from.cols, ft.vals, outer)
			sc := scopeOf(tcols, r.vals, fsc)
			if u.Where != nil {
				v, err := cc.eval(u.Where, sc)
				if err != nil {
					return nil, err
				}
				if !truthy(v) {
					continue
				}
			}
			if done[r] {
				continue
			}
			done[r] = true
			latest, changed, err := cc.latestVersion(r)
			if err != nil {
				return nil, err
			}
			if latest == nil {
				continue
			}
			if changed {
				// the row was changed by a transaction that committed after this statement's
				// snapshot: the WHERE clause is re-checked against the newest version
				sc = scopeOf(tcols, latest.vals, fsc)
				if u.Where != nil {
					v, err := cc.eval(u.Where, sc)
					if err != nil {
						return nil, err
					}
					if !truthy(v) {
						continue
					}
				}
			}
			targets = append(targets, target{latest, sc})
		}
	}
	var affected [][]Value
	allCols := tcols
	for _, tg := range targets {
		vals, err := cc.applySet(t, tg.row.vals, u.Set, tg.sc)
		if err != nil {
			return nil, err
		}
		nr, err := cc.updateRow(t, tg.row, vals)
		if err != nil {
			return nil, err
		}
		// RETURNING may reference FROM columns: keep them after the table columns
		rv := append([]Value{}, nr.vals...)
		if tg.sc.parent != nil && len(from.cols) > 0 {
			rv = append(rv, tg.sc.parent.vals...)
		}
		affected = append(affected, rv)
	}
	rel := &relation{}
	if len(u.Returning) > 0 {
		if len(from.cols) > 0 {
			allCols = append(append([]colDesc{}, tcols...), from.cols...)
		}
		rel, err = cc.projectReturningCols(u.Returning, t, allCols, affected, outer)
		if err != nil {
			return nil, err
		}
	}
	rel.affected = len(affected)
	return rel, nil
}

func (c *execCtx) projectReturningCols(items []SelectItem, t *Table, cols []colDesc, rows [][]Value, outer *scope) (*relation, error) {
	rel := &relation{}
	for _, it := range items {
		if _, ok := it.X.(*Star); ok {
			for _, col := range t.Cols {
				rel.cols = append(rel.cols, colDesc{Name: col.Name, Type: col.Type})
			}
			continue
		}
		rel.cols = append(rel.cols, colDesc{Name: outputName(it)})
	}
	for _, r := range rows {
		sc := scopeOf(cols, r, outer)
		var vals []Value
		for _, it := range items {
			if _, ok := it.X.(*Star); ok {
				vals = append(vals, r[:len(t.Cols)]...)
				continue
			}
			v, err := c.eval(it.X, sc)
			if err != nil {
				return nil, err
			}
			vals = append(vals, v)
		}
		rel.rows = append(rel.rows, vals)
	}
	return rel, nil
}

func (c *execCtx) runDelete(d *Delete, outer *scope) (*relation, error) {
	cc, err := c.withCTEs(d.With, outer)
	if err != nil {
		return nil, err
	}
	rel, err := c.runDeleteBody(cc, d, outer)
	if cc != c {
		err = cc.finishCTEs(err)
	}
	if err != nil {
		return nil, err
	}
	return rel, nil
}

func (c *execCtx) runDeleteBody(cc *execCtx, d *Delete, outer *scope) (*relation, error) {
	var err error
	t, err := cc.db.table(d.Table.Schema, d.Table.Name)
	if err != nil {
		return nil, err
	}
	alias := d.Table.Alias
	if alias == "" {
		alias = t.Name
	}
	tcols := make([]colDesc, len(t.Cols))
	for i, col := range t.Cols {
		tcols[i] = colDesc{Table: alias, Name: col.Name, Type: col.Type}
	}
	var targets []*Row
	for _, r := range append([]*Row{}, t.rows...) {
		if !cc.vis(r) {
			continue
		}
		if d.Where != nil {
			v, err := cc.eval(d.Where, scopeOf(tcols, r.vals, outer))
			if err != nil {
				return nil, err
			}
			if !truthy(v) {
				continue
			}
		}
		latest, changed, err := cc.latestVersion(r)
		if err != nil {
			return nil, err
		}
		if latest == nil {
			continue
		}
		if changed && d.Where != nil {
			v, err := cc.eval(d.Where, scopeOf(tcols, latest.vals, outer))
			if err != nil {
				return nil, err
			}
			if !truthy(v) {
				continue
			}
		}
		targets = append(targets, latest)
	}
	var affected [][]Value
	for _, r := range targets {
		r.xmax = cc.x.id
		r.next = nil
		affected = append(affected, r.vals)
	}
	rel := &relation{}
	if len(d.Returning) > 0 {
		rel, err = cc.projectReturning(d.Returning, t, alias, affected, outer)
		if err != nil {
			return nil, err
		}
	}
	rel.affected = len(affected)
	return rel, nil
}
