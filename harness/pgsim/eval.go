package pgsim

import (
	"encoding/hex"
	"encoding/json"
	"fmt"
	"math/big"
	"regexp"
	"sort"
	"strconv"
	"strings"
)

type colDesc struct {
	Table string // alias
	Name  string
	Type  string // column type when known ("" otherwise)
}

// scope is one row being evaluated plus the chain of outer rows (for
// correlated subqueries and lateral joins).
type scope struct {
	cols   []colDesc
	vals   []Value
	parent *scope
	group  []*scope // rows of the group when evaluating aggregates
	window []*scope // all rows of the select level (for window functions)
	self   int      // index of this row within window
	// excluded row for ON CONFLICT DO UPDATE lives in the scope chain as table "excluded"
}

// execCtx is the per-statement execution context.
type execCtx struct {
	db     *DB
	x      *xact // current (statement-level) sub-transaction
	conn   *connState
	ctes   map[string]*relation
	parent *execCtx
	winMu  map[*Func]map[string]Value
	stmtTS *Value
	stmt   *stmtState
	// cteDefs are the not yet evaluated CTEs of this level (evaluated on first reference)
	cteDefs  map[string]*CTE
	cteOrder []string
	cteOuter *scope
	cteErr   error
}

// stmtState is what a statement keeps across the re-executions that follow a
// lock wait: its snapshot and the sequence values it already drew.
type stmtState struct {
	snap     int64
	seqVals  []Value
	seqNames []string
	seqIdx   int
}

// vis is the statement-snapshot visibility of a row version.
func (c *execCtx) vis(r *Row) bool {
	if c.stmt == nil {
		return c.db.visible(r, c.x)
	}
	return c.db.visibleSnap(r, c.x, c.stmt.snap)
}

func (c *execCtx) lookupCTE(name string) *relation {
	for cur := c; cur != nil; cur = cur.parent {
		if r, ok := cur.ctes[name]; ok {
			return r
		}
		if _, ok := cur.cteDefs[name]; ok {
			if err := cur.evalCTE(name); err != nil {
				cur.cteErr = err
				return &relation{}
			}
			return cur.ctes[name]
		}
	}
	return nil
}

func (c *execCtx) child() *execCtx {
	return &execCtx{db: c.db, x: c.x, conn: c.conn, ctes: map[string]*relation{}, parent: c, winMu: c.winMu, stmtTS: c.stmtTS, stmt: c.stmt}
}

type relation struct {
	cols     []colDesc
	rows     [][]Value
	affected int
}

func truthy(v Value) bool { return v.K == KBool && v.B }

func (c *execCtx) resolve(sc *scope, ref *ColRef) (Value, error) {
	for s := sc; s != nil; s = s.parent {
		found := -1
		for i, cd := range s.cols {
			if cd.Name != ref.Name {
				continue
			}
			if ref.Table != "" && cd.Table != ref.Table {
				continue
			}
			if found >= 0 {
				// ambiguous only matters when unqualified and from different tables
				if ref.Table == "" && s.cols[found].Table != cd.Table {
					return Null, pgErr("42702", "column reference %q is ambiguous", ref.Name)
				}
				continue
			}
			found = i
		}
		if found >= 0 {
			return s.vals[found], nil
		}
		// whole-row reference: table alias used as a value is not supported
	}
	if ref.Table != "" {
		return Null, pgErr("42703", "column %s.%s does not exist", ref.Table, ref.Name)
	}
	return Null, pgErr("42703", "column %q does not exist", ref.Name)
}

var aggregates = map[string]bool{"sum": true, "max": true, "min": true, "count": true, "array_agg": true, "aggregate_objects": true, "bool_or": true, "bool_and": true, "jsonb_agg": true, "json_agg": true}

func isAggregate(f *Func) bool { return f.Over == nil && aggregates[f.Name] }

// hasAggregate reports whether the expression contains an aggregate call (not inside a subquery).
func hasAggregate(e Expr) bool {
	found := false
	walkExpr(e, func(x Expr) bool {
		if f, ok := x.(*Func); ok && isAggregate(f) {
			found = true
			return false
		}
		switch x.(type) {
		case *Subquery, *InSub, *Exists:
			return false
		}
		return true
	})
	return found
}

func walkExpr(e Expr, fn func(Expr) bool) {
	if e == nil || !fn(e) {
		return
	}
	switch x := e.(type) {
	case *paren:
		walkExpr(x.X, fn)
	case *Unary:
		walkExpr(x.X, fn)
	case *Binary:
		walkExpr(x.L, fn)
		walkExpr(x.R, fn)
	case *IsNull:
		walkExpr(x.X, fn)
	case *IsBool:
		walkExpr(x.X, fn)
	case *InList:
		walkExpr(x.X, fn)
		for _, i := range x.List {
			walkExpr(i, fn)
		}
	case *InSub:
		walkExpr(x.X, fn)
	case *Func:
		for _, a := range x.Args {
			walkExpr(a, fn)
		}
		if x.Over != nil {
			for _, a := range x.Over.PartitionBy {
				walkExpr(a, fn)
			}
			for _, o := range x.Over.OrderBy {
				walkExpr(o.X, fn)
			}
		}
	case *Cast:
		walkExpr(x.X, fn)
	case *Case:
		walkExpr(x.Operand, fn)
		for _, w := range x.Whens {
			walkExpr(w.Cond, fn)
			walkExpr(w.Then, fn)
		}
		walkExpr(x.Else, fn)
	case *RowCtor:
		for _, i := range x.Items {
			walkExpr(i, fn)
		}
	case *ArrayCtor:
		for _, i := range x.Items {
			walkExpr(i, fn)
		}
	case *Field:
		walkExpr(x.X, fn)
	case *Index:
		walkExpr(x.X, fn)
		walkExpr(x.Lo, fn)
		walkExpr(x.Hi, fn)
	case *Between:
		walkExpr(x.X, fn)
		walkExpr(x.Lo, fn)
		walkExpr(x.Hi, fn)
	}
}

func (c *execCtx) eval(e Expr, sc *scope) (Value, error) {
	switch x := e.(type) {
	case nil:
		return Null, nil
	case *paren:
		return c.eval(x.X, sc)
	case *Lit:
		return x.V, nil
	case *ColRef:
		return c.resolve(sc, x)
	case *Unary:
		v, err := c.eval(x.X, sc)
		if err != nil {
			return Null, err
		}
		switch x.Op {
		case "not":
			if v.IsNull() {
				return Null, nil
			}
			if v.K != KBool {
				return Null, pgErr("42804", "argument of NOT must be type boolean, not %s", kindName(v.K))
			}
			return Bool(!v.B), nil
		case "-":
			if v.IsNull() {
				return Null, nil
			}
			if v.K != KNum {
				return Null, pgErr("42883", "operator does not exist: - %s", kindName(v.K))
			}
			return Num(new(big.Int).Neg(v.N)), nil
		}
	case *Binary:
		return c.evalBinary(x, sc)
	case *IsNull:
		v, err := c.eval(x.X, sc)
		if err != nil {
			return Null, err
		}
		return Bool(v.IsNull() != x.Not), nil
	case *IsBool:
		v, err := c.eval(x.X, sc)
		if err != nil {
			return Null, err
		}
		r := !v.IsNull() && v.K == KBool && v.B == x.Value
		return Bool(r != x.Not), nil
	case *Between:
		v, err := c.eval(&Binary{Op: "and", L: &Binary{Op: ">=", L: x.X, R: x.Lo}, R: &Binary{Op: "<=", L: x.X, R: x.Hi}}, sc)
		if err != nil || v.IsNull() || !x.Not {
			return v, err
		}
		return Bool(!v.B), nil
	case *InList:
		l, err := c.eval(x.X, sc)
		if err != nil {
			return Null, err
		}
		if l.IsNull() {
			return Null, nil
		}
		sawNull := false
		for _, it := range x.List {
			r, err := c.eval(it, sc)
			if err != nil {
				return Null, err
			}
			if r.IsNull() {
				sawNull = true
				continue
			}
			cmp, err := compare(l, r)
			if err != nil {
				return Null, err
			}
			if cmp == 0 {
				return Bool(!x.Not), nil
			}
		}
		if sawNull {
			return Null, nil
		}
		return Bool(x.Not), nil
	case *InSub:
		l, err := c.eval(x.X, sc)
		if err != nil {
			return Null, err
		}
		rel, err := c.runQuery(x.Q, sc)
		if err != nil {
			return Null, err
		}
		if len(rel.cols) != 1 {
			return Null, pgErr("42601", "subquery has too many columns")
		}
		if l.IsNull() {
			if len(rel.rows) == 0 {
				return Bool(x.Not), nil
			}
			return Null, nil
		}
		sawNull := false
		for _, row := range rel.rows {
			if row[0].IsNull() {
				sawNull = true
				continue
			}
			cmp, err := compare(l, row[0])
			if err != nil {
				return Null, err
			}
			if cmp == 0 {
				return Bool(!x.Not), nil
			}
		}
		if sawNull {
			return Null, nil
		}
		return Bool(x.Not), nil
	case *Exists:
		rel, err := c.runQuery(x.Q, sc)
		if err != nil {
			return Null, err
		}
		return Bool(len(rel.rows) > 0), nil
	case *Subquery:
		rel, err := c.runQuery(x.Q, sc)
		if err != nil {
			return Null, err
		}
		if len(rel.cols) != 1 {
			return Null, pgErr("42601", "subquery must return only one column")
		}
		if len(rel.rows) == 0 {
			return Null, nil
		}
		if len(rel.rows) > 1 {
			return Null, pgErr("21000", "more than one row returned by a subquery used as an expression")
		}
		return rel.rows[0][0], nil
	case *Cast:
		v, err := c.eval(x.X, sc)
		if err != nil {
			return Null, err
		}
		return castTo(v, x.Type.Name)
	case *Case:
		if x.Operand != nil {
			op, err := c.eval(x.Operand, sc)
			if err != nil {
				return Null, err
			}
			for _, w := range x.Whens {
				wv, err := c.eval(w.Cond, sc)
				if err != nil {
					return Null, err
				}
				if !op.IsNull() && !wv.IsNull() {
					if cmp, err := compare(op, wv); err == nil && cmp == 0 {
						return c.eval(w.Then, sc)
					}
				}
			}
			return c.eval(x.Else, sc)
		}
		for _, w := range x.Whens {
			cond, err := c.eval(w.Cond, sc)
			if err != nil {
				return Null, err
			}
			if truthy(cond) {
				return c.eval(w.Then, sc)
			}
		}
		return c.eval(x.Else, sc)
	case *RowCtor:
		out := Value{K: KRow}
		for _, it := range x.Items {
			v, err := c.eval(it, sc)
			if err != nil {
				return Null, err
			}
			out.A = append(out.A, v)
		}
		return out, nil
	case *ArrayCtor:
		out := Value{K: KArray, A: []Value{}}
		for _, it := range x.Items {
			v, err := c.eval(it, sc)
			if err != nil {
				return Null, err
			}
			out.A = append(out.A, v)
		}
		return out, nil
	case *Field:
		v, err := c.eval(x.X, sc)
		if err != nil {
			return Null, err
		}
		if v.IsNull() {
			return Null, nil
		}
		if v.K != KRow {
			return Null, pgErr("42809", "column notation .%s applied to type %s, which is not a composite type", x.Name, kindName(v.K))
		}
		for i, f := range v.Fields {
			if f == x.Name && i < len(v.A) {
				return v.A[i], nil
			}
		}
		return Null, pgErr("42703", "column %q not found in data type record", x.Name)
	case *Index:
		return c.evalIndex(x, sc)
	case *Func:
		return c.evalFunc(x, sc)
	case *Star:
		return Null, pgErr("42601", "* is not allowed here")
	case *DefaultExpr:
		return Null, pgErr("42601", "DEFAULT is not allowed in this context")
	}
	return Null, unsupported("expression node %T", e)
}

func (c *execCtx) evalIndex(x *Index, sc *scope) (Value, error) {
	v, err := c.eval(x.X, sc)
	if err != nil {
		return Null, err
	}
	if v.IsNull() {
		return Null, nil
	}
	if v.K != KArray {
		return Null, pgErr("42804", "cannot subscript type %s", kindName(v.K))
	}
	bound := func(e Expr, def int) (int, bool, error) {
		if e == nil {
			return def, true, nil
		}
		b, err := c.eval(e, sc)
		if err != nil {
			return 0, false, err
		}
		if b.IsNull() {
			return 0, false, nil
		}
		if b.K != KNum {
			return 0, false, pgErr("42804", "array subscript must have type integer")
		}
		return int(b.N.Int64()), true, nil
	}
	if !x.Slice {
		i, ok, err := bound(x.Lo, 1)
		if err != nil || !ok {
			return Null, err
		}
		if i < 1 || i > len(v.A) {
			return Null, nil
		}
		return v.A[i-1], nil
	}
	lo, ok1, err := bound(x.Lo, 1)
	if err != nil {
		return Null, err
	}
	hi, ok2, err := bound(x.Hi, len(v.A))
	if err != nil {
		return Null, err
	}
	if !ok1 || !ok2 {
		return Null, nil
	}
	if lo < 1 {
		lo = 1
	}
	if hi > len(v.A) {
		hi = len(v.A)
	}
	if lo > hi {
		return Value{K: KArray, A: []Value{}}, nil
	}
	return Value{K: KArray, A: append([]Value{}, v.A[lo-1:hi]...)}, nil
}

func asJSON(v Value) (any, error) {
	switch v.K {
	case KJSON:
		return v.J, nil
	case KText:
		return parseJSON(v.S)
	}
	return nil, pgErr("42883", "cannot use %s as jsonb", kindName(v.K))
}

var jsonPathRe = regexp.MustCompile(`^\$\[(\d+)\]\s*==\s*"((?:[^"\\]|\\.)*)"$`)

func (c *execCtx) evalBinary(x *Binary, sc *scope) (Value, error) {
	switch x.Op {
	case "and", "or":
		l, err := c.eval(x.L, sc)
		if err != nil {
			return Null, err
		}
		if !l.IsNull() && l.K != KBool {
			return Null, pgErr("42804", "argument of %s must be type boolean", strings.ToUpper(x.Op))
		}
		if x.Op == "and" && !l.IsNull() && !l.B {
			return Bool(false), nil
		}
		if x.Op == "or" && !l.IsNull() && l.B {
			return Bool(true), nil
		}
		r, err := c.eval(x.R, sc)
		if err != nil {
			return Null, err
		}
		if !r.IsNull() && r.K != KBool {
			return Null, pgErr("42804", "argument of %s must be type boolean", strings.ToUpper(x.Op))
		}
		if x.Op == "and" {
			if !r.IsNull() && !r.B {
				return Bool(false), nil
			}
			if l.IsNull() || r.IsNull() {
				return Null, nil
			}
			return Bool(true), nil
		}
		if !r.IsNull() && r.B {
			return Bool(true), nil
		}
		if l.IsNull() || r.IsNull() {
			return Null, nil
		}
		return Bool(false), nil
	}
	l, err := c.eval(x.L, sc)
	if err != nil {
		return Null, err
	}
	r, err := c.eval(x.R, sc)
	if err != nil {
		return Null, err
	}
	switch x.Op {
	case "is distinct from", "is not distinct from":
		same := false
		if l.IsNull() || r.IsNull() {
			same = l.IsNull() && r.IsNull()
		} else if cmp, err := compare(l, r); err == nil {
			same = cmp == 0
		}
		return Bool(same == (x.Op == "is not distinct from")), nil
	}
	if l.IsNull() || r.IsNull() {
		return Null, nil
	}
	switch x.Op {
	case "=", "<>", "<", ">", "<=", ">=":
		if l.K == KJSON && r.K == KText {
			j, err := parseJSON(r.S)
			if err != nil {
				return Null, err
			}
			r = JSON(j)
		}
		if r.K == KJSON && l.K == KText {
			j, err := parseJSON(l.S)
			if err != nil {
				return Null, err
			}
			l = JSON(j)
		}
		if (l.K == KBool && r.K == KText) || (l.K == KText && r.K == KBool) {
			if l.K == KText {
				l, err = castTo(l, "bool")
			} else {
				r, err = castTo(r, "bool")
			}
			if err != nil {
				return Null, err
			}
		}
		cmp, err := compare(l, r)
		if err != nil {
			return Null, err
		}
		switch x.Op {
		case "=":
			return Bool(cmp == 0), nil
		case "<>":
			return Bool(cmp != 0), nil
		case "<":
			return Bool(cmp < 0), nil
		case ">":
			return Bool(cmp > 0), nil
		case "<=":
			return Bool(cmp <= 0), nil
		default:
			return Bool(cmp >= 0), nil
		}
	case "+", "-", "*", "/", "%":
		if x.Op == "-" && l.K == KJSON {
			// jsonb - text: delete key (or array element equal to the string)
			if r.K != KText {
				return Null, unsupported("jsonb - %s", kindName(r.K))
			}
			switch j := l.J.(type) {
			case map[string]any:
				out := map[string]any{}
				for k, v := range j {
					if k != r.S {
						out[k] = v
					}
				}
				return JSON(out), nil
			case []any:
				out := []any{}
				for _, v := range j {
					if s, ok := v.(string); ok && s == r.S {
						continue
					}
					out = append(out, v)
				}
				return JSON(out), nil
			}
			return Null, pgErr("22023", "cannot delete from scalar")
		}
		if l.K == KText {
			if n, ok := new(big.Int).SetString(strings.TrimSpace(l.S), 10); ok {
				l = Num(n)
			}
		}
		if r.K == KText {
			if n, ok := new(big.Int).SetString(strings.TrimSpace(r.S), 10); ok {
				r = Num(n)
			}
		}
		if l.K != KNum || r.K != KNum {
			return Null, pgErr("42883", "operator does not exist: %s %s %s", kindName(l.K), x.Op, kindName(r.K))
		}
		z := new(big.Int)
		switch x.Op {
		case "+":
			z.Add(l.N, r.N)
		case "-":
			z.Sub(l.N, r.N)
		case "*":
			z.Mul(l.N, r.N)
		case "/":
			if r.N.Sign() == 0 {
				return Null, pgErr("22012", "division by zero")
			}
			z.Quo(l.N, r.N)
		case "%":
			if r.N.Sign() == 0 {
				return Null, pgErr("22012", "division by zero")
			}
			z.Rem(l.N, r.N)
		}
		return Num(z), nil
	case "||":
		if l.K == KJSON || r.K == KJSON {
			lj, err := asJSON(l)
			if err != nil {
				return Null, err
			}
			rj, err := asJSON(r)
			if err != nil {
				return Null, err
			}
			lo, lok := lj.(map[string]any)
			ro, rok := rj.(map[string]any)
			if lok && rok {
				out := make(map[string]any, len(lo)+len(ro))
				for k, v := range lo {
					out[k] = v
				}
				for k, v := range ro {
					out[k] = v
				}
				return JSON(out), nil
			}
			toArr := func(j any) []any {
				if a, ok := j.([]any); ok {
					return a
				}
				return []any{j}
			}
			return JSON(append(append([]any{}, toArr(lj)...), toArr(rj)...)), nil
		}
		if l.K == KArray && r.K == KArray {
			return Array(append(append([]Value{}, l.A...), r.A...)), nil
		}
		if l.K == KBytes && r.K == KBytes {
			return Bytes(append(append([]byte{}, l.Bs...), r.Bs...)), nil
		}
		return Text(l.String() + r.String()), nil
	case "@>", "<@":
		if x.Op == "<@" {
			l, r = r, l
		}
		if l.K == KArray && r.K == KArray {
			for _, rv := range r.A {
				found := false
				for _, lv := range l.A {
					if cmp, err := compare(lv, rv); err == nil && cmp == 0 {
						found = true
						break
					}
				}
				if !found {
					return Bool(false), nil
				}
			}
			return Bool(true), nil
		}
		lj, err := asJSON(l)
		if err != nil {
			return Null, err
		}
		rj, err := asJSON(r)
		if err != nil {
			return Null, err
		}
		return Bool(jsonContains(lj, rj)), nil
	case "->", "->>":
		lj, err := asJSON(l)
		if err != nil {
			return Null, err
		}
		var res any
		found := false
		switch r.K {
		case KText:
			if o, ok := lj.(map[string]any); ok {
				res, found = o[r.S]
			}
		case KNum:
			if a, ok := lj.([]any); ok {
				i := int(r.N.Int64())
				if i < 0 {
					i += len(a)
				}
				if i >= 0 && i < len(a) {
					res, found = a[i], true
				}
			}
		default:
			return Null, pgErr("42883", "operator does not exist: jsonb %s %s", x.Op, kindName(r.K))
		}
		if !found {
			return Null, nil
		}
		if x.Op == "->" {
			return JSON(res), nil
		}
		if res == nil {
			return Null, nil
		}
		if s, ok := res.(string); ok {
			return Text(s), nil
		}
		return Text(jsonText(res)), nil
	case "?", "?|", "?&":
		lj, err := asJSON(l)
		if err != nil {
			return Null, err
		}
		has := func(k string) bool {
			switch j := lj.(type) {
			case map[string]any:
				_, ok := j[k]
				return ok
			case []any:
				for _, e := range j {
					if s, ok := e.(string); ok && s == k {
						return true
					}
				}
			case string:
				return j == k
			}
			return false
		}
		if x.Op == "?" {
			if r.K != KText {
				return Null, pgErr("42883", "operator does not exist: jsonb ? %s", kindName(r.K))
			}
			return Bool(has(r.S)), nil
		}
		if r.K != KArray {
			return Null, pgErr("42883", "operator does not exist: jsonb %s %s", x.Op, kindName(r.K))
		}
		any_, all := false, true
		for _, e := range r.A {
			if e.IsNull() {
				all = false
				continue
			}
			if has(e.String()) {
				any_ = true
			} else {
				all = false
			}
		}
		if x.Op == "?|" {
			return Bool(any_), nil
		}
		return Bool(all), nil
	case "@@":
		lj, err := asJSON(l)
		if err != nil {
			return Null, err
		}
		if r.K != KText {
			return Null, unsupported("jsonpath operand of kind %s", kindName(r.K))
		}
		m := jsonPathRe.FindStringSubmatch(strings.TrimSpace(r.S))
		if m == nil {
			return Null, unsupported("jsonpath %q", r.S)
		}
		idx, _ := strconv.Atoi(m[1])
		want, err := strconv.Unquote(`"` + m[2] + `"`)
		if err != nil {
			return Null, unsupported("jsonpath string %q", m[2])
		}
		a, ok := lj.([]any)
		if !ok {
			// lax mode: a non-array is treated as a one element array
			a = []any{lj}
		}
		if idx >= len(a) {
			return Bool(false), nil
		}
		s, ok := a[idx].(string)
		if !ok {
			// comparing a non-string with a string yields unknown -> null in @@; filters treat it as false
			return Null, nil
		}
		return Bool(s == want), nil
	case "like", "ilike":
		if l.K != KText || r.K != KText {
			return Null, pgErr("42883", "operator does not exist: %s ~~ %s", kindName(l.K), kindName(r.K))
		}
		return Bool(likeMatch(l.S, r.S, x.Op == "ilike")), nil
	}
	return Null, unsupported("operator %s", x.Op)
}

func likeMatch(s, pattern string, fold bool) bool {
	var sb strings.Builder
	sb.WriteString("(?s)^")
	if fold {
		sb.WriteString("(?i)")
	}
	for i := 0; i < len(pattern); i++ {
		ch := pattern[i]
		switch ch {
		case '%':
			sb.WriteString(".*")
		case '_':
			sb.WriteString(".")
		case '\\':
			if i+1 < len(pattern) {
				i++
				sb.WriteString(regexp.QuoteMeta(string(pattern[i])))
			}
		default:
			sb.WriteString(regexp.QuoteMeta(string(ch)))
		}
	}
	sb.WriteString("$")
	re, err := regexp.Compile(sb.String())
	if err != nil {
		return false
	}
	return re.MatchString(s)
}

// castTo converts a value to a named type. Unknown (schema-qualified
// composite) type names are treated by their bare name.
func castTo(v Value, typ string) (Value, error) {
	if v.IsNull() {
		return Null, nil
	}
	switch typ {
	case "jsonb", "json":
		switch v.K {
		case KJSON:
			return v, nil
		case KText:
			j, err := parseJSON(v.S)
			if err != nil {
				return Null, pgErr("22P02", "%v", err)
			}
			return JSON(j), nil
		case KBytes:
			j, err := parseJSON(string(v.Bs))
			if err != nil {
				return Null, pgErr("22P02", "%v", err)
			}
			return JSON(j), nil
		}
		return JSON(valueToJSON(v)), nil
	case "numeric", "bigint", "int", "integer", "int4", "int8", "smallint", "serial", "decimal":
		switch v.K {
		case KNum:
			if typ == "bigint" || typ == "int8" {
				if !v.N.IsInt64() {
					return Null, pgErr("22003", "bigint out of range")
				}
			}
			if typ == "int" || typ == "integer" || typ == "int4" {
				if !v.N.IsInt64() || v.N.Int64() > 2147483647 || v.N.Int64() < -2147483648 {
					return Null, pgErr("22003", "integer out of range")
				}
			}
			return v, nil
		case KText:
			n, ok := new(big.Int).SetString(strings.TrimSpace(v.S), 10)
			if !ok {
				return Null, pgErr("22P02", "invalid input syntax for type %s: %q", typ, v.S)
			}
			return castTo(Num(n), typ)
		case KJSON:
			if n, ok := v.J.(json.Number); ok {
				if i, ok := new(big.Int).SetString(n.String(), 10); ok {
					return Num(i), nil
				}
			}
			return Null, pgErr("22023", "cannot cast jsonb %s to type %s", jsonText(v.J), typ)
		case KBool:
			if v.B {
				return Int(1), nil
			}
			return Int(0), nil
		}
	case "text", "varchar", "char", "bpchar", "name", "log_type", "regclass", "unknown":
		if v.K == KText {
			return v, nil
		}
		return Text(v.String()), nil
	case "bool", "boolean":
		switch v.K {
		case KBool:
			return v, nil
		case KText:
			switch strings.ToLower(strings.TrimSpace(v.S)) {
			case "t", "true", "yes", "on", "1":
				return Bool(true), nil
			case "f", "false", "no", "off", "0":
				return Bool(false), nil
			}
			return Null, pgErr("22P02", "invalid input syntax for type boolean: %q", v.S)
		}
	case "timestamp", "timestamptz", "date":
		switch v.K {
		case KTime:
			out := v
			out.TZ = typ == "timestamptz"
			return out, nil
		case KText:
			t, err := parseTime(v.S)
			if err != nil {
				return Null, err
			}
			out := Time(t)
			out.TZ = typ == "timestamptz"
			return out, nil
		}
	case "bytea":
		switch v.K {
		case KBytes:
			return v, nil
		case KText:
			if strings.HasPrefix(v.S, `\x`) {
				b, err := hex.DecodeString(v.S[2:])
				if err != nil {
					return Null, pgErr("22P02", "invalid hexadecimal data")
				}
				return Bytes(b), nil
			}
			return Bytes([]byte(v.S)), nil
		}
	case "volumes":
		switch v.K {
		case KRow:
			if len(v.A) != 2 {
				return Null, pgErr("42846", "cannot cast record with %d fields to volumes", len(v.A))
			}
			a, err := castTo(v.A[0], "numeric")
			if err != nil {
				return Null, err
			}
			b, err := castTo(v.A[1], "numeric")
			if err != nil {
				return Null, err
			}
			return Value{K: KRow, A: []Value{a, b}, Fields: []string{"inputs", "outputs"}}, nil
		case KText:
			s := strings.TrimSpace(v.S)
			if len(s) < 2 || s[0] != '(' || s[len(s)-1] != ')' {
				return Null, pgErr("22P02", "malformed record literal: %q", v.S)
			}
			parts := strings.Split(s[1:len(s)-1], ",")
			if len(parts) != 2 {
				return Null, pgErr("22P02", "malformed record literal: %q", v.S)
			}
			fields := make([]Value, 2)
			for i, p := range parts {
				p = strings.TrimSpace(p)
				if p == "" {
					fields[i] = Null
					continue
				}
				n, ok := new(big.Int).SetString(p, 10)
				if !ok {
					return Null, pgErr("22P02", "invalid input syntax for type numeric: %q", p)
				}
				fields[i] = Num(n)
			}
			return Value{K: KRow, A: fields, Fields: []string{"inputs", "outputs"}}, nil
		}
	case "jsonpath":
		if v.K == KText {
			return v, nil
		}
	}
	return Null, unsupported("cast of %s to %s", kindName(v.K), typ)
}

// coerceToColumn converts an inserted/assigned value to the column's type.
func coerceToColumn(v Value, col Column) (Value, error) {
	if v.IsNull() {
		return Null, nil
	}
	t := col.Type
	if t == "serial" {
		t = "bigint"
	}
	out, err := castTo(v, t)
	if err != nil {
		return Null, err
	}
	return out, nil
}

func (c *execCtx) evalArgs(args []Expr, sc *scope) ([]Value, error) {
	out := make([]Value, len(args))
	for i, a := range args {
		v, err := c.eval(a, sc)
		if err != nil {
			return nil, err
		}
		out[i] = v
	}
	return out, nil
}

func (c *execCtx) evalFunc(f *Func, sc *scope) (Value, error) {
	if f.Over != nil {
		return c.evalWindow(f, sc)
	}
	if aggregates[f.Name] {
		return c.evalAggregate(f, sc)
	}
	args, err := c.evalArgs(f.Args, sc)
	if err != nil {
		return Null, err
	}
	argText := func(i int) (string, error) {
		if i >= len(args) || args[i].K != KText {
			return "", pgErr("42883", "function %s: argument %d must be text", f.Name, i+1)
		}
		return args[i].S, nil
	}
	switch f.Name {
	case "coalesce":
		for _, a := range args {
			if !a.IsNull() {
				return a, nil
			}
		}
		return Null, nil
	case "nullif":
		if len(args) == 2 && !args[0].IsNull() && !args[1].IsNull() {
			if cmp, err := compare(args[0], args[1]); err == nil && cmp == 0 {
				return Null, nil
			}
		}
		return args[0], nil
	case "least", "greatest":
		var best Value = Null
		for _, a := range args {
			if a.IsNull() {
				continue
			}
			if best.IsNull() {
				best = a
				continue
			}
			cmp, err := compare(a, best)
			if err != nil {
				return Null, err
			}
			if (f.Name == "least" && cmp < 0) || (f.Name == "greatest" && cmp > 0) {
				best = a
			}
		}
		return best, nil
	case "now", "transaction_timestamp":
		if c.x != nil {
			v := Time(c.x.top.start)
			v.TZ = true
			return v, nil
		}
		return c.statementTimestamp(), nil
	case "statement_timestamp", "clock_timestamp":
		return c.statementTimestamp(), nil
	case "transaction_date":
		top := c.x.top
		if top.txDate == nil {
			t := c.statementTimestamp().T
			top.txDate = &t
		}
		return Time(*top.txDate), nil
	case "nextval":
		name, err := argText(0)
		if err != nil {
			return Null, err
		}
		if st := c.stmt; st != nil {
			// a statement re-executed after a lock wait draws each value once, as PostgreSQL would
			if st.seqIdx < len(st.seqVals) && st.seqNames[st.seqIdx] == name {
				v := st.seqVals[st.seqIdx]
				st.seqIdx++
				return v, nil
			}
			v, err := c.db.nextval(c.sessionID(), name)
			if err != nil {
				return v, err
			}
			st.seqVals = append(st.seqVals[:st.seqIdx:st.seqIdx], v)
			st.seqNames = append(st.seqNames[:st.seqIdx:st.seqIdx], name)
			st.seqIdx++
			return v, nil
		}
		return c.db.nextval(c.sessionID(), name)
	case "currval":
		name, err := argText(0)
		if err != nil {
			return Null, err
		}
		p, ok := c.db.sequences[normSeq(name)]
		if !ok {
			return Null, pgErr("42P01", "relation %q does not exist", name)
		}
		return Int(*p), nil
	case "setval":
		name, err := argText(0)
		if err != nil {
			return Null, err
		}
		if len(args) < 2 {
			return Null, pgErr("42883", "setval needs a value")
		}
		if args[1].IsNull() {
			// setval is strict: a NULL argument yields NULL and changes nothing
			return Null, nil
		}
		p, ok := c.db.sequences[normSeq(name)]
		if !ok {
			return Null, pgErr("42P01", "relation %q does not exist", name)
		}
		if args[1].K != KNum || !args[1].N.IsInt64() {
			return Null, pgErr("22003", "setval: value out of range")
		}
		v := args[1].N.Int64()
		if v < 1 {
			return Null, pgErr("22003", "setval: value %d is out of bounds for sequence %q (1..9223372036854775807)", v, name)
		}
		called := true
		if len(args) > 2 && args[2].K == KBool {
			called = args[2].B
		}
		*p = v
		c.db.seqCalled[normSeq(name)] = called
		if local := c.db.seqLocal[c.sessionID()]; local != nil {
			delete(local, normSeq(name)) // setval discards the calling session's preallocated values only
		}
		return Int(v), nil
	case "hashtext":
		s, err := argText(0)
		if err != nil {
			return Null, err
		}
		return Int(hashText(s)), nil
	case "pg_advisory_lock", "pg_advisory_xact_lock", "pg_advisory_unlock", "pg_try_advisory_lock", "pg_try_advisory_xact_lock":
		if len(args) != 1 || args[0].K != KNum {
			return Null, unsupported("%s with these arguments", f.Name)
		}
		return c.advisory(f.Name, args[0].N.Int64())
	case "jsonb_array_length", "json_array_length":
		if args[0].IsNull() {
			return Null, nil
		}
		j, err := asJSON(args[0])
		if err != nil {
			return Null, err
		}
		a, ok := j.([]any)
		if !ok {
			return Null, pgErr("22023", "cannot get array length of a non-array")
		}
		return Int(int64(len(a))), nil
	case "json_build_object", "jsonb_build_object":
		if len(args)%2 != 0 {
			return Null, pgErr("22023", "argument list must have even number of elements")
		}
		out := map[string]any{}
		for i := 0; i < len(args); i += 2 {
			if args[i].IsNull() {
				return Null, pgErr("22004", "argument %d cannot be null", i+1)
			}
			out[args[i].String()] = valueToJSON(args[i+1])
		}
		return JSON(out), nil
	case "to_json", "to_jsonb":
		return JSON(valueToJSON(args[0])), nil
	case "string_to_array":
		if args[0].IsNull() {
			return Null, nil
		}
		sep, err := argText(1)
		if err != nil {
			return Null, err
		}
		parts := strings.Split(args[0].String(), sep)
		out := make([]Value, len(parts))
		for i, p := range parts {
			out[i] = Text(p)
		}
		return Array(out), nil
	case "array_to_string":
		if args[0].IsNull() {
			return Null, nil
		}
		sep, err := argText(1)
		if err != nil {
			return Null, err
		}
		var parts []string
		for _, e := range args[0].A {
			if e.IsNull() {
				continue
			}
			parts = append(parts, e.String())
		}
		return Text(strings.Join(parts, sep)), nil
	case "array_length":
		if args[0].IsNull() {
			return Null, nil
		}
		if len(args[0].A) == 0 {
			return Null, nil
		}
		return Int(int64(len(args[0].A))), nil
	case "cardinality":
		if args[0].IsNull() {
			return Null, nil
		}
		return Int(int64(len(args[0].A))), nil
	case "lower":
		if args[0].IsNull() {
			return Null, nil
		}
		return Text(strings.ToLower(args[0].String())), nil
	case "upper":
		if args[0].IsNull() {
			return Null, nil
		}
		return Text(strings.ToUpper(args[0].String())), nil
	case "length", "char_length":
		if args[0].IsNull() {
			return Null, nil
		}
		return Int(int64(len([]rune(args[0].String())))), nil
	case "abs":
		if args[0].IsNull() {
			return Null, nil
		}
		return Num(new(big.Int).Abs(args[0].N)), nil
	case "pg_sleep", "set_config", "pg_notify":
		return Null, nil
	case "version":
		return Text("PostgreSQL 16 (pgsim stand-in)"), nil
	case "current_schema":
		return Text("public"), nil
	}
	return Null, unsupported("function %s()", f.Name)
}

func (c *execCtx) statementTimestamp() Value {
	if c.stmtTS == nil {
		v := Time(c.db.now())
		v.TZ = true
		c.stmtTS = &v
	}
	return *c.stmtTS
}

func normSeq(name string) string {
	return strings.ReplaceAll(name, `"`, "")
}

func (c *execCtx) sessionID() int64 {
	if c.conn == nil {
		return 0
	}
	return c.conn.id
}

func (db *DB) nextval(session int64, name string) (Value, error) {
	key := normSeq(name)
	p, ok := db.sequences[key]
	if !ok {
		return Null, pgErr("42P01", "relation %q does not exist", name)
	}
	if n := db.seqCache[key]; n > 1 {
		// CREATE SEQUENCE ... CACHE n: the session takes n values at once and hands them out one by one; what it has
		// not used is lost when it ends, and other sessions draw their own ranges in the meantime
		local := db.seqLocal[session]
		if local == nil {
			local = map[string]*[2]int64{}
			db.seqLocal[session] = local
		}
		if r := local[key]; r != nil && r[0] <= r[1] {
			v := r[0]
			r[0]++
			return Int(v), nil
		}
		first := *p + 1
		if called, seen := db.seqCalled[key]; seen && !called {
			first = *p
		}
		*p = first + n - 1
		db.seqCalled[key] = true
		local[key] = &[2]int64{first + 1, *p}
		return Int(first), nil
	}
	if called, seen := db.seqCalled[key]; seen && !called {
		db.seqCalled[key] = true
		return Int(*p), nil
	}
	*p++
	db.seqCalled[key] = true
	return Int(*p), nil
}

func (c *execCtx) advisory(fn string, key int64) (Value, error) {
	db := c.db
	session := fn == "pg_advisory_lock" || fn == "pg_try_advisory_lock" || fn == "pg_advisory_unlock"
	var owner int64
	if session {
		owner = c.conn.id
	} else {
		owner = -c.x.top.id
	}
	l := db.advisory[key]
	if fn == "pg_advisory_unlock" {
		if l != nil && l.session && l.owner == owner {
			l.count--
			if l.count == 0 {
				delete(db.advisory, key)
				db.cond.Broadcast()
			}
			return Bool(true), nil
		}
		return Bool(false), nil
	}
	if l != nil && l.count > 0 {
		sameOwner := l.owner == owner
		// a session lock and a transaction lock of the same backend do not conflict either
		if !sameOwner {
			holderConn := int64(0)
			if l.session {
				holderConn = l.owner
			} else if x := db.xacts[-l.owner]; x != nil && x.conn != nil {
				holderConn = x.conn.id
			}
			if holderConn == c.conn.id {
				sameOwner = true
			}
		}
		if !sameOwner {
			if strings.HasPrefix(fn, "pg_try") {
				return Bool(false), nil
			}
			// wait for the holder: identify it by its top transaction when it has one
			waitFor := int64(0)
			if !l.session {
				waitFor = -l.owner
			} else {
				waitFor = -(1 << 40) - l.owner // pseudo id for a session holder
			}
			return Null, &errRetry{waitFor: waitFor}
		}
		if l.owner == owner {
			l.count++
			return Null, nil
		}
	}
	if l == nil || l.count == 0 {
		db.advisory[key] = &advisoryLock{owner: owner, count: 1, session: session}
	}
	if strings.HasPrefix(fn, "pg_try") {
		return Bool(true), nil
	}
	return Null, nil
}

// ------------------------------------------------------------- aggregates

func (c *execCtx) evalAggregate(f *Func, sc *scope) (Value, error) {
	if sc == nil || sc.group == nil {
		return Null, pgErr("42803", "aggregate function %s() used outside of a grouped context", f.Name)
	}
	rows := sc.group
	if f.Name == "count" && f.Star {
		return Int(int64(len(rows))), nil
	}
	if len(f.Args) != 1 {
		return Null, unsupported("aggregate %s with %d arguments", f.Name, len(f.Args))
	}
	var vals []Value
	seen := map[string]bool{}
	for _, r := range rows {
		inner := *r
		inner.group = nil
		v, err := c.eval(f.Args[0], &inner)
		if err != nil {
			return Null, err
		}
		if f.Distinct {
			k := groupKey([]Value{v})
			if seen[k] {
				continue
			}
			seen[k] = true
		}
		vals = append(vals, v)
	}
	switch f.Name {
	case "count":
		n := 0
		for _, v := range vals {
			if !v.IsNull() {
				n++
			}
		}
		return Int(int64(n)), nil
	case "sum":
		var sum *big.Int
		for _, v := range vals {
			if v.IsNull() {
				continue
			}
			if v.K != KNum {
				return Null, pgErr("42883", "function sum(%s) does not exist", kindName(v.K))
			}
			if sum == nil {
				sum = new(big.Int)
			}
			sum.Add(sum, v.N)
		}
		if sum == nil {
			return Null, nil
		}
		return Num(sum), nil
	case "max", "min":
		best := Null
		for _, v := range vals {
			if v.IsNull() {
				continue
			}
			if best.IsNull() {
				best = v
				continue
			}
			cmp, err := compare(v, best)
			if err != nil {
				return Null, err
			}
			if (f.Name == "max" && cmp > 0) || (f.Name == "min" && cmp < 0) {
				best = v
			}
		}
		return best, nil
	case "array_agg":
		if len(vals) == 0 {
			return Null, nil
		}
		return Array(vals), nil
	case "jsonb_agg", "json_agg":
		if len(vals) == 0 {
			return Null, nil
		}
		out := make([]any, len(vals))
		for i, v := range vals {
			out[i] = valueToJSON(v)
		}
		return JSON(out), nil
	case "aggregate_objects":
		out := map[string]any{}
		for _, v := range vals {
			if v.IsNull() {
				continue // jsonb_concat is strict: null inputs are skipped by the aggregate
			}
			j, err := asJSON(v)
			if err != nil {
				return Null, err
			}
			o, ok := j.(map[string]any)
			if !ok {
				return Null, unsupported("aggregate_objects over a non-object")
			}
			for k, e := range o {
				out[k] = e
			}
		}
		return JSON(out), nil
	case "bool_or", "bool_and":
		res := Null
		for _, v := range vals {
			if v.IsNull() {
				continue
			}
			if res.IsNull() {
				res = v
			} else if f.Name == "bool_or" {
				res = Bool(res.B || v.B)
			} else {
				res = Bool(res.B && v.B)
			}
		}
		return res, nil
	}
	return Null, unsupported("aggregate %s", f.Name)
}

// --------------------------------------------------------- window functions

func (c *execCtx) evalWindow(f *Func, sc *scope) (Value, error) {
	if sc == nil || sc.window == nil {
		return Null, pgErr("42P20", "window function %s() used in a context without rows", f.Name)
	}
	partKey := func(r *scope) (string, error) {
		inner := *r
		vals := make([]Value, 0, len(f.Over.PartitionBy))
		for _, pe := range f.Over.PartitionBy {
			v, err := c.eval(pe, &inner)
			if err != nil {
				return "", err
			}
			vals = append(vals, v)
		}
		return groupKey(vals), nil
	}
	myKey, err := partKey(sc)
	if err != nil {
		return Null, err
	}
	type member struct {
		sc   *scope
		keys []Value
	}
	var part []member
	for _, r := range sc.window {
		k, err := partKey(r)
		if err != nil {
			return Null, err
		}
		if k != myKey {
			continue
		}
		m := member{sc: r}
		for _, o := range f.Over.OrderBy {
			v, err := c.eval(o.X, r)
			if err != nil {
				return Null, err
			}
			m.keys = append(m.keys, v)
		}
		part = append(part, m)
	}
	sort.SliceStable(part, func(i, j int) bool {
		for k, o := range f.Over.OrderBy {
			cmp := orderCompare(part[i].keys[k], part[j].keys[k], o)
			if cmp != 0 {
				return cmp < 0
			}
		}
		return false
	})
	switch f.Name {
	case "first_value":
		if len(f.Args) != 1 || len(part) == 0 {
			return Null, unsupported("first_value arguments")
		}
		return c.eval(f.Args[0], part[0].sc)
	case "row_number":
		for i, m := range part {
			if m.sc == sc || m.sc.self == sc.self {
				return Int(int64(i + 1)), nil
			}
		}
		return Null, nil
	}
	return Null, unsupported("window function %s", f.Name)
}

func orderCompare(a, b Value, o OrderItem) int {
	// default: NULLS LAST for ASC, NULLS FIRST for DESC
	if a.IsNull() || b.IsNull() {
		if a.IsNull() && b.IsNull() {
			return 0
		}
		nullsLast := !o.Desc
		if o.NullsSet {
			nullsLast = o.NullsLast
		}
		if a.IsNull() == nullsLast {
			return 1
		}
		return -1
	}
	cmp := sortCompare(a, b)
	if o.Desc {
		return -cmp
	}
	return cmp
}

func describeValue(v Value) string { return fmt.Sprintf("%s(%s)", kindName(v.K), v.String()) }
