package pgsim

import (
	"crypto/sha256"
	"encoding/base64"
	"encoding/json"
	"math/big"
	"strings"
)

// Native ports of the row triggers and always-on column rules of the bucket
// schema (internal/storage/bucket/migrations). Which per-ledger triggers are
// installed is decided by the real DefaultBucket.AddLedger: its CREATE TRIGGER
// statements are parsed and recorded, and only recorded triggers fire here.
// The PL/pgSQL bodies themselves are NOT executed (no PL/pgSQL interpreter);
// these ports are part of the stand-in's trusted base.

func (t *Table) hasTrigger(ledger, function string) bool {
	for _, tr := range t.Triggers {
		if tr.Function == function && (tr.Ledger == "" || tr.Ledger == ledger) {
			return true
		}
	}
	return false
}

// firing counts the installed triggers running that function for a row of the ledger: every CREATE TRIGGER is a trigger
// of its own, and one whose WHEN clause does not name a ledger fires for the rows of every ledger of the bucket.
func (t *Table) firing(ledger, function string) int {
	n := 0
	for _, tr := range t.Triggers {
		if tr.Function == function && (tr.Ledger == "" || tr.Ledger == ledger) {
			n++
		}
	}
	return n
}

func (c *execCtx) installTrigger(m *Misc) error {
	parts := strings.Split(strings.ReplaceAll(m.Args["table"], `"`, ""), ".")
	if len(parts) != 2 {
		return unsupported("CREATE TRIGGER on unqualified table %q", m.Args["table"])
	}
	t, err := c.db.table(parts[0], parts[1])
	if err != nil {
		return err
	}
	switch m.Args["function"] {
	case "update_transaction_metadata_history", "insert_transaction_metadata_history", "update_account_metadata_history",
		"insert_account_metadata_history", "set_effective_volumes", "update_effective_volumes", "set_log_hash":
	default:
		return unsupported("trigger function %s()", m.Args["function"])
	}
	for _, tr := range t.Triggers {
		if tr.Name == m.Name {
			return pgErr("42710", "trigger %q for relation %q already exists", m.Name, t.Name)
		}
	}
	t.Triggers = append(t.Triggers, Trigger{Name: m.Name, Timing: m.Args["timing"], Event: m.Args["event"], Ledger: m.Args["ledger"], Function: m.Args["function"]})
	return nil
}

func txt(v Value) string {
	if v.IsNull() {
		return ""
	}
	return v.String()
}

func (c *execCtx) beforeInsert(t *Table, vals []Value) error {
	switch t.Name {
	case "transactions":
		if t.Schema == "_system" {
			return nil
		}
		// set_transaction_updated_at: before insert when updated_at is null
		if ua := t.col("updated_at"); vals[ua].IsNull() {
			vals[ua] = vals[t.col("inserted_at")]
		}
	case "moves":
		ledger := txt(vals[t.col("ledger")])
		if t.hasTrigger(ledger, "set_effective_volumes") {
			c.setEffectiveVolumes(t, vals)
		}
	case "logs":
		ledger := txt(vals[t.col("ledger")])
		if t.hasTrigger(ledger, "set_log_hash") {
			c.setLogHash(t, vals)
		}
	}
	return nil
}

func volumesRow(in, out *big.Int) Value {
	return Value{K: KRow, A: []Value{Num(in), Num(out)}, Fields: []string{"inputs", "outputs"}}
}

func (c *execCtx) setEffectiveVolumes(t *Table, vals []Value) {
	acc, asset, ledger := vals[t.col("accounts_address")], vals[t.col("asset")], vals[t.col("ledger")]
	eff, seq := vals[t.col("effective_date")], vals[t.col("seq")]
	amount := vals[t.col("amount")].N
	isSource := vals[t.col("is_source")].B
	var best *Row
	for _, r := range t.rows {
		if !c.db.visible(r, c.x) {
			continue
		}
		if txt(r.vals[t.col("accounts_address")]) != txt(acc) || txt(r.vals[t.col("asset")]) != txt(asset) || txt(r.vals[t.col("ledger")]) != txt(ledger) {
			continue
		}
		re, rs := r.vals[t.col("effective_date")], r.vals[t.col("seq")]
		before := re.T.Before(eff.T) || (re.T.Equal(eff.T) && rs.N.Cmp(seq.N) < 0)
		if !before {
			continue
		}
		if best == nil {
			best = r
			continue
		}
		be, bs := best.vals[t.col("effective_date")], best.vals[t.col("seq")]
		if re.T.After(be.T) || (re.T.Equal(be.T) && rs.N.Cmp(bs.N) > 0) {
			best = r
		}
	}
	in, out := new(big.Int), new(big.Int)
	if best != nil {
		if pcev := best.vals[t.col("post_commit_effective_volumes")]; pcev.K == KRow {
			in.Set(pcev.A[0].N)
			out.Set(pcev.A[1].N)
		}
	}
	if isSource {
		out.Add(out, amount)
	} else {
		in.Add(in, amount)
	}
	vals[t.col("post_commit_effective_volumes")] = volumesRow(in, out)
}

func (c *execCtx) afterInsert(t *Table, r *Row) error {
	if t.Schema == "_system" {
		return nil
	}
	switch t.Name {
	case "transactions":
		ledger := txt(r.vals[t.col("ledger")])
		if t.hasTrigger(ledger, "insert_transaction_metadata_history") {
			return c.insertHistory(t.Schema, "transactions_metadata", map[string]Value{
				"ledger": r.vals[t.col("ledger")], "transactions_id": r.vals[t.col("id")], "revision": Int(1),
				"date": r.vals[t.col("timestamp")], "metadata": r.vals[t.col("metadata")],
			})
		}
	case "accounts":
		ledger := txt(r.vals[t.col("ledger")])
		if t.hasTrigger(ledger, "insert_account_metadata_history") {
			return c.insertHistory(t.Schema, "accounts_metadata", map[string]Value{
				"ledger": r.vals[t.col("ledger")], "accounts_address": r.vals[t.col("address")], "revision": Int(1),
				"date": r.vals[t.col("insertion_date")], "metadata": r.vals[t.col("metadata")],
			})
		}
	case "moves":
		ledger := txt(r.vals[t.col("ledger")])
		for i, n := 0, t.firing(ledger, "update_effective_volumes"); i < n; i++ {
			c.updateEffectiveVolumes(t, r)
		}
	}
	return nil
}

func (c *execCtx) updateEffectiveVolumes(t *Table, nr *Row) {
	acc, asset, ledger := txt(nr.vals[t.col("accounts_address")]), txt(nr.vals[t.col("asset")]), txt(nr.vals[t.col("ledger")])
	eff := nr.vals[t.col("effective_date")].T
	amount := nr.vals[t.col("amount")].N
	isSource := nr.vals[t.col("is_source")].B
	pc := t.col("post_commit_effective_volumes")
	snapshot := append([]*Row{}, t.rows...)
	for _, r := range snapshot {
		if r == nr || !c.db.visible(r, c.x) {
			continue
		}
		if txt(r.vals[t.col("accounts_address")]) != acc || txt(r.vals[t.col("asset")]) != asset || txt(r.vals[t.col("ledger")]) != ledger {
			continue
		}
		if !r.vals[t.col("effective_date")].T.After(eff) {
			continue
		}
		cur := r.vals[pc]
		if cur.K != KRow {
			continue // null composite: the arithmetic yields null in SQL as well
		}
		in, out := new(big.Int).Set(cur.A[0].N), new(big.Int).Set(cur.A[1].N)
		if isSource {
			out.Add(out, amount)
		} else {
			in.Add(in, amount)
		}
		vals := append([]Value{}, r.vals...)
		vals[pc] = volumesRow(in, out)
		r.xmax = c.x.id
		c.db.rowSeq++
		t.rows = append(t.rows, &Row{vals: vals, xmin: c.x.id, seq: r.seq, locker: r.locker})
	}
}

func (c *execCtx) afterUpdate(t *Table, old, nr *Row) error {
	if t.Schema == "_system" {
		return nil
	}
	switch t.Name {
	case "transactions":
		ledger := txt(nr.vals[t.col("ledger")])
		if t.hasTrigger(ledger, "update_transaction_metadata_history") {
			rev := c.nextRevision(t.Schema, "transactions_metadata", "transactions_id", nr.vals[t.col("id")], nr.vals[t.col("ledger")])
			return c.insertHistory(t.Schema, "transactions_metadata", map[string]Value{
				"ledger": nr.vals[t.col("ledger")], "transactions_id": nr.vals[t.col("id")], "revision": rev,
				"date": nr.vals[t.col("updated_at")], "metadata": nr.vals[t.col("metadata")],
			})
		}
	case "accounts":
		ledger := txt(nr.vals[t.col("ledger")])
		if t.hasTrigger(ledger, "update_account_metadata_history") {
			rev := c.nextRevision(t.Schema, "accounts_metadata", "accounts_address", nr.vals[t.col("address")], nr.vals[t.col("ledger")])
			return c.insertHistory(t.Schema, "accounts_metadata", map[string]Value{
				"ledger": nr.vals[t.col("ledger")], "accounts_address": nr.vals[t.col("address")], "revision": rev,
				"date": nr.vals[t.col("updated_at")], "metadata": nr.vals[t.col("metadata")],
			})
		}
	}
	return nil
}

func (c *execCtx) nextRevision(schema, table, keyCol string, key, ledger Value) Value {
	t := c.db.tables[schema+"."+table]
	best := big.NewInt(0)
	found := false
	for _, r := range t.rows {
		if !c.db.visible(r, c.x) {
			continue
		}
		if txt(r.vals[t.col("ledger")]) != txt(ledger) {
			continue
		}
		if cmp, err := compare(r.vals[t.col(keyCol)], key); err != nil || cmp != 0 {
			continue
		}
		if rv := r.vals[t.col("revision")]; rv.K == KNum && (!found || rv.N.Cmp(best) > 0) {
			best = rv.N
			found = true
		}
	}
	if !found {
		return Int(1)
	}
	return Num(new(big.Int).Add(best, big.NewInt(1)))
}

func (c *execCtx) insertHistory(schema, table string, fields map[string]Value) error {
	t := c.db.tables[schema+"."+table]
	vals := make([]Value, len(t.Cols))
	for ci, col := range t.Cols {
		if v, ok := fields[col.Name]; ok {
			cv, err := coerceToColumn(v, col)
			if err != nil {
				return err
			}
			vals[ci] = cv
			continue
		}
		if col.Type == "serial" {
			t.serial++
			vals[ci] = Int(t.serial)
		}
	}
	for ci, col := range t.Cols {
		if col.NotNull && vals[ci].IsNull() {
			return &PgError{Code: "23502", Message: "null value in column \"" + col.Name + "\" of relation \"" + t.Name + "\" violates not-null constraint"}
		}
	}
	c.insertRow(t, vals)
	return nil
}

// setLogHash stands in for the set_log_hash trigger: the previous hash is the
// hash of the ledger's latest log visible to the inserting transaction, and the
// new hash is the documented chain hash over the bytes of the memento column.
func (c *execCtx) setLogHash(t *Table, vals []Value) {
	ledger := txt(vals[t.col("ledger")])
	var prev *Row
	for _, r := range t.rows {
		if !c.db.visible(r, c.x) || txt(r.vals[t.col("ledger")]) != ledger {
			continue
		}
		if prev == nil || r.vals[t.col("id")].N.Cmp(prev.vals[t.col("id")].N) > 0 {
			prev = r
		}
	}
	var prevHash []byte
	if prev != nil && prev.vals[t.col("hash")].K == KBytes {
		prevHash = prev.vals[t.col("hash")].Bs
	}
	vals[t.col("hash")] = Bytes(ChainHash(prevHash, txt(vals[t.col("type")]), vals[t.col("memento")].Bs, vals[t.col("date")],
		txt(vals[t.col("idempotency_key")]), txt(vals[t.col("schema_version")])))
}

// ChainHash is an independent implementation of the documented log hash:
// SHA-256 over the JSON of the previous hash (base64 string) and a newline
// (only when there is a previous log), followed by the JSON object
// {"type","data","date","idempotencyKey","id":0,"hash":null[,"schemaVersion"]}
// and a newline. data is the memento, embedded verbatim.
func ChainHash(prev []byte, typ string, memento []byte, date Value, ik, schemaVersion string) []byte {
	h := sha256.New()
	if prev != nil {
		h.Write([]byte(`"` + base64.StdEncoding.EncodeToString(prev) + `"` + "\n"))
	}
	q := func(s string) string {
		b, _ := jsonMarshalNoHTMLEscapeOff(s)
		return string(b)
	}
	var sb strings.Builder
	sb.WriteString(`{"type":` + q(typ) + `,"data":`)
	sb.Write(memento)
	sb.WriteString(`,"date":"` + date.T.UTC().Format("2006-01-02T15:04:05.999999999Z07:00") + `"`)
	sb.WriteString(`,"idempotencyKey":` + q(ik) + `,"id":0,"hash":null`)
	if schemaVersion != "" {
		sb.WriteString(`,"schemaVersion":` + q(schemaVersion))
	}
	sb.WriteString("}\n")
	h.Write([]byte(sb.String()))
	return h.Sum(nil)
}

// jsonMarshalNoHTMLEscapeOff marshals a string the way encoding/json's Encoder
// does by default (HTML-special characters escaped), which is what the
// documented Go-side format produces.
func jsonMarshalNoHTMLEscapeOff(s string) ([]byte, error) { return json.Marshal(s) }
