// Package pgsim is the Postgres stand-in used by the ledger-level engines: a
// small SQL engine (lexer, parser, evaluator, executor) over in-memory,
// multi-version tables, exposed as a database/sql driver so that bun — and
// therefore the real internal/storage code — talks to it unchanged.
//
// It implements the subset of PostgreSQL that formancehq/ledger emits from Go
// (see DESIGN.md §2.2/2.3). It is an environment, never an oracle. Anything
// outside the subset yields ErrUnsupported, which the checks report as
// "inconclusive", never as a violation.
package pgsim

import (
	"bytes"
	"encoding/hex"
	"encoding/json"
	"fmt"
	"math/big"
	"sort"
	"strings"
	"sync/atomic"
	"time"
)

type Kind uint8

const (
	KNull Kind = iota
	KBool
	KNum // arbitrary precision integer (numeric / bigint / int)
	KText
	KTime
	KJSON
	KBytes
	KArray
	KRow // composite / row constructor
)

// Value is one SQL datum.
type Value struct {
	K      Kind
	B      bool
	N      *big.Int
	S      string
	T      time.Time
	J      any // nil, bool, json.Number, string, []any, map[string]any
	Bs     []byte
	A      []Value  // array elements or row fields
	Fields []string // field names of a composite
	TZ     bool     // KTime: timestamptz (rendered with zone)
}

var Null = Value{K: KNull}

func Bool(b bool) Value     { return Value{K: KBool, B: b} }
func Num(n *big.Int) Value  { return Value{K: KNum, N: n} }
func Int(i int64) Value     { return Value{K: KNum, N: big.NewInt(i)} }
func Text(s string) Value   { return Value{K: KText, S: s} }
func Bytes(b []byte) Value  { return Value{K: KBytes, Bs: b} }
func JSON(j any) Value      { return Value{K: KJSON, J: j} }
func Array(a []Value) Value { return Value{K: KArray, A: a} }
func Time(t time.Time) Value {
	return Value{K: KTime, T: t.UTC().Round(time.Microsecond)}
}

func (v Value) IsNull() bool { return v.K == KNull }

func (v Value) String() string {
	switch v.K {
	case KNull:
		return "NULL"
	case KBool:
		if v.B {
			return "true"
		}
		return "false"
	case KNum:
		return v.N.String()
	case KText:
		return v.S
	case KTime:
		return v.T.Format("2006-01-02 15:04:05.999999")
	case KJSON:
		return jsonText(v.J)
	case KBytes:
		return `\x` + hex.EncodeToString(v.Bs)
	case KArray:
		parts := make([]string, len(v.A))
		for i, e := range v.A {
			parts[i] = e.String()
		}
		return "{" + strings.Join(parts, ",") + "}"
	case KRow:
		parts := make([]string, len(v.A))
		for i, e := range v.A {
			if !e.IsNull() {
				parts[i] = e.String()
			}
		}
		return "(" + strings.Join(parts, ",") + ")"
	}
	return "?"
}

// ------------------------------------------------------------------- JSON

func parseJSON(s string) (any, error) {
	dec := json.NewDecoder(strings.NewReader(s))
	dec.UseNumber()
	var v any
	if err := dec.Decode(&v); err != nil {
		return nil, fmt.Errorf("invalid input syntax for type json: %w", err)
	}
	if dec.More() {
		return nil, fmt.Errorf("invalid input syntax for type json: trailing data")
	}
	return v, nil
}

func jsonText(j any) string {
	var buf bytes.Buffer
	enc := json.NewEncoder(&buf)
	enc.SetEscapeHTML(false)
	if err := enc.Encode(j); err != nil {
		return "null"
	}
	return strings.TrimRight(buf.String(), "\n")
}

func jsonNumberRat(n json.Number) *big.Rat {
	r, ok := new(big.Rat).SetString(n.String())
	if !ok {
		return new(big.Rat)
	}
	return r
}

// jsonEqual implements jsonb equality (numbers compared numerically).
func jsonEqual(a, b any) bool {
	switch x := a.(type) {
	case nil:
		return b == nil
	case bool:
		y, ok := b.(bool)
		return ok && x == y
	case json.Number:
		y, ok := b.(json.Number)
		return ok && jsonNumberRat(x).Cmp(jsonNumberRat(y)) == 0
	case string:
		y, ok := b.(string)
		return ok && x == y
	case []any:
		y, ok := b.([]any)
		if !ok || len(x) != len(y) {
			return false
		}
		for i := range x {
			if !jsonEqual(x[i], y[i]) {
				return false
			}
		}
		return true
	case map[string]any:
		y, ok := b.(map[string]any)
		if !ok || len(x) != len(y) {
			return false
		}
		for k, xv := range x {
			yv, ok := y[k]
			if !ok || !jsonEqual(xv, yv) {
				return false
			}
		}
		return true
	}
	return false
}

func isScalarJSON(a any) bool {
	switch a.(type) {
	case []any, map[string]any:
		return false
	}
	return true
}

// jsonContains implements jsonb @> (PostgreSQL containment semantics).
func jsonContains(a, b any) bool {
	switch y := b.(type) {
	case map[string]any:
		x, ok := a.(map[string]any)
		if !ok {
			return false
		}
		for k, yv := range y {
			xv, ok := x[k]
			if !ok || !jsonContainsValue(xv, yv) {
				return false
			}
		}
		return true
	case []any:
		x, ok := a.([]any)
		if !ok {
			return false
		}
		for _, yv := range y {
			found := false
			for _, xv := range x {
				if jsonContainsValue(xv, yv) {
					found = true
					break
				}
			}
			if !found {
				return false
			}
		}
		return true
	default:
		// a scalar on the right: equal scalar, or (special case) an array containing it
		if x, ok := a.([]any); ok {
			for _, xv := range x {
				if isScalarJSON(xv) && jsonEqual(xv, b) {
					return true
				}
			}
			return false
		}
		return jsonEqual(a, b)
	}
}

// jsonContainsValue is containment of nested elements: scalars must be equal,
// containers recurse (an array does not contain a bare scalar at nested levels).
func jsonContainsValue(a, b any) bool {
	if isScalarJSON(b) {
		return isScalarJSON(a) && jsonEqual(a, b)
	}
	return jsonContains(a, b)
}

func cloneJSON(j any) any {
	switch x := j.(type) {
	case []any:
		out := make([]any, len(x))
		for i := range x {
			out[i] = cloneJSON(x[i])
		}
		return out
	case map[string]any:
		out := make(map[string]any, len(x))
		for k, v := range x {
			out[k] = cloneJSON(v)
		}
		return out
	}
	return j
}

// valueToJSON converts a SQL value to its JSON form (to_jsonb semantics).
func valueToJSON(v Value) any {
	switch v.K {
	case KNull:
		return nil
	case KBool:
		return v.B
	case KNum:
		return json.Number(v.N.String())
	case KText:
		return v.S
	case KTime:
		if v.TZ {
			return v.T.Format("2006-01-02T15:04:05.999999-07:00")
		}
		return v.T.Format("2006-01-02T15:04:05.999999")
	case KJSON:
		return v.J
	case KArray:
		out := make([]any, len(v.A))
		for i, e := range v.A {
			out[i] = valueToJSON(e)
		}
		return out
	case KRow:
		out := map[string]any{}
		for i, e := range v.A {
			name := fmt.Sprintf("f%d", i+1)
			if i < len(v.Fields) {
				name = v.Fields[i]
			}
			out[name] = valueToJSON(e)
		}
		return out
	case KBytes:
		return `\x` + hex.EncodeToString(v.Bs)
	}
	return nil
}

// ------------------------------------------------------------- comparison

// compare orders two non-null values of compatible kinds.
func compare(a, b Value) (int, error) {
	if a.K == KText && b.K == KTime {
		t, err := parseTime(a.S)
		if err != nil {
			return 0, err
		}
		a = Time(t)
	}
	if a.K == KTime && b.K == KText {
		t, err := parseTime(b.S)
		if err != nil {
			return 0, err
		}
		b = Time(t)
	}
	if a.K == KText && b.K == KNum {
		n, ok := new(big.Int).SetString(strings.TrimSpace(a.S), 10)
		if !ok {
			return 0, pgErr("22P02", "invalid input syntax for type numeric: %q", a.S)
		}
		a = Num(n)
	}
	if a.K == KNum && b.K == KText {
		n, ok := new(big.Int).SetString(strings.TrimSpace(b.S), 10)
		if !ok {
			return 0, pgErr("22P02", "invalid input syntax for type numeric: %q", b.S)
		}
		b = Num(n)
	}
	if a.K != b.K {
		return 0, pgErr("42883", "operator does not exist: cannot compare %s with %s", kindName(a.K), kindName(b.K))
	}
	switch a.K {
	case KBool:
		switch {
		case a.B == b.B:
			return 0, nil
		case !a.B:
			return -1, nil
		}
		return 1, nil
	case KNum:
		return a.N.Cmp(b.N), nil
	case KText:
		return strings.Compare(a.S, b.S), nil
	case KTime:
		switch {
		case a.T.Before(b.T):
			return -1, nil
		case a.T.After(b.T):
			return 1, nil
		}
		return 0, nil
	case KBytes:
		return bytes.Compare(a.Bs, b.Bs), nil
	case KJSON:
		if jsonEqual(a.J, b.J) {
			return 0, nil
		}
		return strings.Compare(jsonText(a.J), jsonText(b.J)), nil
	case KArray, KRow:
		for i := 0; i < len(a.A) && i < len(b.A); i++ {
			x, y := a.A[i], b.A[i]
			if x.IsNull() || y.IsNull() {
				if x.IsNull() && y.IsNull() {
					continue
				}
				if x.IsNull() {
					return 1, nil
				}
				return -1, nil
			}
			c, err := compare(x, y)
			if err != nil || c != 0 {
				return c, err
			}
		}
		return len(a.A) - len(b.A), nil
	}
	return 0, pgErr("42883", "cannot compare values of kind %s", kindName(a.K))
}

func kindName(k Kind) string {
	return [...]string{"null", "boolean", "numeric", "text", "timestamp", "jsonb", "bytea", "array", "record"}[k]
}

// sortKey compares for ORDER BY / DISTINCT (nulls sort last ascending).
func sortCompare(a, b Value) int {
	if a.IsNull() || b.IsNull() {
		switch {
		case a.IsNull() && b.IsNull():
			return 0
		case a.IsNull():
			return 1
		}
		return -1
	}
	c, err := compare(a, b)
	if err != nil {
		return strings.Compare(a.String(), b.String())
	}
	return c
}

// groupKey is a canonical text for hashing group-by / distinct keys.
func groupKey(vs []Value) string {
	var sb strings.Builder
	for _, v := range vs {
		sb.WriteByte(byte('0' + v.K))
		if v.K == KJSON {
			sb.WriteString(canonicalJSON(v.J))
		} else {
			sb.WriteString(v.String())
		}
		sb.WriteByte(0)
	}
	return sb.String()
}

func canonicalJSON(j any) string {
	switch x := j.(type) {
	case json.Number:
		return jsonNumberRat(x).RatString()
	case []any:
		parts := make([]string, len(x))
		for i := range x {
			parts[i] = canonicalJSON(x[i])
		}
		return "[" + strings.Join(parts, ",") + "]"
	case map[string]any:
		keys := make([]string, 0, len(x))
		for k := range x {
			keys = append(keys, k)
		}
		sort.Strings(keys)
		parts := make([]string, len(keys))
		for i, k := range keys {
			parts[i] = fmt.Sprintf("%q:%s", k, canonicalJSON(x[k]))
		}
		return "{" + strings.Join(parts, ",") + "}"
	}
	return jsonText(j)
}

// ------------------------------------------------------------------ time

var timeLayouts = []string{
	"2006-01-02 15:04:05.999999999-07:00",
	"2006-01-02 15:04:05.999999999-07",
	"2006-01-02 15:04:05.999999999Z07:00",
	"2006-01-02T15:04:05.999999999Z07:00",
	"2006-01-02T15:04:05.999999999",
	"2006-01-02 15:04:05.999999999",
	"2006-01-02",
}

func parseTime(s string) (time.Time, error) {
	s = strings.TrimSpace(s)
	for _, l := range timeLayouts {
		if t, err := time.Parse(l, s); err == nil {
			return t, nil
		}
	}
	return time.Time{}, pgErr("22007", "invalid input syntax for type timestamp: %q", s)
}

// ----------------------------------------------------------------- errors

// PgError mirrors the fields of pgconn.PgError the ledger inspects; the
// driver converts it to a real *pgconn.PgError at the boundary.
type PgError struct {
	Code       string
	Message    string
	Constraint string
}

func (e *PgError) Error() string { return fmt.Sprintf("ERROR: %s (SQLSTATE %s)", e.Message, e.Code) }

func pgErr(code, format string, args ...any) *PgError {
	return &PgError{Code: code, Message: fmt.Sprintf(format, args...)}
}

// ErrUnsupported marks SQL outside the implemented subset.
type ErrUnsupported struct{ What string }

func (e *ErrUnsupported) Error() string { return "pgsim: unsupported SQL: " + e.What }

// unsupportedSeen counts the ErrUnsupported values created in this process; lastUnsupported keeps the latest.
var (
	unsupportedSeen atomic.Int64
	lastUnsupported atomic.Value
)

// UnsupportedSeen returns how many statements fell outside the stand-in's SQL subset so far, and the latest one.
func UnsupportedSeen() (int64, string) {
	s, _ := lastUnsupported.Load().(string)
	return unsupportedSeen.Load(), s
}

func unsupported(format string, args ...any) error {
	e := &ErrUnsupported{What: fmt.Sprintf(format, args...)}
	unsupportedSeen.Add(1)
	lastUnsupported.Store(e.What)
	return e
}
