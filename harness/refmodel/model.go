// Package refmodel is the reference ledger: a pure in-memory fold of the
// operations the API reported as committed. It is written against the
// property statements (double entry, folds by insertion / effective date,
// last-write-wins metadata, first usage, revert marks) and shares no code
// with internal/storage or with the pgsim stand-in.
package refmodel

import (
	"math/big"
	"sort"
	"strings"
	"time"
)

type Posting struct {
	Source, Destination, Asset string
	Amount                     *big.Int
}

type Vol struct{ In, Out *big.Int }

func NewVol() Vol { return Vol{new(big.Int), new(big.Int)} }

func (v Vol) Balance() *big.Int { return new(big.Int).Sub(v.In, v.Out) }
func (v Vol) Copy() Vol         { return Vol{new(big.Int).Set(v.In), new(big.Int).Set(v.Out)} }
func (v Vol) Equal(o Vol) bool  { return v.In.Cmp(o.In) == 0 && v.Out.Cmp(o.Out) == 0 }
func (v Vol) IsZero() bool      { return v.In.Sign() == 0 && v.Out.Sign() == 0 }
func (v Vol) String() string    { return "(" + v.In.String() + "," + v.Out.String() + ")" }

// Volumes: account -> asset -> Vol
type Volumes map[string]map[string]Vol

func (v Volumes) Get(acc, asset string) Vol {
	if m, ok := v[acc]; ok {
		if x, ok := m[asset]; ok {
			return x
		}
	}
	return NewVol()
}

func (v Volumes) Has(acc, asset string) bool {
	if m, ok := v[acc]; ok {
		_, ok := m[asset]
		return ok
	}
	return false
}

func (v Volumes) addIn(acc, asset string, amt *big.Int) {
	if v[acc] == nil {
		v[acc] = map[string]Vol{}
	}
	x, ok := v[acc][asset]
	if !ok {
		x = NewVol()
	}
	x.In = new(big.Int).Add(x.In, amt)
	v[acc][asset] = x
}

func (v Volumes) addOut(acc, asset string, amt *big.Int) {
	if v[acc] == nil {
		v[acc] = map[string]Vol{}
	}
	x, ok := v[acc][asset]
	if !ok {
		x = NewVol()
	}
	x.Out = new(big.Int).Add(x.Out, amt)
	v[acc][asset] = x
}

// Apply adds postings to the volumes (touching every source and destination pair, even for zero amounts).
func (v Volumes) Apply(ps []Posting) {
	for _, p := range ps {
		v.addOut(p.Source, p.Asset, p.Amount)
		v.addIn(p.Destination, p.Asset, p.Amount)
	}
}

func (v Volumes) Copy() Volumes {
	out := Volumes{}
	for a, m := range v {
		out[a] = map[string]Vol{}
		for as, x := range m {
			out[a][as] = x.Copy()
		}
	}
	return out
}

// Keys lists account/asset pairs in sorted order.
func (v Volumes) Keys() [][2]string {
	var out [][2]string
	for a, m := range v {
		for as := range m {
			out = append(out, [2]string{a, as})
		}
	}
	sort.Slice(out, func(i, j int) bool {
		if out[i][0] != out[j][0] {
			return out[i][0] < out[j][0]
		}
		return out[i][1] < out[j][1]
	})
	return out
}

type MetaRev struct {
	Date time.Time
	Meta map[string]string
}

type Tx struct {
	ID         uint64
	Postings   []Posting
	Timestamp  time.Time // effective date
	InsertedAt time.Time
	UpdatedAt  time.Time
	Reference  string
	Metadata   map[string]string
	History    []MetaRev // metadata as of each change (first entry = creation, dated at the effective timestamp)
	RevertedAt *time.Time
	RevertOf   *uint64 // the transaction this one reverts, if any
	Template   string
	// PCV as reported when the transaction was committed
	PostCommit Volumes
	Seq        int // commit order within the ledger (0-based)
}

type Account struct {
	Address string
	// AltFirstUsage, when set, is an earlier first usage that a listed known
	// finding says the ledger does not record (see KeepFirstUsage).
	AltFirstUsage *time.Time
	FirstUsage    time.Time
	InsertionDate time.Time
	UpdatedAt     time.Time
	Metadata      map[string]string
	History       []MetaRev
}

type Log struct {
	ID             uint64
	Type           string
	IdempotencyKey string
	Date           time.Time
	Hash           []byte
	SchemaVersion  string
	TxID           *uint64 // created / revert transaction id, when any
}

// Move is one side of a posting, in the order the ledger records them
// (posting order; source side before destination side).
type Move struct {
	TxID          uint64
	Account       string
	Asset         string
	Amount        *big.Int
	IsSource      bool
	InsertionDate time.Time
	EffectiveDate time.Time
	Seq           int
}

type Ledger struct {
	// KeepFirstUsage makes the next AddTx leave first usages alone (recording
	// the would-be value in AltFirstUsage); used for the class of a known finding.
	KeepFirstUsage bool
	Name           string
	Txs            []*Tx // in commit order
	byID           map[uint64]*Tx
	Accounts       map[string]*Account
	Logs           []*Log
	Moves          []Move
	Schemas        []string // versions in insertion order
}

func New(name string) *Ledger {
	return &Ledger{Name: name, byID: map[uint64]*Tx{}, Accounts: map[string]*Account{}}
}

func (l *Ledger) Tx(id uint64) *Tx { return l.byID[id] }

func copyMeta(m map[string]string) map[string]string {
	out := make(map[string]string, len(m))
	for k, v := range m {
		out[k] = v
	}
	return out
}

// touchAccount records that an account was involved in an event with the given
// effective date at the given insertion time. Defaults apply only on creation.
func (l *Ledger) touchAccount(addr string, effective, inserted time.Time, defaults map[string]string) *Account {
	a, ok := l.Accounts[addr]
	if !ok {
		a = &Account{Address: addr, FirstUsage: effective, InsertionDate: inserted, UpdatedAt: inserted, Metadata: copyMeta(defaults)}
		a.History = []MetaRev{{Date: inserted, Meta: copyMeta(a.Metadata)}}
		l.Accounts[addr] = a
		return a
	}
	if effective.Before(a.FirstUsage) {
		if l.KeepFirstUsage {
			if a.AltFirstUsage == nil || effective.Before(*a.AltFirstUsage) {
				e := effective
				a.AltFirstUsage = &e
			}
			return a
		}
		a.FirstUsage = effective
	}
	return a
}

// AddTx records a committed transaction. accountMeta is metadata set on
// accounts by the same write (script set_account_meta / request accountMetadata);
// defaults gives chart default metadata per account (applied on creation only).
func (l *Ledger) AddTx(tx *Tx, accountMeta map[string]map[string]string, defaults map[string]map[string]string) {
	tx.Seq = len(l.Txs)
	if tx.Metadata == nil {
		tx.Metadata = map[string]string{}
	}
	tx.History = []MetaRev{{Date: tx.Timestamp, Meta: copyMeta(tx.Metadata)}}
	l.Txs = append(l.Txs, tx)
	l.byID[tx.ID] = tx
	for _, p := range tx.Postings {
		for _, side := range []struct {
			acc string
			src bool
		}{{p.Source, true}, {p.Destination, false}} {
			l.Moves = append(l.Moves, Move{TxID: tx.ID, Account: side.acc, Asset: p.Asset, Amount: p.Amount, IsSource: side.src,
				InsertionDate: tx.InsertedAt, EffectiveDate: tx.Timestamp, Seq: len(l.Moves)})
		}
	}
	involved := map[string]bool{}
	for _, p := range tx.Postings {
		involved[p.Source] = true
		involved[p.Destination] = true
	}
	for a := range accountMeta {
		involved[a] = true
	}
	addrs := make([]string, 0, len(involved))
	for a := range involved {
		addrs = append(addrs, a)
	}
	sort.Strings(addrs)
	for _, addr := range addrs {
		a := l.touchAccount(addr, tx.Timestamp, tx.InsertedAt, defaults[addr])
		if m := accountMeta[addr]; len(m) > 0 {
			l.setAccountMeta(a, m, tx.InsertedAt)
		}
	}
}

func (l *Ledger) setAccountMeta(a *Account, m map[string]string, at time.Time) {
	changed := false
	for k, v := range m {
		if cur, ok := a.Metadata[k]; !ok || cur != v {
			changed = true
		}
		a.Metadata[k] = v
	}
	if changed {
		a.UpdatedAt = at
		a.History = append(a.History, MetaRev{Date: at, Meta: copyMeta(a.Metadata)})
	}
}

// SaveAccountMeta: metadata write on an account (creates it when missing).
func (l *Ledger) SaveAccountMeta(addr string, m map[string]string, at time.Time, defaults map[string]string) {
	// a metadata write is a usage dated at the write: it creates the account or lowers its first usage
	a := l.touchAccount(addr, at, at, defaults)
	l.setAccountMeta(a, m, at)
}

func (l *Ledger) DeleteAccountMeta(addr, key string, at time.Time) {
	a, ok := l.Accounts[addr]
	if !ok {
		return
	}
	if _, ok := a.Metadata[key]; ok {
		delete(a.Metadata, key)
		a.History = append(a.History, MetaRev{Date: at, Meta: copyMeta(a.Metadata)})
	}
}

func (l *Ledger) SaveTxMeta(id uint64, m map[string]string, at time.Time) {
	tx := l.byID[id]
	changed := false
	for k, v := range m {
		if cur, ok := tx.Metadata[k]; !ok || cur != v {
			changed = true
		}
		tx.Metadata[k] = v
	}
	if changed {
		tx.UpdatedAt = at
		tx.History = append(tx.History, MetaRev{Date: at, Meta: copyMeta(tx.Metadata)})
	}
}

func (l *Ledger) DeleteTxMeta(id uint64, key string, at time.Time) {
	tx := l.byID[id]
	if _, ok := tx.Metadata[key]; ok {
		delete(tx.Metadata, key)
		tx.UpdatedAt = at
		tx.History = append(tx.History, MetaRev{Date: at, Meta: copyMeta(tx.Metadata)})
	}
}

func (l *Ledger) MarkReverted(id uint64, at time.Time) {
	tx := l.byID[id]
	t := at
	tx.RevertedAt = &t
	tx.UpdatedAt = at
	// the revert is an update of the row: with history enabled it records the (unchanged) metadata at that date
	tx.History = append(tx.History, MetaRev{Date: at, Meta: copyMeta(tx.Metadata)})
}

// ------------------------------------------------------------------ folds

// VolumesNow folds every committed posting.
func (l *Ledger) VolumesNow() Volumes {
	v := Volumes{}
	for _, tx := range l.Txs {
		v.Apply(tx.Postings)
	}
	return v
}

// VolumesWindow folds the moves whose date (effective or insertion) lies in [oot, pit]; nil bounds are open.
func (l *Ledger) VolumesWindow(pit, oot *time.Time, useInsertionDate bool) Volumes {
	v := Volumes{}
	for _, m := range l.Moves {
		d := m.EffectiveDate
		if useInsertionDate {
			d = m.InsertionDate
		}
		if pit != nil && d.After(*pit) {
			continue
		}
		if oot != nil && d.Before(*oot) {
			continue
		}
		if m.IsSource {
			v.addOut(m.Account, m.Asset, m.Amount)
		} else {
			v.addIn(m.Account, m.Asset, m.Amount)
		}
	}
	return v
}

// PostCommitAt gives, for a transaction, the volumes of every account/asset it
// touches right after it in commit order.
func (l *Ledger) PostCommitAt(tx *Tx) Volumes {
	all := Volumes{}
	for _, t := range l.Txs {
		all.Apply(t.Postings)
		if t == tx {
			break
		}
	}
	out := Volumes{}
	for _, p := range tx.Postings {
		for _, acc := range []string{p.Source, p.Destination} {
			if out[acc] == nil {
				out[acc] = map[string]Vol{}
			}
			out[acc][p.Asset] = all.Get(acc, p.Asset).Copy()
		}
	}
	return out
}

// EffectiveBefore reports whether move a is ordered before (or is) move b in effective-date order.
func effectiveLE(a, b Move) bool {
	if a.EffectiveDate.Before(b.EffectiveDate) {
		return true
	}
	return a.EffectiveDate.Equal(b.EffectiveDate) && a.Seq <= b.Seq
}

// PostCommitEffectiveAt gives the effective volumes of each account/asset a
// transaction touches: the fold of all moves on that account/asset ordered at or
// before the transaction's last move on it (effective date, then insertion order).
func (l *Ledger) PostCommitEffectiveAt(tx *Tx) Volumes {
	out := Volumes{}
	last := map[[2]string]Move{}
	for _, m := range l.Moves {
		if m.TxID == tx.ID {
			last[[2]string{m.Account, m.Asset}] = m
		}
	}
	for key, lm := range last {
		v := NewVol()
		for _, m := range l.Moves {
			if m.Account != key[0] || m.Asset != key[1] || !effectiveLE(m, lm) {
				continue
			}
			if m.IsSource {
				v.Out = new(big.Int).Add(v.Out, m.Amount)
			} else {
				v.In = new(big.Int).Add(v.In, m.Amount)
			}
		}
		if out[key[0]] == nil {
			out[key[0]] = map[string]Vol{}
		}
		out[key[0]][key[1]] = v
	}
	return out
}

// MetaAt returns the metadata as it was at t according to a history (nil when nothing is dated at or before t).
func MetaAt(h []MetaRev, t time.Time) map[string]string {
	var out map[string]string
	for _, rev := range h {
		if !rev.Date.After(t) {
			out = rev.Meta
		}
	}
	return out
}

// SortedAccounts lists account addresses in ascending order.
func (l *Ledger) SortedAccounts() []string {
	out := make([]string, 0, len(l.Accounts))
	for a := range l.Accounts {
		out = append(out, a)
	}
	sort.Strings(out)
	return out
}

// --------------------------------------------------------------- addresses

// MatchAddress implements the documented address filter: exact match, or a
// pattern with empty segments (wildcards) and an optional trailing "..." (prefix).
func MatchAddress(pattern, address string) bool {
	ps := strings.Split(pattern, ":")
	partial := false
	for i, s := range ps {
		if s == "" || (s == "..." && i == len(ps)-1) {
			partial = true
		}
	}
	if !partial {
		return pattern == address
	}
	as := strings.Split(address, ":")
	prefix := ps[len(ps)-1] == "..."
	if prefix {
		ps = ps[:len(ps)-1]
		if len(as) < len(ps) {
			// segments the pattern names must exist
			for i := len(as); i < len(ps); i++ {
				if ps[i] != "" {
					return false
				}
			}
		}
	} else if len(as) != len(ps) {
		return false
	}
	for i, s := range ps {
		if s == "" {
			continue
		}
		if i >= len(as) || as[i] != s {
			return false
		}
	}
	return true
}
