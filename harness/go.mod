module github.com/formancehq/ledger/verifharness

go 1.26.0

replace github.com/formancehq/ledger => /repo

replace github.com/formancehq/ledger/pkg/client => /repo/pkg/client

replace google.golang.org/genproto v0.0.0-20200423170343-7949de9c1215 => google.golang.org/genproto v0.0.0-20240903143218-8af14fe29dc1

require (
	github.com/formancehq/go-libs/v5 v5.6.1
	github.com/formancehq/ledger v0.0.0-00010101000000-000000000000
	github.com/jackc/pgx/v5 v5.9.2
	github.com/uptrace/bun v1.2.18
	github.com/uptrace/bun/dialect/pgdialect v1.2.18
	pgregory.net/rapid v1.3.0
)

require (
	dario.cat/mergo v1.0.2 // indirect
	github.com/ThreeDotsLabs/watermill v1.5.1 // indirect
	github.com/alitto/pond v1.9.2 // indirect
	github.com/antlr/antlr4/runtime/Go/antlr v1.4.10 // indirect
	github.com/antlr4-go/antlr/v4 v4.13.1 // indirect
	github.com/bahlo/generic-list-go v0.2.0 // indirect
	github.com/bluele/gcache v0.0.2 // indirect
	github.com/buger/jsonparser v1.1.2 // indirect
	github.com/cespare/xxhash/v2 v2.3.0 // indirect
	github.com/felixge/httpsnoop v1.0.4 // indirect
	github.com/formancehq/numscript v0.0.24 // indirect
	github.com/go-chi/chi/v5 v5.2.5 // indirect
	github.com/go-logr/logr v1.4.3 // indirect
	github.com/go-logr/stdr v1.2.2 // indirect
	github.com/google/uuid v1.6.0 // indirect
	github.com/iancoleman/strcase v0.3.0 // indirect
	github.com/invopop/jsonschema v0.13.0 // indirect
	github.com/jackc/pgerrcode v0.0.0-20250907135507-afb5586c32a6 // indirect
	github.com/jackc/pgpassfile v1.0.0 // indirect
	github.com/jackc/pgservicefile v0.0.0-20240606120523-5a60cdf6a761 // indirect
	github.com/jackc/pgxlisten v0.0.0-20250802141604-12b92425684c // indirect
	github.com/jackc/puddle/v2 v2.2.2 // indirect
	github.com/jinzhu/inflection v1.0.0 // indirect
	github.com/lithammer/shortuuid/v3 v3.0.7 // indirect
	github.com/logrusorgru/aurora v2.0.3+incompatible // indirect
	github.com/mailru/easyjson v0.9.2 // indirect
	github.com/oklog/ulid v1.3.1 // indirect
	github.com/pkg/errors v0.9.1 // indirect
	github.com/puzpuzpuz/xsync/v3 v3.5.1 // indirect
	github.com/shomali11/util v0.0.0-20220717175126-f0771b70947f // indirect
	github.com/shomali11/xsql v0.0.0-20190608141458-bf76292144df // indirect
	github.com/sirupsen/logrus v1.9.4 // indirect
	github.com/spf13/pflag v1.0.10 // indirect
	github.com/stoewer/go-strcase v1.3.1 // indirect
	github.com/stretchr/testify v1.12.0 // indirect
	github.com/tmthrgd/go-hex v0.0.0-20190904060850-447a3041c3bc // indirect
	github.com/uptrace/opentelemetry-go-extra/otellogrus v0.3.2 // indirect
	github.com/uptrace/opentelemetry-go-extra/otelutil v0.3.2 // indirect
	github.com/vmihailenco/msgpack/v5 v5.4.1 // indirect
	github.com/vmihailenco/tagparser/v2 v2.0.0 // indirect
	github.com/wk8/go-ordered-map/v2 v2.1.9-0.20240816141633-0a40785b4f41 // indirect
	go.opentelemetry.io/auto/sdk v1.2.1 // indirect
	go.opentelemetry.io/contrib/instrumentation/net/http/otelhttp v0.66.0 // indirect
	go.opentelemetry.io/otel v1.43.0 // indirect
	go.opentelemetry.io/otel/log v0.17.0 // indirect
	go.opentelemetry.io/otel/metric v1.43.0 // indirect
	go.opentelemetry.io/otel/sdk v1.43.0 // indirect
	go.opentelemetry.io/otel/trace v1.43.0 // indirect
	go.uber.org/dig v1.19.0 // indirect
	go.uber.org/fx v1.24.0 // indirect
	go.uber.org/mock v0.6.0 // indirect
	go.uber.org/multierr v1.11.0 // indirect
	go.uber.org/zap v1.27.1 // indirect
	golang.org/x/exp v0.0.0-20250819193227-8b4c13bb791b // indirect
	golang.org/x/sync v0.21.0 // indirect
	golang.org/x/sys v0.46.0 // indirect
	golang.org/x/text v0.39.0 // indirect
	gopkg.in/yaml.v3 v3.0.1 // indirect
)
