// Engine E6: the real replication Manager, PipelineHandler and DriverFacade run
// (real goroutines and timers) over an in-memory Storage and a recording
// exporter driver that check the safety invariants of C33 at every call.
package e6

import (
	"context"
	"encoding/json"
	"errors"
	"fmt"
	"strings"
	"sync"
	"testing"
	"time"

	"pgregory.net/rapid"

	logging "github.com/formancehq/go-libs/v5/pkg/observe/log"
	"github.com/formancehq/go-libs/v5/pkg/storage/bun/paginate"
	"github.com/formancehq/go-libs/v5/pkg/storage/postgres"
	"github.com/formancehq/go-libs/v5/pkg/types/pointer"

	ledger "github.com/formancehq/ledger/internal"
	"github.com/formancehq/ledger/internal/replication"
	"github.com/formancehq/ledger/internal/replication/drivers"
	"github.com/formancehq/ledger/internal/storage/common"
	"github.com/formancehq/ledger/verifharness/stats"
)

// ---------------------------------------------------------------- shared state of one case

type world struct {
	mu sync.Mutex
	// the ledger's journal
	logs []ledger.Log
	// _system.pipelines / exporters
	pipelines map[string]*ledger.Pipeline
	exporters map[string]ledger.Exporter
	// exporter side (external system: survives manager restarts)
	// batchMax > 0: the exporter sits behind the real batching driver (drivers.NewWithBatchingDriverFactory, as wired in
	// production) with maxItems = batchMax and a flush interval of 300us; 0: it is plugged into the Manager directly
	batchMax       int
	failItemsNext  int    // bit i set: the next Accept refuses item i only (per-item error, nil overall error); batched mode only
	offeredMax     uint64 // highest id ever handed to the exporter, acknowledged or not
	partialFails   int
	failAccepts    int
	ackedMax       uint64          // highest id acknowledged since the last reset
	delivered      map[uint64]int  // id -> deliveries since the last reset
	everDelivered  map[uint64]bool // id -> delivered at least once, ever
	acceptCalls    int
	acceptFailures int
	// syncPeriod is the manager's periodic synchronisation (an hour = never during a case; 400us = all the time: a
	// stopped but enabled pipeline is then restarted by the manager itself)
	syncPeriod time.Duration
	// gates
	holdListing  bool // ListEnabledPipelines answers with what it read before the gate was closed, once it is opened
	listGate     chan struct{}
	heldListings int
	holdStores   bool
	storeGate    chan struct{}
	heldStores   int
	// number of held StorePipelineState calls that were issued before the latest reset
	heldFromOlderEpoch int
	// progress counters
	listCalls int
	// first invariant violation seen (checked by the test goroutine)
	violation string
	history   []string
	resets    int
	// bookkeeping for non-triviality
	storeAfterReset bool
}

func newWorld() *world {
	return &world{pipelines: map[string]*ledger.Pipeline{}, exporters: map[string]ledger.Exporter{}, delivered: map[uint64]int{}, everDelivered: map[uint64]bool{}, storeGate: make(chan struct{}), listGate: make(chan struct{}), syncPeriod: time.Hour}
}

// ackedPrefix is the last id n such that every log 1..n has been acknowledged since the last reset.
func (w *world) ackedPrefix() uint64 {
	n := uint64(0)
	for w.delivered[n+1] > 0 {
		n++
	}
	return n
}

func (w *world) violate(format string, args ...any) {
	if w.violation == "" {
		w.violation = fmt.Sprintf(format, args...)
	}
}

func (w *world) note(format string, args ...any) {
	if len(w.history) < 400 {
		w.history = append(w.history, fmt.Sprintf(format, args...))
	}
}

// ---------------------------------------------------------------- Storage

type storage struct{ w *world }

func (s storage) OpenLedger(_ context.Context, name string) (replication.LogFetcher, *ledger.Ledger, error) {
	return replication.LogFetcherFn(func(ctx context.Context, q common.PaginatedQuery[any]) (*paginate.Cursor[ledger.Log], error) {
		iq, ok := q.(common.InitialPaginatedQuery[any])
		if !ok {
			return nil, fmt.Errorf("unexpected query type %T", q)
		}
		after := uint64(0)
		if iq.Options.Builder != nil {
			if err := iq.Options.Builder.Walk(func(operator, key string, value *any) error {
				if operator != "$gt" || key != "id" {
					return fmt.Errorf("unexpected filter %s %s", operator, key)
				}
				switch v := (*value).(type) {
				case uint64:
					after = v
				case int:
					after = uint64(v)
				case int64:
					after = uint64(v)
				default:
					return fmt.Errorf("unexpected filter value %T", *value)
				}
				return nil
			}); err != nil {
				return nil, err
			}
		}
		s.w.mu.Lock()
		defer s.w.mu.Unlock()
		s.w.listCalls++
		var data []ledger.Log
		hasMore := false
		for _, l := range s.w.logs {
			if *l.ID > after {
				if uint64(len(data)) == iq.PageSize {
					hasMore = true
					break
				}
				data = append(data, l)
			}
		}
		return &paginate.Cursor[ledger.Log]{PageSize: int(iq.PageSize), HasMore: hasMore, Data: data}, nil
	}), &ledger.Ledger{Name: name}, nil
}

func (s storage) StorePipelineState(_ context.Context, id string, lastLogID uint64) error {
	s.w.mu.Lock()
	if s.w.holdStores {
		gate := s.w.storeGate
		s.w.heldStores++
		epoch := s.w.resets
		s.w.note("  (StorePipelineState(%d) held)", lastLogID)
		s.w.mu.Unlock()
		<-gate
		s.w.mu.Lock()
		s.w.heldStores--
		if epoch != s.w.resets {
			s.w.heldFromOlderEpoch--
		}
	}
	defer s.w.mu.Unlock()
	p, ok := s.w.pipelines[id]
	if !ok {
		return postgres.ErrNotFound
	}
	acked := s.w.ackedPrefix()
	s.w.note("  StorePipelineState(%d)  [acknowledged without gap since last reset: 1..%d]", lastLogID, acked)
	if lastLogID > acked {
		if s.w.resets > 0 {
			s.w.storeAfterReset = true
		}
		s.w.violate("the persisted last log id becomes %d while the exporter has acknowledged, since the pipeline was last reset/created, only 1..%d without gap (highest single acknowledgement: %d)", lastLogID, acked, s.w.ackedMax)
	}
	p.LastLogID = pointer.For(lastLogID)
	return nil
}

func (s storage) ListExporters(context.Context) (*paginate.Cursor[ledger.Exporter], error) {
	return &paginate.Cursor[ledger.Exporter]{}, nil
}
func (s storage) CreateExporter(_ context.Context, e ledger.Exporter) error {
	s.w.mu.Lock()
	defer s.w.mu.Unlock()
	s.w.exporters[e.ID] = e
	return nil
}
func (s storage) DeleteExporter(_ context.Context, id string) error {
	s.w.mu.Lock()
	defer s.w.mu.Unlock()
	delete(s.w.exporters, id)
	return nil
}
func (s storage) GetExporter(_ context.Context, id string) (*ledger.Exporter, error) {
	s.w.mu.Lock()
	defer s.w.mu.Unlock()
	e, ok := s.w.exporters[id]
	if !ok {
		return nil, postgres.ErrNotFound
	}
	return &e, nil
}
func (s storage) UpdateExporter(_ context.Context, e ledger.Exporter) error {
	s.w.mu.Lock()
	defer s.w.mu.Unlock()
	s.w.exporters[e.ID] = e
	return nil
}
func (s storage) CreatePipeline(_ context.Context, p ledger.Pipeline) error {
	s.w.mu.Lock()
	defer s.w.mu.Unlock()
	cp := p
	s.w.pipelines[p.ID] = &cp
	return nil
}
func (s storage) DeletePipeline(_ context.Context, id string) error {
	s.w.mu.Lock()
	defer s.w.mu.Unlock()
	if _, ok := s.w.pipelines[id]; !ok {
		return postgres.ErrNotFound
	}
	delete(s.w.pipelines, id)
	return nil
}
func (s storage) UpdatePipeline(_ context.Context, id string, o map[string]any) (*ledger.Pipeline, error) {
	s.w.mu.Lock()
	defer s.w.mu.Unlock()
	p, ok := s.w.pipelines[id]
	if !ok {
		return nil, postgres.ErrNotFound
	}
	for k, v := range o {
		switch k {
		case "enabled":
			p.Enabled = v.(bool)
		case "last_log_id":
			if v == nil {
				p.LastLogID = nil
				// a reset: from here on the exporter must receive everything again
				s.w.resets++
				s.w.heldFromOlderEpoch += s.w.heldStores // every store held right now was issued before this reset
				s.w.ackedMax = 0
				s.w.delivered = map[uint64]int{}
				s.w.note("  UpdatePipeline(last_log_id = NULL)  -- reset takes effect")
			}
		}
	}
	cp := *p
	return &cp, nil
}
func (s storage) ListPipelines(context.Context) (*paginate.Cursor[ledger.Pipeline], error) {
	return &paginate.Cursor[ledger.Pipeline]{}, nil
}
func (s storage) ListEnabledPipelines(context.Context) ([]ledger.Pipeline, error) {
	s.w.mu.Lock()
	var out []ledger.Pipeline
	for _, p := range s.w.pipelines {
		if p.Enabled {
			cp := *p
			if p.LastLogID != nil {
				cp.LastLogID = pointer.For(*p.LastLogID)
			}
			out = append(out, cp)
		}
	}
	if s.w.holdListing {
		// a slow listing: the rows have been read, the answer arrives later
		gate := s.w.listGate
		s.w.heldListings++
		s.w.note("  (ListEnabledPipelines held: %d rows read)", len(out))
		s.w.mu.Unlock()
		<-gate
		s.w.mu.Lock()
		s.w.heldListings--
	}
	s.w.mu.Unlock()
	return out, nil
}
func (s storage) GetPipeline(_ context.Context, id string) (*ledger.Pipeline, error) {
	s.w.mu.Lock()
	defer s.w.mu.Unlock()
	p, ok := s.w.pipelines[id]
	if !ok {
		return nil, postgres.ErrNotFound
	}
	cp := *p
	return &cp, nil
}

var _ replication.Storage = storage{}

// ---------------------------------------------------------------- exporter driver

type exporter struct{ w *world }

func (e exporter) Start(context.Context) error { return nil }
func (e exporter) Stop(context.Context) error  { return nil }
func (e exporter) Accept(ctx context.Context, logs ...drivers.LogWithLedger) ([]error, error) {
	e.w.mu.Lock()
	defer e.w.mu.Unlock()
	if ctx.Err() != nil {
		// the pipeline that sent this batch has been stopped in the meantime
		if len(logs) > 0 {
			e.w.note("  Accept[%d..] arrives with a cancelled context (sender stopped): refused", *logs[0].ID)
		}
		return nil, ctx.Err()
	}
	e.w.acceptCalls++
	ids := make([]string, len(logs))
	for i, l := range logs {
		ids[i] = fmt.Sprint(*l.ID)
		if l.Ledger != "l1" {
			e.w.violate("log %d delivered for ledger %q", *l.ID, l.Ledger)
		}
		if i > 0 && *l.ID != *logs[i-1].ID+1 {
			e.w.violate("batch [%s] is not ascending and contiguous", strings.Join(ids[:i+1], ","))
		}
	}
	if len(logs) == 0 {
		return nil, nil
	}
	batched := e.w.batchMax > 0
	if first := *logs[0].ID; !batched && first > e.w.ackedMax+1 {
		e.w.violate("batch [%s] starts at %d although the exporter has acknowledged nothing beyond %d since the pipeline was last reset/created: logs %d..%d are skipped", strings.Join(ids, ","), first, e.w.ackedMax, e.w.ackedMax+1, first-1)
	}
	// behind the batcher a page arrives as several batches, and a later batch is sent whatever became of the earlier ones
	// (the page is then retried as a whole), and a batch of the pipeline stopped by a reset may still arrive after it: the
	// order between batches is judged only against what has ever been offered - no log may be passed over without having
	// been handed to the exporter at all
	if first := *logs[0].ID; batched && first > e.w.offeredMax+1 {
		e.w.violate("batch [%s] starts at %d although nothing beyond %d has ever been offered to the exporter: logs %d..%d are skipped", strings.Join(ids, ","), first, e.w.offeredMax, e.w.offeredMax+1, first-1)
	}
	if last := *logs[len(logs)-1].ID; last > e.w.offeredMax {
		e.w.offeredMax = last
	}
	if e.w.heldFromOlderEpoch > 0 {
		// steer the schedule: while a state write issued before the reset is still in flight, the exporter is
		// unavailable, so that the write lands before the restarted pipeline has caught up again
		e.w.acceptFailures++
		e.w.note("  Accept[%s] -> error (a state write issued before the reset is still in flight)", strings.Join(ids, ","))
		return nil, errors.New("exporter unavailable")
	}
	if e.w.failAccepts > 0 {
		e.w.failAccepts--
		e.w.acceptFailures++
		e.w.note("  Accept[%s] -> error", strings.Join(ids, ","))
		return nil, errors.New("exporter unavailable")
	}
	itemErrs := make([]error, len(logs))
	mask := 0
	if batched {
		mask, e.w.failItemsNext = e.w.failItemsNext, 0
	}
	var refused []string
	for i, l := range logs {
		if mask&(1<<i) != 0 {
			itemErrs[i] = errors.New("item refused")
			refused = append(refused, ids[i])
			continue
		}
		e.w.delivered[*l.ID]++
		e.w.everDelivered[*l.ID] = true
		if *l.ID > e.w.ackedMax {
			e.w.ackedMax = *l.ID
		}
	}
	if len(refused) > 0 {
		e.w.partialFails++
		e.w.acceptFailures++
		e.w.note("  Accept[%s] -> ok except [%s] (per-item errors)", strings.Join(ids, ","), strings.Join(refused, ","))
	} else {
		e.w.note("  Accept[%s] -> ok", strings.Join(ids, ","))
	}
	return itemErrs, nil
}

type factory struct{ w *world }

func (f factory) Create(context.Context, string) (drivers.Driver, json.RawMessage, error) {
	if f.w.batchMax > 0 {
		return exporter{f.w}, json.RawMessage(fmt.Sprintf(`{"batching":{"maxItems":%d,"flushInterval":"300us"}}`, f.w.batchMax)), nil
	}
	return exporter{f.w}, nil, nil
}

type noValidation struct{}

func (noValidation) ValidateConfig(string, json.RawMessage) error { return nil }

// ---------------------------------------------------------------- the check

const ruleC33 = "the real Manager / PipelineHandler / DriverFacade (real goroutines, pull and retry periods of 200us) over an in-memory Storage and a recording exporter, plugged in directly or behind the real batching driver (maxItems 1, 2 or 5 for pages of 3, flush interval 300us; as wired in production): generated sequences of {append 1-5 logs, make the next 1-3 Accepts fail, make the next Accept refuse single items (per-item errors, batched mode), hold / release the ListEnabledPipelines calls (a slow listing; with the periodic synchronisation drawn as running every 400us or never), stop pipeline, start pipeline, reset pipeline, restart the manager, hold / release the StorePipelineState calls, let it run, settle}. Checked at every Accept: batch ascending, contiguous, of the right ledger, and starting no later than (last id acknowledged since the last reset)+1 (behind the batcher, where the batches of a page are sent whatever became of the earlier ones and the page is then retried as a whole: no later than (last id ever offered)+1); at every StorePipelineState: value <= n where 1..n have all been acknowledged since the last reset; at every settle (exporter healthy, pipeline started, gates open; progress measured in the pipeline's own polls): every log has been delivered since the last reset. Not quiescing within the poll budget is inconclusive; non-trivial = sequence with a reset or restart while logs were pending or a store was held, and >= 1 failed Accept; distinct = by action sequence"

type sys struct {
	w        *world
	m        *replication.Manager
	pipeline string
	started  bool
	pending  []chan error // API calls still running (they may wait for a held store)
}

func newManager(w *world) *replication.Manager {
	logger := logging.NewDefaultLogger(discard{}, false, false, false)
	var f drivers.Factory = factory{w}
	if w.batchMax > 0 {
		f = drivers.NewWithBatchingDriverFactory(f, logger)
	}
	return replication.NewManager(storage{w}, f, logger, noValidation{},
		replication.WithSyncPeriod(w.syncPeriod),
		replication.WithPipelineOptions(replication.WithPullPeriod(200*time.Microsecond), replication.WithPushRetryPeriod(200*time.Microsecond), replication.WithLogsPageSize(3)))
}

type discard struct{}

func (discard) Write(p []byte) (int, error) { return len(p), nil }

// async issues one manager call. At most one call is in flight: a call that is still waiting (for a held
// store) is first let through, so that the calls themselves are sequential and only the manager's own
// goroutines race with them.
func (s *sys) async(t *rapid.T, name string, fn func(ctx context.Context) error) {
	if len(s.pending) > 0 {
		s.releaseHolds()
		s.drain(t)
	}
	ch := make(chan error, 1)
	s.pending = append(s.pending, ch)
	go func() {
		ctx, cancel := context.WithTimeout(context.Background(), 30*time.Second)
		defer cancel()
		ch <- fn(ctx)
	}()
	// most calls return at once; give them the chance to
	select {
	case err := <-ch:
		ch <- err
	case <-time.After(2 * time.Millisecond):
	}
}

func (s *sys) releaseHolds() {
	w := s.w
	w.mu.Lock()
	if w.holdStores {
		w.holdStores = false
		close(w.storeGate)
		w.storeGate = make(chan struct{})
		w.note("release the held StorePipelineState calls")
	}
	if w.holdListing {
		w.holdListing = false
		close(w.listGate)
		w.listGate = make(chan struct{})
		w.note("release the held ListEnabledPipelines calls")
	}
	w.mu.Unlock()
}

// drain waits for the API calls still in flight.
func (s *sys) drain(t *rapid.T) {
	for _, ch := range s.pending {
		select {
		case err := <-ch:
			if err != nil {
				s.w.mu.Lock()
				s.w.note("  (a manager call returned: %v)", err)
				s.w.mu.Unlock()
			}
		case <-time.After(40 * time.Second):
			stats.HarnessError(t, "a manager call did not return within 40s\nhistory:\n  %s", strings.Join(s.w.history, "\n  "))
		}
	}
	s.pending = nil
}

func (s *sys) check(t *rapid.T) {
	s.w.mu.Lock()
	v := s.w.violation
	hist := strings.Join(s.w.history, "\n  ")
	after := s.w.storeAfterReset
	s.w.mu.Unlock()
	if v == "" {
		return
	}
	_ = after
	t.Fatalf("VIOLATION[C33]: %s\nhistory:\n  %s", v, hist)
}

// pinnedStaleStore replays, without rapid, the sequence behind the defect this check found (repaired):
// a state write issued before a reset must not land after it.
func pinnedStaleStore() string {
	w := newWorld()
	m := newManager(w)
	go m.Run(context.Background())
	<-m.Started()
	defer func() {
		ctx, cancel := context.WithTimeout(context.Background(), 10*time.Second)
		defer cancel()
		_ = m.Stop(ctx)
	}()
	ctx := context.Background()
	exp, err := m.CreateExporter(ctx, ledger.NewExporterConfiguration("fake", json.RawMessage(`{}`)))
	if err != nil {
		return ""
	}
	w.mu.Lock()
	w.holdStores = true
	w.mu.Unlock()
	p, err := m.CreatePipeline(ctx, ledger.NewPipelineConfiguration("l1", exp.ID))
	if err != nil {
		return ""
	}
	w.mu.Lock()
	for i := 1; i <= 2; i++ {
		w.logs = append(w.logs, ledger.Log{ID: pointer.For(uint64(i)), Type: ledger.NewTransactionLogType})
	}
	w.mu.Unlock()
	// wait until the state write of the first batch is held
	for i := 0; i < 20000; i++ {
		w.mu.Lock()
		held := w.heldStores
		w.mu.Unlock()
		if held > 0 {
			break
		}
		time.Sleep(100 * time.Microsecond)
	}
	done := make(chan error, 1)
	go func() {
		c, cancel := context.WithTimeout(ctx, 20*time.Second)
		defer cancel()
		done <- m.ResetPipeline(c, p.ID)
	}()
	select {
	case <-done:
	case <-time.After(5 * time.Millisecond):
	}
	w.mu.Lock()
	w.holdStores = false
	close(w.storeGate)
	w.storeGate = make(chan struct{})
	w.mu.Unlock()
	select {
	case <-done:
	case <-time.After(25 * time.Second):
	}
	time.Sleep(5 * time.Millisecond)
	w.mu.Lock()
	defer w.mu.Unlock()
	if w.violation != "" {
		return w.violation + "\nhistory:\n  " + strings.Join(w.history, "\n  ")
	}
	return ""
}

// pinnedBatcherCancelled replays, without rapid, the two defects found behind the real batching driver (repaired):
// a page pushed with a context that is already done must neither crash (nil operation) nor let a later log reach the
// exporter without its predecessors.
func pinnedBatcherCancelled() (problem string) {
	defer func() {
		if r := recover(); r != nil {
			problem = fmt.Sprintf("Accept on the batching driver panics when the sender's context is done: %v", r)
		}
	}()
	logger := logging.NewDefaultLogger(discard{}, false, false, false)
	for trial := 0; trial < 300; trial++ {
		w := newWorld()
		w.batchMax = 1 + trial%2
		d, _, err := drivers.NewWithBatchingDriverFactory(factory{w}, logger).Create(context.Background(), "x")
		if err != nil {
			return ""
		}
		if err := d.Start(context.Background()); err != nil {
			return ""
		}
		mk := func(from, to int) (page []drivers.LogWithLedger) {
			for i := from; i <= to; i++ {
				page = append(page, drivers.LogWithLedger{Ledger: "l1", Log: ledger.Log{ID: pointer.For(uint64(i)), Type: ledger.NewTransactionLogType}})
			}
			return page
		}
		// a first page with a live context: the batch loop is then known to be receiving
		if _, err := d.Accept(context.Background(), mk(1, 1)...); err != nil {
			return ""
		}
		ctx, cancel := context.WithCancel(context.Background())
		cancel()
		_, _ = d.Accept(ctx, mk(2, 5)...)
		time.Sleep(50 * time.Microsecond)
		sctx, scancel := context.WithTimeout(context.Background(), 5*time.Second)
		_ = d.Stop(sctx)
		scancel()
		w.mu.Lock()
		v := w.violation
		w.mu.Unlock()
		if v != "" {
			return fmt.Sprintf("a page of 4 logs pushed with a done context (maxItems=%d): %s", w.batchMax, v)
		}
	}
	return ""
}

// pinnedResetDuringSlowListing plays, without rapid, the sequence in which a reset could be lost: the periodic
// synchronisation has read the pipeline row (position 3) and its listing is slow; meanwhile the pipeline is stopped and
// reset; the listing then returns. Everything must be exported again from the first log.
func pinnedResetDuringSlowListing() string {
	w := newWorld()
	w.syncPeriod = 400 * time.Microsecond
	m := newManager(w)
	go m.Run(context.Background())
	<-m.Started()
	defer func() {
		w.mu.Lock()
		if w.holdListing {
			w.holdListing = false
			close(w.listGate)
		}
		w.mu.Unlock()
		ctx, cancel := context.WithTimeout(context.Background(), 10*time.Second)
		defer cancel()
		_ = m.Stop(ctx)
	}()
	ctx := context.Background()
	exp, err := m.CreateExporter(ctx, ledger.NewExporterConfiguration("fake", json.RawMessage(`{}`)))
	if err != nil {
		return ""
	}
	p, err := m.CreatePipeline(ctx, ledger.NewPipelineConfiguration("l1", exp.ID))
	if err != nil {
		return ""
	}
	w.mu.Lock()
	for i := 1; i <= 3; i++ {
		w.logs = append(w.logs, ledger.Log{ID: pointer.For(uint64(i)), Type: ledger.NewTransactionLogType})
	}
	w.mu.Unlock()
	waitFor := func(cond func() bool, d time.Duration) bool {
		deadline := time.Now().Add(d)
		for time.Now().Before(deadline) {
			w.mu.Lock()
			ok := cond()
			w.mu.Unlock()
			if ok {
				return true
			}
			time.Sleep(100 * time.Microsecond)
		}
		return false
	}
	if !waitFor(func() bool {
		row := w.pipelines[p.ID]
		return row != nil && row.LastLogID != nil && *row.LastLogID == 3
	}, 5*time.Second) {
		return "" // inconclusive: the first export did not settle
	}
	w.mu.Lock()
	w.holdListing = true
	w.mu.Unlock()
	if !waitFor(func() bool { return w.heldListings > 0 }, 2*time.Second) {
		return ""
	}
	done := make(chan struct{})
	go func() {
		defer close(done)
		c, cancel := context.WithTimeout(ctx, 20*time.Second)
		defer cancel()
		_ = m.StopPipeline(c, p.ID)
		_ = m.ResetPipeline(c, p.ID)
	}()
	select {
	case <-done:
	case <-time.After(5 * time.Millisecond):
	}
	w.mu.Lock()
	w.holdListing = false
	close(w.listGate)
	w.listGate = make(chan struct{})
	w.mu.Unlock()
	select {
	case <-done:
	case <-time.After(25 * time.Second):
		return ""
	}
	if !waitFor(func() bool { return w.resets > 0 }, time.Second) {
		return ""
	}
	if !waitFor(func() bool { return w.delivered[1] > 0 && w.delivered[2] > 0 && w.delivered[3] > 0 }, 3*time.Second) {
		w.mu.Lock()
		defer w.mu.Unlock()
		if w.violation != "" {
			return w.violation
		}
		return fmt.Sprintf("after a reset issued while a listing of the periodic synchronisation was in flight, logs 1..3 are not exported again (delivered since the reset: %v)\nhistory:\n  %s", w.delivered, strings.Join(w.history, "\n  "))
	}
	w.mu.Lock()
	defer w.mu.Unlock()
	return w.violation
}

func TestC33(t *testing.T) {
	st := stats.New("C33", "exploration", ruleC33,
		"Storage and the exporter driver are in-memory fakes; the Manager, PipelineHandler and DriverFacade are the real code with real goroutines, so the interleaving is only steered (holds, failures, pauses), not owned: a violation is reported with the recorded call history rather than a replayable schedule",
		"liveness is only judged in the pipeline's own polls (300 ListLogs calls without full delivery); a wall-clock stall is inconclusive")
	defer st.Write(t)
	for i := 0; i < 5; i++ {
		if v := pinnedStaleStore(); v != "" && !stats.SkipPinned() {
			t.Fatalf("VIOLATION[C33] (pinned sequence hold, append, reset, release): %s", v)
		}
	}
	if v := pinnedBatcherCancelled(); v != "" && !stats.SkipPinned() {
		t.Fatalf("VIOLATION[C33] (pinned: batching driver, sender stopped): %s", v)
	}
	for i := 0; i < 3; i++ {
		if v := pinnedResetDuringSlowListing(); v != "" && !stats.SkipPinned() {
			t.Fatalf("VIOLATION[C33] (scripted sequence: export, slow listing of the periodic synchronisation, stop, reset, listing returns): %s", v)
		}
	}
	st.Set("pinned_sequences", 9)
	n := stats.N(150, 500)
	st.Set("requested_checks", n)
	stats.Check(t, n, 33, func(rt *rapid.T) {
		w := newWorld()
		w.batchMax = rapid.SampledFrom([]int{0, 0, 1, 2, 2, 5}).Draw(rt, "batchMaxItems")
		w.syncPeriod = rapid.SampledFrom([]time.Duration{time.Hour, time.Hour, 400 * time.Microsecond}).Draw(rt, "syncPeriod")
		s := &sys{w: w, m: newManager(w)}
		go s.m.Run(context.Background())
		<-s.m.Started()
		defer func() {
			w.mu.Lock()
			if w.holdStores {
				w.holdStores = false
				close(w.storeGate)
			}
			if w.holdListing {
				w.holdListing = false
				close(w.listGate)
			}
			w.mu.Unlock()
			ctx, cancel := context.WithTimeout(context.Background(), 10*time.Second)
			defer cancel()
			_ = s.m.Stop(ctx)
		}()
		exp, err := s.m.CreateExporter(context.Background(), ledger.NewExporterConfiguration("fake", json.RawMessage(`{}`)))
		if err != nil {
			stats.HarnessError(rt, "CreateExporter: %v", err)
		}
		p, err := s.m.CreatePipeline(context.Background(), ledger.NewPipelineConfiguration("l1", exp.ID))
		if err != nil {
			stats.HarnessError(rt, "CreatePipeline: %v", err)
		}
		s.pipeline, s.started = p.ID, true
		var actions []string
		var riskyReset, failedAccepts bool

		appendLogs := func(k int) {
			w.mu.Lock()
			for i := 0; i < k; i++ {
				id := uint64(len(w.logs) + 1)
				w.logs = append(w.logs, ledger.Log{ID: pointer.For(id), Type: ledger.NewTransactionLogType})
			}
			w.note("append %d logs (journal now 1..%d)", k, len(w.logs))
			w.mu.Unlock()
		}
		release := s.releaseHolds
		pendingWork := func() bool {
			w.mu.Lock()
			defer w.mu.Unlock()
			return w.heldStores > 0 || uint64(len(w.logs)) > w.ackedMax
		}
		settle := func() {
			release()
			w.mu.Lock()
			w.failAccepts = 0
			w.failItemsNext = 0
			w.mu.Unlock()
			s.drain(rt)
			if !s.started {
				if err := s.m.StartPipeline(context.Background(), s.pipeline); err != nil && !errors.Is(err, ledger.ErrAlreadyStarted("")) {
					stats.HarnessError(rt, "StartPipeline: %v", err)
				}
				s.started = true
			}
			w.mu.Lock()
			w.note("settle")
			startPolls := w.listCalls
			w.mu.Unlock()
			deadline := time.Now().Add(30 * time.Second)
			for {
				w.mu.Lock()
				done := true
				for i := range w.logs {
					if w.delivered[uint64(i+1)] == 0 {
						done = false
						break
					}
				}
				polls := w.listCalls - startPolls
				w.mu.Unlock()
				if done {
					break
				}
				if polls > 300 {
					w.mu.Lock()
					var missing []string
					for i := range w.logs {
						if w.delivered[uint64(i+1)] == 0 {
							missing = append(missing, fmt.Sprint(i+1))
						}
					}
					hist := strings.Join(w.history, "\n  ")
					w.mu.Unlock()
					s.check(rt)
					rt.Fatalf("VIOLATION[C33]: with a healthy exporter and a started pipeline, logs [%s] have not been delivered since the last reset after 300 polls of the journal\nhistory:\n  %s", strings.Join(missing, ","), hist)
				}
				if time.Now().After(deadline) {
					stats.HarnessError(rt, "the pipeline made no progress for 30s (inconclusive)\nhistory:\n  %s", strings.Join(w.history, "\n  "))
				}
				time.Sleep(200 * time.Microsecond)
			}
			s.check(rt)
		}

		step := map[string]func(*rapid.T){
			"append": func(t *rapid.T) {
				k := rapid.IntRange(1, 5).Draw(t, "logs")
				appendLogs(k)
				actions = append(actions, fmt.Sprintf("append %d", k))
			},
			"failAccepts": func(t *rapid.T) {
				k := rapid.IntRange(1, 3).Draw(t, "failures")
				w.mu.Lock()
				w.failAccepts += k
				w.note("the next %d Accepts fail", k)
				w.mu.Unlock()
				failedAccepts = true
				actions = append(actions, fmt.Sprintf("fail %d", k))
			},
			"failItems": func(t *rapid.T) {
				if w.batchMax == 0 {
					return // per-item errors only reach the pipeline through the batcher
				}
				mask := rapid.IntRange(1, 7).Draw(t, "refusedItems")
				w.mu.Lock()
				w.failItemsNext = mask
				w.note("the next Accept refuses the items at positions %03b (read right to left) only", mask)
				w.mu.Unlock()
				failedAccepts = true
				actions = append(actions, fmt.Sprintf("failItems %03b", mask))
			},
			"stop": func(t *rapid.T) {
				if !s.started {
					return
				}
				w.mu.Lock()
				w.note("StopPipeline")
				w.mu.Unlock()
				s.started = false
				s.async(t, "stop", func(ctx context.Context) error { return s.m.StopPipeline(ctx, s.pipeline) })
				actions = append(actions, "stop")
			},
			"start": func(t *rapid.T) {
				if s.started {
					return
				}
				w.mu.Lock()
				w.note("StartPipeline")
				w.mu.Unlock()
				s.started = true
				s.async(t, "start", func(ctx context.Context) error {
					if err := s.m.StartPipeline(ctx, s.pipeline); err != nil && !errors.Is(err, ledger.ErrAlreadyStarted("")) {
						return err
					}
					return nil
				})
				actions = append(actions, "start")
			},
			"reset": func(t *rapid.T) {
				if pendingWork() {
					riskyReset = true
				}
				w.mu.Lock()
				w.note("ResetPipeline")
				w.mu.Unlock()
				s.async(t, "reset", func(ctx context.Context) error { return s.m.ResetPipeline(ctx, s.pipeline) })
				actions = append(actions, "reset")
			},
			"restart": func(t *rapid.T) {
				if pendingWork() {
					riskyReset = true
				}
				release()
				s.drain(t)
				w.mu.Lock()
				w.note("manager restart")
				w.mu.Unlock()
				ctx, cancel := context.WithTimeout(context.Background(), 30*time.Second)
				if err := s.m.Stop(ctx); err != nil {
					cancel()
					stats.HarnessError(t, "Manager.Stop: %v", err)
				}
				cancel()
				s.m = newManager(w)
				go s.m.Run(context.Background())
				<-s.m.Started()
				s.started = true // enabled pipelines are restored
				actions = append(actions, "restart")
			},
			"holdStores": func(t *rapid.T) {
				w.mu.Lock()
				if !w.holdStores {
					w.holdStores = true
					w.note("hold the StorePipelineState calls")
				}
				w.mu.Unlock()
				actions = append(actions, "hold")
			},
			"holdListing": func(t *rapid.T) {
				if w.syncPeriod >= time.Hour {
					return // nothing lists the pipelines during the case
				}
				w.mu.Lock()
				if !w.holdListing {
					w.holdListing = true
					w.note("hold the ListEnabledPipelines calls (a slow listing of the periodic synchronisation)")
				}
				w.mu.Unlock()
				// let the periodic synchronisation reach its listing
				time.Sleep(time.Duration(rapid.IntRange(3, 12).Draw(t, "waitForSync100us")) * 100 * time.Microsecond)
				actions = append(actions, "holdListing")
			},
			"releaseStores": func(t *rapid.T) {
				release()
				actions = append(actions, "release")
			},
			"run": func(t *rapid.T) {
				time.Sleep(time.Duration(rapid.IntRange(1, 20).Draw(t, "pause100us")) * 100 * time.Microsecond)
				actions = append(actions, "run")
			},
			"settle": func(t *rapid.T) {
				settle()
				actions = append(actions, "settle")
			},
			"": func(t *rapid.T) { s.check(t) },
		}
		rt.Repeat(step)
		settle()
		w.mu.Lock()
		nlogs, fails, resets, partial := len(w.logs), w.acceptFailures, w.resets, w.partialFails
		hist := append([]string{}, w.history...)
		w.mu.Unlock()
		var classes []string
		if resets > 0 {
			classes = append(classes, "has-reset")
		}
		if fails > 0 {
			classes = append(classes, "accept-failed")
		}
		if riskyReset {
			classes = append(classes, "reset-or-restart-with-pending-work")
		}
		classes = append(classes, fmt.Sprintf("batching-maxItems:%d", w.batchMax), fmt.Sprintf("periodic-sync:%v", w.syncPeriod < time.Hour))
		if partial > 0 {
			classes = append(classes, "batch-partly-refused")
		}
		st.Case(fmt.Sprintf("batch=%d sync=%v:", w.batchMax, w.syncPeriod)+strings.Join(actions, ","), riskyReset && failedAccepts && fails > 0 && nlogs > 0, func() any {
			h := hist
			if len(h) > 30 {
				h = h[:30]
			}
			return map[string]any{"actions": actions, "calls": h}
		}, classes...)
		st.Add("completed_checks", 1)
	})
}
