// Package known reads /verif/known_findings.txt (committed, never written at
// run time). An "open" finding names a structural class of failing cases; the
// checks re-run its pinned reproducer, print a KNOWN-FINDING line while it
// still reproduces, and exclude that class (only) from the random search so
// that a different violation of the same property is still reported.
package known

import (
	"bufio"
	"os"
	"path/filepath"
	"strings"
	"sync"
)

type Finding struct {
	Status   string // open | fixed
	Property string
	ID       string
	What     string
	Commit   string
}

var (
	once sync.Once
	all  []Finding
)

func load() {
	dir := os.Getenv("VERIF_DIR")
	if dir == "" {
		dir = "/verif"
	}
	f, err := os.Open(filepath.Join(dir, "known_findings.txt"))
	if err != nil {
		return
	}
	defer f.Close()
	sc := bufio.NewScanner(f)
	sc.Buffer(make([]byte, 1<<20), 1<<20)
	for sc.Scan() {
		line := strings.TrimSpace(sc.Text())
		var fd Finding
		switch {
		case strings.HasPrefix(line, "open: "):
			fd.Status = "open"
			line = strings.TrimPrefix(line, "open: ")
		case strings.HasPrefix(line, "fixed: "):
			fd.Status = "fixed"
			line = strings.TrimPrefix(line, "fixed: ")
		default:
			continue
		}
		fields := strings.Fields(line)
		rest := 0
		for i, fl := range fields {
			switch {
			case strings.HasPrefix(fl, "property=") && fd.Property == "":
				fd.Property = strings.TrimPrefix(fl, "property=")
				rest = i + 1
			case strings.HasPrefix(fl, "id=") && fd.ID == "" && i == rest:
				fd.ID = strings.TrimPrefix(fl, "id=")
				rest = i + 1
			}
		}
		if fd.Status == "fixed" && rest < len(fields) {
			fd.Commit = fields[rest]
			rest++
		}
		fd.What = strings.Join(fields[rest:], " ")
		all = append(all, fd)
	}
}

// IsOpen reports whether the finding with this id is listed as open.
func IsOpen(id string) bool {
	once.Do(load)
	for _, f := range all {
		if f.ID == id && f.Status == "open" {
			return true
		}
	}
	return false
}

func Get(id string) (Finding, bool) {
	once.Do(load)
	for _, f := range all {
		if f.ID == id {
			return f, true
		}
	}
	return Finding{}, false
}

// Line is the line a check prints for a listed finding that still reproduces.
func Line(id string) string {
	f, _ := Get(id)
	return "KNOWN-FINDING: property=" + f.Property + " " + f.ID + ": " + f.What
}
