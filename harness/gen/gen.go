// Package gen holds the generators shared by the engines. Universes are kept
// small on purpose so that collisions (same account, same asset, same
// reference) are frequent. Every random choice is a rapid draw.
package gen

import (
	"math/big"

	"pgregory.net/rapid"
)

var (
	Accounts = []string{"world", "a", "a:b", "a:b:c", "u:1", "u:2", "bank", "x_y-z:0"}
	// NonWorld excludes world.
	NonWorld = Accounts[1:]
	Assets   = []string{"USD/2", "EUR", "COIN/6"}
)

func pow(b, e int64) *big.Int { return new(big.Int).Exp(big.NewInt(b), big.NewInt(e), nil) }

func add(a *big.Int, d int64) *big.Int { return new(big.Int).Add(a, big.NewInt(d)) }

// EdgeAmounts is the C36 list.
var EdgeAmounts = []*big.Int{
	big.NewInt(0), big.NewInt(1), big.NewInt(2), big.NewInt(99), big.NewInt(100),
	add(pow(2, 53), -1), pow(2, 53), add(pow(2, 53), 1),
	add(pow(2, 63), -1), pow(2, 63), add(pow(2, 63), 1),
	add(pow(2, 64), -1), pow(2, 64), add(pow(2, 64), 1),
	pow(10, 30),
}

// Amount draws a non-negative amount: mostly small, sometimes an edge value,
// sometimes a uniformly random big one.
func Amount() *rapid.Generator[*big.Int] {
	return rapid.Custom(func(t *rapid.T) *big.Int {
		switch rapid.IntRange(0, 9).Draw(t, "amtKind") {
		case 0, 1:
			return new(big.Int).Set(rapid.SampledFrom(EdgeAmounts).Draw(t, "edge"))
		case 2:
			bs := rapid.SliceOfN(rapid.Byte(), 1, 20).Draw(t, "bigBytes")
			return new(big.Int).SetBytes(bs)
		default:
			return big.NewInt(int64(rapid.IntRange(0, 300).Draw(t, "small")))
		}
	})
}

// SmallAmount draws amounts that interact (0..300) with rare edge values.
func SmallAmount() *rapid.Generator[*big.Int] {
	return rapid.Custom(func(t *rapid.T) *big.Int {
		switch rapid.IntRange(0, 19).Draw(t, "amtEdge") {
		case 0:
			return new(big.Int).Set(rapid.SampledFrom(EdgeAmounts).Draw(t, "edge"))
		case 1, 2:
			return big.NewInt(0) // zero-amount postings are legal and exercise distinct paths
		case 3, 4, 5:
			return big.NewInt(int64(rapid.IntRange(1, 6).Draw(t, "tiny")))
		}
		return big.NewInt(int64(rapid.IntRange(0, 300).Draw(t, "small")))
	})
}

func Account() *rapid.Generator[string]         { return rapid.SampledFrom(Accounts) }
func NonWorldAccount() *rapid.Generator[string] { return rapid.SampledFrom(NonWorld) }
func Asset() *rapid.Generator[string]           { return rapid.SampledFrom(Assets) }

// AdversarialStrings are free-text values with characters that matter to
// JSON / SQL / HTML escaping.
var AdversarialStrings = []string{
	"", "k", "v", "role", "x y", `q"uote`, `back\slash`, "<b>&amp;</b>", "é∑🙂", "tab\there", "nl\nhere", "'single'", "a:b", "100", "null", "true",
}

func FreeText() *rapid.Generator[string] { return rapid.SampledFrom(AdversarialStrings) }
