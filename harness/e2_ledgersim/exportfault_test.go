package e2

import (
	"bytes"
	"encoding/json"
	"fmt"
	"math/big"
	"net/http"
	"testing"

	"pgregory.net/rapid"

	"github.com/formancehq/go-libs/v5/pkg/storage/bun/paginate"

	"github.com/formancehq/go-libs/v5/pkg/types/pointer"

	ledger "github.com/formancehq/ledger/internal"
	"github.com/formancehq/ledger/internal/storage/common"
	"github.com/formancehq/ledger/verifharness/env"
	"github.com/formancehq/ledger/verifharness/stats"
)

const ruleExportFault = "export under an injected fault, through the API: a source of 101-260 logs (a short generated history, then generated transfers, metadata writes and reverts) is exported with POST /v2/{ledger}/logs/export while the k-th statement (k drawn among the statements a fault-free export of the same ledger runs) of that request is made to fail (an error of the statement, or a refusal for lack of connection slots, which the service retries for writes); an export answered 2xx whose body holds nothing but logs must carry the stored journal, once and in order; the bytes received are posted unchanged to POST /v2/{copy}/logs/import on a fresh ledger; if the export answered 2xx and the import 204, the copy must hold every log of the source with the same hashes (a cut stream must never pass for a complete one); afterwards fault-free exports of the same ledger and of a neighbour must answer 2xx and carry exactly the stored logs: every stored id once and in increasing order, every hash equal to the recomputed chain hash and to the stored hash; non-trivial = the fault fired after at least one log had been handed to the writer (second page); distinct = by source history + fault position"

// runExportFault is registered for C11 (a truncated stream must not import as a complete ledger) and for C09
// (recomputing the chain from the exported logs reproduces every stored hash, also after a failed export).
func runExportFault(t *testing.T, id string) {
	st := stats.New(id, "exploration", ruleExportFault, assumePgsim)
	defer st.Write(t)
	n := stats.N(12, 80)
	st.Set("requested_checks_exportfault", n)
	stats.Check(t, n, 1190, func(rt *rapid.T) {
		w := NewWorld(rt, st, env.Options{}, id)
		defer w.Close()
		fs := GenFeatures(rt)
		src := w.AddLedger("src", "b1", fs)
		other := w.AddLedger("other", rapid.SampledFrom([]string{"b1", "b3"}).Draw(rt, "neighbourBucket"), fs)
		w.Drive(rt, src, nil, HistOpts{Steps: 5, Scripts: true, Reverts: true, Metadata: true})
		w.Drive(rt, other, nil, HistOpts{Steps: 4, Metadata: true})
		want := rapid.IntRange(101, 260).Draw(rt, "sourceLogs")
		accounts := []string{"bank", "users:1", "users:2", "orders:7", "fees"}
		for i := 0; len(src.M.Logs) < want; i++ {
			switch rapid.IntRange(0, 9).Draw(rt, "fill") {
			case 0:
				w.SaveAccountMeta(src, accounts[i%len(accounts)], map[string]string{"k": fmt.Sprint(i)}, false)
			case 1:
				if len(src.M.Txs) > 0 {
					w.SaveTxMeta(src, uint64(1+i%len(src.M.Txs)), map[string]string{"note": fmt.Sprint(i)}, "", false)
				} else {
					w.CreateTx(src, TxRequest{Postings: ledger.Postings{ledger.NewPosting("world", "bank", "USD/2", big.NewInt(3))}})
				}
			default:
				w.CreateTx(src, TxRequest{Postings: ledger.Postings{ledger.NewPosting("world", accounts[i%len(accounts)], "USD/2", big.NewInt(int64(1+i%17)))}})
			}
			if i > 4*want {
				w.harness("could not fill the source")
			}
		}
		// a fault-free export first: it tells how many statements the request runs
		exp := w.httpCall("GET", "/v2/src", nil)
		clean := withFault(w.Env.Sim, faultPlan{}, func() {
			exp = w.httpCall("POST", "/v2/src/logs/export", nil)
		})
		if exp.Code/100 != 2 || clean.Stmts == 0 {
			rt.Fatalf("VIOLATION[%s]: POST /v2/src/logs/export answered HTTP %d without any fault (%d statements): %s", id, exp.Code, clean.Stmts, truncate(exp.Body.String(), 300))
		}
		k := rapid.IntRange(1, clean.Stmts).Draw(rt, "faultAt")
		if clean.Stmts > 2 && rapid.IntRange(0, 3).Draw(rt, "late") > 0 {
			k = clean.Stmts - rapid.IntRange(0, 1).Draw(rt, "fromEnd")
		}
		// the failure: an error of the statement, or a refusal for lack of connection slots (which the service retries)
		kind := rapid.SampledFrom([]string{"stmt-before", "refused"}).Draw(rt, "faultKind")
		tr := withFault(w.Env.Sim, faultPlan{Kind: kind, At: k}, func() {
			exp = w.httpCall("POST", "/v2/src/logs/export", nil)
		})
		stream := append([]byte(nil), exp.Body.Bytes()...)
		// how many complete logs did the answer carry?
		carried, onlyLogs := 0, true
		var carriedIDs []uint64
		dec := json.NewDecoder(bytes.NewReader(stream))
		for dec.More() {
			var lg ledger.Log
			if err := dec.Decode(&lg); err != nil || lg.ID == nil {
				onlyLogs = false // an error document, or something that is no log: the stream does not pass for an export
				break
			}
			carried++
			carriedIDs = append(carriedIDs, *lg.ID)
		}
		if exp.Code/100 == 2 && onlyLogs {
			// answered as a success, and nothing in the body says otherwise: then it is the journal, once and in order
			stored := w.rawLogs(src)
			same := len(stored) == len(carriedIDs)
			for i := 0; same && i < len(stored); i++ {
				same = *stored[i].ID == carriedIDs[i]
			}
			if !same {
				head := carriedIDs
				if len(head) > 8 {
					head = head[:8]
				}
				rt.Fatalf("VIOLATION[%s]: POST /v2/src/logs/export answered HTTP %d with %d logs and no error in the body while statement %d of the request failed (%s); the ledger stores %d logs: the exported journal is not the stored one (ids start %v; log #101 of the stream has id %v)", id, exp.Code, carried, k, kind, len(stored), head, idAt(carriedIDs, 100))
			}
		}
		midStream := tr.Fired && carried > 0
		total := len(src.M.Logs)

		cp := w.AddLedger("copy", "b2", fs)
		imp := w.httpCall("POST", "/v2/copy/logs/import", stream)
		if exp.Code/100 == 2 && imp.Code == http.StatusNoContent {
			if !tr.Fired && carried != total {
				rt.Fatalf("VIOLATION[%s]: the export of src (no fault fired) carried %d logs of %d", id, carried, total)
			}
			// accepted: then it must be the whole ledger
			cpLogs := w.rawLogs(cp)
			if len(cpLogs) != total {
				rt.Fatalf("VIOLATION[%s]: POST /v2/src/logs/export answered HTTP %d while statement %d of the request failed (%d of %d logs on the wire) and POST /v2/copy/logs/import accepted the stream with 204: the copy holds %d logs, the source %d - a cut export passes for a complete one\nstream tail: %s", id, exp.Code, k, carried, total, len(cpLogs), total, truncate(string(tail(stream, 300)), 300))
			}
		}
		if !tr.Fired && exp.Code/100 != 2 {
			rt.Fatalf("VIOLATION[%s]: POST /v2/src/logs/export answered HTTP %d without any fault: %s", id, exp.Code, truncate(exp.Body.String(), 300))
		}

		// the service keeps exporting what is stored, for this ledger and for the neighbour
		for _, l := range []*LState{src, other} {
			rec := w.httpCall("POST", "/v2/"+l.Name+"/logs/export", nil)
			if rec.Code/100 != 2 {
				rt.Fatalf("VIOLATION[%s]: POST /v2/%s/logs/export answered HTTP %d after an earlier export had failed: %s", id, l.Name, rec.Code, truncate(rec.Body.String(), 300))
			}
			var got []ledger.Log
			d := json.NewDecoder(bytes.NewReader(rec.Body.Bytes()))
			for d.More() {
				var lg ledger.Log
				if err := d.Decode(&lg); err != nil {
					rt.Fatalf("VIOLATION[%s]: the export of %s after a failed export of src cannot be decoded after %d logs: %v", id, l.Name, len(got), err)
				}
				got = append(got, lg)
			}
			stored := w.rawLogs(l)
			if len(got) != len(stored) {
				ids := []uint64{}
				for i, lg := range got {
					if i < 6 && lg.ID != nil {
						ids = append(ids, *lg.ID)
					}
				}
				rt.Fatalf("VIOLATION[%s]: the export of %s after a failed export of src (statement %d failed, HTTP %d, %d logs on the wire) carries %d logs, the ledger stores %d; first ids exported: %v", id, l.Name, k, exp.Code, carried, len(got), len(stored), ids)
			}
			var prev *ledger.Log
			for i := range got {
				if got[i].ID == nil || *got[i].ID != *stored[i].ID || (prev != nil && *prev.ID >= *got[i].ID) {
					rt.Fatalf("VIOLATION[%s]: export of %s: position %d carries log id %d, the ledger stores %d there", id, l.Name, i, idOf(got[i]), *stored[i].ID)
				}
				if !bytes.Equal(got[i].Hash, stored[i].Hash) {
					rt.Fatalf("VIOLATION[%s]: export of %s: log %d exported with hash %x, stored %x", id, l.Name, i+1, got[i].Hash, stored[i].Hash)
				}
				if fs["HASH_LOGS"] == "SYNC" {
					re := got[i]
					re.Hash = nil
					re.ComputeHash(prev)
					if !bytes.Equal(re.Hash, got[i].Hash) {
						rt.Fatalf("VIOLATION[%s]: export of %s: recomputing the chain from the exported logs gives %x for log %d, exported %x", id, l.Name, re.Hash, i+1, got[i].Hash)
					}
				}
				prev = &got[i]
			}
		}
		st.Case(src.History()+fmt.Sprint(k), midStream, func() any {
			return map[string]any{"source_logs": total, "statements_of_a_clean_export": clean.Stmts, "fault_at_statement": k, "fault_kind": kind, "fired": tr.Fired, "export_status": exp.Code, "logs_on_the_wire": carried, "import_status": imp.Code}
		}, fmt.Sprintf("fired:%v", tr.Fired), "fault:"+kind, fmt.Sprintf("mid-stream:%v", midStream), fmt.Sprintf("export-status:%d", exp.Code), fmt.Sprintf("import-status:%d", imp.Code))
		st.Add("completed_checks_exportfault", 1)
	})
}

func tail(b []byte, n int) []byte {
	if len(b) <= n {
		return b
	}
	return b[len(b)-n:]
}

// rawLogs lists a ledger's stored logs through its controller, oldest first, without comparing to the model.
func (w *World) rawLogs(l *LState) []ledger.Log {
	saved := w.Focus
	w.Focus = map[string]bool{}
	defer func() { w.Focus = saved }()
	got, _, err := paginateAll(w, "ListLogs("+l.Name+")", common.InitialPaginatedQuery[any]{PageSize: 100, Order: pointer.For(paginate.Order(paginate.OrderAsc))},
		func(q common.PaginatedQuery[any]) (*paginate.Cursor[ledger.Log], error) {
			return l.C.ListLogs(w.Ctx, q)
		})
	if err != nil {
		w.harness("listing the logs of %s: %v", l.Name, err)
	}
	return got
}

func TestC11ExportFault(t *testing.T) { runExportFault(t, "C11") }
func TestC09ExportFault(t *testing.T) { runExportFault(t, "C09") }

func idAt(ids []uint64, i int) any {
	if i < len(ids) {
		return ids[i]
	}
	return "-"
}

func idOf(l ledger.Log) uint64 {
	if l.ID == nil {
		return 0
	}
	return *l.ID
}
