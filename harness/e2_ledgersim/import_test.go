package e2

import (
	"bytes"
	"context"
	"encoding/json"
	"fmt"
	"math/big"
	"net/http/httptest"
	"strings"
	"testing"
	"time"

	"pgregory.net/rapid"

	"github.com/formancehq/go-libs/v5/pkg/storage/bun/paginate"
	"github.com/formancehq/go-libs/v5/pkg/types/metadata"
	libtime "github.com/formancehq/go-libs/v5/pkg/types/time"

	ledger "github.com/formancehq/ledger/internal"
	"github.com/formancehq/ledger/internal/api/bulking"
	ledgercontroller "github.com/formancehq/ledger/internal/controller/ledger"
	"github.com/formancehq/ledger/internal/storage/common"
	"github.com/formancehq/ledger/pkg/features"
	"github.com/formancehq/ledger/verifharness/env"
	"github.com/formancehq/ledger/verifharness/known"
	"github.com/formancehq/ledger/verifharness/stats"
)

// exportLogs runs the real Export and returns the logs in the order written.
// importsViaHTTP makes exportLogs / importLogs go through POST /v2/{ledger}/logs/export and /logs/import.
var importsViaHTTP bool

func (w *World) httpCall(method, path string, body []byte) *httptest.ResponseRecorder {
	if w.router == nil {
		w.router = w.Env.Router()
	}
	req := httptest.NewRequest(method, path, bytes.NewReader(body))
	rec := httptest.NewRecorder()
	w.router.ServeHTTP(rec, req)
	return rec
}

func (w *World) exportLogs(l *LState) []ledger.Log {
	if importsViaHTTP {
		rec := w.httpCall("POST", "/v2/"+l.Name+"/logs/export", nil)
		if rec.Code/100 != 2 {
			w.V("C11", "POST /v2/%s/logs/export answered HTTP %d: %s", l.Name, rec.Code, truncate(rec.Body.String(), 300))
		}
		var out []ledger.Log
		dec := json.NewDecoder(bytes.NewReader(rec.Body.Bytes()))
		for dec.More() {
			var lg ledger.Log
			if err := dec.Decode(&lg); err != nil {
				w.V("C11", "the export of %s cannot be decoded: %v", l.Name, err)
			}
			out = append(out, lg)
		}
		return out
	}
	var out []ledger.Log
	err := l.C.Export(w.Ctx, ledgercontroller.ExportWriterFn(func(_ context.Context, lg ledger.Log) error {
		out = append(out, lg)
		return nil
	}))
	w.checkErr(err)
	if err != nil {
		w.V("C11", "Export failed: %v\nhistory:\n  %s", err, l.History())
	}
	return out
}

// importLogs feeds logs through the real Import of the ledger's full controller chain.
func (w *World) importLogs(l *LState, logs []ledger.Log) error {
	if importsViaHTTP {
		var body bytes.Buffer
		for _, lg := range logs {
			b, err := json.Marshal(lg)
			if err != nil {
				w.harness("marshal log: %v", err)
			}
			body.Write(b)
			body.WriteByte('\n')
		}
		rec := w.httpCall("POST", "/v2/"+l.Name+"/logs/import", body.Bytes())
		if rec.Code/100 == 2 {
			return nil
		}
		if rec.Code >= 500 {
			w.V("C12|C11|C38", "POST /v2/%s/logs/import answered HTTP %d: %s", l.Name, rec.Code, truncate(rec.Body.String(), 300))
		}
		return fmt.Errorf("HTTP %d: %s", rec.Code, truncate(rec.Body.String(), 300))
	}
	ch := make(chan ledger.Log, len(logs))
	for _, lg := range logs {
		// what travels between two deployments is the JSON form
		data, err := json.Marshal(lg)
		if err != nil {
			w.harness("marshal log: %v", err)
		}
		var back ledger.Log
		if err := json.Unmarshal(data, &back); err != nil {
			w.harness("unmarshal log: %v", err)
		}
		ch <- back
	}
	close(ch)
	err := l.C.Import(w.Ctx, ch)
	w.checkErr(err)
	return err
}

// runBulk runs elements through the real Bulker and returns the results in order.
func (w *World) runBulk(l *LState, elements []bulking.BulkElement, opts bulking.BulkingOptions) ([]bulking.BulkElementResult, error) {
	bulk := make(bulking.Bulk, len(elements))
	for _, e := range elements {
		bulk <- e
	}
	close(bulk)
	results := make(chan bulking.BulkElementResult, len(elements))
	err := bulking.NewBulker(l.C, bulking.WithParallelism(4)).Run(w.Ctx, bulk, results, opts)
	w.checkErr(err)
	var out []bulking.BulkElementResult
	for r := range results {
		if r.Error != nil {
			w.checkErr(r.Error)
		}
		out = append(out, r)
	}
	return out, err
}

func createElement(ps ledger.Postings, ref string) bulking.BulkElement {
	return bulking.BulkElement{Action: bulking.ActionCreateTransaction, Data: bulking.TransactionRequest{Postings: ps, Reference: ref}}
}

const ruleC11 = "a generated source history (postings and Numscript creates on both runtimes, reverts, metadata save/delete with adversarial strings, failing writes leaving id gaps) is exported with the real Export, sent through JSON, and imported with the real Import (state tracker included) into a fresh ledger of another bucket with the same features; the copy must equal the source on every read (transactions, accounts, volumes, aggregated balances, logs and their hashes); then the first write goes through a drawn path (single request / non-atomic bulk / atomic bulk, each optionally preceded by a metadata write - a write that takes the ledger out of 'initializing' without allocating a transaction id) and must succeed with ids that continue the imported ones, followed by more random writes and a full sweep; non-trivial = source with >= 1 revert and an id gap, and the post-import first write through a bulk; distinct = by source history + path"

const FindingImportMetaDeleteDate = "C11-import-account-meta-delete-date"

// reproduceImportMetaDeleteDate is the pinned reproducer of known finding
// C11-import-account-meta-delete-date: the account's metadata at an instant
// between the original deletion and the import differs between source and copy.
func reproduceImportMetaDeleteDate() bool {
	w := NewWorld(&quietT{}, nil, env.Options{})
	defer w.Close()
	src := w.AddLedger("src", "b1", features.DefaultFeatures)
	if w.CreateTx(src, TxRequest{Postings: ledger.Postings{ledger.NewPosting("world", "u:1", "USD/2", big.NewInt(5))}}).Kind != ErrNone {
		return false
	}
	if w.SaveAccountMeta(src, "u:1", map[string]string{"k": "v"}, false) != ErrNone {
		return false
	}
	w.Env.Sim.AdvanceClock(time.Hour)
	if w.DeleteAccountMeta(src, "u:1", "k", false) != ErrNone {
		return false
	}
	w.Env.Sim.AdvanceClock(time.Hour)
	between := libtime.New(w.Env.Sim.Clock())
	w.Env.Sim.AdvanceClock(time.Hour)
	logs := w.exportLogs(src)
	cp := w.AddLedger("copy", "b2", features.DefaultFeatures)
	if err := w.importLogs(cp, logs); err != nil {
		return false
	}
	metaAt := func(l *LState) (map[string]string, bool) {
		c, err := w.Env.Ledger(w.Ctx, l.Name)
		if err != nil {
			return nil, false
		}
		cur, err := c.ListAccounts(w.Ctx, common.InitialPaginatedQuery[any]{PageSize: 15, Options: common.ResourceQuery[any]{PIT: &between}})
		if err != nil {
			return nil, false
		}
		for _, a := range cur.Data {
			if a.Address == "u:1" {
				return a.Metadata, true
			}
		}
		return nil, false
	}
	ms, ok1 := metaAt(src)
	mc, ok2 := metaAt(cp)
	_, inSrc := ms["k"]
	_, inCopy := mc["k"]
	return ok1 && ok2 && !inSrc && inCopy
}

func TestC11(t *testing.T) {
	st := stats.New("C11", "exploration", ruleC11, assumePgsim)
	defer st.Write(t)
	if known.IsOpen(FindingImportMetaDeleteDate) && reproduceImportMetaDeleteDate() {
		fmt.Println(known.Line(FindingImportMetaDeleteDate))
		st.Known(known.Line(FindingImportMetaDeleteDate))
	}
	n := stats.N(200, 600)
	st.Set("requested_checks", n)
	stats.Check(t, n, 11, func(rt *rapid.T) {
		w := NewWorld(rt, st, env.Options{}, "C11")
		defer w.Close()
		fs := GenFeatures(rt)
		src := w.AddLedger("src", "b1", fs)
		sum := w.Drive(rt, src, nil, HistOpts{Features: nil, Steps: 16, Scripts: true, Reverts: true, Metadata: true})
		if len(src.M.Logs) == 0 {
			rt.Skip("empty source")
		}
		logs := w.exportLogs(src)
		if len(logs) != len(src.M.Logs) {
			w.V("C11", "Export wrote %d logs, the source committed %d", len(logs), len(src.M.Logs))
		}
		cp := w.AddLedger("copy", "b2", fs)
		if err := w.importLogs(cp, logs); err != nil {
			w.V("C11", "Import of an exported ledger failed: %v\nsource history:\n  %s", err, src.History())
		}
		replayed, err := ReplayLogs(logs)
		if err != nil {
			w.harness("replay: %v", err)
		}
		replayed.Logs = src.M.Logs
		cp.M = replayed
		for _, tx := range src.M.Txs {
			if tx.Reference != "" {
				cp.Refs[tx.Reference] = true
			}
		}
		cp.Ops = append([]string{"(imported from src)"}, src.Ops...)
		w.Reopen(cp)
		w.Focus = nil // any read discrepancy on the copy counts
		w.FullSweep(rt, cp, HistOpts{})
		if fs[features.FeatureMovesHistory] == "ON" && len(cp.M.Txs) > 0 {
			// point-in-time balances must carry over as well (dates of moves come from the logs).
			// Point-in-time *metadata* on the copy is not compared: known finding C11-import-account-meta-delete-date.
			pit := w.genPIT(rt, cp)
			w.CheckVolumes(cp, pit, nil, false, 0, 15)
			w.CheckVolumes(cp, pit, nil, true, 0, 15)
			w.CheckAggregated(cp, pit, true, nil, nil)
			st.Excluded("C11-import-account-meta-delete-date")
		}
		w.Focus = map[string]bool{"C11": true}
		// hashes
		srcLogs := w.CheckLogs(src, 15, paginate.OrderAsc)
		cpLogs := w.CheckLogs(cp, 15, paginate.OrderAsc)
		for i := range srcLogs {
			if i < len(cpLogs) && !bytes.Equal(srcLogs[i].Hash, cpLogs[i].Hash) {
				w.V("C11", "log %d hash differs between source (%x) and copy (%x)", *srcLogs[i].ID, srcLogs[i].Hash, cpLogs[i].Hash)
			}
		}
		// ---- the copy stays writable through every path
		path := rapid.SampledFrom([]string{"single", "bulk", "atomic-bulk", "meta-then-single", "meta-then-create-in-bulk", "meta-then-create-in-atomic-bulk"}).Draw(rt, "firstWritePath")
		var maxTx, maxLog uint64
		for _, tx := range cp.M.Txs {
			if tx.ID > maxTx {
				maxTx = tx.ID
			}
		}
		for _, lg := range cp.M.Logs {
			if lg.ID > maxLog {
				maxLog = lg.ID
			}
		}
		ps := ledger.Postings{ledger.NewPosting("world", "a", "USD/2", big.NewInt(7))}
		// requests that write nothing may come first: a dry run, a create that is refused; the copy is as writable afterwards
		prelude := rapid.SampledFrom([]string{"none", "none", "dry-run", "refused", "dry-run+refused"}).Draw(rt, "beforeTheFirstWrite")
		if strings.Contains(prelude, "dry-run") {
			if out := w.CreateTx(cp, TxRequest{Postings: ps, DryRun: true}); out.Kind != ErrNone {
				w.V("C11", "a dry run sent to the imported ledger before any write failed: %v\nsource history:\n  %s", out.Err, src.History())
			}
		}
		if strings.Contains(prelude, "refused") {
			if out := w.CreateTx(cp, TxRequest{Postings: ledger.Postings{ledger.NewPosting("nobody:home", "a", "XAU/9", big.NewInt(5))}}); out.Kind != ErrInsufficientFunds {
				w.V("C11", "a create drawing on an empty account of the imported ledger was answered %q (%v), expected insufficient funds\nsource history:\n  %s", out.Kind, out.Err, src.History())
			}
		}
		// ids continue the imported ones: exactly, unless a request rolled back before (gaps from rolled-back writes are allowed)
		exact := prelude == "none"
		follows := func(got, base uint64) bool {
			if exact {
				return got == base+1
			}
			return got > base
		}
		metaFirst := strings.HasPrefix(path, "meta-then")
		if path == "meta-then-single" {
			// the write that takes the ledger out of 'initializing' allocates no transaction id
			if kind := w.SaveAccountMeta(cp, "a:b", map[string]string{"after": "import"}, false); kind != ErrNone {
				w.V("C11", "first write (account metadata) on the imported ledger failed: %q\nsource history:\n  %s", kind, src.History())
			}
			if got := cp.M.Logs[len(cp.M.Logs)-1].ID; !follows(got, maxLog) {
				w.V("C11", "first write (account metadata, before it: %s) on the imported ledger got log id %d, the ledger holds ids up to %d", prelude, got, maxLog)
			} else {
				maxLog = got
			}
		}
		switch path {
		case "single", "meta-then-single":
			out := w.CreateTx(cp, TxRequest{Postings: ps})
			if out.Kind != ErrNone {
				w.V("C11", "first transaction (%s) on the imported ledger failed: %v\nsource history:\n  %s", path, out.Err, src.History())
			} else if !follows(*out.Tx.ID, maxTx) || !follows(*out.Log.ID, maxLog) {
				w.V("C11", "first transaction (%s, before it: %s) on the imported ledger got tx id %d / log id %d, the ledger holds ids up to %d / %d", path, prelude, *out.Tx.ID, *out.Log.ID, maxTx, maxLog)
			}
		default:
			els := []bulking.BulkElement{createElement(ps, ""), createElement(ledger.Postings{ledger.NewPosting("world", "bank", "EUR", big.NewInt(3))}, "")}
			if metaFirst {
				raw, _ := json.Marshal("a:b")
				els = append([]bulking.BulkElement{{Action: bulking.ActionAddMetadata, Data: bulking.AddMetadataRequest{TargetType: ledger.MetaTargetTypeAccount, TargetID: raw, Metadata: metadata.Metadata{"after": "import"}}}}, els...)
			}
			res, err := w.runBulk(cp, els, bulking.BulkingOptions{Atomic: strings.HasSuffix(path, "atomic-bulk")})
			if err != nil {
				w.V("C11", "first write (%s) on the imported ledger failed: %v\nsource history:\n  %s", path, err, src.History())
			}
			nextTx, nextLog := maxTx, maxLog
			for i, r := range res {
				if r.Error != nil {
					w.V("C11", "first write (%s) on the imported ledger: element %d failed: %v\nsource history:\n  %s", path, i, r.Error, src.History())
					continue
				}
				if metaFirst && i == 0 {
					if !follows(r.LogID, nextLog) {
						w.V("C11", "first write (%s, before it: %s): the metadata element got log id %d, the ledger holds ids up to %d", path, prelude, r.LogID, nextLog)
					}
					nextLog = r.LogID
					// keep the model in step
					at := w.Env.Sim.Clock()
					for _, row := range w.Env.Sim.Rows(cp.Bucket, "logs") {
						if row["ledger"].S == cp.Name && row["id"].N != nil && row["id"].N.Uint64() == r.LogID {
							at = row["date"].T
						}
					}
					cp.M.SaveAccountMeta("a:b", map[string]string{"after": "import"}, at, nil)
					cp.M.Logs = append(cp.M.Logs, logOf(r.LogID, "SET_METADATA", nil))
					continue
				}
				tx := r.Data.(ledger.Transaction)
				if !follows(*tx.ID, nextTx) || !follows(r.LogID, nextLog) {
					w.V("C11", "first write (%s, before it: %s): element %d got tx id %d / log id %d, the ledger holds ids up to %d / %d", path, prelude, i, *tx.ID, r.LogID, nextTx, nextLog)
				}
				nextTx, nextLog = *tx.ID, r.LogID
				exact = true // from here on nothing is rolled back
				// keep the model in step
				mtx := txToModel(tx)
				cp.M.AddTx(mtx, nil, nil)
				cp.M.Logs = append(cp.M.Logs, logOf(r.LogID, "NEW_TRANSACTION", tx.ID))
			}
		}
		// more writes and a final sweep on the copy
		w.Focus = nil
		w.Reopen(cp)
		w.Drive(rt, cp, nil, HistOpts{Steps: 6, Reverts: true, Metadata: true, FinalReads: true})
		st.Case(sum.Key+path, sum.Reverts >= 1 && sum.Failures >= 1 && path != "single", func() any {
			return map[string]any{"first_write_path": path, "source_history": src.Ops}
		}, "path:"+path, "before-the-first-write:"+prelude)
		st.Add("completed_checks", 1)
	})
}

const ruleC12 = "imports attempted on ledgers with generated prior states — pristine, already written to (single request, non-atomic bulk, atomic bulk, a write preceded by a dry run on the same controller chain), only dry-run, already imported into — with log streams whose first id is below / equal to / above the existing last log id; an import must be accepted only on a ledger that is still initializing and whose logs all precede the imported ones, and a rejected import must leave every table unchanged; non-trivial = import attempted after a write through a bulk, or a second import; distinct = by prior state + stream"

func TestC12(t *testing.T) { runC12(t, false) }

// TestC12HTTP: the same prior states and streams, exported and imported through the routes of the API.
func TestC12HTTP(t *testing.T) { runC12(t, true) }

func runC12(t *testing.T, viaHTTP bool) {
	rule := ruleC12
	if viaHTTP {
		rule = "export and import through POST /v2/{ledger}/logs/export and /logs/import: " + ruleC12
		importsViaHTTP = true
		defer func() { importsViaHTTP = false }()
	}
	st := stats.New("C12", "exploration", rule, assumePgsim, "sequential part: the Import / write race is exercised by TestC12Concurrent")
	defer st.Write(t)
	n := stats.N(200, 600)
	st.Set("requested_checks", n)
	stats.Check(t, n, 12, func(rt *rapid.T) {
		w := NewWorld(rt, st, env.Options{}, "C12")
		defer w.Close()
		fs := GenFeatures(rt)
		src := w.AddLedger("src", "b1", fs)
		w.Drive(rt, src, nil, HistOpts{Steps: 8, Reverts: true, Metadata: true})
		if len(src.M.Logs) == 0 {
			rt.Skip("empty source")
		}
		logs := w.exportLogs(src)
		dst := w.AddLedger("dst", "b2", fs)
		prior := rapid.SampledFrom([]string{"pristine", "single-write", "bulk-write", "atomic-bulk-write", "imported-prefix", "failed-write-only", "dry-run-only", "dry-run-then-write", "dry-run-then-write"}).Draw(rt, "priorState")
		ps := ledger.Postings{ledger.NewPosting("world", "a", "USD/2", big.NewInt(1))}
		written := false
		switch prior {
		case "single-write":
			written = w.CreateTx(dst, TxRequest{Postings: ps}).Kind == ErrNone
		case "bulk-write", "atomic-bulk-write":
			res, err := w.runBulk(dst, []bulking.BulkElement{createElement(ps, "")}, bulking.BulkingOptions{Atomic: prior == "atomic-bulk-write"})
			written = err == nil && len(res) == 1 && res[0].Error == nil
			if written {
				tx := res[0].Data.(ledger.Transaction)
				dst.M.AddTx(txToModel(tx), nil, nil)
				dst.M.Logs = append(dst.M.Logs, logOf(res[0].LogID, "NEW_TRANSACTION", tx.ID))
			}
		case "imported-prefix":
			k := rapid.IntRange(1, len(logs)).Draw(rt, "prefixLen")
			if err := w.importLogs(dst, logs[:k]); err != nil {
				w.V("C12", "import of a prefix into a pristine ledger failed: %v", err)
			}
			m, _ := ReplayLogs(logs[:k])
			m.Logs = src.M.Logs[:k]
			dst.M = m
		case "failed-write-only":
			w.CreateTx(dst, TxRequest{Postings: ledger.Postings{ledger.NewPosting("a", "bank", "USD/2", big.NewInt(5))}})
		case "dry-run-only", "dry-run-then-write":
			// the first request the controller chain ever sees is a dry run: nothing is written, the ledger stays pristine
			if out := w.CreateTx(dst, TxRequest{Postings: ps, DryRun: true}); out.Kind != ErrNone {
				w.V("C12", "dry run on a pristine ledger failed: %v", out.Err)
			}
			if prior == "dry-run-then-write" {
				if rapid.IntRange(0, 3).Draw(rt, "reopenBetween") == 0 {
					w.Reopen(dst)
				}
				written = w.CreateTx(dst, TxRequest{Postings: ps}).Kind == ErrNone
			}
		}
		// the second attempt: import a suffix of the stream. Only self-consistent streams are in the
		// property's domain: the whole stream, or — after an imported prefix — a suffix starting at or
		// before the end of that prefix (at = the continuation, before = overlapping ids).
		from := 0
		if prior == "imported-prefix" {
			from = rapid.IntRange(0, len(dst.M.Logs)).Draw(rt, "from")
			if from >= len(logs) {
				from = len(logs) - 1
			}
		} else if written {
			from = rapid.IntRange(0, len(logs)-1).Draw(rt, "from")
		}
		before := w.Env.Sim.Dump()
		err := w.importLogs(dst, logs[from:])
		after := w.Env.Sim.Dump()
		var lastExisting uint64
		for _, lg := range dst.M.Logs {
			if lg.ID > lastExisting {
				lastExisting = lg.ID
			}
		}
		mustReject := written || (len(dst.M.Logs) > 0 && *logs[from].ID <= lastExisting)
		desc := fmt.Sprintf("prior=%s written=%v existing last log=%d, importing logs %d..%d", prior, written, lastExisting, *logs[from].ID, *logs[len(logs)-1].ID)
		switch {
		case !mustReject && err != nil:
			w.V("C12", "import refused although the ledger is pristine and the stream continues its logs (%s): %v\nsource history:\n  %s", desc, err, src.History())
		case mustReject && err == nil:
			w.V("C12", "import accepted although it must be refused (%s)\nsource history:\n  %s\ndestination history:\n  %s", desc, src.History(), dst.History())
		case err != nil:
			if d := dumpDiff(before, after); d != "" {
				w.V("C12", "a rejected import (%v) changed the database (%s):\n%s", err, desc, d)
			}
		}
		if err == nil && !mustReject {
			// accepted: the destination now holds prior logs + imported ones; reads must agree
			all := append(append([]ledger.Log{}, logsOfPrefix(logs, dst.M.Logs)...), logs[from:]...)
			if m, rerr := ReplayLogs(all); rerr == nil {
				m.Logs = append(append([]*refmodelLog{}, dst.M.Logs...), src.M.Logs[from:]...)
				dst.M = m
				w.Reopen(dst)
				w.Focus = nil
				w.CheckTransactions(dst, nil, 15, paginate.OrderAsc)
				w.CheckVolumes(dst, nil, nil, false, 0, 15)
				w.Focus = map[string]bool{"C12": true}
			}
		}
		st.Case(desc+strings.Join(src.Ops, "\n"), prior == "bulk-write" || prior == "atomic-bulk-write" || prior == "imported-prefix" || prior == "dry-run-then-write", func() any {
			return map[string]any{"case": desc, "accepted": err == nil}
		}, "prior:"+prior, fmt.Sprintf("accepted:%v", err == nil))
		st.Add("completed_checks", 1)
	})
}

// ------------------------------------------------------- C14 through the import path

const ruleC14Import = "a generated source history with references is exported; one later NEW_TRANSACTION log of the stream is given the reference of an earlier transaction (a stream no faithful export produces, but one the import endpoint can be sent); the stream is imported into a pristine ledger of another bucket, in one call or after its prefix. The import must stop at the offending log with an error, the ledger must equal the import of the logs before it (transactions, volumes, logs read back against the replay of that prefix), and it must never list two transactions with one reference; non-trivial = the duplicate lies after >= 2 importable logs; distinct = by stream"

func TestC14Import(t *testing.T) {
	st := stats.New("C14", "exploration", ruleC14Import, assumePgsim, "HASH_LOGS is disabled on both ledgers so that the edited log is not refused for its hash first")
	defer st.Write(t)
	n := stats.N(150, 400)
	st.Set("requested_checks", n)
	stats.Check(t, n, 1414, func(rt *rapid.T) {
		w := NewWorld(rt, st, env.Options{}, "C14")
		defer w.Close()
		fs := GenFeatures(rt).With(features.FeatureHashLogs, "DISABLED")
		src := w.AddLedger("src", "b1", fs)
		// a source with several referenced transactions
		nrefs := rapid.IntRange(2, 4).Draw(rt, "referenced")
		for i := 0; i < nrefs; i++ {
			r := w.GenPostingsRequest(rt, src, 2)
			r.Force, r.DryRun, r.Reference = true, false, fmt.Sprintf("ref-%d", i)
			if w.CreateTx(src, r).Kind != ErrNone {
				rt.Skip("source write failed")
			}
			if rapid.IntRange(0, 2).Draw(rt, "interleave") == 0 {
				w.SaveAccountMeta(src, "u:1", map[string]string{"k": fmt.Sprint(i)}, false)
			}
		}
		logs := w.exportLogs(src)
		// positions of NEW_TRANSACTION logs
		var txLogs []int
		for i, lg := range logs {
			if _, ok := lg.Data.(ledger.CreatedTransaction); ok {
				txLogs = append(txLogs, i)
			}
		}
		if len(txLogs) < 2 {
			rt.Skip("not enough transactions")
		}
		dupAt := txLogs[rapid.IntRange(1, len(txLogs)-1).Draw(rt, "duplicateAt")]
		earlier := txLogs[rapid.IntRange(0, len(txLogs)-1).Draw(rt, "duplicateOf")]
		if earlier >= dupAt {
			earlier = txLogs[0]
		}
		ct := logs[dupAt].Data.(ledger.CreatedTransaction)
		ct.Transaction.Reference = logs[earlier].Data.(ledger.CreatedTransaction).Transaction.Reference
		logs[dupAt].Data = ct
		dst := w.AddLedger("dst", "b2", fs)
		split := rapid.IntRange(0, dupAt).Draw(rt, "importedFirst") // logs imported by a first, valid call
		if split > 0 {
			if err := w.importLogs(dst, logs[:split]); err != nil {
				w.V("C14", "import of a valid prefix failed: %v", err)
			}
		}
		err := w.importLogs(dst, logs[split:])
		desc := fmt.Sprintf("stream of %d logs, log %d reuses the reference %q of log %d; first call imports %d logs", len(logs), *logs[dupAt].ID, ct.Transaction.Reference, *logs[earlier].ID, split)
		if err == nil {
			w.V("C14", "the import accepted a transaction reusing a reference of its ledger (%s)\nsource history:\n  %s", desc, src.History())
		}
		refs := map[string]int{}
		for _, r := range w.Env.Sim.Rows("b2", "transactions") {
			if r["ledger"].S == "dst" && !r["reference"].IsNull() && r["reference"].S != "" {
				refs[r["reference"].S]++
			}
		}
		for ref, k := range refs {
			if k > 1 {
				w.V("C14", "the ledger lists %d transactions with reference %q after the import (%s)", k, ref, desc)
			}
		}
		// the ledger equals the import of the logs before the offending one
		m, rerr := ReplayLogs(logs[:dupAt])
		if rerr != nil {
			w.harness("replay of the prefix failed: %v", rerr)
		}
		m.Logs = src.M.Logs[:dupAt]
		dst.M = m
		w.Reopen(dst)
		keep := w.Focus
		w.Focus = nil
		code := func(f func()) {
			defer func() {
				if r := recover(); r != nil {
					panic(r)
				}
			}()
			f()
		}
		code(func() {
			w.CheckLogs(dst, 15, paginate.OrderAsc)
			w.CheckTransactions(dst, nil, 15, paginate.OrderAsc)
			w.CheckVolumes(dst, nil, nil, false, 0, 15)
		})
		w.Focus = keep
		st.Case(desc+src.History(), dupAt >= 2, func() any { return map[string]any{"case": desc, "error": fmt.Sprint(err)} })
		st.Add("completed_checks", 1)
	})
}
