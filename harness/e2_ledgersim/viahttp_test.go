package e2

import (
	"fmt"
	"strings"
	"testing"
	"time"

	"pgregory.net/rapid"

	"github.com/formancehq/ledger/verifharness/stats"
)

const viaHTTP = "same generator and oracles as the property's main check, but every write and read of the history goes through the real HTTP API (v2 router with its middlewares: JSON bodies, query parameters, Idempotency-Key header, cursors, response rendering, error codes mapped back to the outcome classes) instead of the controller chain: "

// runFocusedHTTP is runFocused with the ledger's controller routed through the HTTP API.
func runFocusedHTTP(t *testing.T, id, rule string, o HistOpts, quick, thorough int, nontrivial func(*HistorySummary) bool) {
	st := stats.New(id, "exploration", viaHTTP+rule, assumePgsim)
	defer st.Write(t)
	n := stats.N(quick, thorough)
	st.Set("requested_checks_via_http", n)
	if len(o.Focus) == 0 {
		o.Focus = []string{id}
	}
	o.ViaHTTP = true
	stats.Check(t, n, 8080, func(rt *rapid.T) {
		w, l, sum := RunHistory(rt, st, o)
		defer w.Close()
		if f := postRun[id]; f != nil {
			if id == "C09" {
				// the journal is listed through GET /logs and exported through POST /logs/export
				importsViaHTTP = true
			}
			f(rt, w, l)
			importsViaHTTP = false
		}
		st.Add("api_calls", w.APICalls)
		st.Case("http:"+sum.Key, nontrivial(sum), sampleHistory(l), append(classesOf(sum), "via-http")...)
		st.Add("completed_checks_via_http", 1)
	})
}

func TestC02HTTP(t *testing.T) {
	runFocusedHTTP(t, "C02", "account reads with volumes, volumes listing, aggregated balances and transactions after every step and in a final sweep equal the fold of the committed postings; failed and dry-run requests move nothing; non-trivial = >= 2 commits and >= 1 failed write; distinct = by operation history",
		HistOpts{Features: GenFeatures, Steps: 20, Scripts: true, Reverts: true, Metadata: true, Reads: true, FinalReads: true, SecondLedger: true, Bulks: true}, 120, 400,
		func(s *HistorySummary) bool { return s.Commits >= 2 && s.Failures >= 1 })
}

func TestC03HTTP(t *testing.T) {
	runFocusedHTTP(t, "C03", "postCommitVolumes in every write answer and later listing (any page size / order, with and without pit) equal the fold up to that transaction; non-trivial = >= 1 multi-touch transaction and >= 3 commits; distinct = by operation history",
		HistOpts{Features: GenFeatures, Steps: 20, Scripts: true, Reverts: true, Reads: true, FinalReads: true, PITReads: true, MaxPostings: 6}, 120, 400,
		func(s *HistorySummary) bool { return s.MultiTouch >= 1 && s.Commits >= 3 })
}

func TestC05HTTP(t *testing.T) {
	runFocusedHTTP(t, "C05", "reads at generated instants (pit / oot parameters, both date modes, grouping): transactions, accounts with volumes and effective volumes, volumes, aggregated balances equal the fold of the model's moves in the window; non-trivial = >= 1 back-dated transaction and >= 1 PIT read; distinct = by operation history",
		HistOpts{Features: FullFeatures, Steps: 20, Scripts: false, Reverts: true, Metadata: true, Reads: true, FinalReads: true, PITReads: true, SecondLedger: true}, 120, 400,
		func(s *HistorySummary) bool { return s.BackDated >= 1 && s.PITReads >= 1 })
}

func TestC15HTTP(t *testing.T) {
	runFocusedHTTP(t, "C15", "reverts (force / atEffectiveDate query parameters, metadata body, repeated and unknown ids): answer, outcome class and the reverted transaction as re-read must match the model; non-trivial = >= 2 reverts and >= 1 refused; distinct = by operation history",
		HistOpts{Focus: []string{"C15"}, Features: GenFeatures, Steps: 25, Reverts: true, Reads: true, FinalReads: true, MaxPostings: 4}, 120, 400,
		func(s *HistorySummary) bool { return s.Reverts >= 2 && s.Failures >= 1 })
}

func TestC17HTTP(t *testing.T) {
	runFocusedHTTP(t, "C17", "metadata saves and deletes on transactions and accounts through their routes (keys and values with adversarial characters in path segments and bodies), then current and point-in-time reads over the 4 history-feature combinations; non-trivial = >= 3 metadata writes and >= 1 PIT read; distinct = by operation history",
		HistOpts{Features: GenFeatures, Steps: 25, Scripts: true, Reverts: true, Metadata: true, Reads: true, FinalReads: true, PITReads: true}, 120, 400,
		func(s *HistorySummary) bool { return s.MetaOps >= 3 && s.PITReads >= 1 })
}

func TestC08HTTP(t *testing.T) {
	runFocusedHTTP(t, "C08", "every accepted write request appends exactly one log (read back through GET logs), refused and dry-run requests none; the journal listed through the API replayed into a fresh model equals the ledger's reads; non-trivial = a revert, a metadata delete and >= 3 commits; distinct = by operation history",
		HistOpts{Features: GenFeatures, Steps: 20, Scripts: true, Reverts: true, Metadata: true, Reads: true, FinalReads: true, Bulks: true}, 100, 300,
		func(s *HistorySummary) bool { return s.Reverts >= 1 && s.MetaOps >= 1 && s.Commits >= 3 })
}

func TestC07HTTP(t *testing.T) {
	runFocusedHTTP(t, "C07", "around every request that is refused (insufficient funds, reference conflict, unknown / already reverted transaction, missing metadata, script failure) or asks for a dry run - `dryRun` on the v2 routes, `preview` on the v1 routes, in every spelling the routes accept (true, 1, yes, in any case) - the raw content of every table of the stand-in is compared before / after and must be identical; non-trivial = >= 2 refused requests, >= 1 dry run and >= 2 commits; distinct = by operation history",
		HistOpts{Features: GenFeatures, Steps: 24, Scripts: true, Reverts: true, Metadata: true, NoTrace: true, Reads: false, FinalReads: true, Bulks: true}, 100, 300,
		func(s *HistorySummary) bool { return s.Failures >= 2 && s.DryRuns >= 1 && s.Commits >= 2 })
}

func TestC01HTTP(t *testing.T) {
	runFocusedHTTP(t, "C01", "per asset, the balances of every balance-bearing read (volumes now / PIT / window, aggregated balances) sum to zero and equal the fold; non-trivial = >= 1 multi-touch or self-posting transaction and >= 1 revert; distinct = by operation history",
		HistOpts{Features: GenFeatures, Steps: 20, Scripts: true, Reverts: true, Reads: true, FinalReads: true, PITReads: true, MaxPostings: 5}, 100, 300,
		func(s *HistorySummary) bool { return (s.MultiTouch >= 1 || s.SelfPosting >= 1) && s.Reverts >= 1 })
}

func TestC04HTTP(t *testing.T) {
	runFocusedHTTP(t, "C04", "postCommitEffectiveVolumes in write answers and in every later listing (expand=effectiveVolumes) equal the fold by (effective date, insertion order); non-trivial = >= 2 back-dated transactions and >= 4 commits; distinct = by operation history",
		HistOpts{Features: FullFeatures, Steps: 20, Scripts: false, Reverts: true, Reads: true, FinalReads: true, PITReads: true, MaxPostings: 4, SecondLedger: true}, 80, 250,
		func(s *HistorySummary) bool { return s.BackDated >= 2 && s.Commits >= 4 })
}

func TestC18HTTP(t *testing.T) {
	runFocusedHTTP(t, "C18", "the accounts listing (now and at generated instants) contains exactly the accounts involved in a committed posting or metadata write, with the right firstUsage and a constant insertionDate; non-trivial = >= 1 back-dated transaction and >= 1 metadata write; distinct = by operation history",
		HistOpts{Features: GenFeatures, Steps: 20, Scripts: true, Reverts: true, Metadata: true, Reads: true, FinalReads: true, PITReads: true}, 100, 300,
		func(s *HistorySummary) bool { return s.BackDated >= 1 && s.MetaOps >= 1 })
}

func TestC20HTTP(t *testing.T) {
	st := stats.New("C20", "exploration", viaHTTP+"generated filter ASTs sent as JSON bodies of GET / HEAD requests on transactions, accounts (with and without pit), volumes, aggregated balances and logs; the selected set and the Count header must equal the reference evaluation; non-trivial = filter with a partial address, $not, $or or $in that selects some but not all; distinct = by filter + history", assumePgsim)
	defer st.Write(t)
	n := stats.N(100, 300)
	st.Set("requested_checks_via_http", n)
	stats.Check(t, n, 2020, func(rt *rapid.T) {
		w, l, _ := RunHistory(rt, st, HistOpts{Focus: []string{"C20"}, Features: GenFeatures, Steps: 20, Scripts: false, Reverts: true, Metadata: true, MaxPostings: 3, SecondLedger: true, ViaHTTP: true})
		defer w.Close()
		for i := 0; i < 8; i++ {
			resource := rapid.SampledFrom([]string{"transactions", "transactions", "accounts", "accounts", "volumes", "aggregated", "logs"}).Draw(rt, "resource")
			var pit *time.Time
			if (resource == "transactions" || resource == "accounts") && rapid.IntRange(0, 2).Draw(rt, "withPIT") == 0 {
				pit = w.genPIT(rt, l)
			}
			o := w.checkFilter(rt, l, resource, pit)
			st.Case("http:"+o.Desc+"\n"+strings.Join(l.Ops, "\n"), o.nontrivial(), func() any {
				return map[string]any{"filter": o.Desc, "selected": o.Selected, "of": o.Total}
			}, "resource:"+resource, "via-http")
		}
		st.Add("api_calls", w.APICalls)
		st.Add("completed_checks_via_http", 1)
	})
}

func TestC21HTTP(t *testing.T) {
	st := stats.New("C21", "exploration", viaHTTP+"paginated walks (5 resources incl. grouped volumes, page size 1-4, both orders through the sort parameter, optional filter body and pit): the first page by explicit parameters, every other page by the cursor the API returned, next to the end and previous back; then walks of 8 listings (v2 accounts, volumes, grouped volumes, transactions, logs; v1 accounts, transactions, balances) whose pageSize parameter changes from page to page next to the cursor: the concatenation must equal one page of 1000; non-trivial = walk of >= 3 pages; distinct = by walk + history", assumePgsim)
	defer st.Write(t)
	n := stats.N(80, 250)
	st.Set("requested_checks_via_http", n)
	stats.Check(t, n, 2121, func(rt *rapid.T) {
		w, l, _ := RunHistory(rt, st, HistOpts{Focus: []string{"C21"}, Features: GenFeatures, Steps: 22, Scripts: false, Reverts: true, Metadata: true, MaxPostings: 3, ViaHTTP: true})
		defer w.Close()
		for i := 0; i < 6; i++ {
			res, pages := w.checkPagination(rt, l)
			st.Case(fmt.Sprint("http", i, res, pages)+strings.Join(l.Ops, "\n"), pages >= 3, nil, "resource:"+res, "via-http")
		}
		for i := 0; i < 3; i++ {
			if w.windowedVolumesWalk(rt, l) {
				st.Class("windowed-volumes-walk")
			}
		}
		for i := 0; i < 4; i++ {
			name, pages := w.variablePageWalk(rt, l)
			st.Class("page-size-changes-along-the-walk:" + name)
			if pages >= 3 {
				st.Class("page-size-changes-along-the-walk:>=3-pages")
			}
		}
		st.Add("api_calls", w.APICalls)
		st.Add("completed_checks_via_http", 1)
	})
}

func TestC14HTTP(t *testing.T) {
	st := stats.New("C14", "exploration", viaHTTP+multiGen+"; a create reusing a reference of the same ledger must be answered 409 CONFLICT and leave no trace, the same reference on another ledger must be accepted; non-trivial = >= 1 conflict within a ledger and >= 1 reuse across ledgers; distinct = by operation histories", assumePgsim)
	defer st.Write(t)
	n := stats.N(80, 250)
	st.Set("requested_checks_via_http", n)
	stats.Check(t, n, 1414, func(rt *rapid.T) {
		multiViaHTTP = true
		defer func() { multiViaHTTP = false }()
		w, sum := runMulti(rt, st, []string{"C14"}, false)
		defer w.Close()
		st.Add("api_calls", w.APICalls)
		st.Case("http:"+sum.Key, sum.RefConflicts >= 1 && sum.RefReuseAcross >= 1, sampleMulti(w), "via-http")
		st.Add("completed_checks_via_http", 1)
	})
}

func TestC19HTTP(t *testing.T) {
	st := stats.New("C19", "exploration", viaHTTP+multiGen+"; after every step a drawn read of a drawn ledger and at the end every read of every ledger equals that ledger's own reference model; non-trivial = >= 3 ledgers with >= 1 joining the shared bucket after writes, and >= 4 commits; distinct = by operation histories", assumePgsim)
	defer st.Write(t)
	n := stats.N(80, 250)
	st.Set("requested_checks_via_http", n)
	stats.Check(t, n, 1919, func(rt *rapid.T) {
		multiViaHTTP = true
		defer func() { multiViaHTTP = false }()
		w, sum := runMulti(rt, st, nil, false)
		defer w.Close()
		st.Add("api_calls", w.APICalls)
		st.Case("http:"+sum.Key, sum.Ledgers >= 3 && sum.JoinedLate >= 1 && sum.Commits >= 4, sampleMulti(w), "via-http")
		st.Add("completed_checks_via_http", 1)
	})
}

func TestC09HTTP(t *testing.T) {
	runFocusedHTTP(t, "C09", "with HASH_LOGS=SYNC the journal listed through GET /logs and the one exported through POST /logs/export are re-chained with the real Log.ComputeHash; every hash as rendered by the API must equal the chain hash of its predecessor; non-trivial = >= 4 commits with a revert and a metadata write; distinct = by operation history",
		HistOpts{Focus: []string{"C09"}, Features: hashSyncFeatures, Steps: 20, Scripts: true, Reverts: true, Metadata: true, Reads: false, FinalReads: false}, 80, 250,
		func(s *HistorySummary) bool { return s.Commits >= 4 && s.Reverts >= 1 && s.MetaOps >= 1 })
}

func TestC16HTTP(t *testing.T) {
	st := stats.New("C16", "exploration", viaHTTP+multiGen+"; transaction and log ids answered by the API are unique and increase per ledger, consecutive when no write of that ledger failed in between, whatever happens on the other ledgers of the bucket; non-trivial = >= 3 ledgers, >= 6 commits and >= 1 failed write; distinct = by operation histories", assumePgsim)
	defer st.Write(t)
	n := stats.N(80, 250)
	st.Set("requested_checks_via_http", n)
	stats.Check(t, n, 1616, func(rt *rapid.T) {
		multiViaHTTP = true
		defer func() { multiViaHTTP = false }()
		w, sum := runMulti(rt, st, []string{"C16"}, true)
		defer w.Close()
		st.Add("api_calls", w.APICalls)
		st.Case("http:"+sum.Key, sum.Ledgers >= 3 && sum.Commits >= 6 && sum.Failures >= 1, sampleMulti(w), "via-http")
		st.Add("completed_checks_via_http", 1)
	})
}
