package e2

import (
	"testing"

	"pgregory.net/rapid"

	"github.com/formancehq/ledger/verifharness/stats"
)

const assumePgsim = "Postgres is replaced by the pgsim stand-in: the SQL the real storage code emits is parsed and executed by the harness's own engine (READ COMMITTED MVCC, row/advisory locks, sequences, unique indexes); the PL/pgSQL triggers are native ports; see DESIGN.md §2.2"

func sampleHistory(l *LState) func() any {
	return func() any {
		ops := l.Ops
		if len(ops) > 14 {
			ops = append(append([]string{}, ops[:12]...), "…")
		}
		return map[string]any{"features": l.Features.String(), "history": ops}
	}
}

const ruleC02 = "stateful histories (avg 25 actions: creates by postings and by generated Numscript on both runtimes, reverts, metadata writes, dry runs, failing writes, clock advances, controller re-opens) on the real controller+store over pgsim, feature set drawn from the 48 combinations; after every step a drawn read (accounts with volumes, volumes listing, aggregated balances, transactions, logs; random page size) is compared with the reference fold, and a full sweep at the end; non-trivial = history with >= 2 commits, >= 1 failed write and >= 1 dry run; distinct = by operation history"

func TestC02(t *testing.T) {
	st := stats.New("C02", "exploration", ruleC02, assumePgsim)
	defer st.Write(t)
	n := stats.N(400, 900)
	st.Set("requested_checks", n)
	stats.Check(t, n, 2, func(rt *rapid.T) {
		w, l, sum := RunHistory(rt, st, HistOpts{Focus: []string{"C02"}, Features: GenFeatures, Steps: 25, Scripts: true, Reverts: true, Metadata: true, Reads: true, FinalReads: true, SecondLedger: true, Bulks: true})
		defer w.Close()
		st.Case(sum.Key, sum.Commits >= 2 && sum.Failures >= 1 && sum.DryRuns >= 1, sampleHistory(l),
			classesOf(sum)...)
		st.Add("completed_checks", 1)
	})
}

func classesOf(sum *HistorySummary) []string {
	var out []string
	add := func(c bool, name string) {
		if c {
			out = append(out, name)
		}
	}
	add(sum.Commits >= 2, "commits>=2")
	add(sum.Failures >= 1, "has-failed-write")
	add(sum.DryRuns >= 1, "has-dry-run")
	add(sum.Reverts >= 1, "has-revert")
	add(sum.BackDated >= 1, "has-back-dated")
	add(sum.MultiTouch >= 1, "has-multi-touch-tx")
	add(sum.SelfPosting >= 1, "has-self-posting")
	add(sum.MetaOps >= 1, "has-metadata-write")
	add(sum.ScriptTx >= 1, "has-script-tx")
	add(sum.PITReads >= 1, "has-pit-read")
	return out
}
