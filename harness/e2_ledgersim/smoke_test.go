package e2

import (
	"context"
	"math/big"
	"testing"

	"github.com/formancehq/go-libs/v5/pkg/query"

	ledger "github.com/formancehq/ledger/internal"
	ledgercontroller "github.com/formancehq/ledger/internal/controller/ledger"
	"github.com/formancehq/ledger/internal/storage/common"
	"github.com/formancehq/ledger/pkg/features"
	"github.com/formancehq/ledger/verifharness/env"
)

func TestSmoke(t *testing.T) {
	ctx := context.Background()
	e := env.New(env.Options{})
	defer e.Close()
	if testing.Verbose() {
		e.Sim.Log = func(id int64, q string) { t.Logf("[conn %d] %s", id, q) }
	}
	if err := e.CreateLedger(ctx, "l1", "b1", features.MinimalFeatureSet.With(features.FeatureMovesHistory, "ON").With(features.FeatureMovesHistoryPostCommitEffectiveVolumes, "SYNC").With(features.FeatureHashLogs, "SYNC").With(features.FeatureAccountMetadataHistory, "SYNC").With(features.FeatureTransactionMetadataHistory, "SYNC")); err != nil {
		t.Fatal(err)
	}
	c, err := e.Ledger(ctx, "l1")
	if err != nil {
		t.Fatal(err)
	}
	mk := func(ps ...ledger.Posting) ledgercontroller.Parameters[ledgercontroller.CreateTransaction] {
		return ledgercontroller.Parameters[ledgercontroller.CreateTransaction]{Input: ledgercontroller.CreateTransaction{
			RunScript: ledgercontroller.TxToScriptData(ledger.TransactionData{Postings: ps}, false)}}
	}
	log, res, _, err := c.CreateTransaction(ctx, mk(ledger.NewPosting("world", "a:b", "USD/2", big.NewInt(100)), ledger.NewPosting("a:b", "u:1", "USD/2", big.NewInt(30))))
	if err != nil {
		t.Fatal(err)
	}
	t.Logf("log %d tx %d pcv %v", *log.ID, *res.Transaction.ID, res.Transaction.PostCommitVolumes)
	_, _, _, err = c.CreateTransaction(ctx, mk(ledger.NewPosting("u:1", "bank", "USD/2", big.NewInt(50))))
	t.Logf("expected insufficient funds: %v", err)
	txs, err := c.ListTransactions(ctx, common.InitialPaginatedQuery[any]{PageSize: 10, Options: common.ResourceQuery[any]{Expand: []string{"volumes", "effectiveVolumes"}}})
	if err != nil {
		t.Fatal(err)
	}
	for _, tx := range txs.Data {
		t.Logf("tx %d %v pcv=%v pcev=%v", *tx.ID, tx.Postings, tx.PostCommitVolumes, tx.PostCommitEffectiveVolumes)
	}
	acc, err := c.GetAccount(ctx, common.ResourceQuery[any]{Builder: query.Match("address", "a:b"), Expand: []string{"volumes", "effectiveVolumes"}})
	if err != nil {
		t.Fatal(err)
	}
	t.Logf("account %+v", acc)
	accs, err := c.ListAccounts(ctx, common.InitialPaginatedQuery[any]{PageSize: 10, Options: common.ResourceQuery[any]{Builder: query.Match("address", "a:")}})
	if err != nil {
		t.Fatal(err)
	}
	t.Logf("accounts %d", len(accs.Data))
	vols, err := c.GetVolumesWithBalances(ctx, common.InitialPaginatedQuery[ledger.GetVolumesOptions]{PageSize: 10})
	if err != nil {
		t.Fatal(err)
	}
	for _, v := range vols.Data {
		t.Logf("vol %+v", v)
	}
	agg, err := c.GetAggregatedBalances(ctx, common.ResourceQuery[ledger.GetAggregatedVolumesOptions]{})
	if err != nil {
		t.Fatal(err)
	}
	t.Logf("agg %v", agg)
	_, rev, _, err := c.RevertTransaction(ctx, ledgercontroller.Parameters[ledgercontroller.RevertTransaction]{Input: ledgercontroller.RevertTransaction{TransactionID: 1, Force: true}})
	if err != nil {
		t.Fatal(err)
	}
	t.Logf("revert %v", rev.RevertTransaction.Postings)
	logs, err := c.ListLogs(ctx, common.InitialPaginatedQuery[any]{PageSize: 10})
	if err != nil {
		t.Fatal(err)
	}
	for _, l := range logs.Data {
		t.Logf("log %d %s hash=%x", *l.ID, l.Type, l.Hash)
	}
}
