package e2

import (
	"fmt"
	"math/big"
	"reflect"
	"strings"
	"testing"

	"pgregory.net/rapid"

	ledger "github.com/formancehq/ledger/internal"
	"github.com/formancehq/ledger/verifharness/env"
	"github.com/formancehq/ledger/verifharness/stats"
)

const ruleC13Shared = "idempotency keys are per ledger: three ledgers (two sharing a bucket) receive 8-18 creates and account metadata writes carrying keys from a pool of three, with one of two inputs per key, through the controller chain or the HTTP routes; on each ledger the first use of a key executes (success, not a hit), a repeat with the same input is a hit carrying the log of that ledger's own first use and changes no table, a repeat with another input is refused as invalid idempotency input and changes no table - whatever the other ledgers did with the same key; at the end every read of every ledger equals its own reference model; non-trivial = one key used on both ledgers of the shared bucket, with a hit on one of them; distinct = by operation history"

func TestC13SharedBucket(t *testing.T) {
	st := stats.New("C13", "exploration", ruleC13Shared, assumePgsim)
	defer st.Write(t)
	n := stats.N(150, 700)
	st.Set("requested_checks_shared_bucket", n)
	stats.Check(t, n, 1332, func(rt *rapid.T) {
		w := NewWorld(rt, st, env.Options{}, "C13")
		defer w.Close()
		if rapid.IntRange(0, 2).Draw(rt, "throughTheAPI") == 0 {
			w.ViaHTTP = true
		}
		fs := GenFeatures(rt)
		ls := []*LState{w.AddLedger("l1", "b1", fs), w.AddLedger("l2", "b1", fs), w.AddLedger("l3", "b2", fs)}
		type use struct {
			input string
			log   uint64
		}
		used := map[string]use{}
		keyOn := map[string]map[string]bool{}
		hits, crossHit := 0, false
		steps := rapid.IntRange(8, 18).Draw(rt, "steps")
		for i := 0; i < steps; i++ {
			l := ls[rapid.SampledFrom([]int{0, 0, 1, 1, 2}).Draw(rt, "ledger")]
			ik := rapid.SampledFrom(ikPool).Draw(rt, "ik")
			variant := rapid.IntRange(0, 1).Draw(rt, "input")
			r := TxRequest{Postings: ledger.Postings{ledger.NewPosting("world", []string{"a", "bank"}[variant], "USD/2", big.NewInt(int64(5+variant)))}, IK: ik}
			sig := r.describe()
			prev, seen := used[l.Name+"\x00"+ik]
			before := w.Env.Sim.Dump()
			out := w.CreateTx(l, r)
			desc := fmt.Sprintf("%s: create %s", l.Name, sig)
			switch {
			case !seen:
				if out.Kind != ErrNone || out.Hit {
					rt.Fatalf("VIOLATION[C13]: %s - the first use of key %q on ledger %s - was answered %q hit=%v (%v)\n%s", desc, ik, l.Name, out.Kind, out.Hit, out.Err, w.allHistories())
				}
				used[l.Name+"\x00"+ik] = use{sig, *out.Log.ID}
				if keyOn[ik] == nil {
					keyOn[ik] = map[string]bool{}
				}
				keyOn[ik][l.Name] = true
			case prev.input == sig:
				if out.Kind != ErrNone || !out.Hit || out.Log == nil || *out.Log.ID != prev.log {
					rt.Fatalf("VIOLATION[C13]: %s repeats the write committed as log %d of ledger %s; answered %q hit=%v log=%v (%v)\n%s", desc, prev.log, l.Name, out.Kind, out.Hit, logID(out), out.Err, w.allHistories())
				}
				hits++
				if keyOn[ik]["l1"] && keyOn[ik]["l2"] {
					crossHit = true
				}
			default:
				if out.Kind != ErrIdempotencyInput {
					rt.Fatalf("VIOLATION[C13]: %s reuses key %q of ledger %s with another input; answered %q hit=%v (%v)\n%s", desc, ik, l.Name, out.Kind, out.Hit, out.Err, w.allHistories())
				}
			}
			if seen {
				if after := w.Env.Sim.Dump(); !reflect.DeepEqual(before, after) {
					rt.Fatalf("VIOLATION[C13]: %s, a repeat of a key already used on ledger %s, changed the database\n%s\n%s", desc, l.Name, dumpDiff(before, after), w.allHistories())
				}
			}
		}
		w.Focus = nil
		for _, l := range ls {
			w.FullSweep(rt, l, HistOpts{})
		}
		var hist []string
		for _, l := range ls {
			hist = append(hist, l.Name+": "+strings.Join(l.Ops, " | "))
		}
		st.Case(strings.Join(hist, "\n"), crossHit, func() any { return map[string]any{"history": hist} },
			fmt.Sprintf("hits:%d", min(hits, 4)), fmt.Sprintf("key-on-both-ledgers-of-the-bucket-with-a-hit:%v", crossHit), fmt.Sprintf("via-http:%v", w.ViaHTTP))
		st.Add("completed_checks_shared_bucket", 1)
	})
}

func logID(o TxOutcome) any {
	if o.Log == nil || o.Log.ID == nil {
		return nil
	}
	return *o.Log.ID
}
