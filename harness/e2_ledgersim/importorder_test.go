package e2

import (
	"fmt"
	"sort"
	"strings"
	"testing"

	"pgregory.net/rapid"

	ledger "github.com/formancehq/ledger/internal"
	"github.com/formancehq/ledger/pkg/features"
	"github.com/formancehq/ledger/verifharness/env"
	"github.com/formancehq/ledger/verifharness/pgsim"
	"github.com/formancehq/ledger/verifharness/stats"
)

const ruleImportOrder = "the journal as written by Import: a generated source history (metadata-heavy, so that neighbouring logs touch the same keys) is exported and the stream is rearranged - two neighbours swapped, a later log moved forward, the tail reversed, a log repeated, ids renumbered with a gap, or left intact - and, when logs are hashed, re-chained in stream order so that every log carries the hash its position implies; the stream is imported into a fresh ledger with the same features. Whatever Import answers: the committed rows of the logs table, taken in commit (seq) order, must carry strictly increasing ids; an import that reports success must have stored the whole stream; the copy's journal exported again and replayed in id order into a fresh reference model must equal the copy's own reads; and with HASH_LOGS=SYNC every stored hash must chain from its predecessor in id order (real Log.ComputeHash); non-trivial = rearranged stream of >= 3 logs; distinct = by source history + rearrangement"

func runImportOrder(t *testing.T, id string, salt uint64) {
	st := stats.New(id, "exploration", ruleImportOrder, assumePgsim)
	defer st.Write(t)
	n := stats.N(150, 500)
	st.Set("requested_checks_import_order", n)
	stats.Check(t, n, salt, func(rt *rapid.T) {
		w := NewWorld(rt, st, env.Options{}, id)
		defer w.Close()
		fs := GenFeatures(rt)
		if id == "C09" || rapid.Bool().Draw(rt, "hashLogs") {
			fs = fs.With(features.FeatureHashLogs, "SYNC")
		}
		hashed := fs[features.FeatureHashLogs] == "SYNC"
		src := w.AddLedger("src", "b1", fs)
		w.Drive(rt, src, nil, HistOpts{Steps: 10, Reverts: true, Metadata: true, MaxPostings: 2})
		logs := w.exportLogs(src)
		if len(logs) < 2 {
			rt.Skip("source too short")
		}
		stream := append([]ledger.Log{}, logs...)
		shape := rapid.SampledFrom([]string{"swap-neighbours", "swap-neighbours", "move-forward", "reverse-tail", "repeat", "gap", "intact"}).Draw(rt, "rearrangement")
		switch shape {
		case "swap-neighbours":
			i := rapid.IntRange(0, len(stream)-2).Draw(rt, "at")
			stream[i], stream[i+1] = stream[i+1], stream[i]
		case "move-forward":
			from := rapid.IntRange(1, len(stream)-1).Draw(rt, "from")
			to := rapid.IntRange(0, from-1).Draw(rt, "to")
			moved := stream[from]
			copy(stream[to+1:from+1], stream[to:from])
			stream[to] = moved
		case "reverse-tail":
			i := rapid.IntRange(0, len(stream)-2).Draw(rt, "at")
			for a, b := i, len(stream)-1; a < b; a, b = a+1, b-1 {
				stream[a], stream[b] = stream[b], stream[a]
			}
		case "repeat":
			i := rapid.IntRange(0, len(stream)-1).Draw(rt, "at")
			stream = append(stream[:i+1], append([]ledger.Log{stream[i]}, stream[i+1:]...)...)
		case "gap":
			i := rapid.IntRange(0, len(stream)-1).Draw(rt, "at")
			for k := i; k < len(stream); k++ {
				id := *stream[k].ID + 5
				stream[k].ID = &id
			}
		}
		increasing := true
		for i := 1; i < len(stream); i++ {
			if *stream[i].ID <= *stream[i-1].ID {
				increasing = false
			}
		}
		if hashed {
			// every log carries the hash that its position in the stream implies
			var prev *ledger.Log
			for i := range stream {
				stream[i].Hash = nil
				stream[i].ComputeHash(prev)
				p := stream[i]
				prev = &p
			}
		}
		var ids []string
		for _, lg := range stream {
			ids = append(ids, fmt.Sprint(*lg.ID))
		}
		desc := fmt.Sprintf("%s: stream ids [%s]", shape, strings.Join(ids, ","))
		cp := w.AddLedger("copy", "b2", fs)
		err := w.importLogs(cp, stream)
		// ---- commit order of the copy's journal
		var rows []map[string]pgsim.Value
		for _, r := range w.Env.Sim.Rows(cp.Bucket, "logs") {
			if r["ledger"].S == cp.Name {
				rows = append(rows, r)
			}
		}
		sort.Slice(rows, func(i, j int) bool { return rows[i]["seq"].N.Cmp(rows[j]["seq"].N) < 0 })
		var stored []string
		for i, r := range rows {
			stored = append(stored, r["id"].N.String())
			if i > 0 && r["id"].N.Cmp(rows[i-1]["id"].N) <= 0 {
				w.V("C08|C09|C16", "after the import (%s, answer: %v) the journal of the copy holds, in commit order, log %s after log %s: ids do not increase in commit order\nsource history:\n  %s", desc, err, r["id"].N, rows[i-1]["id"].N, src.History())
			}
		}
		if err == nil && len(rows) != len(stream) {
			w.V("C08", "the import (%s) reported success but stored %d of %d logs: [%s]", desc, len(rows), len(stream), strings.Join(stored, ","))
		}
		if err == nil && !increasing {
			w.V("C08|C09|C16", "the import accepted a stream whose ids do not increase (%s)\nsource history:\n  %s", desc, src.History())
		}
		// ---- the journal alone determines the state of the copy
		w.Reopen(cp)
		exported := w.exportLogs(cp)
		replayed, rerr := ReplayLogs(exported)
		if rerr != nil {
			w.V("C08", "the journal of the copy cannot be replayed after the import (%s): %v", desc, rerr)
		} else {
			cp.M = replayed
			for _, lg := range exported {
				cp.M.Logs = append(cp.M.Logs, logOf(*lg.ID, lg.Type.String(), nil))
			}
			cp.Ops = []string{"(import of " + desc + " => " + fmt.Sprint(err) + ")"}
			keep := w.Focus
			w.Focus = nil
			// any read discrepancy on the copy is a disagreement between its journal and its state
			w.CheckTransactions(cp, nil, 15, 0)
			w.CheckAccounts(cp, nil, 15)
			w.CheckVolumes(cp, nil, nil, false, 0, 15)
			w.Focus = keep
		}
		if hashed {
			w.checkHashChain(cp, "import of "+desc+"\nsource history:\n  "+src.History())
		}
		st.Case(desc+src.History(), shape != "intact" && len(stream) >= 3, func() any {
			return map[string]any{"rearrangement": desc, "import_answer": fmt.Sprint(err), "stored_in_commit_order": stored}
		}, "shape:"+shape, fmt.Sprintf("accepted:%v", err == nil))
		st.Add("completed_checks_import_order", 1)
	})
}

func TestC08ImportOrder(t *testing.T) { runImportOrder(t, "C08", 808) }
func TestC09ImportOrder(t *testing.T) { runImportOrder(t, "C09", 909) }
func TestC16ImportOrder(t *testing.T) { runImportOrder(t, "C16", 1616) }
