package e2

import (
	"bytes"
	"context"
	"encoding/json"
	"errors"
	"fmt"
	"math/big"
	"net/http"
	"net/http/httptest"
	"net/url"
	"strings"
	"time"

	"github.com/formancehq/go-libs/v5/pkg/query"
	"github.com/formancehq/go-libs/v5/pkg/storage/bun/paginate"
	"github.com/formancehq/go-libs/v5/pkg/storage/postgres"
	"github.com/formancehq/go-libs/v5/pkg/types/metadata"
	libtime "github.com/formancehq/go-libs/v5/pkg/types/time"

	ledger "github.com/formancehq/ledger/internal"
	ledgercontroller "github.com/formancehq/ledger/internal/controller/ledger"
	"github.com/formancehq/ledger/internal/machine"
	"github.com/formancehq/ledger/internal/storage/common"
	ledgerstore "github.com/formancehq/ledger/internal/storage/ledger"
)

// httpCtrl is a ledger controller whose writes and reads travel through the real HTTP API (v2 router,
// recover middleware, request decoding, parameter parsing, response rendering, error mapping) instead of
// calling the controller chain directly. Everything the histories do not use falls through to the real chain.
// It lets every model-based check of the engine decide its property at the API boundary as well.
type httpCtrl struct {
	ledgercontroller.Controller
	router http.Handler
	name   string
	calls  *int
	// v1Writes: writes go through the v1 routes whenever v1 can express them (no force on creates, no
	// atEffectiveDate on reverts, no account metadata / runtime / schema version); reads stay on v2
	v1Writes bool
	reads    int
	// writes counts the writes issued; every third one without idempotency key, dry run or schema version travels as a
	// one-element bulk (application/json and JSON stream in turn) instead of its own route
	writes int
	// bigintAsString: every request carries Formance-Bigint-As-String, so that answers go through the API's own
	// renderers (amounts and volumes as strings) instead of the core types' MarshalJSON
	bigintAsString bool
	// violation reports a defect seen in the raw answer (before it is decoded into the controller's types)
	violation func(code, msg string)
}

// viaBulk says whether this write goes through POST /_bulk, and in which wire form.
func (h *httpCtrl) viaBulk(dry bool, ik, schema string) (bool, bool) {
	h.writes++
	if dry || ik != "" || schema != "" || h.writes%3 != 0 {
		return false, false
	}
	return true, h.writes%6 == 0
}

// bulkOne sends one element as a bulk and returns its result.
func (h *httpCtrl) bulkOne(action string, data any, stream bool) (json.RawMessage, error) {
	el := map[string]any{"action": action, "data": data}
	var body []byte
	hd := map[string]string{}
	if stream {
		body = append(hJSON(el), '\n')
		hd["Content-Type"] = "application/vnd.formance.ledger.api.v2.bulk+json-stream"
	} else {
		body = hJSON([]any{el})
	}
	rec := h.do("POST", "/_bulk", nil, hd, body)
	var doc struct {
		Data []struct {
			ErrorCode        string          `json:"errorCode"`
			ErrorDescription string          `json:"errorDescription"`
			ResponseType     string          `json:"responseType"`
			Data             json.RawMessage `json:"data"`
		} `json:"data"`
		ErrorCode    string `json:"errorCode"`
		ErrorMessage string `json:"errorMessage"`
	}
	if err := json.Unmarshal(rec.Body.Bytes(), &doc); err != nil || len(doc.Data) != 1 {
		if rec.Code/100 != 2 {
			return nil, h.fail(rec)
		}
		return nil, fmt.Errorf("POST _bulk with one %s element: HTTP %d with %d results (%v): %s", action, rec.Code, len(doc.Data), err, hCut(rec.Body.String(), 300))
	}
	r := doc.Data[0]
	if r.ResponseType == "ERROR" {
		status := http.StatusBadRequest
		if r.ErrorCode == "NOT_FOUND" {
			status = http.StatusNotFound
		}
		fake := httptest.NewRecorder()
		fake.Code = status
		fake.Body.Write(hJSON(map[string]string{"errorCode": r.ErrorCode, "errorMessage": r.ErrorDescription}))
		return nil, h.fail(fake)
	}
	if rec.Code/100 != 2 {
		return nil, fmt.Errorf("POST _bulk answered HTTP %d although its only element succeeded: %s", rec.Code, hCut(rec.Body.String(), 300))
	}
	if r.ResponseType != action {
		return nil, fmt.Errorf("POST _bulk: the result of a %s element has responseType %q", action, r.ResponseType)
	}
	return r.Data, nil
}

type txRequestKey struct{}

// apiError is an error answered by the API, carrying the typed error the controller would have returned
// for that error code (so that outcomes are classified the same way on both routes).
type apiError struct {
	status int
	code   string
	msg    string
	typed  error
}

func (e *apiError) Error() string { return fmt.Sprintf("HTTP %d %s: %s", e.status, e.code, e.msg) }
func (e *apiError) Unwrap() error { return e.typed }

func (h *httpCtrl) do(method, path string, q url.Values, headers map[string]string, body []byte) *httptest.ResponseRecorder {
	return h.doOn("/v2/", method, path, q, headers, body)
}

func (h *httpCtrl) doOn(prefix, method, path string, q url.Values, headers map[string]string, body []byte) *httptest.ResponseRecorder {
	u := prefix + h.name + path
	if len(q) > 0 {
		u += "?" + q.Encode()
	}
	req := httptest.NewRequest(method, u, bytes.NewReader(body))
	if body != nil {
		req.Header.Set("Content-Type", "application/json")
	}
	for k, v := range headers {
		req.Header.Set(k, v)
	}
	if h.bigintAsString {
		req.Header.Set("Formance-Bigint-As-String", "true")
	}
	rec := httptest.NewRecorder()
	h.router.ServeHTTP(rec, req)
	if h.calls != nil {
		*h.calls++
	}
	if rec.Code/100 == 2 && rec.Body.Len() > 0 && strings.Contains(rec.Header().Get("Content-Type"), "json") {
		h.inspect(method+" "+u, rec)
	}
	return rec
}

var amountKeys = map[string]bool{"amount": true, "input": true, "output": true, "balance": true}

func isIntegerText(s string) bool {
	if s == "" {
		return false
	}
	for i, c := range s {
		if c == '-' && i == 0 && len(s) > 1 {
			continue
		}
		if c < '0' || c > '9' {
			return false
		}
	}
	return true
}

// numbersBack turns the amounts the API rendered as strings (bigint-as-string) back into JSON numbers.
func numbersBack(v any, allValues bool) any {
	switch x := v.(type) {
	case map[string]any:
		for k, e := range x {
			if str, ok := e.(string); ok && (amountKeys[k] || allValues) && isIntegerText(str) {
				x[k] = json.Number(str)
				continue
			}
			x[k] = numbersBack(e, false)
		}
		return x
	case []any:
		for i := range x {
			x[i] = numbersBack(x[i], false)
		}
		return x
	}
	return v
}

// inspect looks at a successful JSON answer as the client receives it: every transaction it contains must carry
// preCommitVolumes equal to its postCommitVolumes minus its own postings (C03; the same for the effective pair), a
// rendering the typed decoding below would silently drop. With bigint-as-string the body is then rewritten with
// numbers so that the controller's types can decode it.
func (h *httpCtrl) inspect(what string, rec *httptest.ResponseRecorder) {
	dec := json.NewDecoder(bytes.NewReader(rec.Body.Bytes()))
	dec.UseNumber()
	var doc any
	if err := dec.Decode(&doc); err != nil {
		return
	}
	if h.bigintAsString {
		aggregated := strings.Contains(what, "/aggregate/balances")
		if m, ok := doc.(map[string]any); ok && aggregated {
			m["data"] = numbersBack(m["data"], true)
		} else {
			doc = numbersBack(doc, false)
		}
		if b, err := json.Marshal(doc); err == nil {
			rec.Body.Reset()
			rec.Body.Write(b)
		}
	}
	var walk func(v any)
	walk = func(v any) {
		switch x := v.(type) {
		case map[string]any:
			if _, isTx := x["postings"]; isTx {
				if msg := preCommitProblem(x); msg != "" && h.violation != nil {
					h.violation("C03", what+": "+msg)
				}
			}
			for _, e := range x {
				walk(e)
			}
		case []any:
			for _, e := range x {
				walk(e)
			}
		}
	}
	walk(doc)
}

// preCommitProblem checks, on a transaction as rendered in JSON, that preCommitVolumes = postCommitVolumes minus the
// transaction's own postings, for exactly the same account/asset pairs (and the same for the effective volumes).
func preCommitProblem(tx map[string]any) string {
	num := func(v any) *big.Int {
		n := new(big.Int)
		switch x := v.(type) {
		case json.Number:
			n.SetString(x.String(), 10)
		case string:
			n.SetString(x, 10)
		}
		return n
	}
	postings, _ := tx["postings"].([]any)
	for _, pair := range [][2]string{{"postCommitVolumes", "preCommitVolumes"}, {"postCommitEffectiveVolumes", "preCommitEffectiveVolumes"}} {
		post, _ := tx[pair[0]].(map[string]any)
		pre, _ := tx[pair[1]].(map[string]any)
		if len(post) == 0 {
			continue
		}
		for acc, assets := range post {
			am, _ := assets.(map[string]any)
			for asset, vol := range am {
				pv, _ := vol.(map[string]any)
				wantIn, wantOut := num(pv["input"]), num(pv["output"])
				for _, p := range postings {
					pm, _ := p.(map[string]any)
					if pm["asset"] != asset {
						continue
					}
					if pm["destination"] == acc {
						wantIn.Sub(wantIn, num(pm["amount"]))
					}
					if pm["source"] == acc {
						wantOut.Sub(wantOut, num(pm["amount"]))
					}
				}
				preAcc, _ := pre[acc].(map[string]any)
				preVol, _ := preAcc[asset].(map[string]any)
				if preVol == nil {
					return fmt.Sprintf("transaction %v: %s has no entry for %s %s although %s has one", tx["id"], pair[1], acc, asset, pair[0])
				}
				if gotIn, gotOut := num(preVol["input"]), num(preVol["output"]); gotIn.Cmp(wantIn) != 0 || gotOut.Cmp(wantOut) != 0 {
					return fmt.Sprintf("transaction %v: %s of %s %s is (%s,%s); %s minus the transaction's own postings is (%s,%s)", tx["id"], pair[1], acc, asset, gotIn, gotOut, pair[0], wantIn, wantOut)
				}
			}
		}
	}
	return ""
}

func (h *httpCtrl) fail(rec *httptest.ResponseRecorder) error {
	var doc struct {
		ErrorCode    string `json:"errorCode"`
		ErrorMessage string `json:"errorMessage"`
	}
	_ = json.Unmarshal(rec.Body.Bytes(), &doc)
	e := &apiError{status: rec.Code, code: doc.ErrorCode, msg: doc.ErrorMessage}
	switch {
	case doc.ErrorCode == "INSUFFICIENT_FUND":
		e.typed = &machine.ErrInsufficientFund{}
	case doc.ErrorCode == "CONFLICT":
		e.typed = ledgerstore.ErrTransactionReferenceConflict{}
	case doc.ErrorCode == "ALREADY_REVERT":
		e.typed = ledgercontroller.ErrAlreadyReverted{}
	case rec.Code == http.StatusNotFound && strings.HasPrefix(doc.ErrorMessage, "schema version `"):
		e.typed = ledgercontroller.ErrSchemaNotFound{}
	case rec.Code == http.StatusNotFound:
		e.typed = postgres.ErrNotFound
	case doc.ErrorCode == "COMPILATION_FAILED":
		e.typed = ledgercontroller.ErrCompilationFailed{}
	case doc.ErrorCode == "METADATA_OVERRIDE":
		e.typed = &ledgercontroller.ErrMetadataOverride{}
	case doc.ErrorCode == "NO_POSTINGS":
		e.typed = ledgercontroller.ErrNoPostings
	case doc.ErrorCode == "VALIDATION" && strings.Contains(doc.ErrorMessage, "idempotency"):
		e.typed = ledgercontroller.ErrInvalidIdempotencyInput{}
	case doc.ErrorCode == "VALIDATION" && strings.HasPrefix(doc.ErrorMessage, "schema version ["):
		e.typed = ledgercontroller.ErrSchemaValidationError{}
	case doc.ErrorCode == "SCHEMA_NOT_SPECIFIED":
		e.typed = ledgercontroller.ErrSchemaNotSpecified{}
	default:
		e.typed = errors.New("api error")
	}
	return e
}

// previewSpellings: what the v1 routes document and accept for a dry run, and what the v2 routes accept for dryRun.
var (
	previewSpellings = []string{"true", "yes", "1", "TRUE", "YES", "True", "Yes"}
	dryRunSpellings  = []string{"true", "1", "TRUE", "True"}
	spellingTurn     int
)

func writeParamsV1(dry bool, ik string) (url.Values, map[string]string) {
	q := url.Values{}
	if dry {
		spellingTurn++
		q.Set("preview", previewSpellings[spellingTurn%len(previewSpellings)])
	}
	hd := map[string]string{}
	if ik != "" {
		hd["Idempotency-Key"] = ik
	}
	return q, hd
}

// v1Transaction decodes the v1 rendering of a transaction (its id is called txid).
type v1Transaction struct {
	ledger.Transaction
	TxID *uint64 `json:"txid"`
}

func writeParams(dry bool, ik, schema string) (url.Values, map[string]string) {
	q := url.Values{}
	if dry {
		spellingTurn++
		q.Set("dryRun", dryRunSpellings[spellingTurn%len(dryRunSpellings)])
	}
	if schema != "" {
		q.Set("schemaVersion", schema)
	}
	hd := map[string]string{}
	if ik != "" {
		hd["Idempotency-Key"] = ik
	}
	return q, hd
}

// lastLog fetches the log a write just appended (or, for an idempotency hit, the log that carries the key).
func (h *httpCtrl) lastLog(ik string, hit bool) (*ledger.Log, error) {
	rec := h.do("GET", "/logs", url.Values{"pageSize": {"100"}}, nil, nil)
	if rec.Code != http.StatusOK {
		return nil, h.fail(rec)
	}
	var doc struct {
		Cursor paginate.Cursor[ledger.Log] `json:"cursor"`
	}
	if err := json.Unmarshal(rec.Body.Bytes(), &doc); err != nil {
		return nil, fmt.Errorf("GET logs: undecodable answer: %w", err)
	}
	if len(doc.Cursor.Data) == 0 {
		return nil, errors.New("GET logs: no log after a successful write")
	}
	if hit {
		for i := range doc.Cursor.Data {
			if doc.Cursor.Data[i].IdempotencyKey == ik {
				return &doc.Cursor.Data[i], nil
			}
		}
		return nil, fmt.Errorf("GET logs: no log carries the idempotency key %q of a request answered as a hit", ik)
	}
	return &doc.Cursor.Data[0], nil
}

func decodeData[T any](rec *httptest.ResponseRecorder) (*T, error) {
	var doc struct {
		Data *T `json:"data"`
	}
	if err := json.Unmarshal(rec.Body.Bytes(), &doc); err != nil || doc.Data == nil {
		return nil, fmt.Errorf("HTTP %d with an undecodable body (%v): %s", rec.Code, err, hCut(rec.Body.String(), 300))
	}
	return doc.Data, nil
}

func (h *httpCtrl) CreateTransaction(ctx context.Context, p ledgercontroller.Parameters[ledgercontroller.CreateTransaction]) (*ledger.Log, *ledger.CreatedTransaction, bool, error) {
	body := map[string]any{}
	if r, ok := ctx.Value(txRequestKey{}).(*TxRequest); ok && len(r.Postings) > 0 {
		var ps []map[string]any
		for _, x := range r.Postings {
			ps = append(ps, map[string]any{"source": x.Source, "destination": x.Destination, "asset": x.Asset, "amount": json.Number(x.Amount.String())})
		}
		body["postings"] = ps
		if r.Force {
			body["force"] = true
		}
	} else {
		script := map[string]any{"vars": p.Input.Vars}
		if p.Input.Plain != "" {
			script["plain"] = p.Input.Plain
		}
		if p.Input.Template != "" {
			script["template"] = p.Input.Template
		}
		body["script"] = script
	}
	if !p.Input.Timestamp.IsZero() {
		body["timestamp"] = p.Input.Timestamp.Time.UTC().Format(time.RFC3339Nano)
	}
	if p.Input.Metadata != nil {
		body["metadata"] = p.Input.Metadata
	}
	if p.Input.Reference != "" {
		body["reference"] = p.Input.Reference
	}
	if p.Input.AccountMetadata != nil {
		body["accountMetadata"] = p.Input.AccountMetadata
	}
	if p.Input.Runtime != "" {
		body["runtime"] = p.Input.Runtime
	}
	var tx *ledger.Transaction
	var rec *httptest.ResponseRecorder
	if bulk, stream := h.viaBulk(p.DryRun, p.IdempotencyKey, p.SchemaVersion); bulk && p.Input.Template == "" {
		raw, err := h.bulkOne("CREATE_TRANSACTION", body, stream)
		if err != nil {
			return nil, nil, false, err
		}
		tx = &ledger.Transaction{}
		if err := json.Unmarshal(raw, tx); err != nil || tx.ID == nil {
			return nil, nil, false, fmt.Errorf("POST _bulk: undecodable transaction in the result (%v): %s", err, hCut(string(raw), 300))
		}
		rec = httptest.NewRecorder()
	} else if _, forced := body["force"]; h.v1Writes && !forced && p.Input.AccountMetadata == nil && p.Input.Runtime == "" && p.SchemaVersion == "" && p.Input.Template == "" {
		q, hd := writeParamsV1(p.DryRun, p.IdempotencyKey)
		rec = h.doOn("/", "POST", "/transactions", q, hd, hJSON(body))
		if rec.Code/100 != 2 {
			return nil, nil, false, h.fail(rec)
		}
		list, err := decodeData[[]v1Transaction](rec)
		if err != nil || len(*list) != 1 {
			return nil, nil, false, fmt.Errorf("POST /%s/transactions (v1): %d transactions in the answer (%v): %s", h.name, len(*list), err, hCut(rec.Body.String(), 300))
		}
		t1 := (*list)[0].Transaction
		t1.ID = (*list)[0].TxID
		tx = &t1
	} else {
		q, hd := writeParams(p.DryRun, p.IdempotencyKey, p.SchemaVersion)
		rec = h.do("POST", "/transactions", q, hd, hJSON(body))
		if rec.Code/100 != 2 {
			return nil, nil, false, h.fail(rec)
		}
		var err error
		tx, err = decodeData[ledger.Transaction](rec)
		if err != nil {
			return nil, nil, false, err
		}
	}
	hit := rec.Header().Get("Idempotency-Hit") == "true"
	res := &ledger.CreatedTransaction{Transaction: *tx, AccountMetadata: ledger.AccountMetadata{}}
	if p.DryRun && !hit {
		for a, m := range p.Input.AccountMetadata {
			res.AccountMetadata[a] = m
		}
		return nil, res, false, nil
	}
	log, err := h.lastLog(p.IdempotencyKey, hit)
	if err != nil {
		return nil, nil, false, err
	}
	if payload, ok := log.Data.(ledger.CreatedTransaction); ok {
		res.AccountMetadata = payload.AccountMetadata
		if payload.Transaction.ID == nil || tx.ID == nil || *payload.Transaction.ID != *tx.ID {
			return nil, nil, false, fmt.Errorf("POST transactions answered transaction %v, the journal's newest entry describes %v", tx.ID, payload.Transaction.ID)
		}
	} else {
		return nil, nil, false, fmt.Errorf("POST transactions succeeded but the journal's newest entry is a %s", log.Type)
	}
	return log, res, hit, nil
}

func (h *httpCtrl) RevertTransaction(ctx context.Context, p ledgercontroller.Parameters[ledgercontroller.RevertTransaction]) (*ledger.Log, *ledger.RevertedTransaction, bool, error) {
	q, hd := writeParams(p.DryRun, p.IdempotencyKey, p.SchemaVersion)
	if p.Input.Force {
		q.Set("force", "true")
	}
	if p.Input.AtEffectiveDate {
		q.Set("atEffectiveDate", "true")
	}
	var body []byte
	if p.Input.Metadata != nil {
		body = hJSON(map[string]any{"metadata": p.Input.Metadata})
	}
	var tx *ledger.Transaction
	var rec *httptest.ResponseRecorder
	if bulk, stream := h.viaBulk(p.DryRun, p.IdempotencyKey, p.SchemaVersion); bulk {
		data := map[string]any{"id": p.Input.TransactionID, "force": p.Input.Force, "atEffectiveDate": p.Input.AtEffectiveDate}
		if p.Input.Metadata != nil {
			data["metadata"] = p.Input.Metadata
		}
		raw, err := h.bulkOne("REVERT_TRANSACTION", data, stream)
		if err != nil {
			return nil, nil, false, err
		}
		tx = &ledger.Transaction{}
		if err := json.Unmarshal(raw, tx); err != nil || tx.ID == nil {
			return nil, nil, false, fmt.Errorf("POST _bulk: undecodable revert transaction in the result (%v): %s", err, hCut(string(raw), 300))
		}
		rec = httptest.NewRecorder()
	} else if h.v1Writes && !p.Input.AtEffectiveDate && len(p.Input.Metadata) == 0 && p.SchemaVersion == "" {
		q1, hd1 := writeParamsV1(p.DryRun, p.IdempotencyKey)
		if p.Input.Force {
			q1.Set("disableChecks", "true")
		}
		rec = h.doOn("/", "POST", fmt.Sprintf("/transactions/%d/revert", p.Input.TransactionID), q1, hd1, nil)
		if rec.Code/100 != 2 {
			return nil, nil, false, h.fail(rec)
		}
		t1, err := decodeData[v1Transaction](rec)
		if err != nil {
			return nil, nil, false, err
		}
		t1.Transaction.ID = t1.TxID
		tx = &t1.Transaction
	} else {
		rec = h.do("POST", fmt.Sprintf("/transactions/%d/revert", p.Input.TransactionID), q, hd, body)
		if rec.Code/100 != 2 {
			return nil, nil, false, h.fail(rec)
		}
		var err error
		tx, err = decodeData[ledger.Transaction](rec)
		if err != nil {
			return nil, nil, false, err
		}
	}
	hit := rec.Header().Get("Idempotency-Hit") == "true"
	res := &ledger.RevertedTransaction{RevertTransaction: *tx}
	// the reverted transaction as the API now shows it
	back := h.do("GET", fmt.Sprintf("/transactions/%d", p.Input.TransactionID), nil, nil, nil)
	if back.Code == http.StatusOK {
		if orig, err := decodeData[ledger.Transaction](back); err == nil {
			res.RevertedTransaction = *orig
		}
	}
	if p.DryRun && !hit {
		return nil, res, false, nil
	}
	log, err := h.lastLog(p.IdempotencyKey, hit)
	if err != nil {
		return nil, nil, false, err
	}
	if _, ok := log.Data.(ledger.RevertedTransaction); !ok {
		return nil, nil, false, fmt.Errorf("POST revert succeeded but the journal's newest entry is a %s", log.Type)
	}
	return log, res, hit, nil
}

func (h *httpCtrl) metaWrite(method, path string, dry bool, ik, schema string, body []byte) (*ledger.Log, bool, error) {
	q, hd := writeParams(dry, ik, schema)
	prefix := "/v2/"
	if h.v1Writes && schema == "" {
		prefix = "/"
		q, hd = writeParamsV1(dry, ik)
	}
	rec := h.doOn(prefix, method, path, q, hd, body)
	if rec.Code/100 != 2 {
		return nil, false, h.fail(rec)
	}
	hit := rec.Header().Get("Idempotency-Hit") == "true"
	if dry && !hit {
		return nil, false, nil
	}
	log, err := h.lastLog(ik, hit)
	return log, hit, err
}

func (h *httpCtrl) metaBulk(action string, data map[string]any, stream bool) (*ledger.Log, bool, error) {
	if _, err := h.bulkOne(action, data, stream); err != nil {
		return nil, false, err
	}
	log, err := h.lastLog("", false)
	return log, false, err
}

func (h *httpCtrl) SaveTransactionMetadata(_ context.Context, p ledgercontroller.Parameters[ledgercontroller.SaveTransactionMetadata]) (*ledger.Log, bool, error) {
	if bulk, stream := h.viaBulk(p.DryRun, p.IdempotencyKey, p.SchemaVersion); bulk {
		return h.metaBulk("ADD_METADATA", map[string]any{"targetType": "TRANSACTION", "targetId": p.Input.TransactionID, "metadata": orEmpty(p.Input.Metadata)}, stream)
	}
	return h.metaWrite("POST", fmt.Sprintf("/transactions/%d/metadata", p.Input.TransactionID), p.DryRun, p.IdempotencyKey, p.SchemaVersion, hJSON(orEmpty(p.Input.Metadata)))
}

func (h *httpCtrl) SaveAccountMetadata(_ context.Context, p ledgercontroller.Parameters[ledgercontroller.SaveAccountMetadata]) (*ledger.Log, bool, error) {
	if bulk, stream := h.viaBulk(p.DryRun, p.IdempotencyKey, p.SchemaVersion); bulk {
		return h.metaBulk("ADD_METADATA", map[string]any{"targetType": "ACCOUNT", "targetId": p.Input.Address, "metadata": orEmpty(p.Input.Metadata)}, stream)
	}
	return h.metaWrite("POST", "/accounts/"+url.PathEscape(p.Input.Address)+"/metadata", p.DryRun, p.IdempotencyKey, p.SchemaVersion, hJSON(orEmpty(p.Input.Metadata)))
}

func (h *httpCtrl) DeleteTransactionMetadata(_ context.Context, p ledgercontroller.Parameters[ledgercontroller.DeleteTransactionMetadata]) (*ledger.Log, bool, error) {
	if bulk, stream := h.viaBulk(p.DryRun, p.IdempotencyKey, p.SchemaVersion); bulk {
		return h.metaBulk("DELETE_METADATA", map[string]any{"targetType": "TRANSACTION", "targetId": p.Input.TransactionID, "key": p.Input.Key}, stream)
	}
	return h.metaWrite("DELETE", fmt.Sprintf("/transactions/%d/metadata/%s", p.Input.TransactionID, url.PathEscape(p.Input.Key)), p.DryRun, p.IdempotencyKey, p.SchemaVersion, nil)
}

func (h *httpCtrl) DeleteAccountMetadata(_ context.Context, p ledgercontroller.Parameters[ledgercontroller.DeleteAccountMetadata]) (*ledger.Log, bool, error) {
	if bulk, stream := h.viaBulk(p.DryRun, p.IdempotencyKey, p.SchemaVersion); bulk {
		return h.metaBulk("DELETE_METADATA", map[string]any{"targetType": "ACCOUNT", "targetId": p.Input.Address, "key": p.Input.Key}, stream)
	}
	return h.metaWrite("DELETE", "/accounts/"+url.PathEscape(p.Input.Address)+"/metadata/"+url.PathEscape(p.Input.Key), p.DryRun, p.IdempotencyKey, p.SchemaVersion, nil)
}

func orEmpty(m metadata.Metadata) metadata.Metadata {
	if m == nil {
		return metadata.Metadata{}
	}
	return m
}

// ---------------------------------------------------------------------------- reads

func fmtTime(t *libtime.Time) string { return t.Time.UTC().Format(time.RFC3339Nano) }

func resourceParams[O any](rq common.ResourceQuery[O]) (url.Values, []byte, error) {
	q := url.Values{}
	if rq.PIT != nil && !rq.PIT.IsZero() {
		q.Set("pit", fmtTime(rq.PIT))
	}
	if rq.OOT != nil && !rq.OOT.IsZero() {
		q.Set("oot", fmtTime(rq.OOT))
	}
	if len(rq.Expand) > 0 {
		q.Set("expand", strings.Join(rq.Expand, ","))
	}
	var body []byte
	if rq.Builder != nil {
		b, err := json.Marshal(rq.Builder)
		if err != nil {
			return nil, nil, fmt.Errorf("filter cannot be rendered as JSON: %w", err)
		}
		body = b
	}
	return q, body, nil
}

// pageParams renders a paginated query the way a client would ask for it: the first page with explicit
// parameters, any other page by its cursor alone.
func pageParams[O any](pq common.PaginatedQuery[O], defaultColumn string, extra func(rq common.ResourceQuery[O], q url.Values)) (url.Values, []byte, error) {
	switch v := any(pq).(type) {
	case common.InitialPaginatedQuery[O]:
		q, body, err := resourceParams(v.Options)
		if err != nil {
			return nil, nil, err
		}
		if v.PageSize > 0 {
			q.Set("pageSize", fmt.Sprint(v.PageSize))
		}
		column := v.Column
		if column == "" {
			column = defaultColumn
		}
		if v.Order != nil {
			order := "asc"
			if *v.Order == paginate.OrderDesc {
				order = "desc"
			}
			q.Set("sort", column+":"+order)
		} else if v.Column != "" {
			q.Set("sort", column)
		}
		if extra != nil {
			extra(v.Options, q)
		}
		return q, body, nil
	default:
		return url.Values{"cursor": {paginate.EncodeCursor(pq)}}, nil, nil
	}
}

func getCursor[T any, O any](h *httpCtrl, path string, pq common.PaginatedQuery[O], defaultColumn string, extra func(rq common.ResourceQuery[O], q url.Values)) (*paginate.Cursor[T], error) {
	q, body, err := pageParams(pq, defaultColumn, extra)
	if err != nil {
		return nil, err
	}
	rec := h.do("GET", path, q, nil, body)
	if rec.Code != http.StatusOK {
		return nil, h.fail(rec)
	}
	var doc struct {
		Cursor *paginate.Cursor[T] `json:"cursor"`
	}
	if err := json.Unmarshal(rec.Body.Bytes(), &doc); err != nil || doc.Cursor == nil {
		return nil, fmt.Errorf("GET %s: undecodable answer (%v): %s", path, err, hCut(rec.Body.String(), 300))
	}
	return doc.Cursor, nil
}

func (h *httpCtrl) ListTransactions(_ context.Context, pq common.PaginatedQuery[any]) (*paginate.Cursor[ledger.Transaction], error) {
	return getCursor[ledger.Transaction, any](h, "/transactions", pq, "id", nil)
}

func (h *httpCtrl) ListAccounts(_ context.Context, pq common.PaginatedQuery[any]) (*paginate.Cursor[ledger.Account], error) {
	return getCursor[ledger.Account, any](h, "/accounts", pq, "address", nil)
}

func (h *httpCtrl) ListLogs(_ context.Context, pq common.PaginatedQuery[any]) (*paginate.Cursor[ledger.Log], error) {
	return getCursor[ledger.Log, any](h, "/logs", pq, "id", nil)
}

func (h *httpCtrl) GetVolumesWithBalances(_ context.Context, pq common.PaginatedQuery[ledger.GetVolumesOptions]) (*paginate.Cursor[ledger.VolumesWithBalanceByAssetByAccount], error) {
	return getCursor[ledger.VolumesWithBalanceByAssetByAccount, ledger.GetVolumesOptions](h, "/volumes", pq, "account", func(rq common.ResourceQuery[ledger.GetVolumesOptions], q url.Values) {
		if rq.Opts.GroupLvl > 0 {
			q.Set("groupBy", fmt.Sprint(rq.Opts.GroupLvl))
		}
		if rq.Opts.UseInsertionDate {
			q.Set("insertionDate", "true")
		}
	})
}

// matchedValue returns the value of a {"$match": {key: value}} filter, the only shape the by-id reads take.
func matchedValue(b query.Builder, key string) (any, error) {
	raw, err := json.Marshal(b)
	if err != nil {
		return nil, err
	}
	var doc map[string]map[string]any
	dec := json.NewDecoder(bytes.NewReader(raw))
	dec.UseNumber()
	if err := dec.Decode(&doc); err != nil {
		return nil, err
	}
	v, ok := doc["$match"][key]
	if !ok {
		return nil, fmt.Errorf("by-id read with a filter other than $match %s: %s", key, raw)
	}
	return v, nil
}

func oneParams(rq common.ResourceQuery[any]) url.Values {
	q := url.Values{}
	if rq.PIT != nil && !rq.PIT.IsZero() {
		q.Set("pit", fmtTime(rq.PIT))
	}
	for _, e := range rq.Expand {
		q.Add("expand", e)
	}
	return q
}

// GetTransaction: GET /v2/{ledger}/transactions/{id}, or the v1 route in rotation when v1 routes are in play.
func (h *httpCtrl) GetTransaction(_ context.Context, rq common.ResourceQuery[any]) (*ledger.Transaction, error) {
	id, err := matchedValue(rq.Builder, "id")
	if err != nil {
		return nil, err
	}
	h.reads++
	if h.v1Writes && h.reads%2 == 0 {
		rec := h.doOn("/", "GET", fmt.Sprintf("/transactions/%v", id), oneParams(rq), nil, nil)
		if rec.Code != http.StatusOK {
			return nil, h.fail(rec)
		}
		t1, err := decodeData[v1Transaction](rec)
		if err != nil {
			return nil, err
		}
		tx := t1.Transaction
		tx.ID = t1.TxID
		return &tx, nil
	}
	rec := h.do("GET", fmt.Sprintf("/transactions/%v", id), oneParams(rq), nil, nil)
	if rec.Code != http.StatusOK {
		return nil, h.fail(rec)
	}
	return decodeData[ledger.Transaction](rec)
}

// GetAccount: GET /v2/{ledger}/accounts/{address}.
func (h *httpCtrl) GetAccount(_ context.Context, rq common.ResourceQuery[any]) (*ledger.Account, error) {
	addr, err := matchedValue(rq.Builder, "address")
	if err != nil {
		return nil, err
	}
	rec := h.do("GET", "/accounts/"+url.PathEscape(fmt.Sprint(addr)), oneParams(rq), nil, nil)
	if rec.Code != http.StatusOK {
		return nil, h.fail(rec)
	}
	return decodeData[ledger.Account](rec)
}

// GetStats: GET /v2/{ledger}/stats (or the v1 route).
func (h *httpCtrl) GetStats(_ context.Context) (ledgercontroller.Stats, error) {
	prefix := "/v2/"
	if h.v1Writes {
		prefix = "/"
	}
	rec := h.doOn(prefix, "GET", "/stats", nil, nil, nil)
	if rec.Code != http.StatusOK {
		return ledgercontroller.Stats{}, h.fail(rec)
	}
	out, err := decodeData[ledgercontroller.Stats](rec)
	if err != nil {
		return ledgercontroller.Stats{}, err
	}
	return *out, nil
}

func (h *httpCtrl) count(path string, rq common.ResourceQuery[any]) (int, error) {
	q, body, err := resourceParams(rq)
	if err != nil {
		return 0, err
	}
	rec := h.do("HEAD", path, q, nil, body)
	if rec.Code/100 != 2 {
		return 0, &apiError{status: rec.Code, code: "HEAD", msg: "count refused", typed: errors.New("api error")}
	}
	var n int
	if _, err := fmt.Sscan(rec.Header().Get("Count"), &n); err != nil {
		return 0, fmt.Errorf("HEAD %s: Count header %q", path, rec.Header().Get("Count"))
	}
	return n, nil
}

func (h *httpCtrl) CountTransactions(_ context.Context, rq common.ResourceQuery[any]) (int, error) {
	return h.count("/transactions", rq)
}

func (h *httpCtrl) CountAccounts(_ context.Context, rq common.ResourceQuery[any]) (int, error) {
	return h.count("/accounts", rq)
}

func (h *httpCtrl) GetAggregatedBalances(_ context.Context, rq common.ResourceQuery[ledger.GetAggregatedVolumesOptions]) (ledger.BalancesByAssets, error) {
	q, body, err := resourceParams(rq)
	if err != nil {
		return nil, err
	}
	if rq.Opts.UseInsertionDate {
		q.Set("useInsertionDate", "true")
	}
	rec := h.do("GET", "/aggregate/balances", q, nil, body)
	if rec.Code != http.StatusOK {
		return nil, h.fail(rec)
	}
	out, err := decodeData[ledger.BalancesByAssets](rec)
	if err != nil {
		return nil, err
	}
	return *out, nil
}

func hJSON(v any) []byte {
	b, err := json.Marshal(v)
	if err != nil {
		panic(fmt.Sprintf("verif: cannot marshal a request body: %v", err))
	}
	return b
}

func hCut(s string, n int) string {
	if len(s) > n {
		return s[:n] + "…"
	}
	return s
}

var _ = query.Match
