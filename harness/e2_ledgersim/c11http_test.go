package e2

import (
	"bytes"
	"fmt"
	"math/big"
	"net/http"
	"net/http/httptest"
	"strings"
	"testing"

	"pgregory.net/rapid"

	"github.com/formancehq/go-libs/v5/pkg/storage/bun/paginate"

	ledger "github.com/formancehq/ledger/internal"
	"github.com/formancehq/ledger/verifharness/env"
	"github.com/formancehq/ledger/verifharness/stats"
)

const ruleC11HTTP = "HTTP leg: a generated source history (as in the main check, shorter) to which a drawn oversized entry is added - a transaction with 150-700 postings to distinct accounts, an account or transaction metadata value of 10-200 KB, or nothing - is exported with POST /v2/{ledger}/logs/export and the bytes received are posted unchanged to POST /v2/{copy}/logs/import on a fresh ledger of another bucket; the import must answer 204, every read of the copy must equal the source's reference model and the journals must carry the same hashes; then a write on the copy through the API must continue the ids; non-trivial = stream with a log longer than 64 KiB; distinct = by source history + oversized entry"

func TestC11HTTP(t *testing.T) {
	st := stats.New("C11", "exploration", ruleC11HTTP, assumePgsim)
	defer st.Write(t)
	n := stats.N(25, 120)
	st.Set("requested_checks_http", n)
	stats.Check(t, n, 1111, func(rt *rapid.T) {
		w := NewWorld(rt, st, env.Options{}, "C11")
		defer w.Close()
		fs := GenFeatures(rt)
		src := w.AddLedger("src", "b1", fs)
		w.Drive(rt, src, nil, HistOpts{Steps: 8, Scripts: true, Reverts: true, Metadata: true})
		big1 := rapid.SampledFrom([]string{"many-postings", "long-account-metadata", "long-transaction-metadata", "none"}).Draw(rt, "oversized")
		switch big1 {
		case "many-postings":
			k := rapid.IntRange(150, 700).Draw(rt, "postings")
			var ps ledger.Postings
			for i := 0; i < k; i++ {
				ps = append(ps, ledger.NewPosting("world", fmt.Sprintf("payout:%04d", i), "USD/2", big.NewInt(int64(1+i%9))))
			}
			if out := w.CreateTx(src, TxRequest{Postings: ps}); out.Kind != ErrNone {
				w.harness("the large transaction was refused: %v", out.Err)
			}
		case "long-account-metadata":
			v := strings.Repeat("x<&>\"é ", rapid.IntRange(1500, 25000).Draw(rt, "repeat"))
			if kind := w.SaveAccountMeta(src, "bank", map[string]string{"blob": v}, false); kind != ErrNone {
				w.harness("long account metadata refused: %q", kind)
			}
		case "long-transaction-metadata":
			out := w.CreateTx(src, TxRequest{Postings: ledger.Postings{ledger.NewPosting("world", "bank", "USD/2", big.NewInt(5))}, Metadata: map[string]string{"blob": strings.Repeat("0123456789abcdef", rapid.IntRange(700, 12000).Draw(rt, "repeat"))}})
			if out.Kind != ErrNone {
				w.harness("transaction with long metadata refused: %v", out.Err)
			}
		}
		if len(src.M.Logs) == 0 {
			rt.Skip("empty source")
		}
		router := w.Env.Router()
		call := func(method, path string, body []byte) *httptest.ResponseRecorder {
			req := httptest.NewRequest(method, path, bytes.NewReader(body))
			rec := httptest.NewRecorder()
			router.ServeHTTP(rec, req)
			return rec
		}
		exp := call("POST", "/v2/src/logs/export", nil)
		if exp.Code/100 != 2 {
			rt.Fatalf("VIOLATION[C11]: POST /v2/src/logs/export answered HTTP %d: %s\nsource history:\n  %s", exp.Code, truncate(exp.Body.String(), 300), src.History())
		}
		stream := exp.Body.Bytes()
		longest := 0
		for _, line := range bytes.Split(stream, []byte("\n")) {
			if len(line) > longest {
				longest = len(line)
			}
		}
		cp := w.AddLedger("copy", "b2", fs)
		imp := call("POST", "/v2/copy/logs/import", stream)
		if imp.Code != http.StatusNoContent {
			rt.Fatalf("VIOLATION[C11]: the exported stream of src (%d bytes, longest log %d bytes, oversized entry: %s) is refused by POST /v2/copy/logs/import: HTTP %d %s\nsource history:\n  %s", len(stream), longest, big1, imp.Code, truncate(imp.Body.String(), 400), truncate(src.History(), 3000))
		}
		// the copy equals the source on every read
		exported := w.exportLogs(src)
		replayed, err := ReplayLogs(exported)
		if err != nil {
			w.harness("replay: %v", err)
		}
		replayed.Logs = src.M.Logs
		cp.M = replayed
		for _, tx := range src.M.Txs {
			if tx.Reference != "" {
				cp.Refs[tx.Reference] = true
			}
		}
		cp.Ops = append([]string{"(imported from src through the API)"}, src.Ops...)
		w.Reopen(cp)
		w.Focus = nil
		w.CheckTransactions(cp, nil, 15, paginate.OrderAsc)
		w.CheckAccounts(cp, nil, 15)
		w.CheckVolumes(cp, nil, nil, false, 0, 15)
		w.CheckAggregated(cp, nil, false, nil, nil)
		w.Focus = map[string]bool{"C11": true}
		srcLogs := w.CheckLogs(src, 15, paginate.OrderAsc)
		cpLogs := w.CheckLogs(cp, 15, paginate.OrderAsc)
		if len(srcLogs) != len(cpLogs) {
			rt.Fatalf("VIOLATION[C11]: the copy holds %d logs, the source %d", len(cpLogs), len(srcLogs))
		}
		for i := range srcLogs {
			if !bytes.Equal(srcLogs[i].Hash, cpLogs[i].Hash) {
				rt.Fatalf("VIOLATION[C11]: log %d hash differs between source (%x) and copy (%x)", *srcLogs[i].ID, srcLogs[i].Hash, cpLogs[i].Hash)
			}
		}
		// and it stays writable through the API
		var maxTx uint64
		for _, tx := range cp.M.Txs {
			if tx.ID > maxTx {
				maxTx = tx.ID
			}
		}
		w.ViaHTTP = true
		w.Reopen(cp)
		if out := w.CreateTx(cp, TxRequest{Postings: ledger.Postings{ledger.NewPosting("world", "a", "USD/2", big.NewInt(7))}}); out.Kind != ErrNone {
			rt.Fatalf("VIOLATION[C11]: the first write on the imported ledger (POST /v2/copy/transactions) failed: %v", out.Err)
		} else if *out.Tx.ID != maxTx+1 {
			rt.Fatalf("VIOLATION[C11]: the first write on the imported ledger got transaction id %d, expected %d", *out.Tx.ID, maxTx+1)
		}
		st.Case(src.History()+big1, longest > 65536, func() any {
			return map[string]any{"oversized_entry": big1, "stream_bytes": len(stream), "longest_log_bytes": longest, "logs": len(srcLogs)}
		}, "oversized:"+big1, fmt.Sprintf("longest-log-over-64KiB:%v", longest > 65536))
		st.Add("completed_checks_http", 1)
	})
}
