package e2

import (
	"encoding/json"
	"fmt"
	"math/big"
	"net/http/httptest"
	"sort"
	"strings"
	"testing"

	"pgregory.net/rapid"

	ledger "github.com/formancehq/ledger/internal"
	"github.com/formancehq/ledger/verifharness/env"
	"github.com/formancehq/ledger/verifharness/stats"
)

const ruleRoutesConc = "requests on different ledgers served concurrently by ONE router: 2-3 ledgers (two sharing a bucket) with 0-4 transactions each, every transaction tagged in its metadata with the ledger it was sent to; then 2-6 requests - POST /v2/{ledger}/transactions, POST /{ledger}/transactions (v1), GET /v2/{ledger}/transactions - run under a drawn statement-level interleaving (the request meets the database between the resolution of its ledger and its handler); from the answers and the committed tables: a write answered with success is stored once, in the ledger of its URL, under the id it was answered, and nowhere else; a refused write is stored nowhere; per ledger the ids answered are distinct, distinct from the ids the ledger held before, and the ledger grows by exactly its own successful writes (transactions and logs); a listing only returns transactions tagged with the ledger of its URL; non-trivial = two requests on different ledgers overlap (a context switch between them before both are answered); distinct = by requests + schedule"

// runRoutesConcurrent is registered for C16 (ids of different ledgers are independent; unique per ledger) and C19
// (no write on one ledger changes another; no read returns another ledger's transactions).
func runRoutesConcurrent(t *testing.T, id string) {
	st := stats.New(id, "exploration", ruleRoutesConc, assumePgsim, assumeSched)
	defer st.Write(t)
	n := stats.N(60, 400)
	st.Set("requested_checks_routes_concurrent", n)
	stats.Check(t, n, 1616, func(rt *rapid.T) {
		w := NewWorld(rt, st, env.Options{}, id)
		defer w.Close()
		fs := GenFeatures(rt)
		type led struct {
			l      *LState
			before map[uint64]bool
			logs   int
		}
		names := []string{"alpha", "beta", "gamma"}[:rapid.IntRange(2, 3).Draw(rt, "ledgers")]
		leds := map[string]*led{}
		for i, name := range names {
			b := "b1"
			if i == 2 && rapid.Bool().Draw(rt, "thirdAlone") {
				b = "b2"
			}
			l := w.AddLedger(name, b, fs)
			ld := &led{l: l, before: map[uint64]bool{}}
			for j, k := 0, rapid.IntRange(0, 4).Draw(rt, "before:"+name); j < k; j++ {
				out := w.CreateTx(l, TxRequest{Postings: ledger.Postings{ledger.NewPosting("world", "bank", "USD/2", big.NewInt(int64(10+j)))}, Metadata: map[string]string{"sentTo": name, "writer": "setup"}})
				if out.Kind != ErrNone {
					w.harness("setup write refused: %v", out.Err)
				}
				ld.before[*out.Tx.ID] = true
			}
			ld.logs = len(l.M.Logs)
			leds[name] = ld
		}
		w.httpCall("GET", "/v2/_info", nil) // the one router of the deployment, built before the requests start
		type req struct {
			kind, ledger, tag string
			code              int
			body              string
			txID              uint64
			listed            []map[string]any
		}
		nr := rapid.IntRange(2, 6).Draw(rt, "requests")
		reqs := make([]*req, nr)
		s := NewSched(w)
		for i := 0; i < nr; i++ {
			r := &req{kind: rapid.SampledFrom([]string{"post-v2", "post-v2", "post-v1", "list-v2"}).Draw(rt, "kind"), tag: fmt.Sprintf("w%d", i)}
			r.ledger = names[i%len(names)]
			if i >= len(names) {
				r.ledger = rapid.SampledFrom(names).Draw(rt, "ledger")
			}
			reqs[i] = r
			amount := rapid.IntRange(1, 50).Draw(rt, "amount")
			s.Go(r.tag, func() {
				var rec *httptest.ResponseRecorder
				switch r.kind {
				case "post-v2", "post-v1":
					body := fmt.Sprintf(`{"postings":[{"source":"world","destination":"bank","amount":%d,"asset":"USD/2"}],"metadata":{"sentTo":%q,"writer":%q}}`, amount, r.ledger, r.tag)
					path := "/v2/" + r.ledger + "/transactions"
					if r.kind == "post-v1" {
						path = "/" + r.ledger + "/transactions" // the v1 routes live at the root
					}
					rec = w.httpCall("POST", path, []byte(body))
				default:
					rec = w.httpCall("GET", "/v2/"+r.ledger+"/transactions?pageSize=100", nil)
				}
				r.code, r.body = rec.Code, rec.Body.String()
			})
		}
		if !s.Run(rt) {
			return
		}
		sched := strings.Join(s.Trace, "\n  ")
		var sb strings.Builder
		for _, r := range reqs {
			fmt.Fprintf(&sb, "  %s %s on %s => HTTP %d %s\n", r.tag, r.kind, r.ledger, r.code, truncate(r.body, 160))
		}
		desc := sb.String()
		fail := func(format string, args ...any) {
			rt.Fatalf("VIOLATION[%s]: %s\nrequests:\n%sschedule:\n  %s", id, fmt.Sprintf(format, args...), desc, sched)
		}
		// where did every tagged transaction end up?
		type place struct {
			ledger string
			id     uint64
		}
		stored := map[string][]place{}
		txRows, logRows := map[string]int{}, map[string]int{}
		for _, b := range []string{"b1", "b2"} {
			for _, row := range w.Env.Sim.Rows(b, "transactions") {
				txRows[row["ledger"].S]++
				md, _ := row["metadata"].J.(map[string]any)
				tag, _ := md["writer"].(string)
				sentTo, _ := md["sentTo"].(string)
				idv := row["id"].N.Uint64()
				if sentTo != row["ledger"].S {
					fail("ledger %s stores transaction %d, which was sent to ledger %q by %s", row["ledger"].S, idv, sentTo, tag)
				}
				if tag != "setup" {
					stored[tag] = append(stored[tag], place{row["ledger"].S, idv})
				}
			}
			for _, row := range w.Env.Sim.Rows(b, "logs") {
				logRows[row["ledger"].S]++
			}
		}
		success := map[string]int{}
		answered := map[string]map[uint64]string{}
		overlap := false
		for _, r := range reqs {
			switch r.kind {
			case "post-v2", "post-v1":
				if r.code/100 != 2 {
					if len(stored[r.tag]) != 0 {
						fail("%s was refused (HTTP %d) but its transaction is stored: %v", r.tag, r.code, stored[r.tag])
					}
					st.Class(fmt.Sprintf("refused:%d", r.code))
					continue
				}
				var ans struct {
					Data json.RawMessage `json:"data"`
				}
				var tx map[string]any
				if err := json.Unmarshal([]byte(r.body), &ans); err != nil {
					fail("%s: answer does not decode: %v", r.tag, err)
				}
				if r.kind == "post-v1" {
					var arr []map[string]any
					if err := json.Unmarshal(ans.Data, &arr); err != nil || len(arr) != 1 {
						fail("%s: v1 answer is not one transaction: %s", r.tag, truncate(r.body, 200))
					}
					tx = arr[0]
					f, _ := tx["txid"].(float64)
					r.txID = uint64(f)
				} else {
					if err := json.Unmarshal(ans.Data, &tx); err != nil {
						fail("%s: v2 answer is not a transaction: %s", r.tag, truncate(r.body, 200))
					}
					f, _ := tx["id"].(float64)
					r.txID = uint64(f)
				}
				success[r.ledger]++
				if len(stored[r.tag]) != 1 || stored[r.tag][0] != (place{r.ledger, r.txID}) {
					fail("%s was answered transaction %d of ledger %s; stored: %v", r.tag, r.txID, r.ledger, stored[r.tag])
				}
				if answered[r.ledger] == nil {
					answered[r.ledger] = map[uint64]string{}
				}
				if other, dup := answered[r.ledger][r.txID]; dup {
					fail("%s and %s were both answered transaction id %d on ledger %s", other, r.tag, r.txID, r.ledger)
				}
				if leds[r.ledger].before[r.txID] {
					fail("%s was answered transaction id %d on ledger %s, an id the ledger had handed out before", r.tag, r.txID, r.ledger)
				}
				answered[r.ledger][r.txID] = r.tag
			default:
				if r.code/100 != 2 {
					fail("%s: listing refused with HTTP %d", r.tag, r.code)
				}
				var ans struct {
					Cursor struct {
						Data []map[string]any `json:"data"`
					} `json:"cursor"`
				}
				if err := json.Unmarshal([]byte(r.body), &ans); err != nil {
					fail("%s: listing does not decode: %v", r.tag, err)
				}
				for _, tx := range ans.Cursor.Data {
					md, _ := tx["metadata"].(map[string]any)
					if md["sentTo"] != r.ledger {
						fail("%s listed ledger %s and received transaction %v, which was sent to ledger %v", r.tag, r.ledger, tx["id"], md["sentTo"])
					}
				}
				if len(ans.Cursor.Data) < len(leds[r.ledger].before) {
					fail("%s listed ledger %s and received %d transactions; the ledger held %d before the requests started", r.tag, r.ledger, len(ans.Cursor.Data), len(leds[r.ledger].before))
				}
			}
		}
		for _, name := range names {
			ld := leds[name]
			if txRows[name] != len(ld.before)+success[name] {
				fail("ledger %s stores %d transactions: %d before the requests + %d successful writes expected", name, txRows[name], len(ld.before), success[name])
			}
			if logRows[name] != ld.logs+success[name] {
				fail("ledger %s stores %d logs: %d before the requests + %d successful writes expected", name, logRows[name], ld.logs, success[name])
			}
		}
		// did requests on different ledgers overlap?
		first, last := map[string]int{}, map[string]int{}
		for i, line := range s.Trace {
			tag := line[:strings.Index(line, ":")]
			if _, ok := first[tag]; !ok {
				first[tag] = i
			}
			last[tag] = i
		}
		for _, a := range reqs {
			for _, b := range reqs {
				if a.ledger != b.ledger && first[a.tag] < first[b.tag] && first[b.tag] < last[a.tag] {
					overlap = true
				}
			}
		}
		kinds := []string{}
		for _, r := range reqs {
			kinds = append(kinds, r.kind)
		}
		sort.Strings(kinds)
		st.Case(desc+sched, overlap, func() any {
			return map[string]any{"requests": desc, "schedule_len": len(s.Trace)}
		}, fmt.Sprintf("ledgers:%d", len(names)), fmt.Sprintf("requests:%d", nr), fmt.Sprintf("overlap-across-ledgers:%v", overlap), "kinds:"+strings.Join(kinds, ","))
		st.Add("completed_checks_routes_concurrent", 1)
	})
}

func TestC16RoutesConcurrent(t *testing.T) { runRoutesConcurrent(t, "C16") }
func TestC19RoutesConcurrent(t *testing.T) { runRoutesConcurrent(t, "C19") }
