package e2

import (
	"net/url"
	"strings"
	"testing"
)

// fuzzSeeds are canonical valid requests, one or more per route family; the native fuzzer mutates
// their query string and body byte-wise (coverage-guided), the oracle is the same as TestC38's.
var fuzzSeeds = []struct{ method, path, query, body string }{
	{"POST", "/v2/l1/transactions", "", `{"postings":[{"source":"world","destination":"bank","asset":"USD/2","amount":5}],"metadata":{"k":"v"},"reference":"f1"}`},
	{"POST", "/v2/l1/transactions", "dryRun=true", `{"script":{"plain":"vars {\n account $dst\n monetary $m\n}\nsend $m (\n source = @world\n destination = $dst\n)","vars":{"dst":"bank","m":{"asset":"USD/2","amount":3}}}}`},
	{"POST", "/l1/transactions", "", `{"postings":[{"source":"world","destination":"bank","asset":"USD/2","amount":5}]}`},
	{"POST", "/l1/transactions", "preview=true", `{"script":{"plain":"vars {\n account $dst\n}\nsend [USD/2 1] (\n source = @world\n destination = $dst\n)","vars":{"dst":"bank"}}}`},
	{"GET", "/v2/l1/transactions", "pageSize=2&expand=volumes&sort=id:asc", `{"$and":[{"$match":{"account":"bank"}},{"$gte":{"id":1}}]}`},
	{"GET", "/l1/transactions", "after=3&account=bank&metadata[k]=v", ``},
	{"GET", "/v2/l1/transactions/1", "expand=volumes", ``},
	{"POST", "/v2/l1/transactions/1/revert", "force=true&atEffectiveDate=true", `{"metadata":{"a":"b"}}`},
	{"POST", "/v2/l1/transactions/1/metadata", "", `{"a":"b"}`},
	{"DELETE", "/v2/l1/transactions/1/metadata/k", "", ``},
	{"GET", "/v2/l1/accounts", "pageSize=3&expand=volumes", `{"$or":[{"$match":{"address":"u:"}},{"$gte":{"balance[USD/2]":5}}]}`},
	{"GET", "/l1/accounts", "address=u:&metadata[role]=admin", ``},
	{"GET", "/v2/l1/accounts/bank", "expand=effectiveVolumes", ``},
	{"POST", "/v2/l1/accounts/u:1/metadata", "", `{"role":"x"}`},
	{"GET", "/v2/l1/aggregate/balances", "useInsertionDate=true", `{"$match":{"address":"u:"}}`},
	{"GET", "/v2/l1/volumes", "groupBy=1&insertionDate=true", `{"$match":{"address":"u:"}}`},
	{"GET", "/v2/l1/logs", "pageSize=2", `{"$gte":{"id":2}}`},
	{"POST", "/v2/l1/_bulk", "atomic=true", `[{"action":"CREATE_TRANSACTION","data":{"postings":[{"source":"world","destination":"bank","asset":"USD/2","amount":1}]}},{"action":"ADD_METADATA","data":{"targetType":"ACCOUNT","targetId":"bank","metadata":{"a":"b"}}},{"action":"REVERT_TRANSACTION","data":{"id":1,"force":true}},{"action":"DELETE_METADATA","data":{"targetType":"TRANSACTION","targetId":1,"key":"k"}}]`},
	{"POST", "/v2/l1/schemas/v2", "", c38Schema},
	{"POST", "/v2/l1/queries/byAccount/run", "schemaVersion=v1", `{"vars":{"acc":"bank"},"params":{"pageSize":1,"sort":"id:asc"}}`},
	{"POST", "/v2/l1/queries/rich/run", "schemaVersion=v1", `{"vars":{"min":5}}`},
	{"POST", "/v2/imp/logs/import", "", `{"type":"NEW_TRANSACTION","data":{"transaction":{"postings":[{"source":"world","destination":"bank","amount":5,"asset":"USD/2"}],"metadata":{},"timestamp":"2023-01-01T00:00:00Z","id":1,"reverted":false},"accountMetadata":{}},"date":"2023-01-01T00:00:00Z","idempotencyKey":"","id":1,"hash":null}`},
	{"POST", "/v2/fresh", "", `{"bucket":"b2","metadata":{"a":"b"},"features":{"HASH_LOGS":"DISABLED"}}`},
	{"PUT", "/v2/l1/metadata", "", `{"a":"b"}`},
	{"GET", "/v2", "pageSize=1", ``},
}

type fuzzT struct{ t *testing.T }

func (f fuzzT) Fatalf(format string, args ...any) { f.t.Fatalf(format, args...) }
func (f fuzzT) Logf(string, ...any)               {}

// FuzzAPI is the byte-level, coverage-guided companion of TestC38 (thorough tier only).
func FuzzAPI(f *testing.F) {
	for i, s := range fuzzSeeds {
		f.Add(uint8(i), s.query, []byte(s.body))
	}
	f.Fuzz(func(t *testing.T, route uint8, rawQuery string, body []byte) {
		s := fuzzSeeds[int(route)%len(fuzzSeeds)]
		q, err := url.ParseQuery(rawQuery)
		if err != nil {
			return
		}
		a := newAPIWorld(fuzzT{t}, nil)
		defer a.w.Close()
		r := httpReq{Route: "fuzz " + s.method + " " + s.path, Method: s.method, Path: s.path, Query: q, Body: body, Headers: map[string]string{}, Write: s.method != "GET", Partial: strings.Contains(s.path, "_bulk") || strings.Contains(s.path, "import")}
		v := a.judge(r)
		if v.Unsupported {
			return
		}
		if v.Problem != "" {
			t.Fatalf("VIOLATION[C38]: %s\n  request: %s", v.Problem, r)
		}
	})
}
