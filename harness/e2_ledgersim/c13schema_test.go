package e2

import (
	"encoding/json"
	"fmt"
	"math/big"
	"reflect"
	"strings"
	"testing"

	"pgregory.net/rapid"

	"github.com/formancehq/go-libs/v5/pkg/types/metadata"

	ledger "github.com/formancehq/ledger/internal"
	ledgercontroller "github.com/formancehq/ledger/internal/controller/ledger"
	"github.com/formancehq/ledger/verifharness/env"
	"github.com/formancehq/ledger/verifharness/stats"
)

const ruleC13Schema = "idempotent replays across the adoption of a schema: under audit or strict enforcement, 2-6 writes carrying idempotency keys (creates, account and transaction metadata writes, a revert) are committed on a ledger that has no schema yet (no schemaVersion in the request) or has v1 (schemaVersion=v1); then the ledger adopts its first schema, or a further version; then every write is sent again, identical, in a drawn order, through the controller chain or the HTTP routes; each replay must be answered as a hit carrying the log of the original write and leave every table unchanged - the requirements a new write would now have to meet do not apply to a write that is already committed; non-trivial = strict mode with the first schema adopted between a write and its replay; distinct = by operation history"

func TestC13SchemaAdoption(t *testing.T) {
	st := stats.New("C13", "exploration", ruleC13Schema, assumePgsim)
	defer st.Write(t)
	n := stats.N(150, 900)
	st.Set("requested_checks_schema_adoption", n)
	stats.Check(t, n, 1331, func(rt *rapid.T) {
		mode := rapid.SampledFrom([]ledgercontroller.SchemaEnforcementMode{ledgercontroller.SchemaEnforcementAudit, ledgercontroller.SchemaEnforcementStrict, ledgercontroller.SchemaEnforcementStrict}).Draw(rt, "mode")
		w := NewWorld(rt, st, env.Options{Enforcement: mode}, "C13")
		defer w.Close()
		if rapid.IntRange(0, 2).Draw(rt, "throughTheAPI") == 0 {
			w.ViaHTTP = true
		}
		l := w.AddLedger("l1", "b1", GenFeatures(rt))
		chart := map[string]any{"world": map[string]any{}, "a": map[string]any{}, "bank": map[string]any{}, "u": map[string]any{"$id": map[string]any{}}}
		var data ledger.SchemaData
		if err := json.Unmarshal(mustJSON(map[string]any{"chart": chart}), &data); err != nil {
			rt.Fatalf("HARNESS-ERROR: %v", err)
		}
		adopt := func(version string) {
			if _, _, _, err := l.C.InsertSchema(w.Ctx, ledgercontroller.Parameters[ledgercontroller.InsertSchema]{Input: ledgercontroller.InsertSchema{Version: version, Data: data}}); err != nil {
				w.checkErr(err)
				w.harness("schema %s refused: %v", version, err)
			}
		}
		startWithSchema := rapid.Bool().Draw(rt, "schemaBeforeTheWrites")
		version := ""
		var hist []string
		if startWithSchema {
			adopt("v1")
			version = "v1"
			hist = append(hist, "schema v1 adopted")
		}
		type write struct {
			desc string
			run  func() (*ledger.Log, bool, error)
			log  uint64
		}
		var writes []*write
		nTx := 0
		k := rapid.IntRange(2, 6).Draw(rt, "writes")
		for i := 0; i < k; i++ {
			ik := fmt.Sprintf("key-%d", i)
			kind := rapid.SampledFrom([]string{"create", "create", "accountMeta", "txMeta", "revert"}).Draw(rt, "kind")
			if nTx == 0 {
				kind = "create"
			}
			wr := &write{}
			switch kind {
			case "create":
				r := TxRequest{Postings: ledger.Postings{ledger.NewPosting("world", rapid.SampledFrom([]string{"a", "bank", "u:1"}).Draw(rt, "dst"), "USD/2", big.NewInt(int64(rapid.IntRange(1, 40).Draw(rt, "amount"))))}, IK: ik, SchemaVersion: version}
				wr.desc = "create " + r.describe()
				wr.run = func() (*ledger.Log, bool, error) {
					log, _, hit, err := l.C.CreateTransaction(w.Ctx, r.params())
					return log, hit, err
				}
				nTx++
			case "accountMeta":
				addr := rapid.SampledFrom([]string{"a", "bank", "u:2"}).Draw(rt, "addr")
				wr.desc = "saveAccountMeta " + addr
				wr.run = func() (*ledger.Log, bool, error) {
					return l.C.SaveAccountMetadata(w.Ctx, ledgercontroller.Parameters[ledgercontroller.SaveAccountMetadata]{IdempotencyKey: ik, SchemaVersion: version,
						Input: ledgercontroller.SaveAccountMetadata{Address: addr, Metadata: metadata.Metadata{"k": "v"}}})
				}
			case "txMeta":
				id := uint64(rapid.IntRange(1, nTx).Draw(rt, "tx"))
				wr.desc = fmt.Sprintf("saveTxMeta %d", id)
				wr.run = func() (*ledger.Log, bool, error) {
					return l.C.SaveTransactionMetadata(w.Ctx, ledgercontroller.Parameters[ledgercontroller.SaveTransactionMetadata]{IdempotencyKey: ik, SchemaVersion: version,
						Input: ledgercontroller.SaveTransactionMetadata{TransactionID: id, Metadata: metadata.Metadata{"k": "v"}}})
				}
			default:
				id := uint64(nTx) // the latest create; force: the outcome does not hinge on balances
				wr.desc = fmt.Sprintf("revert %d", id)
				wr.run = func() (*ledger.Log, bool, error) {
					log, _, hit, err := l.C.RevertTransaction(w.Ctx, ledgercontroller.Parameters[ledgercontroller.RevertTransaction]{IdempotencyKey: ik, SchemaVersion: version,
						Input: ledgercontroller.RevertTransaction{TransactionID: id, Force: true}})
					return log, hit, err
				}
				nTx++ // the revert is a transaction of its own
			}
			log, hit, err := wr.run()
			w.checkErr(err)
			if err != nil && wr.desc[:6] == "revert" && classify(err) == ErrAlreadyReverted {
				hist = append(hist, wr.desc+" => already reverted")
				nTx--
				continue
			}
			if err != nil || hit || log == nil || log.ID == nil {
				rt.Fatalf("VIOLATION[C13]: %s (idempotency key %s, first use) was answered err=%v hit=%v\nhistory:\n  %s", wr.desc, ik, err, hit, strings.Join(hist, "\n  "))
			}
			wr.log = *log.ID
			wr.desc += " ik=" + ik
			writes = append(writes, wr)
			hist = append(hist, fmt.Sprintf("%s => log %d", wr.desc, wr.log))
		}
		// the ledger moves on
		next := "v1"
		if startWithSchema {
			next = "v2"
		}
		adopt(next)
		hist = append(hist, "schema "+next+" adopted")
		before := w.Env.Sim.Dump()
		for _, i := range rapid.Permutation(seqInts(len(writes))).Draw(rt, "replayOrder") {
			wr := writes[i]
			log, hit, err := wr.run()
			w.checkErr(err)
			if err != nil {
				rt.Fatalf("VIOLATION[C13]: the replay of %s, committed as log %d, is answered with an error that contradicts the committed outcome: %v (mode %s)\nhistory:\n  %s", wr.desc, wr.log, err, mode, strings.Join(hist, "\n  "))
			}
			if !hit || log == nil || *log.ID != wr.log {
				rt.Fatalf("VIOLATION[C13]: the replay of %s, committed as log %d, is answered hit=%v log=%v\nhistory:\n  %s", wr.desc, wr.log, hit, log, strings.Join(hist, "\n  "))
			}
		}
		if after := w.Env.Sim.Dump(); !reflect.DeepEqual(before, after) {
			rt.Fatalf("VIOLATION[C13]: the replays changed the database\n%s\nhistory:\n  %s", dumpDiff(before, after), strings.Join(hist, "\n  "))
		}
		st.Case(strings.Join(hist, "\n"), mode == ledgercontroller.SchemaEnforcementStrict && !startWithSchema, func() any {
			return map[string]any{"history": hist, "mode": string(mode), "via_http": w.ViaHTTP}
		}, fmt.Sprintf("mode:%s", mode), fmt.Sprintf("first-schema-in-between:%v", !startWithSchema), fmt.Sprintf("via-http:%v", w.ViaHTTP))
		st.Add("completed_checks_schema_adoption", 1)
	})
}

func seqInts(n int) []int {
	out := make([]int, n)
	for i := range out {
		out[i] = i
	}
	return out
}
