package e2

import (
	"bytes"
	"context"
	"encoding/json"
	"errors"
	"fmt"
	"math/big"
	"net/http"
	"net/http/httptest"
	"sort"
	"strings"
	"testing"
	"time"

	"pgregory.net/rapid"

	ledger "github.com/formancehq/ledger/internal"
	"github.com/formancehq/ledger/internal/api/bulking"
	ledgercontroller "github.com/formancehq/ledger/internal/controller/ledger"
	"github.com/formancehq/ledger/pkg/features"
	"github.com/formancehq/ledger/verifharness/env"
	"github.com/formancehq/ledger/verifharness/gen"
	"github.com/formancehq/ledger/verifharness/pgsim"
	"github.com/formancehq/ledger/verifharness/stats"
)

const ruleC32 = "stateful histories of bulks on one ledger: 1-16 generated elements (creates incl. insufficient funds and duplicate references, reverts, 4 metadata operations on existing/unknown targets, idempotency keys incl. exact replays) x {sequential, continueOnFailure, atomic, atomic+continueOnFailure, parallel over order-independent elements} x {Bulker.Run, POST /v2/{ledger}/_bulk through the real router}. Oracle = a twin deployment that receives the same elements as single requests under the documented semantics (stop after the first failure unless continueOnFailure; atomic = all or nothing): one result per element, the same success/failure per position, each successful result equal to the single request's (postings, metadata, reference, timestamp; ids through the order of commit), and equal table contents (transactions, accounts, volumes, logs; ids and server dates normalised) after every bulk; non-trivial = history with a bulk of >= 3 elements failing in the middle and an atomic bulk; distinct = by operation history"

// bulkOp is an evOp whose transaction target is an ordinal (k-th committed transaction), so that it
// can be issued on two deployments whose ids differ by gaps.
type bulkOp struct {
	evOp
	Ord int       // 1-based ordinal of the target transaction; beyond the committed ones = unknown id
	TS  time.Time // explicit effective timestamp of a create (zero = server assigned)
}

func (o bulkOp) String() string {
	s := o.evOp.String()
	if o.Ord > 0 {
		s += fmt.Sprintf(" (tx #%d)", o.Ord)
	}
	if !o.TS.IsZero() {
		s += " ts=" + o.TS.Format("15:04:05")
	}
	return s
}

func (o bulkOp) resolve(ids []uint64) evOp {
	e := o.evOp
	if o.Ord > 0 {
		if o.Ord <= len(ids) {
			e.TxID = ids[o.Ord-1]
		} else {
			e.TxID = uint64(100000 + o.Ord)
		}
	}
	return e
}

type bulkSide struct {
	env  *env.Env
	c    ledgercontroller.Controller
	name string
}

func newBulkSide(t T, fs features.FeatureSet) *bulkSide {
	e := env.New(env.Options{})
	if err := e.CreateLedger(context.Background(), "l1", "b1", fs); err != nil {
		stats.HarnessError(t, "CreateLedger: %v", err)
	}
	c, err := e.Ledger(context.Background(), "l1")
	if err != nil {
		stats.HarnessError(t, "%v", err)
	}
	return &bulkSide{env: e, c: c, name: "l1"}
}

func (s *bulkSide) ids() []uint64 { return committedTxIDs(s.env.Sim, "b1", s.name) }

// txView is the id-free description of a transaction result.
type txView struct {
	Ord       int
	Postings  string
	Metadata  string
	Reference string
	Timestamp string
}

func ordOf(ids []uint64, id uint64) int {
	for i, v := range ids {
		if v == id {
			return i + 1
		}
	}
	return -1
}

func normMeta(m map[string]string, ids []uint64) string {
	keys := make([]string, 0, len(m))
	for k := range m {
		keys = append(keys, k)
	}
	sort.Strings(keys)
	var sb strings.Builder
	for _, k := range keys {
		v := m[k]
		if k == ledger.RevertMetadataSpecKey() {
			var id uint64
			if _, err := fmt.Sscan(v, &id); err == nil {
				v = fmt.Sprintf("#%d", ordOf(ids, id))
			}
		}
		fmt.Fprintf(&sb, "%q=%q;", k, v)
	}
	return sb.String()
}

func viewOfTx(tx ledger.Transaction, ids []uint64, explicitTS bool) txView {
	v := txView{Postings: postingsStr(tx.Postings), Metadata: normMeta(tx.Metadata, ids), Reference: tx.Reference}
	if tx.ID != nil {
		v.Ord = ordOf(ids, *tx.ID)
	}
	if explicitTS {
		v.Timestamp = tm(tx.Timestamp).Format(time.RFC3339Nano)
	}
	return v
}

// snapshot renders the ledger's tables with ids replaced by commit ordinals and server-assigned dates dropped.
func (s *bulkSide) snapshot() string {
	sim := s.env.Sim
	ids := s.ids()
	var sb strings.Builder
	type row = map[string]pgsim.Value
	rows := func(table string) []row {
		var out []row
		for _, r := range sim.Rows("b1", table) {
			if r["ledger"].S == s.name {
				out = append(out, r)
			}
		}
		return out
	}
	txs := rows("transactions")
	sort.Slice(txs, func(i, j int) bool { return txs[i]["id"].N.Cmp(txs[j]["id"].N) < 0 })
	for _, r := range txs {
		md := map[string]string{}
		if m, ok := r["metadata"].J.(map[string]any); ok {
			for k, v := range m {
				md[k] = fmt.Sprint(v)
			}
		}
		fmt.Fprintf(&sb, "tx #%d postings=%s meta=%s ref=%s reverted=%v pcv=%s\n", ordOf(ids, r["id"].N.Uint64()), r["postings"].String(), normMeta(md, ids), r["reference"].String(), !r["reverted_at"].IsNull(), r["post_commit_volumes"].String())
	}
	accs := rows("accounts")
	sort.Slice(accs, func(i, j int) bool { return accs[i]["address"].S < accs[j]["address"].S })
	for _, r := range accs {
		fmt.Fprintf(&sb, "account %s meta=%s\n", r["address"].S, r["metadata"].String())
	}
	vols := rows("accounts_volumes")
	sort.Slice(vols, func(i, j int) bool {
		a, b := vols[i]["accounts_address"].S+"/"+vols[i]["asset"].S, vols[j]["accounts_address"].S+"/"+vols[j]["asset"].S
		return a < b
	})
	for _, r := range vols {
		fmt.Fprintf(&sb, "volumes %s %s in=%s out=%s\n", r["accounts_address"].S, r["asset"].S, r["input"].String(), r["output"].String())
	}
	logs := rows("logs")
	sort.Slice(logs, func(i, j int) bool { return logs[i]["id"].N.Cmp(logs[j]["id"].N) < 0 })
	for i, r := range logs {
		fmt.Fprintf(&sb, "log %d %s ik=%s\n", i+1, r["type"].S, r["idempotency_key"].String())
	}
	moves := rows("moves")
	fmt.Fprintf(&sb, "moves %d\n", len(moves))
	return sb.String()
}

// elemOutcome is what one element produced, id-free.
type elemOutcome struct {
	OK   bool
	Kind ErrKind
	Tx   *txView
	Err  string
}

func (o elemOutcome) String() string {
	if !o.OK {
		return "error(" + string(o.Kind) + ")"
	}
	if o.Tx != nil {
		return fmt.Sprintf("ok tx#%d[%s] meta{%s} ref=%s %s", o.Tx.Ord, o.Tx.Postings, o.Tx.Metadata, o.Tx.Reference, o.Tx.Timestamp)
	}
	return "ok"
}

func (o elemOutcome) equal(p elemOutcome) bool {
	if o.OK != p.OK {
		return false
	}
	if !o.OK {
		return o.Kind == p.Kind
	}
	if (o.Tx == nil) != (p.Tx == nil) {
		return false
	}
	return o.Tx == nil || *o.Tx == *p.Tx
}

const errCanceled ErrKind = "skipped-after-failure"

func classifyBulk(err error) ErrKind {
	if errors.Is(err, context.Canceled) {
		return errCanceled
	}
	return classify(err)
}

// single issues the element as a request of its own, through the same conversions the API uses.
func (s *bulkSide) single(o bulkOp) elemOutcome { return s.singleAt(o, s.ids()) }

// singleAt resolves transaction ordinals against the given id list (the ids committed before the bulk the element belongs to).
func (s *bulkSide) singleAt(o bulkOp, ids []uint64) elemOutcome {
	ctx := context.Background()
	e := o.resolve(ids)
	el, _ := e.element()
	if tr, ok := el.Data.(bulking.TransactionRequest); ok && !o.TS.IsZero() {
		tr.Timestamp.Time = o.TS
		el.Data = tr
	}
	var out elemOutcome
	switch el.Action {
	case bulking.ActionCreateTransaction:
		rs, err := el.Data.(bulking.TransactionRequest).ToCore()
		if err != nil {
			return elemOutcome{Kind: ErrOther, Err: err.Error()}
		}
		_, res, _, err := s.c.CreateTransaction(ctx, ledgercontroller.Parameters[ledgercontroller.CreateTransaction]{IdempotencyKey: e.IK, Input: *rs})
		if err != nil {
			return elemOutcome{Kind: classify(err), Err: err.Error()}
		}
		v := viewOfTx(res.Transaction, s.ids(), !o.TS.IsZero())
		out = elemOutcome{OK: true, Tx: &v}
	case bulking.ActionRevertTransaction:
		_, res, _, err := s.c.RevertTransaction(ctx, ledgercontroller.Parameters[ledgercontroller.RevertTransaction]{IdempotencyKey: e.IK,
			Input: ledgercontroller.RevertTransaction{TransactionID: e.TxID, Force: e.Force, AtEffectiveDate: e.AtEffectiveDate, Metadata: toMD(nil)}})
		if err != nil {
			return elemOutcome{Kind: classify(err), Err: err.Error()}
		}
		v := viewOfTx(res.RevertTransaction, s.ids(), false)
		out = elemOutcome{OK: true, Tx: &v}
	default:
		_, _, err := e.run(ctx, s.c)
		if err != nil {
			return elemOutcome{Kind: classify(err), Err: err.Error()}
		}
		out = elemOutcome{OK: true}
	}
	return out
}

type bulkMode struct {
	Atomic, Continue, Parallel bool
	HTTP                       bool
	Stream                     bool // HTTP only: the elements are sent as a stream of JSON documents (bulk+json-stream)
}

func (m bulkMode) String() string {
	var parts []string
	if m.Atomic {
		parts = append(parts, "atomic")
	}
	if m.Continue {
		parts = append(parts, "continueOnFailure")
	}
	if m.Parallel {
		parts = append(parts, "parallel")
	}
	if len(parts) == 0 {
		parts = append(parts, "sequential")
	}
	if m.HTTP {
		parts = append(parts, "http")
	}
	if m.Stream {
		parts = append(parts, "json-stream")
	}
	return strings.Join(parts, "+")
}

// runBulk issues the bulk on the deployment under test and returns one outcome per result received.
func (s *bulkSide) runBulk(t T, ops []bulkOp, m bulkMode, router http.Handler) ([]elemOutcome, string) {
	ids := s.ids()
	var els []bulking.BulkElement
	for _, o := range ops {
		el, _ := o.resolve(ids).element()
		if tr, ok := el.Data.(bulking.TransactionRequest); ok && !o.TS.IsZero() {
			tr.Timestamp.Time = o.TS
			el.Data = tr
		}
		els = append(els, el)
	}
	if !m.HTTP {
		bulk := make(bulking.Bulk, len(els))
		for _, e := range els {
			bulk <- e
		}
		close(bulk)
		results := make(chan bulking.BulkElementResult, len(els))
		err := bulking.NewBulker(s.c, bulking.WithParallelism(4)).Run(context.Background(), bulk, results, bulking.BulkingOptions{Atomic: m.Atomic, ContinueOnFailure: m.Continue, Parallel: m.Parallel})
		if err != nil {
			return nil, "Bulker.Run: " + err.Error()
		}
		var all []bulking.BulkElementResult
		idsAfter := s.ids()
		for r := range results {
			all = append(all, r)
			if tx, ok := r.Data.(ledger.Transaction); ok && r.Error == nil && tx.ID != nil {
				idsAfter = mergeID(idsAfter, *tx.ID)
			}
		}
		var outs []elemOutcome
		for i, r := range all {
			if r.Error != nil {
				var un *pgsim.ErrUnsupported
				if errors.As(r.Error, &un) {
					stats.HarnessError(t, "%v", r.Error)
				}
				outs = append(outs, elemOutcome{Kind: classifyBulk(r.Error), Err: r.Error.Error()})
			} else if tx, ok := r.Data.(ledger.Transaction); ok {
				explicit := i < len(ops) && !ops[i].TS.IsZero()
				v := viewOfTx(tx, idsAfter, explicit)
				outs = append(outs, elemOutcome{OK: true, Tx: &v})
			} else {
				outs = append(outs, elemOutcome{OK: true})
			}
		}
		return outs, ""
	}
	// ---- through the HTTP API
	type wireEl struct {
		Action string `json:"action"`
		IK     string `json:"ik,omitempty"`
		Data   any    `json:"data"`
	}
	var wire []wireEl
	for i, el := range els {
		d := el.Data
		if tr, ok := d.(bulking.TransactionRequest); ok {
			m := map[string]any{"postings": tr.Postings, "metadata": tr.Metadata, "reference": tr.Reference, "force": tr.Force}
			if !ops[i].TS.IsZero() {
				m["timestamp"] = ops[i].TS.Format(time.RFC3339Nano)
			}
			d = m
		}
		wire = append(wire, wireEl{Action: el.Action, IK: el.IdempotencyKey, Data: d})
	}
	body, err := json.Marshal(wire)
	if err != nil {
		stats.HarnessError(t, "marshal bulk: %v", err)
	}
	url := fmt.Sprintf("/v2/%s/_bulk?atomic=%v&continueOnFailure=%v&parallel=%v", s.name, m.Atomic, m.Continue, m.Parallel)
	contentType := "application/json"
	if m.Stream {
		// the same elements, one JSON document after the other
		contentType = "application/vnd.formance.ledger.api.v2.bulk+json-stream"
		var sb bytes.Buffer
		for _, el := range wire {
			b, err := json.Marshal(el)
			if err != nil {
				stats.HarnessError(t, "marshal bulk element: %v", err)
			}
			sb.Write(b)
			sb.WriteByte('\n')
		}
		body = sb.Bytes()
	}
	req := httptest.NewRequest(http.MethodPost, url, bytes.NewReader(body))
	req.Header.Set("Content-Type", contentType)
	rec := httptest.NewRecorder()
	router.ServeHTTP(rec, req)
	var resp struct {
		Data []struct {
			ResponseType     string          `json:"responseType"`
			ErrorCode        string          `json:"errorCode"`
			ErrorDescription string          `json:"errorDescription"`
			Data             json.RawMessage `json:"data"`
			LogID            uint64          `json:"logID"`
		} `json:"data"`
		ErrorCode string `json:"errorCode"`
	}
	if err := json.Unmarshal(rec.Body.Bytes(), &resp); err != nil {
		return nil, fmt.Sprintf("HTTP %d with a body that is not the bulk response: %q", rec.Code, truncate(rec.Body.String(), 300))
	}
	if resp.Data == nil {
		return nil, fmt.Sprintf("HTTP %d %s", rec.Code, truncate(rec.Body.String(), 300))
	}
	var outs []elemOutcome
	anyErr := false
	idsAfter := s.ids()
	txs := make([]*ledger.Transaction, len(resp.Data))
	for i, r := range resp.Data {
		if r.ResponseType != "ERROR" && len(r.Data) > 0 && string(r.Data) != "null" {
			var tx ledger.Transaction
			if err := json.Unmarshal(r.Data, &tx); err != nil {
				return nil, fmt.Sprintf("result %d: data is not a transaction: %v", i, err)
			}
			txs[i] = &tx
			if tx.ID != nil {
				idsAfter = mergeID(idsAfter, *tx.ID)
			}
		}
	}
	for i, r := range resp.Data {
		if r.ResponseType == "ERROR" {
			anyErr = true
			outs = append(outs, elemOutcome{Kind: kindOfCode(r.ErrorCode, r.ErrorDescription), Err: r.ErrorCode + ": " + r.ErrorDescription})
			continue
		}
		if i < len(els) && r.ResponseType != els[i].Action {
			return nil, fmt.Sprintf("result %d has responseType %s for a %s element", i, r.ResponseType, els[i].Action)
		}
		o := elemOutcome{OK: true}
		if txs[i] != nil {
			explicit := i < len(ops) && !ops[i].TS.IsZero()
			v := viewOfTx(*txs[i], idsAfter, explicit)
			o.Tx = &v
		}
		outs = append(outs, o)
	}
	if anyErr && rec.Code != http.StatusBadRequest {
		return nil, fmt.Sprintf("HTTP status %d for a bulk with a failed element (want 400)", rec.Code)
	}
	if !anyErr && rec.Code != http.StatusOK {
		return nil, fmt.Sprintf("HTTP status %d for a bulk without failed element (want 200)", rec.Code)
	}
	return outs, ""
}

// mergeID inserts id into the sorted id list if it is not there yet.
func mergeID(ids []uint64, id uint64) []uint64 {
	for _, v := range ids {
		if v == id {
			return ids
		}
	}
	out := append(append([]uint64{}, ids...), id)
	sort.Slice(out, func(i, j int) bool { return out[i] < out[j] })
	return out
}

func truncate(s string, n int) string {
	if len(s) > n {
		return s[:n] + "…"
	}
	return s
}

// kindOfCode maps the API error code of a bulk element back to the outcome classes used for single requests.
func kindOfCode(code, desc string) ErrKind {
	switch code {
	case "INSUFFICIENT_FUND":
		return ErrInsufficientFunds
	case "CONFLICT":
		return ErrReferenceConflict
	case "NOT_FOUND":
		return ErrNotFound
	case "ALREADY_REVERT":
		return ErrAlreadyReverted
	case "VALIDATION":
		return ErrIdempotencyInput
	case "NO_POSTINGS":
		return ErrNoPostings
	case "INTERNAL":
		if strings.Contains(desc, "context canceled") {
			return errCanceled
		}
	}
	return ErrOther
}

func genBulkOp(t *rapid.T, nCommitted int, prevIK []bulkOp, now time.Time) bulkOp {
	if len(prevIK) > 0 && rapid.IntRange(0, 5).Draw(t, "replayIK") == 0 {
		return prevIK[rapid.IntRange(0, len(prevIK)-1).Draw(t, "replayIdx")]
	}
	pickOrd := func() int {
		if nCommitted == 0 || rapid.IntRange(0, 7).Draw(t, "unknownTx") == 0 {
			return nCommitted + rapid.IntRange(1, 3).Draw(t, "beyond")
		}
		return rapid.IntRange(1, nCommitted).Draw(t, "txOrd")
	}
	kinds := []string{"create", "create", "create", "create", "revert", "saveTxMeta", "deleteTxMeta", "saveAccMeta", "deleteAccMeta"}
	o := bulkOp{evOp: evOp{Kind: rapid.SampledFrom(kinds).Draw(t, "opKind")}}
	switch o.Kind {
	case "create":
		n := rapid.IntRange(1, 3).Draw(t, "nPostings")
		for i := 0; i < n; i++ {
			src := "world"
			if rapid.IntRange(0, 2).Draw(t, "fromAccount") == 0 {
				src = rapid.SampledFrom(evAccounts).Draw(t, "src")
			}
			o.Post = append(o.Post, ledger.NewPosting(src, rapid.SampledFrom(evAccounts).Draw(t, "dst"), gen.Asset().Draw(t, "asset"), big.NewInt(int64(rapid.IntRange(0, 20).Draw(t, "amount")))))
		}
		if rapid.IntRange(0, 3).Draw(t, "withRef") == 0 {
			o.Ref = rapid.SampledFrom(refPool).Draw(t, "ref")
		}
		o.Meta = genMeta(t, "txMeta")
		o.Force = rapid.IntRange(0, 9).Draw(t, "force") == 0
		if rapid.IntRange(0, 3).Draw(t, "explicitTS") == 0 {
			o.TS = now.Add(-time.Duration(rapid.IntRange(1, 1000).Draw(t, "minutesBack")) * time.Minute)
		}
	case "revert":
		o.Ord = pickOrd()
		o.Force = rapid.Bool().Draw(t, "force")
		o.AtEffectiveDate = rapid.IntRange(0, 2).Draw(t, "atEffectiveDate") == 0
	case "saveTxMeta":
		o.Ord = pickOrd()
		o.Meta = map[string]string{rapid.SampledFrom(metaKeys).Draw(t, "key"): gen.FreeText().Draw(t, "val")}
	case "deleteTxMeta":
		o.Ord = pickOrd()
		o.Key = rapid.SampledFrom(metaKeys).Draw(t, "key")
	case "saveAccMeta":
		o.Addr = rapid.SampledFrom(evAccounts).Draw(t, "addr")
		o.Meta = map[string]string{rapid.SampledFrom(metaKeys).Draw(t, "key"): gen.FreeText().Draw(t, "val")}
	case "deleteAccMeta":
		o.Addr = rapid.SampledFrom(evAccounts).Draw(t, "addr")
		o.Key = rapid.SampledFrom(metaKeys).Draw(t, "key")
	}
	if rapid.IntRange(0, 4).Draw(t, "withIK") == 0 {
		o.IK = rapid.SampledFrom(ikPool).Draw(t, "ik")
	}
	return o
}

// genIndependentOps draws elements whose effects commute (for parallel bulks): funded creates from world with distinct postings.
func genIndependentOps(t *rapid.T, n int) []bulkOp {
	var ops []bulkOp
	for i := 0; i < n; i++ {
		o := bulkOp{evOp: evOp{Kind: "create", Post: ledger.Postings{ledger.NewPosting("world", fmt.Sprintf("p:%d", i), gen.Asset().Draw(t, "asset"), big.NewInt(int64(100+i)))},
			Meta: map[string]string{"n": fmt.Sprint(i)}}}
		if rapid.IntRange(0, 5).Draw(t, "dupRef") == 0 {
			o.Ref = "dup" // at most one of these can succeed; which one depends on the schedule
		}
		ops = append(ops, o)
	}
	return ops
}

func TestC32(t *testing.T) {
	st := stats.New("C32", "exploration", ruleC32, assumePgsim,
		"'what the same request would return on its own' is obtained from a twin deployment that starts from the same state (the ops applied so far, replayed as single requests)",
		"parallel bulks are only generated from order-independent elements; their results are matched by position through the HTTP response (the Bulker's channel carries no order)")
	defer st.Write(t)
	n := stats.N(250, 600)
	st.Set("requested_checks", n)
	stats.Check(t, n, 32, func(rt *rapid.T) {
		fs := features.DefaultFeatures
		if rapid.IntRange(0, 3).Draw(rt, "minimalFeatures") == 0 {
			fs = features.MinimalFeatureSet
		}
		a := newBulkSide(rt, fs)
		defer a.env.Close()
		router := a.env.Router()
		var applied []bulkOp
		buildTwin := func() *bulkSide {
			tw := newBulkSide(rt, fs)
			for _, o := range applied {
				tw.single(o)
			}
			return tw
		}
		twin := newBulkSide(rt, fs)
		defer func() { twin.env.Close() }()
		var hist []string
		var prevIK []bulkOp
		if rapid.IntRange(0, 4).Draw(rt, "pristine") != 0 {
			seed := bulkOp{evOp: evOp{Kind: "create", Post: ledger.Postings{ledger.NewPosting("world", "bank", "USD/2", big.NewInt(50)), ledger.NewPosting("world", "a:b", "EUR", big.NewInt(30))}}}
			if out := a.single(seed); !out.OK {
				stats.HarnessError(rt, "seeding failed: %s", out.Err)
			}
			twin.single(seed)
			applied = append(applied, seed)
			hist = append(hist, "seed "+seed.String())
		}
		var midFailures, atomics, atomicFailures, parallels, big, parallelFailures int

		step := func(rt *rapid.T) {
			m := bulkMode{}
			switch rapid.IntRange(0, 5).Draw(rt, "mode") {
			case 1:
				m.Continue = true
			case 2:
				m.Atomic = true
			case 3:
				m.Atomic, m.Continue = true, true
			case 4:
				m.Parallel = true
				m.Continue = rapid.Bool().Draw(rt, "parallelContinue")
			}
			m.HTTP = m.Parallel || rapid.Bool().Draw(rt, "http")
			m.Stream = m.HTTP && rapid.IntRange(0, 2).Draw(rt, "jsonStream") == 0
			size := rapid.IntRange(1, 5).Draw(rt, "bulkSize")
			if rapid.IntRange(0, 5).Draw(rt, "bigBulk") == 0 {
				size = rapid.IntRange(12, 16).Draw(rt, "bigSize")
				big++
			}
			var ops []bulkOp
			now := a.env.Sim.Clock()
			if m.Parallel {
				ops = genIndependentOps(rt, size)
			} else {
				for i := 0; i < size; i++ {
					ops = append(ops, genBulkOp(rt, len(a.ids()), prevIK, now))
				}
			}
			desc := fmt.Sprintf("bulk[%s] %v", m, ops)

			// ---- expected: the same elements as single requests on the twin
			var want []elemOutcome
			failed := false
			var wantApplied []bulkOp
			twinIDs := twin.ids()
			for _, o := range ops {
				if failed && !m.Continue && !m.Parallel {
					want = append(want, elemOutcome{Kind: errCanceled})
					continue
				}
				out := twin.singleAt(o, twinIDs)
				if !out.OK {
					failed = true
				} else {
					wantApplied = append(wantApplied, o)
				}
				want = append(want, out)
			}
			if m.Atomic && failed {
				wantApplied = nil
				twin.env.Close()
				twin = buildTwin()
			}
			// ---- actual
			got, problem := a.runBulk(rt, ops, m, router)
			hist = append(hist, fmt.Sprintf("%s => %v", desc, got))
			history := strings.Join(hist, "\n  ")
			if problem != "" {
				rt.Fatalf("VIOLATION[C32]: %s\nhistory:\n  %s", problem, history)
			}
			if len(got) != len(ops) {
				rt.Fatalf("VIOLATION[C32]: %d results for %d elements\nhistory:\n  %s", len(got), len(ops), history)
			}
			dupRefs := 0
			for _, o := range ops {
				if o.Ref == "dup" {
					dupRefs++
				}
			}
			for i := range ops {
				g, w := got[i], want[i]
				if m.Parallel {
					// which of two conflicting elements wins, which elements are skipped after a failure, and
					// whether an element loses the race for the first use of an account (INSERT INTO accounts
					// without ON CONFLICT: unique violation, not retried) depend on the schedule: only the
					// elements the bulk reports as applied are compared, the rest is covered by the table comparison
					if !g.OK {
						parallelFailures++
						continue
					}
					// the order in which parallel elements commit is free
					if g.Tx != nil && w.Tx != nil {
						gv, wv := *g.Tx, *w.Tx
						gv.Ord, wv.Ord = 0, 0
						g.Tx, w.Tx = &gv, &wv
					}
					if !w.OK && ops[i].Ref == "dup" {
						// on the twin an earlier element took the reference; here this one did
						continue
					}
				}
				if !g.equal(w) {
					rt.Fatalf("VIOLATION[C32]: element %d (%s): the bulk answered %s, the same request on its own answers %s\n  bulk error: %s\nhistory:\n  %s", i, ops[i], got[i], want[i], got[i].Err, history)
				}
			}
			if m.Parallel {
				// resynchronise the twin on what the bulk applied, in the order it committed
				type ao struct {
					ord int
					op  bulkOp
				}
				var aos []ao
				for i, o := range ops {
					if got[i].OK && got[i].Tx != nil {
						aos = append(aos, ao{got[i].Tx.Ord, o})
					}
				}
				sort.Slice(aos, func(i, j int) bool { return aos[i].ord < aos[j].ord })
				wantApplied = nil
				for _, x := range aos {
					applied = append(applied, x.op)
				}
				twin.env.Close()
				twin = buildTwin()
			}
			if sa, sb := a.snapshot(), twin.snapshot(); sa != sb {
				rt.Fatalf("VIOLATION[C32]: after the bulk the ledger differs from the one that received the elements as single requests (%s)\n--- bulk side\n%s--- twin\n%s\nhistory:\n  %s", m, sa, sb, history)
			}
			applied = append(applied, wantApplied...)
			for _, o := range ops {
				if o.IK != "" {
					prevIK = append(prevIK, o)
				}
			}
			firstFail := -1
			for i, w := range want {
				if !w.OK {
					firstFail = i
					break
				}
			}
			if firstFail > 0 && firstFail < len(ops)-1 && len(ops) >= 3 {
				midFailures++
			}
			if m.Atomic {
				atomics++
				if failed {
					atomicFailures++
				}
			}
			if m.Parallel {
				parallels++
			}
			a.env.Sim.AdvanceClock(time.Minute)
			twin.env.Sim.AdvanceClock(time.Minute)
		}
		setSteps(8)
		rt.Repeat(map[string]func(*rapid.T){"bulk": step})
		var classes []string
		if midFailures > 0 {
			classes = append(classes, "failure-in-the-middle")
		}
		if atomics > 0 {
			classes = append(classes, "atomic")
		}
		if atomicFailures > 0 {
			classes = append(classes, "atomic-rolled-back")
		}
		if parallels > 0 {
			classes = append(classes, "parallel")
		}
		if big > 0 {
			classes = append(classes, "bulk>=12-elements")
		}
		if parallelFailures > 0 {
			classes = append(classes, "parallel-element-failed")
		}
		st.Case(strings.Join(hist, "\n"), midFailures >= 1 && atomics >= 1, func() any {
			h := hist
			if len(h) > 5 {
				h = h[:5]
			}
			return map[string]any{"history": h}
		}, classes...)
		st.Add("completed_checks", 1)
	})
}
