package e2

import (
	"encoding/json"
	"fmt"
	"math/big"
	"net/http/httptest"
	"net/url"
	"reflect"
	"strings"
	"testing"

	"pgregory.net/rapid"

	ledger "github.com/formancehq/ledger/internal"
	"github.com/formancehq/ledger/verifharness/env"
	"github.com/formancehq/ledger/verifharness/stats"
)

const ruleC13HTTP = "HTTP leg: a write carrying an idempotency key - a create by postings, a create by script, a revert, a transaction or account metadata save - is sent through a drawn route of the real router (POST /v2 transactions / revert / metadata with the Idempotency-Key header, the v1 routes, a one-element POST /v2/_bulk as JSON or as a JSON stream with the key in the element, a script stream with the key in the //script header, closed by //end, by the end of the body after a newline, or by the end of the body without one) and then again, unchanged, through the same route, 1-2 more times; finally once with another input under the same key. From the committed tables: exactly one log carries the key; every replay is answered with the original transaction (and the Idempotency-Hit header where the route has one) and leaves every table unchanged; the other input is refused (400 / error element) and leaves every table unchanged; non-trivial = a bulk or stream route; distinct = by write + route"

func TestC13HTTP(t *testing.T) {
	st := stats.New("C13", "exploration", ruleC13HTTP, assumePgsim)
	defer st.Write(t)
	n := stats.N(150, 500)
	st.Set("requested_checks_http", n)
	stats.Check(t, n, 1313, func(rt *rapid.T) {
		w := NewWorld(rt, st, env.Options{}, "C13")
		defer w.Close()
		l := w.AddLedger("l1", "b1", GenFeatures(rt))
		w.fund(l, []string{"bank"}, "USD/2", []int64{int64(rapid.IntRange(10, 60).Draw(rt, "balance"))})
		w.CreateTx(l, TxRequest{Postings: ledger.Postings{ledger.NewPosting("world", "u:1", "USD/2", big.NewInt(9))}, Metadata: map[string]string{"k": "v"}})
		router := w.Env.Router()
		ik := "ik-" + rapid.SampledFrom([]string{"1", "x-y", "Z9"}).Draw(rt, "ik")
		kind := rapid.SampledFrom([]string{"postings", "script", "script", "revert", "txMeta", "accMeta"}).Draw(rt, "write")
		routes := map[string][]string{
			"postings": {"v2", "v1", "bulk-json", "bulk-json-stream"},
			"script":   {"v2", "v1", "bulk-json", "bulk-json-stream", "script-stream-end", "script-stream-eof-newline", "script-stream-eof"},
			"revert":   {"v2", "v1", "bulk-json", "bulk-json-stream"},
			"txMeta":   {"v2", "v1", "bulk-json"},
			"accMeta":  {"v2", "v1", "bulk-json"},
		}[kind]
		route := rapid.SampledFrom(routes).Draw(rt, "route")
		amount := rapid.SampledFrom([]int{1, 5, 100}).Draw(rt, "amount") // 100 is more than bank can pay twice (or once)
		// build(variant) renders the request; variant 1 is "another input under the same key"
		build := func(variant int) *httptest.ResponseRecorder {
			amt := amount + variant
			script := fmt.Sprintf("send [USD/2 %d] (\n source = @bank\n destination = @u:2\n)", amt)
			var data map[string]any
			var action, path string
			switch kind {
			case "postings":
				action, path = "CREATE_TRANSACTION", "/transactions"
				data = map[string]any{"postings": []any{map[string]any{"source": "bank", "destination": "u:2", "asset": "USD/2", "amount": amt}}}
			case "script":
				action, path = "CREATE_TRANSACTION", "/transactions"
				data = map[string]any{"script": map[string]any{"plain": script}}
			case "revert":
				action, path = "REVERT_TRANSACTION", "/transactions/2/revert"
				data = map[string]any{"id": 2, "force": variant == 1}
			case "txMeta":
				action, path = "ADD_METADATA", "/transactions/2/metadata"
				data = map[string]any{"targetType": "TRANSACTION", "targetId": 2, "metadata": map[string]string{"m": fmt.Sprint("v", variant)}}
			default:
				action, path = "ADD_METADATA", "/accounts/u:1/metadata"
				data = map[string]any{"targetType": "ACCOUNT", "targetId": "u:1", "metadata": map[string]string{"m": fmt.Sprint("v", variant)}}
			}
			var req httpReq
			hd := map[string]string{"Idempotency-Key": ik}
			single := func(prefix string) httpReq {
				r := httpReq{Method: "POST", Path: prefix + path, Headers: hd, Query: url.Values{}}
				switch kind {
				case "revert":
					if variant == 1 {
						if prefix == "/v2/l1" {
							r.Query.Set("force", "true")
						} else {
							r.Query.Set("disableChecks", "true")
						}
					}
				case "txMeta", "accMeta":
					r.Body = mustJSON(data["metadata"])
				default:
					r.Body = mustJSON(data)
				}
				return r
			}
			switch route {
			case "v2":
				req = single("/v2/l1")
			case "v1":
				req = single("/l1")
			case "bulk-json":
				req = httpReq{Method: "POST", Path: "/v2/l1/_bulk", Body: mustJSON([]any{map[string]any{"action": action, "ik": ik, "data": data}})}
			case "bulk-json-stream":
				req = httpReq{Method: "POST", Path: "/v2/l1/_bulk", Headers: map[string]string{"Content-Type": "application/vnd.formance.ledger.api.v2.bulk+json-stream"},
					Body: append(mustJSON(map[string]any{"action": action, "ik": ik, "data": data}), '\n')}
			default:
				body := "//script ik=" + ik + "\n" + script
				switch route {
				case "script-stream-end":
					body += "\n//end\n"
				case "script-stream-eof-newline":
					body += "\n"
				}
				req = httpReq{Method: "POST", Path: "/v2/l1/_bulk", Headers: map[string]string{"Content-Type": "application/vnd.formance.ledger.api.v2.bulk+script-stream"}, Body: []byte(body)}
			}
			if req.Query == nil {
				req.Query = url.Values{}
			}
			rec := req.do(router)
			if rec == nil {
				rt.Fatalf("HARNESS-ERROR: request could not be built: %s", req)
			}
			return rec
		}
		// outcome of an answer: ok + the transaction id it names (0 when the route returns none), or the error code
		read := func(rec *httptest.ResponseRecorder) (ok bool, txID string, code string, hitHeader bool) {
			doc, _ := decodeJSON(rec.Body.Bytes())
			m, _ := doc.(map[string]any)
			hitHeader = rec.Header().Get("Idempotency-Hit") == "true"
			idOf := func(v any) string {
				x, _ := v.(map[string]any)
				if x == nil {
					return ""
				}
				if id, ok := x["id"]; ok {
					return fmt.Sprint(id)
				}
				return fmt.Sprint(x["txid"])
			}
			if strings.Contains(route, "bulk") || strings.HasPrefix(route, "script-stream") {
				arr, _ := m["data"].([]any)
				if len(arr) != 1 {
					return false, "", fmt.Sprintf("HTTP %d with %d results: %s", rec.Code, len(arr), truncate(rec.Body.String(), 200)), false
				}
				el, _ := arr[0].(map[string]any)
				if el["responseType"] == "ERROR" {
					return false, "", fmt.Sprint(el["errorCode"]), false
				}
				return rec.Code/100 == 2, idOf(el["data"]), "", false
			}
			if rec.Code/100 != 2 {
				return false, "", fmt.Sprint(m["errorCode"]), hitHeader
			}
			if arr, isArr := m["data"].([]any); isArr && len(arr) == 1 {
				return true, idOf(arr[0]), "", hitHeader
			}
			return true, idOf(m["data"]), "", hitHeader
		}
		countKey := func() int {
			n := 0
			for _, r := range w.Env.Sim.Rows("b1", "logs") {
				if r["ledger"].S == "l1" && r["idempotency_key"].S == ik {
					n++
				}
			}
			return n
		}
		desc := fmt.Sprintf("%s of amount/variant %d through %s under key %q", kind, amount, route, ik)
		first := build(0)
		ok0, tx0, code0, _ := read(first)
		if !ok0 {
			// the write itself is refused (bank cannot pay 100): nothing is stored under the key, and replays are refused alike
			if countKey() != 0 {
				rt.Fatalf("VIOLATION[C13]: %s was refused (%s) but a log carries the key", desc, code0)
			}
			st.Case(desc+"refused", false, nil, "first:refused", "route:"+route)
			st.Add("completed_checks_http", 1)
			return
		}
		if countKey() != 1 {
			rt.Fatalf("VIOLATION[C13]: %s succeeded but %d logs carry the key", desc, countKey())
		}
		for i, k := 0, rapid.IntRange(1, 2).Draw(rt, "replays"); i < k; i++ {
			before := w.Env.Sim.Dump()
			rec := build(0)
			ok, tx, code, hit := read(rec)
			if !ok {
				rt.Fatalf("VIOLATION[C13]: replay %d of %s is answered with an error (%s) although the write is committed: %s", i+1, desc, code, truncate(rec.Body.String(), 300))
			}
			if tx != tx0 {
				rt.Fatalf("VIOLATION[C13]: replay %d of %s is answered with transaction %q, the original answer named %q", i+1, desc, tx, tx0)
			}
			if (route == "v2" || route == "v1") && !hit {
				rt.Fatalf("VIOLATION[C13]: replay %d of %s is not flagged with the Idempotency-Hit header", i+1, desc)
			}
			if after := w.Env.Sim.Dump(); !reflect.DeepEqual(before, after) {
				rt.Fatalf("VIOLATION[C13]: replay %d of %s changed the database: the write was applied again\n%s", i+1, desc, dumpDiff(before, after))
			}
		}
		// another input under the same key
		before := w.Env.Sim.Dump()
		rec := build(1)
		ok, _, code, _ := read(rec)
		if ok {
			rt.Fatalf("VIOLATION[C13]: another input sent under the key of %s is accepted: %s", desc, truncate(rec.Body.String(), 300))
		}
		if code != "VALIDATION" {
			rt.Fatalf("VIOLATION[C13]: another input sent under the key of %s is refused with %q, not as a validation error", desc, code)
		}
		if after := w.Env.Sim.Dump(); !reflect.DeepEqual(before, after) {
			rt.Fatalf("VIOLATION[C13]: another input sent under the key of %s was refused but changed the database\n%s", desc, dumpDiff(before, after))
		}
		if countKey() != 1 {
			rt.Fatalf("VIOLATION[C13]: %d logs carry the key after %s and its replays", countKey(), desc)
		}
		st.Case(desc, route != "v2" && route != "v1", func() any { return map[string]any{"write": kind, "route": route, "amount": amount} }, "first:ok", "route:"+route, "write:"+kind)
		st.Add("completed_checks_http", 1)
		_ = json.Number("")
	})
}
