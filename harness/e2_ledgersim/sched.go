package e2

import (
	"fmt"
	"sort"
	"strings"
	"sync"
	"time"

	"github.com/jackc/pgx/v5/pgconn"
	"pgregory.net/rapid"

	"github.com/formancehq/ledger/verifharness/pgsim"
	"github.com/formancehq/ledger/verifharness/stats"
)

// Sched is a cooperative scheduler for N logical writers over one pgsim
// cluster. Every SQL statement (and COMMIT) a writer issues is a yield point;
// exactly one writer runs at a time and the test goroutine decides — by a
// rapid draw, so the interleaving is a generated, shrinkable value — which
// runnable writer proceeds. A writer whose statement needs a lock held by
// another transaction is parked as blocked until that transaction ends.
type Sched struct {
	w       *World
	mu      sync.Mutex
	writers []*writer
	current *writer
	parked  chan *writer
	Trace   []string // "w<i>: <statement head>" in execution order
	// Switches counts context switches that happened while the switched-out writer had an open transaction.
	Switches int
	commits  []commitRec
	stmtSeq  int
	// FaultWriter / FaultAt inject one deadlock error on the FaultAt-th data statement of that writer (0 = none)
	FaultWriter int
	FaultAt     int
	faultFired  bool
}

type commitRec struct {
	Writer int
	Seq    int64
}

type writerState int

const (
	wsNew writerState = iota
	wsYield
	wsBlocked
	wsRunning
	wsDone
)

type writer struct {
	id       int
	name     string
	fn       func()
	resume   chan struct{}
	state    writerState
	waitFor  int64
	inTx     bool
	lastStmt int // statement sequence number when it last blocked
	stmts    int // data statements issued so far
	Panic    any
}

func NewSched(w *World) *Sched {
	s := &Sched{w: w, parked: make(chan *writer)}
	return s
}

// Go registers a writer; it starts when Run is called.
func (s *Sched) Go(name string, fn func()) {
	s.writers = append(s.writers, &writer{id: len(s.writers), name: name, fn: fn, resume: make(chan struct{})})
}

func head(sql string) string {
	sql = strings.Join(strings.Fields(sql), " ")
	if len(sql) > 70 {
		sql = sql[:70]
	}
	return sql
}

func (s *Sched) install() {
	sim := s.w.Env.Sim
	sim.Hooks.BeforeStatement = func(connID int64, inTx bool, sql string) error {
		s.mu.Lock()
		cur := s.current
		s.mu.Unlock()
		if cur == nil {
			return nil // not under scheduling (harness reads)
		}
		cur.inTx = inTx
		s.mu.Lock()
		s.Trace = append(s.Trace, fmt.Sprintf("w%d: %s", cur.id, head(sql)))
		s.stmtSeq++
		s.mu.Unlock()
		s.park(cur, wsYield, 0)
		// an injected deadlock: the drawn writer's k-th data statement is chosen as the victim, once
		// (a retryable failure; what the controller does next is its retry path)
		low := strings.ToLower(strings.TrimSpace(sql))
		if s.FaultAt > 0 && cur.id == s.FaultWriter && !s.faultFired && !strings.HasPrefix(low, "begin") && !strings.HasPrefix(low, "commit") && !strings.HasPrefix(low, "rollback") && !strings.HasPrefix(low, "savepoint") && !strings.HasPrefix(low, "release") {
			cur.stmts++
			if cur.stmts == s.FaultAt {
				s.faultFired = true
				s.mu.Lock()
				s.Trace = append(s.Trace, fmt.Sprintf("w%d: (deadlock injected on that statement)", cur.id))
				s.mu.Unlock()
				return &pgconn.PgError{Severity: "ERROR", Code: "40P01", Message: "deadlock detected"}
			}
		}
		return nil
	}
	sim.Hooks.Blocked = func(connID int64, waitFor int64) {
		s.mu.Lock()
		cur := s.current
		s.mu.Unlock()
		if cur == nil {
			// harness read blocked by a writer's lock: cannot happen with reads only; avoid spinning
			time.Sleep(time.Millisecond)
			return
		}
		s.mu.Lock()
		s.Trace = append(s.Trace, fmt.Sprintf("w%d: (blocked, waits for xid %d)", cur.id, waitFor))
		cur.lastStmt = s.stmtSeq
		s.mu.Unlock()
		s.park(cur, wsBlocked, waitFor)
	}
	sim.Hooks.OnCommit = func(connID int64, seq int64, explicit bool) {
		s.mu.Lock()
		if s.current != nil && explicit {
			s.commits = append(s.commits, commitRec{Writer: s.current.id, Seq: seq})
		}
		s.mu.Unlock()
	}
}

func (s *Sched) uninstall() {
	s.w.Env.Sim.Hooks = pgsim.Hooks{}
}

// park hands control back to the scheduler and waits to be resumed.
func (s *Sched) park(w *writer, st writerState, waitFor int64) {
	s.mu.Lock()
	w.state = st
	w.waitFor = waitFor
	s.mu.Unlock()
	s.parked <- w
	<-w.resume
	s.mu.Lock()
	w.state = wsRunning
	s.mu.Unlock()
}

// Run executes all writers to completion under a drawn schedule. It returns
// false (after reporting a harness error or violation) if the run got stuck.
func (s *Sched) Run(t *rapid.T) bool {
	// The shape of the interleaving is itself drawn:
	//  sticky 0      a fresh uniform choice at every statement;
	//  sticky n      the running writer usually keeps the processor (few, long-lived context switches);
	//  preempt       writers run to completion one after the other, except that one drawn writer is preempted
	//                once, right before a COMMIT / RELEASE SAVEPOINT of its own, and another one runs in that
	//                window (the "B starts after A committed while C is about to commit" family).
	mode := rapid.SampledFrom([]string{"uniform", "uniform", "sticky2", "sticky5", "sticky12", "preempt", "preempt"}).Draw(t, "scheduleShape")
	sticky := map[string]int{"sticky2": 2, "sticky5": 5, "sticky12": 12}[mode]
	var last *writer
	victim, preempted := -1, false
	if mode == "preempt" {
		victim = rapid.IntRange(0, len(s.writers)-1).Draw(t, "preemptedWriter")
	}
	contains := func(rs []*writer, w *writer) bool {
		for _, r := range rs {
			if r == w {
				return true
			}
		}
		return false
	}
	pending := func(w *writer) string {
		s.mu.Lock()
		defer s.mu.Unlock()
		prefix := fmt.Sprintf("w%d: ", w.id)
		for i := len(s.Trace) - 1; i >= 0; i-- {
			if strings.HasPrefix(s.Trace[i], prefix) {
				return strings.ToUpper(strings.TrimPrefix(s.Trace[i], prefix))
			}
		}
		return ""
	}
	return s.RunWith(t, func(runnable []*writer) *writer {
		if mode == "preempt" {
			if last != nil && contains(runnable, last) {
				if last.id == victim && !preempted && rapid.IntRange(0, 2).Draw(t, "preemptHere") != 0 {
					if p := pending(last); strings.HasPrefix(p, "COMMIT") || strings.HasPrefix(p, "RELEASE") {
						preempted = true
						var others []*writer
						for _, r := range runnable {
							if r != last {
								others = append(others, r)
							}
						}
						if len(others) > 0 {
							last = others[rapid.IntRange(0, len(others)-1).Draw(t, "runInTheWindow")]
							return last
						}
					}
				}
				return last
			}
			last = runnable[rapid.IntRange(0, len(runnable)-1).Draw(t, "next")]
			return last
		}
		if sticky > 0 && last != nil && contains(runnable, last) && rapid.IntRange(0, sticky).Draw(t, "stay") != 0 {
			return last
		}
		last = runnable[rapid.IntRange(0, len(runnable)-1).Draw(t, "next")]
		return last
	})
}

// RunWith is Run with an explicit policy choosing among the runnable writers (for pinned reproducers).
func (s *Sched) RunWith(t T, choose func(runnable []*writer) *writer) bool {
	s.install()
	defer uninstallAfter(s)
	for _, w := range s.writers {
		w := w
		go func() {
			<-w.resume // first grant
			defer func() {
				if r := recover(); r != nil {
					w.Panic = r
				}
				s.mu.Lock()
				w.state = wsDone
				s.mu.Unlock()
				s.parked <- w
			}()
			w.fn()
		}()
		w.state = wsYield
	}
	steps := 0
	deadlocksBefore := s.w.Env.Sim.Deadlocks()
	var last *writer
	for {
		var runnable []*writer
		done := 0
		s.mu.Lock()
		for _, w := range s.writers {
			switch w.state {
			case wsDone:
				done++
			case wsYield:
				runnable = append(runnable, w)
			case wsBlocked:
				// runnable again once the blocking transaction ended; for waits that are not on a
				// transaction (session advisory lock) once anybody else made progress
				if w.waitFor > 0 {
					if !s.w.Env.Sim.XactActive(w.waitFor) {
						runnable = append(runnable, w)
					}
				} else if w.waitFor <= -(1 << 40) {
					// waits for a session-level advisory lock: runnable once its holder has released it
					if !s.w.Env.Sim.SessionLockHeld(w.waitFor) {
						runnable = append(runnable, w)
					}
				} else if s.stmtSeq > w.lastStmt {
					runnable = append(runnable, w)
				}
			}
		}
		s.mu.Unlock()
		if done == len(s.writers) {
			return true
		}
		if len(runnable) == 0 {
			// no request of the run will ever be answered: whatever property the run decides, this fails it
			code := "C06"
			for c := range s.w.Focus {
				code = c
			}
			s.w.V(code, "every remaining writer is blocked and PostgreSQL's deadlock detector has nothing to break: the requests hang\nschedule:\n  %s", strings.Join(s.Trace, "\n  "))
			s.abortAll()
			return false
		}
		var pick *writer
		if len(runnable) == 1 {
			pick = runnable[0]
		} else {
			pick = choose(runnable)
		}
		if last != nil && last != pick && last.state != wsDone && last.inTx {
			s.Switches++
		}
		last = pick
		s.mu.Lock()
		s.current = pick
		s.mu.Unlock()
		pick.resume <- struct{}{}
		select {
		case <-s.parked:
		case <-time.After(60 * time.Second):
			stats.HarnessError(t, "writer %s did not reach a yield point within 60 s (blocked outside the database?)\nschedule:\n  %s", pick.name, strings.Join(s.Trace, "\n  "))
			return false
		}
		s.mu.Lock()
		s.current = nil
		s.mu.Unlock()
		steps++
		if steps > 20000 {
			tail := s.Trace
			if len(tail) > 40 {
				tail = tail[len(tail)-40:]
			}
			if n := s.w.Env.Sim.Deadlocks() - deadlocksBefore; n >= 100 {
				// the requests are alive but go round in circles: each retry of the code under test deadlocks again
				code := "C06"
				for c := range s.w.Focus {
					code = c
				}
				s.abortAll()
				s.w.V(code, "the requests never complete: %d deadlocks were detected and retried over 20000 scheduling steps (a livelock of the retry path)\nlast statements:\n  %s", n, strings.Join(tail, "\n  "))
				return false
			}
			stats.HarnessError(t, "schedule exceeded 20000 steps; last statements:\n  %s", strings.Join(tail, "\n  "))
			return false
		}
	}
}

func uninstallAfter(s *Sched) {
	s.mu.Lock()
	s.current = nil
	s.mu.Unlock()
	s.uninstall()
}

// abortAll lets parked goroutines run to completion without scheduling (best effort clean-up).
func (s *Sched) abortAll() {
	s.uninstall()
	for _, w := range s.writers {
		if w.state != wsDone {
			select {
			case w.resume <- struct{}{}:
			default:
			}
		}
	}
}

// CommitOrder lists writer ids in the order of their last explicit COMMIT (the
// commit that makes a write durable is the last one a writer issues).
func (s *Sched) CommitOrder() []int {
	last := map[int]int64{}
	for _, c := range s.commits {
		last[c.Writer] = c.Seq
	}
	out := make([]int, 0, len(last))
	for w := range last {
		out = append(out, w)
	}
	sort.Slice(out, func(i, j int) bool { return last[out[i]] < last[out[j]] })
	return out
}
