package e2

import (
	"bytes"
	"encoding/json"
	"fmt"
	"math/big"
	"sort"
	"strings"
	"testing"

	"pgregory.net/rapid"

	ledger "github.com/formancehq/ledger/internal"
	"github.com/formancehq/ledger/internal/api/bulking"
	ledgercontroller "github.com/formancehq/ledger/internal/controller/ledger"
	"github.com/formancehq/ledger/verifharness/env"
	"github.com/formancehq/ledger/verifharness/pgsim"
	"github.com/formancehq/ledger/verifharness/stats"
)

const ruleC12Conc = "an Import racing with first writes: a source ledger with 2-5 transactions is exported; on a fresh ledger of another bucket ('initializing') the Import of that stream and 1-3 writes (a create on an asset and a destination of its own, an account metadata write, or an atomic bulk of two creates; controller chains opened before or when the writer starts) run under a drawn statement-level interleaving (uniform, sticky and preempt-before-COMMIT shapes). From the committed tables: if the Import reports success, the whole stream is stored, its logs are consecutive in commit order with no other log before or between them, and every write that went through carries larger ids (it saw the imported state); if the Import is refused, none of its logs is stored; every writer gets an answer and every write is answered with success; log ids increase in commit order; the copy's journal replayed by id equals its reads; non-trivial = >= 1 context switch while the Import or a first write holds an open transaction; distinct = by writers + schedule"

// TestC12Concurrent decides the interleaving half of the property.
func TestC12Concurrent(t *testing.T) { runC12Concurrent(t, false, 200, 700) }

// TestC12ConcurrentHTTP: the Import arrives through POST /v2/{ledger}/logs/import with a stream of 101-160 logs (the
// handler feeds the controller while it reads the body), racing with first writes.
func TestC12ConcurrentHTTP(t *testing.T) { runC12Concurrent(t, true, 12, 60) }

func runC12Concurrent(t *testing.T, viaRoute bool, quick, thorough int) {
	rule := ruleC12Conc
	if viaRoute {
		rule = "the Import is a POST /v2/{ledger}/logs/import request carrying 101-160 logs: " + ruleC12Conc
	}
	st := stats.New("C12", "exploration", rule, assumePgsim, assumeSched)
	defer st.Write(t)
	n := stats.N(quick, thorough)
	st.Set(fmt.Sprintf("requested_checks_concurrent_route_%v", viaRoute), n)
	stats.Check(t, n, 1212, func(rt *rapid.T) {
		w := NewWorld(rt, st, env.Options{}, "C12", "C06") // C06: the scheduler files a hang of all writers under that code
		defer w.Close()
		fs := GenFeatures(rt)
		src := w.AddLedger("src", "b1", fs)
		k := rapid.IntRange(2, 5).Draw(rt, "sourceTransactions")
		if viaRoute {
			k = rapid.IntRange(101, 160).Draw(rt, "sourceTransactionsLong")
		}
		for i := 0; i < k; i++ {
			out := w.CreateTx(src, TxRequest{Postings: ledger.Postings{ledger.NewPosting("world", fmt.Sprintf("s:%d", i%2), "USD/2", big.NewInt(int64(10+i)))}, Metadata: map[string]string{"origin": "src"}})
			if out.Kind != ErrNone {
				w.harness("source write failed: %v", out.Err)
			}
		}
		stream := w.exportLogs(src)
		// the source moves on: a later stream starts beyond whatever the copy will hold by then
		for i := 0; i < 12; i++ {
			if out := w.CreateTx(src, TxRequest{Postings: ledger.Postings{ledger.NewPosting("world", "s:late", "USD/2", big.NewInt(int64(1+i)))}, Metadata: map[string]string{"origin": "src-late"}}); out.Kind != ErrNone {
				w.harness("source write failed: %v", out.Err)
			}
		}
		lateStream := w.exportLogs(src)
		dst := w.AddLedger("dst", "b2", fs)
		nw := rapid.IntRange(1, 3).Draw(rt, "writes")
		type res struct {
			err  error
			desc string
		}
		outs := make([]res, nw+1)
		s := NewSched(w)
		open := func(pre bool) func() (ctrl, error) {
			if pre {
				c, err := w.Env.Ledger(w.Ctx, dst.Name)
				return func() (ctrl, error) { return c, err }
			}
			return func() (ctrl, error) { return w.Env.Ledger(w.Ctx, dst.Name) }
		}
		importer := open(rapid.Bool().Draw(rt, "importerOpenedEarly"))
		outs[0].desc = fmt.Sprintf("import of %d logs", len(stream))
		s.Go("w0", func() {
			c, err := importer()
			if err != nil {
				outs[0].err = err
				return
			}
			if viaRoute {
				var body bytes.Buffer
				for _, lg := range stream {
					b, _ := json.Marshal(lg)
					body.Write(b)
					body.WriteByte('\n')
				}
				rec := w.httpCall("POST", "/v2/dst/logs/import", body.Bytes())
				if rec.Code/100 != 2 {
					outs[0].err = fmt.Errorf("HTTP %d: %s", rec.Code, truncate(rec.Body.String(), 200))
				}
				return
			}
			ch := make(chan ledger.Log, len(stream))
			for _, lg := range stream {
				ch <- lg
			}
			close(ch)
			outs[0].err = c.Import(w.Ctx, ch)
		})
		for i := 1; i <= nw; i++ {
			i := i
			get := open(rapid.Bool().Draw(rt, "writerOpenedEarly"))
			kind := rapid.SampledFrom([]string{"create", "create", "metadata", "atomic-bulk", "ledger-metadata"}).Draw(rt, "writeKind")
			outs[i].desc = fmt.Sprintf("%s #%d", kind, i)
			mk := func(j int) TxRequest {
				return TxRequest{Postings: ledger.Postings{ledger.NewPosting("world", fmt.Sprintf("p:%d:%d", i, j), fmt.Sprintf("A%d", i), big.NewInt(int64(i)))}, Metadata: map[string]string{"origin": fmt.Sprintf("w%d", i)}}
			}
			s.Go(fmt.Sprintf("w%d", i), func() {
				c, err := get()
				if err != nil {
					outs[i].err = err
					return
				}
				switch kind {
				case "ledger-metadata":
					// not a write of the journal: the metadata of the ledger itself, kept in the row that also holds its state
					if viaRoute {
						if rec := w.httpCall("PUT", "/v2/dst/metadata", []byte(fmt.Sprintf(`{"owner":"w%d"}`, i))); rec.Code/100 != 2 {
							outs[i].err = fmt.Errorf("HTTP %d: %s", rec.Code, truncate(rec.Body.String(), 200))
						}
					} else {
						outs[i].err = w.Env.System.UpdateLedgerMetadata(w.Ctx, dst.Name, map[string]string{"owner": fmt.Sprintf("w%d", i)})
					}
				case "create":
					_, _, _, outs[i].err = c.CreateTransaction(w.Ctx, mk(0).params())
				case "metadata":
					_, _, outs[i].err = c.SaveAccountMetadata(w.Ctx, saveAccMetaParams(fmt.Sprintf("m:%d", i), map[string]string{"origin": fmt.Sprintf("w%d", i)}))
				default:
					bulk := make(bulking.Bulk, 2)
					bulk <- createElementMeta(mk(0))
					bulk <- createElementMeta(mk(1))
					close(bulk)
					results := make(chan bulking.BulkElementResult, 2)
					outs[i].err = bulking.NewBulker(c, bulking.WithParallelism(1)).Run(w.Ctx, bulk, results, bulking.BulkingOptions{Atomic: true})
					for r := range results {
						if r.Error != nil && outs[i].err == nil {
							outs[i].err = r.Error
						}
					}
				}
			})
		}
		if !s.Run(rt) {
			return
		}
		sched := strings.Join(s.Trace, "\n  ")
		var sb strings.Builder
		for i, o := range outs {
			fmt.Fprintf(&sb, "  w%d %s => %v\n", i, o.desc, o.err)
			if o.err != nil {
				w.checkErr(o.err)
			}
		}
		describe := sb.String()
		// ---- the journal of dst in commit order
		var rows []map[string]pgsim.Value
		for _, r := range w.Env.Sim.Rows(dst.Bucket, "logs") {
			if r["ledger"].S == dst.Name {
				rows = append(rows, r)
			}
		}
		sort.Slice(rows, func(i, j int) bool { return rows[i]["seq"].N.Cmp(rows[j]["seq"].N) < 0 })
		origin := func(r map[string]pgsim.Value) string {
			data, _ := r["data"].J.(map[string]any)
			if tx, ok := data["transaction"].(map[string]any); ok {
				if md, ok := tx["metadata"].(map[string]any); ok {
					return fmt.Sprint(md["origin"])
				}
			}
			if md, ok := data["metadata"].(map[string]any); ok {
				return fmt.Sprint(md["origin"])
			}
			return "?"
		}
		var journal []string
		imported, firstImported, lastImported, firstWrite := 0, -1, -1, -1
		var maxImportedID, minWriteID *big.Int
		for i, r := range rows {
			o := origin(r)
			journal = append(journal, fmt.Sprintf("%s(id %s)", o, r["id"].N))
			if i > 0 && r["id"].N.Cmp(rows[i-1]["id"].N) <= 0 {
				w.V("C12", "log ids do not increase in commit order on the ledger an Import raced on: %v\n%sschedule:\n  %s", journal, describe, sched)
			}
			if o == "src" {
				imported++
				if firstImported < 0 {
					firstImported = i
				}
				lastImported = i
				maxImportedID = r["id"].N
			} else {
				if firstWrite < 0 {
					firstWrite = i
				}
				if minWriteID == nil {
					minWriteID = r["id"].N
				}
			}
		}
		if outs[0].err == nil {
			switch {
			case imported != len(stream):
				w.V("C12", "the Import reported success but %d of its %d logs are stored: %v\n%sschedule:\n  %s", imported, len(stream), journal, describe, sched)
			case firstImported != 0 || lastImported != len(stream)-1:
				w.V("C12", "the Import succeeded although it interleaved with a write (journal in commit order: %v): a write accepted first must make the Import fail, a write arriving later must wait for it\n%sschedule:\n  %s", journal, describe, sched)
			case minWriteID != nil && minWriteID.Cmp(maxImportedID) <= 0:
				w.V("C12", "a write that followed the Import did not see the imported state (journal: %v)\n%sschedule:\n  %s", journal, describe, sched)
			}
		} else if imported != 0 {
			w.V("C12", "the Import was refused (%v) but %d of its logs are stored (journal in commit order: %v): a refused Import must have no effect\n%sschedule:\n  %s", outs[0].err, imported, journal, describe, sched)
		}
		for i := 1; i <= nw; i++ {
			if outs[i].err != nil && classify(outs[i].err) != ErrAccountRace {
				w.V("C12", "write w%d racing with an Import failed: %v (journal in commit order: %v)\n%sschedule:\n  %s", i, outs[i].err, journal, describe, sched)
			}
		}
		// ---- once the ledger holds a committed write of its own (imported logs do not count: an import may be continued)
		// it is no import target any more, whatever else happened to its row
		if firstWrite >= 0 {
			maxID := rows[len(rows)-1]["id"].N.Uint64()
			for _, r := range rows {
				if r["id"].N.Uint64() > maxID {
					maxID = r["id"].N.Uint64()
				}
			}
			var late []ledger.Log
			for _, lg := range lateStream {
				if *lg.ID > maxID {
					late = append(late, lg)
				}
			}
			if len(late) > 0 {
				w.Reopen(dst)
				err := w.importLogs(dst, late)
				stored := 0
				for _, r := range w.Env.Sim.Rows(dst.Bucket, "logs") {
					if r["ledger"].S == dst.Name && origin(r) == "src-late" {
						stored++
					}
				}
				if err == nil || stored > 0 {
					w.V("C12", "an Import of logs %d..%d sent after the race was answered %v and stored %d logs, although the ledger already held %d committed logs (journal in commit order: %v): a ledger that accepted a write must refuse imports\n%sschedule:\n  %s", *late[0].ID, *late[len(late)-1].ID, err, stored, len(rows), journal, describe, sched)
				}
				st.Class("late-import-refused")
			}
		}
		// ---- the journal alone still determines the state
		w.Reopen(dst)
		exported := w.exportLogs(dst)
		if replayed, err := ReplayLogs(exported); err != nil {
			w.V("C12", "the journal cannot be replayed after the race: %v\n%s", err, describe)
		} else {
			dst.M = replayed
			for _, lg := range exported {
				dst.M.Logs = append(dst.M.Logs, logOf(*lg.ID, lg.Type.String(), nil))
			}
			dst.Ops = []string{"(after the race)\n" + describe}
			w.Focus = nil
			w.CheckTransactions(dst, nil, 15, 0)
			w.CheckAccounts(dst, nil, 15)
			w.CheckVolumes(dst, nil, nil, false, 0, 15)
			w.Focus = map[string]bool{"C12": true}
		}
		verdict := "import-accepted"
		if outs[0].err != nil {
			verdict = "import-refused"
		}
		st.Case(describe+sched, s.Switches >= 1, func() any {
			return map[string]any{"outcomes": strings.Split(strings.TrimSpace(describe), "\n"), "journal_in_commit_order": journal}
		}, verdict, fmt.Sprintf("writes:%d", nw), fmt.Sprintf("switches:%d", min(s.Switches, 5)))
		st.Add("completed_checks_concurrent", 1)
	})
}

type ctrl = ledgercontroller.Controller

func saveAccMetaParams(addr string, m map[string]string) ledgercontroller.Parameters[ledgercontroller.SaveAccountMetadata] {
	return ledgercontroller.Parameters[ledgercontroller.SaveAccountMetadata]{Input: ledgercontroller.SaveAccountMetadata{Address: addr, Metadata: toMD(m)}}
}

func createElementMeta(r TxRequest) bulking.BulkElement {
	return bulking.BulkElement{Action: bulking.ActionCreateTransaction, Data: bulking.TransactionRequest{Postings: r.Postings, Metadata: toMD(r.Metadata)}}
}
