package e2

import (
	"fmt"
	"math/big"
	"testing"
	"time"

	"pgregory.net/rapid"

	"github.com/formancehq/go-libs/v5/pkg/storage/bun/paginate"
	libtime "github.com/formancehq/go-libs/v5/pkg/types/time"

	ledger "github.com/formancehq/ledger/internal"
	"github.com/formancehq/ledger/internal/storage/common"
	"github.com/formancehq/ledger/pkg/features"
	"github.com/formancehq/ledger/verifharness/env"
	"github.com/formancehq/ledger/verifharness/known"

	"github.com/formancehq/ledger/verifharness/stats"
)

const histGen = "stateful histories (creates by postings incl. repeated accounts, self postings, zero/huge amounts, back-dated/tied/future timestamps, references; creates by generated Numscript on both runtimes; reverts force x atEffectiveDate; transaction/account metadata save/delete; dry runs; failing writes; clock advances; controller re-opens) applied to the real system controller + ledger controller chain + storage driver + ledger store over the pgsim stand-in and to the reference model"

var knownLines = map[string][]string{}

// postRun hooks let a property add end-of-history checks.
var postRun = map[string]func(rt *rapid.T, w *World, l *LState){}

func runFocused(t *testing.T, id, rule string, o HistOpts, quick, thorough int, nontrivial func(*HistorySummary) bool, assumptions ...string) {
	st := stats.New(id, "exploration", rule, append([]string{assumePgsim}, assumptions...)...)
	defer st.Write(t)
	for _, line := range knownLines[id] {
		fmt.Println(line)
		st.Known(line)
	}
	n := stats.N(quick, thorough)
	st.Set("requested_checks", n)
	if len(o.Focus) == 0 {
		o.Focus = []string{id}
	}
	stats.Check(t, n, 0, func(rt *rapid.T) {
		w, l, sum := RunHistory(rt, st, o)
		defer w.Close()
		if f := postRun[id]; f != nil {
			f(rt, w, l)
		}
		st.Case(sum.Key, nontrivial(sum), sampleHistory(l), classesOf(sum)...)
		st.Add("completed_checks", 1)
	})
}

func TestC01(t *testing.T) {
	runFocused(t, "C01", histGen+"; after every step a drawn read and at the end a full sweep: per asset, balances of the volumes listing (now / PIT / window, both date modes, grouped) and aggregated balances (now / PIT) must sum to zero; non-trivial = >= 1 multi-touch or self-posting transaction and >= 1 revert; distinct = by operation history",
		HistOpts{Features: GenFeatures, Steps: 25, Scripts: true, Reverts: true, Metadata: false, Reads: true, FinalReads: true, PITReads: true, MaxPostings: 5, SecondLedger: true}, 400, 900,
		func(s *HistorySummary) bool { return (s.MultiTouch >= 1 || s.SelfPosting >= 1) && s.Reverts >= 1 })
}

func TestC03(t *testing.T) {
	runFocused(t, "C03", histGen+"; every committed transaction's postCommitVolumes (in the write response and in every later listing, any page size/order, with or without PIT) must equal the fold up to that transaction for exactly the touched account/asset pairs; preCommitVolumes are checked through the JSON rendering; non-trivial = >= 1 transaction touching one account/asset several times and >= 3 commits; distinct = by operation history",
		HistOpts{Features: GenFeatures, Steps: 25, Scripts: true, Reverts: true, Reads: true, FinalReads: true, PITReads: true, MaxPostings: 8, SecondLedger: true}, 400, 900,
		func(s *HistorySummary) bool { return s.MultiTouch >= 1 && s.Commits >= 3 })
}

func TestC05(t *testing.T) {
	runFocused(t, "C05", histGen+"; reads at generated instants (exactly on, 1us before/after, and far from recorded effective/insertion/revert dates) with optional start of window, both date modes and grouping: transactions, accounts (+volumes/effectiveVolumes), volumes, aggregated balances are compared with the fold of the model's moves in that window; non-trivial = >= 1 back-dated transaction, >= 1 revert and >= 1 PIT read; distinct = by operation history",
		HistOpts{Features: FullFeatures, Steps: 25, Scripts: false, Reverts: true, Metadata: true, Reads: true, FinalReads: true, PITReads: true, SecondLedger: true}, 400, 900,
		func(s *HistorySummary) bool { return s.BackDated >= 1 && s.Reverts >= 1 && s.PITReads >= 1 })
}

func init() {
	// C01 / C05: the volumes of a generated window listed page by page: per asset the rows of one listing must balance
	// (every page comes from the same state of the ledger) and equal the fold
	for _, id := range []string{"C01", "C05"} {
		postRun[id] = func(rt *rapid.T, w *World, l *LState) {
			for i := 0; i < 2; i++ {
				w.windowedVolumesWalk(rt, l)
			}
		}
	}
	postRun["C08"] = func(rt *rapid.T, w *World, l *LState) {
		// a dry run replayed by the retry path (its first attempt is the victim of a deadlock at a drawn statement)
		// must still append nothing to the journal
		if rapid.IntRange(0, 1).Draw(rt, "dryRunUnderDeadlock") == 0 {
			before := len(w.Env.Sim.Rows(l.Bucket, "logs"))
			k := rapid.IntRange(1, 8).Draw(rt, "deadlockAtStatement")
			req := TxRequest{Postings: ledger.Postings{ledger.NewPosting("world", "bank", "USD/2", big.NewInt(3))}, DryRun: true}
			var out TxOutcome
			tr := withFault(w.Env.Sim, faultPlan{Kind: "deadlock", At: k}, func() { out = w.CreateTx(l, req) })
			if after := len(w.Env.Sim.Rows(l.Bucket, "logs")); after != before {
				w.V("C08", "a dry run (deadlock injected at statement %d, fired=%v, outcome %v) appended %d log(s) to the journal\nhistory:\n  %s", k, tr.Fired, out.Err, after-before, l.History())
			}
		}
		logs := w.CheckLogs(l, 15, paginate.OrderAsc)
		replayed, err := ReplayLogs(logs)
		if err != nil {
			w.V("C08", "the journal cannot be replayed: %v\nhistory:\n  %s", err, l.History())
			return
		}
		if d := CompareModels(l.M, replayed); d != "" {
			w.V("C08", "replaying the log payloads alone does not reproduce the ledger: %s\nhistory:\n  %s", d, l.History())
		}
		// and the live reads agree with the replayed model as well
		keep := l.M
		l.M = replayed
		replayed.Logs = keep.Logs
		// whatever differs here - volumes, metadata, first usages - is a disagreement between the journal and the state
		focus := w.Focus
		w.Focus = nil
		w.CheckTransactions(l, nil, 15, paginate.OrderAsc)
		w.CheckAccounts(l, nil, 15)
		w.CheckVolumes(l, nil, nil, false, 0, 15)
		w.Focus = focus
		l.M = keep
	}
}

func TestC08(t *testing.T) {
	runFocused(t, "C08", histGen+"; every committed write must return exactly one log whose id exceeds all earlier ones, failed/dry-run/read operations none; the journal listing (both orders, any page size) must equal the sequence of committed writes; at the end the exported log payloads alone are replayed into a fresh reference model which must equal the live ledger's reads; non-trivial = history with a revert, a metadata delete and >= 3 commits; distinct = by operation history",
		HistOpts{Features: GenFeatures, Steps: 25, Scripts: true, Reverts: true, Metadata: true, Reads: true, FinalReads: true, Bulks: true}, 400, 900,
		func(s *HistorySummary) bool { return s.Reverts >= 1 && s.MetaOps >= 1 && s.Commits >= 3 })
}

func TestC15(t *testing.T) {
	runFocused(t, "C15", histGen+", biased to reverts (incl. reverts of reverts, of unknown ids, repeated reverts); the revert response must carry the original postings reversed and swapped, the revert mark, the right timestamp; the original must read back reverted exactly once; outcome (ok / already-reverted / not-found / insufficient funds) must match the model; non-trivial = >= 2 reverts of multi-posting transactions and >= 1 refused revert; distinct = by operation history",
		HistOpts{Focus: []string{"C15"}, Features: GenFeatures, Steps: 30, Reverts: true, Reads: true, FinalReads: true, MaxPostings: 4}, 400, 900,
		func(s *HistorySummary) bool { return s.Reverts >= 2 && s.Failures >= 1 })
}

func TestC17(t *testing.T) {
	runFocused(t, "C17", histGen+", biased to metadata operations, over the 4 combinations of the two metadata-history features; current metadata must equal last-write-wins minus deletions; reads at generated instants must return the metadata as of that instant when the resource's history feature is SYNC and the current metadata when it is DISABLED; non-trivial = >= 3 metadata writes and >= 1 PIT read; distinct = by operation history",
		HistOpts{Features: GenFeatures, Steps: 30, Scripts: true, Reverts: true, Metadata: true, Reads: true, FinalReads: true, PITReads: true, SecondLedger: true}, 400, 900,
		func(s *HistorySummary) bool { return s.MetaOps >= 3 && s.PITReads >= 1 })
}

// reproduceRevertFirstUsage is the pinned reproducer of known finding C18-revert-first-usage.
func reproduceRevertFirstUsage() bool {
	w := NewWorld(&quietT{}, nil, env.Options{})
	defer w.Close()
	l := w.AddLedger("l1", "b1", features.DefaultFeatures)
	now := w.Env.Sim.Clock()
	out := w.CreateTx(l, TxRequest{Postings: ledger.Postings{ledger.NewPosting("world", "u:1", "USD/2", big.NewInt(5))}, Timestamp: now.Add(24 * time.Hour)})
	if out.Kind != ErrNone {
		return false
	}
	if w.Revert(l, RevertRequest{ID: *out.Tx.ID, Force: true}).Kind != ErrNone {
		return false
	}
	pit := libtime.New(now.Add(time.Hour))
	cur, err := l.C.ListAccounts(w.Ctx, common.InitialPaginatedQuery[any]{PageSize: 15, Options: common.ResourceQuery[any]{PIT: &pit}})
	if err != nil {
		return false
	}
	for _, a := range cur.Data {
		if a.Address == "u:1" {
			return false
		}
	}
	return true // u:1 is involved in a committed transaction dated `now` but is not listed an hour later
}

func TestC18(t *testing.T) {
	if known.IsOpen(FindingRevertFirstUsage) && reproduceRevertFirstUsage() {
		knownLines["C18"] = append(knownLines["C18"], known.Line(FindingRevertFirstUsage))
	}
	runFocused(t, "C18", histGen+"; the accounts listing (now and at generated instants) must contain exactly the accounts involved in a committed posting or metadata write, with firstUsage = earliest effective timestamp among those events and a constant insertionDate; non-trivial = >= 1 back-dated transaction and >= 1 metadata-only account write; distinct = by operation history",
		HistOpts{Features: GenFeatures, Steps: 25, Scripts: true, Reverts: true, Metadata: true, Reads: true, FinalReads: true, PITReads: true}, 400, 900,
		func(s *HistorySummary) bool { return s.BackDated >= 1 && s.MetaOps >= 1 })
}

func TestC07(t *testing.T) {
	runFocused(t, "C07", histGen+"; around every write that returns an error (insufficient funds, reference conflict, unknown/already reverted transaction, missing metadata, script failure) or is a dry run, the raw content of every table of the stand-in is compared before/after and must be identical; non-trivial = >= 2 failed writes, >= 1 dry run and >= 2 commits; distinct = by operation history",
		HistOpts{Features: GenFeatures, Steps: 30, Scripts: true, Reverts: true, Metadata: true, NoTrace: true, Reads: false, FinalReads: true, Bulks: true}, 400, 900,
		func(s *HistorySummary) bool { return s.Failures >= 2 && s.DryRuns >= 1 && s.Commits >= 2 })
}
