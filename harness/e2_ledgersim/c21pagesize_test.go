package e2

import (
	"encoding/json"
	"fmt"
	"net/url"
	"strings"

	"pgregory.net/rapid"

	"github.com/formancehq/ledger/pkg/features"
)

// variablePageWalk walks one listing of the API whose page size changes along the way: the first page is asked with
// pageSize=a, every following page with the cursor the API returned and a pageSize of its own (the routes let the
// parameter override the size recorded in the cursor). Whatever the sizes, following next cursors must return every
// entity of the listing exactly once and in order - the same sequence one large page returns.
func (w *World) variablePageWalk(rt *rapid.T, l *LState) (string, int) {
	type listing struct {
		name, path string
		key        func(map[string]any) string
		params     url.Values
	}
	id := func(m map[string]any) string { return fmt.Sprint(m["id"]) }
	ls := []listing{
		{"accounts", "/v2/" + l.Name + "/accounts", func(m map[string]any) string { return fmt.Sprint(m["address"]) }, nil},
		{"volumes", "/v2/" + l.Name + "/volumes", func(m map[string]any) string { return fmt.Sprint(m["account"], "/", m["asset"]) }, nil},
		{"volumes-grouped", "/v2/" + l.Name + "/volumes", func(m map[string]any) string { return fmt.Sprint(m["account"], "/", m["asset"]) }, url.Values{"groupBy": {"1"}}},
		{"transactions", "/v2/" + l.Name + "/transactions", id, nil},
		{"logs", "/v2/" + l.Name + "/logs", id, nil},
		{"v1-accounts", "/" + l.Name + "/accounts", func(m map[string]any) string { return fmt.Sprint(m["address"]) }, nil},
		{"v1-transactions", "/" + l.Name + "/transactions", func(m map[string]any) string { return fmt.Sprint(m["txid"]) }, nil},
		{"v1-balances", "/" + l.Name + "/balances", func(m map[string]any) string {
			for k := range m {
				return k
			}
			return ""
		}, nil},
	}
	if !l.Has(features.FeatureMovesHistory, "ON") {
		ls = ls[:len(ls)-1] // the v1 balances listing expands volumes, which that feature provides
	}
	li := ls[rapid.IntRange(0, len(ls)-1).Draw(rt, "listing")]
	get := func(q url.Values) (keys []string, next string, hasMore bool) {
		for k, v := range li.params {
			q[k] = v
		}
		rec := w.httpCall("GET", li.path+"?"+q.Encode(), nil)
		if rec.Code != 200 {
			w.V("C21", "GET %s?%s answered HTTP %d: %s\nhistory:\n  %s", li.path, q.Encode(), rec.Code, truncate(rec.Body.String(), 300), l.History())
		}
		var doc struct {
			Cursor struct {
				Data    []map[string]any `json:"data"`
				Next    string           `json:"next"`
				HasMore bool             `json:"hasMore"`
			} `json:"cursor"`
		}
		dec := json.NewDecoder(strings.NewReader(rec.Body.String()))
		dec.UseNumber()
		if err := dec.Decode(&doc); err != nil {
			w.V("C21", "GET %s: undecodable answer: %v", li.path, err)
		}
		for _, m := range doc.Cursor.Data {
			keys = append(keys, li.key(m))
		}
		return keys, doc.Cursor.Next, doc.Cursor.HasMore
	}
	want, _, more := get(url.Values{"pageSize": {"1000"}})
	if more {
		w.harness("listing %s longer than 1000", li.name)
	}
	var got []string
	var sizes []int
	size := rapid.IntRange(1, 4).Draw(rt, "firstPageSize")
	keys, next, hasMore := get(url.Values{"pageSize": {fmt.Sprint(size)}})
	sizes = append(sizes, size)
	got = append(got, keys...)
	for pages := 1; hasMore; pages++ {
		if next == "" || pages > 500 {
			w.V("C21", "%s: hasMore without a usable next cursor after %d pages", li.name, pages)
		}
		q := url.Values{"cursor": {next}}
		if rapid.IntRange(0, 3).Draw(rt, "keepSize") != 0 {
			size = rapid.IntRange(1, 5).Draw(rt, "pageSize")
			q.Set("pageSize", fmt.Sprint(size))
		}
		sizes = append(sizes, size)
		keys, next, hasMore = get(q)
		if len(keys) > size {
			w.V("C21", "%s: a page of %d items was returned for pageSize=%d", li.name, len(keys), size)
		}
		got = append(got, keys...)
	}
	if strings.Join(got, "\x00") != strings.Join(want, "\x00") {
		w.V("C21", "%s walked with page sizes %v (first page by parameters, then cursor + pageSize) returned\n  %v\none page of 1000 returns\n  %v\nhistory:\n  %s", li.name, sizes, got, want, l.History())
	}
	return li.name, len(sizes)
}
