package e2

import (
	"fmt"
	"math/big"
	"sort"
	"strings"
	"testing"
	"time"

	"pgregory.net/rapid"

	"github.com/formancehq/go-libs/v5/pkg/query"
	"github.com/formancehq/go-libs/v5/pkg/storage/bun/paginate"

	ledger "github.com/formancehq/ledger/internal"
	"github.com/formancehq/ledger/internal/storage/common"
	"github.com/formancehq/ledger/pkg/features"
	"github.com/formancehq/ledger/verifharness/env"
	"github.com/formancehq/ledger/verifharness/known"
	"github.com/formancehq/ledger/verifharness/refmodel"
	"github.com/formancehq/ledger/verifharness/stats"
)

const FindingBalanceNoAsset = "C20-accounts-balance-without-asset"

type filterOutcome struct {
	Selected, Total int
	Features        map[string]bool
	Desc            string
}

func (o filterOutcome) nontrivial() bool {
	return o.Selected > 0 && o.Selected < o.Total && (o.Features["partial-address"] || o.Features["not"] || o.Features["or"] || o.Features["in"])
}

func setDiff(what string, got, want []string) string {
	sort.Strings(got)
	sort.Strings(want)
	if strings.Join(got, ",") == strings.Join(want, ",") {
		return ""
	}
	return fmt.Sprintf("%s selected [%s], the reference evaluation selects [%s]", what, strings.Join(got, ","), strings.Join(want, ","))
}

const FindingNullUnderNot = "C20-null-under-not"

// compareSelection: got must contain every definitely selected key and nothing outside selected+undecided.
func compareSelection(what string, got, want, maybe []string) string {
	g := map[string]bool{}
	for _, k := range got {
		if g[k] {
			return fmt.Sprintf("%s returned %s twice", what, k)
		}
		g[k] = true
	}
	allowed := map[string]bool{}
	for _, k := range want {
		allowed[k] = true
		if !g[k] {
			sort.Strings(got)
			return fmt.Sprintf("%s selected [%s] and misses %s; the reference evaluation selects [%s]", what, strings.Join(got, ","), k, strings.Join(want, ","))
		}
	}
	for _, k := range maybe {
		allowed[k] = true
	}
	for _, k := range got {
		if !allowed[k] {
			sort.Strings(got)
			return fmt.Sprintf("%s selected [%s] including %s; the reference evaluation selects [%s] (undecided: [%s])", what, strings.Join(got, ","), k, strings.Join(want, ","), strings.Join(maybe, ","))
		}
	}
	return ""
}

// checkFilter runs one generated filter on one resource and compares the selected set and the count.
func (w *World) checkFilter(t *rapid.T, l *LState, resource string, pit *time.Time) filterOutcome {
	return w.checkGivenFilter(l, resource, pit, GenFilter(t, resource, l), uint64(rapid.SampledFrom([]int{2, 15}).Draw(t, "ps")))
}

func (w *World) checkGivenFilter(l *LState, resource string, pit *time.Time, f *Filter, pageSize uint64) filterOutcome {
	open := known.IsOpen(FindingNullUnderNot)
	var maybe []string
	decide := func(e *Entity, key string, want *[]string) {
		sel, und := f.Decide(e, open)
		if und {
			maybe = append(maybe, key)
			if w.St != nil {
				w.St.Excluded(FindingNullUnderNot)
			}
		} else if sel {
			*want = append(*want, key)
		}
	}
	out := filterOutcome{Features: map[string]bool{}, Desc: resource + ": " + f.String()}
	f.features(out.Features)
	b := f.Builder()
	fail := func(format string, args ...any) {
		w.V("C20", "%s\nfilter: %s (pit=%v)\nfeatures: %s\nhistory:\n  %s", fmt.Sprintf(format, args...), f.String(), pit, l.Features, l.History())
	}
	switch resource {
	case "transactions":
		history := l.Has(features.FeatureTransactionMetadataHistory, "SYNC")
		var want []string
		for _, tx := range l.M.Txs {
			if vis, _, _ := txAt(tx, pit, history); !vis {
				continue
			}
			out.Total++
			decide(txEntity(tx, pit, history), fmt.Sprint(tx.ID), &want)
		}
		got, _, err := paginateAll(w, "ListTransactions(filter)", common.InitialPaginatedQuery[any]{PageSize: pageSize,
			Options: common.ResourceQuery[any]{PIT: lt(pit), Builder: b}}, func(q common.PaginatedQuery[any]) (*paginate.Cursor[ledger.Transaction], error) {
			return l.C.ListTransactions(w.Ctx, q)
		})
		if err != nil {
			fail("ListTransactions failed: %v", err)
			return out
		}
		var gotIDs []string
		for _, g := range got {
			gotIDs = append(gotIDs, fmt.Sprint(*g.ID))
		}
		if d := compareSelection("ListTransactions", gotIDs, want, maybe); d != "" {
			fail("%s", d)
		}
		n, err := l.C.CountTransactions(w.Ctx, common.ResourceQuery[any]{PIT: lt(pit), Builder: b})
		w.checkErr(err)
		if err != nil || n != len(got) {
			fail("CountTransactions = %d (err %v) but the listing has %d transactions", n, err, len(got))
		}
		out.Selected = len(want)
	case "accounts":
		var vols refmodel.Volumes
		if pit != nil {
			vols = l.M.VolumesWindow(pit, nil, false)
		} else {
			vols = l.M.VolumesNow()
		}
		history := l.Has(features.FeatureAccountMetadataHistory, "SYNC")
		var want []string
		for _, addr := range l.M.SortedAccounts() {
			a := l.M.Accounts[addr]
			if pit != nil && a.FirstUsage.After(*pit) {
				continue
			}
			out.Total++
			e := accountEntity(a, vols)
			if pit != nil && history {
				e.Metadata = refmodel.MetaAt(a.History, *pit)
			}
			decide(e, addr, &want)
		}
		got, _, err := paginateAll(w, "ListAccounts(filter)", common.InitialPaginatedQuery[any]{PageSize: pageSize,
			Options: common.ResourceQuery[any]{PIT: lt(pit), Builder: b}}, func(q common.PaginatedQuery[any]) (*paginate.Cursor[ledger.Account], error) {
			return l.C.ListAccounts(w.Ctx, q)
		})
		if err != nil {
			if pit != nil && out.Features["balance"] && !(l.Has(features.FeatureMovesHistory, "ON") && l.Has(features.FeatureMovesHistoryPostCommitEffectiveVolumes, "SYNC")) {
				return out // documented missing-feature rejection
			}
			fail("ListAccounts failed: %v", err)
			return out
		}
		var gotAddrs []string
		for _, g := range got {
			gotAddrs = append(gotAddrs, g.Address)
		}
		if d := compareSelection("ListAccounts", gotAddrs, want, maybe); d != "" {
			fail("%s", d)
		}
		n, err := l.C.CountAccounts(w.Ctx, common.ResourceQuery[any]{PIT: lt(pit), Builder: b})
		w.checkErr(err)
		if err != nil || n != len(got) {
			fail("CountAccounts = %d (err %v) but the listing has %d accounts", n, err, len(got))
		}
		out.Selected = len(want)
	case "volumes":
		vols := l.M.VolumesNow()
		var want []string
		for _, k := range vols.Keys() {
			a := l.M.Accounts[k[0]]
			out.Total++
			e := &Entity{Address: k[0], Asset: k[1], Balance: vols.Get(k[0], k[1]).Balance(), Metadata: a.Metadata, Dates: map[string]*time.Time{"first_usage": ptrTime(a.FirstUsage)}}
			decide(e, k[0]+"/"+k[1], &want)
		}
		got, _, err := paginateAll(w, "GetVolumesWithBalances(filter)", common.InitialPaginatedQuery[ledger.GetVolumesOptions]{PageSize: pageSize,
			Options: common.ResourceQuery[ledger.GetVolumesOptions]{Builder: b}}, func(q common.PaginatedQuery[ledger.GetVolumesOptions]) (*paginate.Cursor[ledger.VolumesWithBalanceByAssetByAccount], error) {
			return l.C.GetVolumesWithBalances(w.Ctx, q)
		})
		if err != nil {
			fail("GetVolumesWithBalances failed: %v", err)
			return out
		}
		var gotKeys []string
		for _, g := range got {
			gotKeys = append(gotKeys, g.Account+"/"+g.Asset)
		}
		if d := compareSelection("GetVolumesWithBalances", gotKeys, want, maybe); d != "" {
			fail("%s", d)
		}
		out.Selected = len(want)
	case "aggregated":
		vols := l.M.VolumesNow()
		matchAcc := map[string]bool{}
		for _, addr := range l.M.SortedAccounts() {
			out.Total++
			if sel, und := f.Decide(&Entity{Address: addr, Metadata: l.M.Accounts[addr].Metadata}, open); und {
				return out
			} else if sel {
				matchAcc[addr] = true
				out.Selected++
			}
		}
		want := map[string]*big.Int{}
		for _, k := range vols.Keys() {
			if !matchAcc[k[0]] {
				continue
			}
			if want[k[1]] == nil {
				want[k[1]] = new(big.Int)
			}
			want[k[1]].Add(want[k[1]], vols.Get(k[0], k[1]).Balance())
		}
		got, err := l.C.GetAggregatedBalances(w.Ctx, common.ResourceQuery[ledger.GetAggregatedVolumesOptions]{Builder: b})
		w.checkErr(err)
		if err != nil {
			fail("GetAggregatedBalances failed: %v", err)
			return out
		}
		for asset, wv := range want {
			gv, ok := got[asset]
			if !ok || gv.Cmp(wv) != 0 {
				fail("GetAggregatedBalances: %s = %v, the reference sums %s over accounts %v", asset, gv, wv, sortedStrings(matchAcc))
			}
		}
		for asset, gv := range got {
			if _, ok := want[asset]; !ok && gv.Sign() != 0 {
				fail("GetAggregatedBalances: unexpected asset %s = %s (matching accounts %v)", asset, gv, sortedStrings(matchAcc))
			}
		}
	case "logs":
		var want []string
		for _, lg := range l.M.Logs {
			out.Total++
			e := &Entity{ID: new(big.Int).SetUint64(lg.ID), Type: lg.Type, Dates: map[string]*time.Time{"date": ptrTime(lg.Date)}}
			decide(e, fmt.Sprint(lg.ID), &want)
		}
		got, _, err := paginateAll(w, "ListLogs(filter)", common.InitialPaginatedQuery[any]{PageSize: pageSize,
			Options: common.ResourceQuery[any]{Builder: b}}, func(q common.PaginatedQuery[any]) (*paginate.Cursor[ledger.Log], error) {
			return l.C.ListLogs(w.Ctx, q)
		})
		if err != nil {
			fail("ListLogs failed: %v", err)
			return out
		}
		var gotIDs []string
		for _, g := range got {
			gotIDs = append(gotIDs, fmt.Sprint(*g.ID))
		}
		if d := compareSelection("ListLogs", gotIDs, want, maybe); d != "" {
			fail("%s", d)
		}
		out.Selected = len(want)
	}
	return out
}

const ruleC20 = "histories of postings creates, reverts and metadata writes (both history features drawn), then per history 10 generated filter ASTs (depth <= 4; leaves: exact / partial `a::c` / prefix `a:...` / $in addresses, metadata match and exists, balance[asset] comparisons, date comparisons on and 1us around recorded dates, reverted, reference match/$in/$like, id comparisons; $and/$or/$not nesting) over transactions, accounts (with and without PIT), volumes, aggregated balances and logs through the real List*/Count* on pgsim; the selected set and the count must equal the reference evaluation; non-trivial = filter selecting a non-empty strict subset and containing a partial address, $not, $or or $in; distinct = by filter text + history"

func TestC20(t *testing.T) {
	st := stats.New("C20", "exploration", ruleC20, assumePgsim,
		"PostgreSQL's own operator semantics (@>, ?|, jsonpath ==, NULL logic) are the stand-in's implementation of the documented behaviour",
		"an asset-less `balance` filter on accounts is excluded (known finding "+FindingBalanceNoAsset+")")
	defer st.Write(t)
	if known.IsOpen(FindingBalanceNoAsset) {
		if reproduceBalanceNoAsset() {
			line := known.Line(FindingBalanceNoAsset)
			fmt.Println(line)
			st.Known(line)
		}
	}
	if known.IsOpen(FindingNullUnderNot) && reproduceNullUnderNot() {
		line := known.Line(FindingNullUnderNot)
		fmt.Println(line)
		st.Known(line)
	}
	n := stats.N(300, 800)
	st.Set("requested_checks", n)
	stats.Check(t, n, 20, func(rt *rapid.T) {
		w, l, _ := RunHistory(rt, st, HistOpts{Focus: []string{"C20"}, Features: GenFeatures, Steps: 28, Scripts: false, Reverts: true, Metadata: true, MaxPostings: 3, SecondLedger: true})
		defer w.Close()
		for i := 0; i < 10; i++ {
			resource := rapid.SampledFrom([]string{"transactions", "transactions", "accounts", "accounts", "volumes", "aggregated", "logs"}).Draw(rt, "resource")
			var pit *time.Time
			if (resource == "transactions" || resource == "accounts") && rapid.IntRange(0, 2).Draw(rt, "withPIT") == 0 {
				pit = w.genPIT(rt, l)
			}
			o := w.checkFilter(rt, l, resource, pit)
			classes := []string{"resource:" + resource}
			for k := range o.Features {
				classes = append(classes, "uses:"+k)
			}
			if pit != nil {
				classes = append(classes, "with-pit")
			}
			if o.Selected == 0 {
				classes = append(classes, "selects-none")
			} else if o.Selected == o.Total {
				classes = append(classes, "selects-all")
			}
			st.Case(o.Desc+"\n"+strings.Join(l.Ops, "\n"), o.nontrivial(), func() any {
				return map[string]any{"filter": o.Desc, "selected": o.Selected, "of": o.Total}
			}, classes...)
		}
		st.Add("completed_checks", 1)
	})
}

type quietT struct{ failed bool }

func (q *quietT) Fatalf(string, ...any) { q.failed = true; panic(skipCheck{}) }
func (q *quietT) Logf(string, ...any)   {}

// pinnedWorld builds a one-ledger world with a fixed two-transaction history for the pinned reproducers.
func pinnedWorld() (*World, *LState) {
	w := NewWorld(&quietT{}, nil, env.Options{})
	l := w.AddLedger("l1", "b1", features.DefaultFeatures)
	w.CreateTx(l, TxRequest{Postings: ledger.Postings{ledger.NewPosting("world", "a", "USD/2", big.NewInt(10)), ledger.NewPosting("world", "a", "EUR", big.NewInt(5))}})
	w.CreateTx(l, TxRequest{Postings: ledger.Postings{ledger.NewPosting("world", "bank", "USD/2", big.NewInt(1))}, Reference: "r1"})
	return w, l
}

// reproduceBalanceNoAsset: an asset-less balance filter on accounts holding two assets fails inside the database.
func reproduceBalanceNoAsset() bool {
	w, l := pinnedWorld()
	defer w.Close()
	_, err := l.C.ListAccounts(w.Ctx, common.InitialPaginatedQuery[any]{PageSize: 15, Options: common.ResourceQuery[any]{Builder: query.Gte("balance", 0)}})
	return err != nil
}

// reproduceNullUnderNot: a transaction without reference is not selected by NOT(reference LIKE 'r%').
func reproduceNullUnderNot() bool {
	w, l := pinnedWorld()
	defer w.Close()
	cur, err := l.C.ListTransactions(w.Ctx, common.InitialPaginatedQuery[any]{PageSize: 15, Options: common.ResourceQuery[any]{Builder: query.Not(query.Like("reference", "r%"))}})
	return err == nil && len(cur.Data) == 0
}
