package e2

import (
	"encoding/json"
	"fmt"
	"math/big"
	"net/http"
	"net/url"
	"regexp"
	"sort"
	"strings"
	"testing"
	"time"

	"pgregory.net/rapid"

	ledger "github.com/formancehq/ledger/internal"
	ledgercontroller "github.com/formancehq/ledger/internal/controller/ledger"
	"github.com/formancehq/ledger/pkg/features"
	"github.com/formancehq/ledger/verifharness/env"
	"github.com/formancehq/ledger/verifharness/stats"
)

const ruleC37 = "on a ledger with a generated history (creates, reverts, metadata) a schema with 3 generated query templates is inserted: resource in {transactions, accounts, logs, volumes}; variables of type string / int / boolean / date with or without default; a filter (depth <= 2, $and/$or/$not) whose leaves use typed ${var} placeholders, string interpolation (\"u:${seg}\", also of an int variable bound to a number of seven or eight digits that names an existing account) and literals; params (pageSize, sort, expand, endTime, startTime, groupBy, insertionDate). Each template is run through POST /v2/{ledger}/queries/{id}/run with generated variable bindings (some omitted, big integers) and request params, and compared with the direct list endpoint called with the filter and parameters an independent reference computes (own substitution, request params over template params over endpoint defaults, page size clamp): same status class, and on success the same items in the same order, page size and hasMore, page after page following `next` through both routes; non-trivial = run with a non-string variable actually bound, a request param override or >= 2 pages, and a non-empty result; distinct = by template + bindings"

// ---------------------------------------------------------------- generated templates

type qVar struct {
	Type    string // string | int | boolean | date
	Default any    // nil = none
}

type qTemplate struct {
	ID       string
	Resource string
	Vars     map[string]qVar
	Body     any            // filter with placeholders; nil = none
	Params   map[string]any // template params
}

func (q qTemplate) toJSON() map[string]any {
	out := map[string]any{"resource": q.Resource}
	if len(q.Vars) > 0 {
		vs := map[string]any{}
		for k, v := range q.Vars {
			if v.Default == nil {
				vs[k] = v.Type
			} else {
				vs[k] = map[string]any{"type": v.Type, "default": v.Default}
			}
		}
		out["vars"] = vs
	}
	if q.Body != nil {
		out["body"] = q.Body
	}
	if len(q.Params) > 0 {
		out["params"] = q.Params
	}
	return out
}

var (
	qStringVars = []string{"acc", "ref", "seg", "mv"}
	qIntVars    = []string{"n", "m"}
	qAddrValues = []string{"bank", "world", "u:1", "u:", "a:b:c", ":b:", "a:b", "x_y-z:0"}
)

// genQLeaf draws one filter leaf for the resource and declares the variables it uses.
func genQLeaf(t *rapid.T, resource string, vars map[string]qVar) any {
	use := func(name, typ string) string {
		if _, ok := vars[name]; !ok {
			v := qVar{Type: typ}
			if rapid.IntRange(0, 2).Draw(t, "withDefault") == 0 {
				switch typ {
				case "string":
					v.Default = rapid.SampledFrom(qAddrValues).Draw(t, "defaultString")
				case "int":
					v.Default = json.Number(rapid.SampledFrom([]string{"0", "1", "3", "100"}).Draw(t, "defaultInt"))
				case "boolean":
					v.Default = rapid.Bool().Draw(t, "defaultBool")
				case "date":
					v.Default = "2023-12-31T23:00:00Z"
				}
			}
			vars[name] = v
		}
		return "${" + name + "}"
	}
	addrKey := "address"
	if resource == "transactions" {
		addrKey = rapid.SampledFrom([]string{"account", "source", "destination"}).Draw(t, "addrKey")
	}
	switch resource {
	case "logs":
		switch rapid.IntRange(0, 2).Draw(t, "logLeaf") {
		case 0:
			return map[string]any{rapid.SampledFrom([]string{"$gte", "$lt", "$match"}).Draw(t, "op"): map[string]any{"id": use(rapid.SampledFrom(qIntVars).Draw(t, "intVar"), "int")}}
		case 1:
			return map[string]any{"$lt": map[string]any{"date": use("d", "date")}}
		default:
			return map[string]any{"$gte": map[string]any{"id": json.Number("2")}}
		}
	}
	switch rapid.SampledFrom([]int{0, 1, 2, 3, 3, 3, 4, 4, 5, 5, 6, 7}).Draw(t, "leaf") {
	case 0:
		return map[string]any{"$match": map[string]any{addrKey: use(rapid.SampledFrom(qStringVars[:2]).Draw(t, "strVar"), "string")}}
	case 1:
		if rapid.IntRange(0, 2).Draw(t, "numberedSegment") == 0 {
			// an int variable inside a string pattern
			return map[string]any{"$match": map[string]any{addrKey: "u:" + use(rapid.SampledFrom(qIntVars).Draw(t, "intVar"), "int")}}
		}
		return map[string]any{"$match": map[string]any{addrKey: "u:" + use("seg", "string")}}
	case 2:
		return map[string]any{"$match": map[string]any{"metadata[k]": use("mv", "string")}}
	case 3:
		if resource == "transactions" {
			return map[string]any{rapid.SampledFrom([]string{"$gte", "$lt", "$lte", "$gt", "$match"}).Draw(t, "op"): map[string]any{"id": use(rapid.SampledFrom(qIntVars).Draw(t, "intVar"), "int")}}
		}
		return map[string]any{rapid.SampledFrom([]string{"$gte", "$lt", "$match"}).Draw(t, "op"): map[string]any{"balance[" + rapid.SampledFrom([]string{"USD/2", "EUR"}).Draw(t, "asset") + "]": use(rapid.SampledFrom(qIntVars).Draw(t, "intVar"), "int")}}
	case 4:
		if resource == "transactions" {
			return map[string]any{"$match": map[string]any{"reverted": use("flag", "boolean")}}
		}
		return map[string]any{"$exists": map[string]any{"metadata": "role"}}
	case 5:
		if resource == "transactions" {
			return map[string]any{rapid.SampledFrom([]string{"$lt", "$gte"}).Draw(t, "op"): map[string]any{"timestamp": use("d", "date")}}
		}
		return map[string]any{"$in": map[string]any{"address": []any{use("acc", "string"), "bank"}}}
	case 6:
		if resource == "transactions" {
			return map[string]any{"$match": map[string]any{"reference": use("ref", "string")}}
		}
		return map[string]any{"$match": map[string]any{"address": rapid.SampledFrom(qAddrValues).Draw(t, "literalAddr")}}
	default:
		return map[string]any{"$match": map[string]any{addrKey: rapid.SampledFrom(qAddrValues).Draw(t, "literalAddr")}}
	}
}

func genQFilter(t *rapid.T, resource string, vars map[string]qVar, depth int) any {
	if depth <= 0 || rapid.IntRange(0, 2).Draw(t, "isLeaf") != 0 {
		return genQLeaf(t, resource, vars)
	}
	switch rapid.IntRange(0, 2).Draw(t, "combinator") {
	case 0:
		return map[string]any{"$and": []any{genQFilter(t, resource, vars, depth-1), genQFilter(t, resource, vars, depth-1)}}
	case 1:
		return map[string]any{"$or": []any{genQFilter(t, resource, vars, depth-1), genQFilter(t, resource, vars, depth-1)}}
	default:
		return map[string]any{"$not": genQFilter(t, resource, vars, depth-1)}
	}
}

func genQParams(t *rapid.T, resource string, now time.Time, forRequest bool) map[string]any {
	p := map[string]any{}
	if rapid.IntRange(0, 2).Draw(t, "withPageSize") != 0 {
		p["pageSize"] = json.Number(fmt.Sprint(rapid.SampledFrom([]int{1, 1, 2, 2, 3, 15, 100, 250}).Draw(t, "pageSize")))
	}
	if rapid.IntRange(0, 2).Draw(t, "withSort") == 0 {
		var cols []string
		switch resource {
		case "transactions":
			cols = []string{"id", "timestamp", "insertedAt", "id:asc", "id:desc", "timestamp:asc"}
		case "accounts":
			cols = []string{"address", "address:desc", "firstUsage:asc", "insertionDate"}
		case "logs":
			cols = []string{"id", "id:asc", "date:desc"}
		default:
			cols = []string{"account", "account:desc", "address:asc"}
		}
		p["sort"] = rapid.SampledFrom(cols).Draw(t, "sort")
	}
	if resource != "logs" && rapid.IntRange(0, 3).Draw(t, "withPIT") == 0 {
		p["endTime"] = now.Add(-time.Duration(rapid.IntRange(0, 72).Draw(t, "pitHours")) * time.Hour).UTC().Format(time.RFC3339)
	}
	if resource == "volumes" {
		if rapid.IntRange(0, 3).Draw(t, "withOOT") == 0 {
			p["startTime"] = now.Add(-100 * time.Hour).UTC().Format(time.RFC3339)
		}
		if rapid.IntRange(0, 2).Draw(t, "withGroupBy") == 0 {
			p["groupBy"] = json.Number(fmt.Sprint(rapid.IntRange(0, 3).Draw(t, "groupBy")))
		}
		if rapid.IntRange(0, 3).Draw(t, "withInsertionDate") == 0 {
			p["insertionDate"] = rapid.Bool().Draw(t, "insertionDate")
		}
	}
	if (resource == "transactions" || resource == "accounts") && rapid.IntRange(0, 3).Draw(t, "withExpand") == 0 {
		p["expand"] = []any{rapid.SampledFrom([]string{"volumes", "effectiveVolumes"}).Draw(t, "expand")}
	}
	return p
}

// ---------------------------------------------------------------- reference: substitution and parameter overlay

var placeholderRe = regexp.MustCompile(`\$\{([a-z_]+)\}`)

func stringFieldKey(resource, key string) bool {
	switch {
	case strings.HasPrefix(key, "metadata"):
		return true
	case key == "account" || key == "source" || key == "destination" || key == "address" || key == "reference" || key == "type":
		return true
	}
	return false
}

type errMissingVar struct{ name string }

func (e errMissingVar) Error() string { return "variable " + e.name + " has no value" }

func varToString(v any) string {
	switch x := v.(type) {
	case json.Number:
		return x.String()
	case string:
		return x
	case bool:
		return fmt.Sprint(x)
	}
	return fmt.Sprint(v)
}

// substitute computes the filter the template denotes under the bindings, with the reference's own rules.
func substitute(resource string, f any, vals map[string]any) (any, error) {
	m, ok := f.(map[string]any)
	if !ok {
		return f, nil
	}
	out := map[string]any{}
	for op, arg := range m {
		switch op {
		case "$and", "$or":
			var items []any
			for _, it := range arg.([]any) {
				s, err := substitute(resource, it, vals)
				if err != nil {
					return nil, err
				}
				items = append(items, s)
			}
			out[op] = items
		case "$not":
			s, err := substitute(resource, arg, vals)
			if err != nil {
				return nil, err
			}
			out[op] = s
		default:
			leaf := map[string]any{}
			for key, value := range arg.(map[string]any) {
				subst := func(v any) (any, error) {
					s, isStr := v.(string)
					if !isStr {
						return v, nil
					}
					if stringFieldKey(resource, key) || op == "$exists" {
						var missing string
						r := placeholderRe.ReplaceAllStringFunc(s, func(ph string) string {
							name := placeholderRe.FindStringSubmatch(ph)[1]
							val, ok := vals[name]
							if !ok {
								missing = name
								return ph
							}
							return varToString(val)
						})
						if missing != "" {
							return nil, errMissingVar{missing}
						}
						return r, nil
					}
					if mm := placeholderRe.FindStringSubmatch(s); mm != nil && mm[0] == s {
						val, ok := vals[mm[1]]
						if !ok {
							return nil, errMissingVar{mm[1]}
						}
						return val, nil
					}
					return v, nil
				}
				if arr, isArr := value.([]any); isArr {
					var items []any
					for _, it := range arr {
						s, err := subst(it)
						if err != nil {
							return nil, err
						}
						items = append(items, s)
					}
					leaf[key] = items
				} else {
					s, err := subst(value)
					if err != nil {
						return nil, err
					}
					leaf[key] = s
				}
			}
			out[op] = leaf
		}
	}
	return out, nil
}

// directRequest builds the list request equivalent to running the template.
func directRequest(q qTemplate, vals map[string]any, reqParams map[string]any) (httpReq, error) {
	path := map[string]string{"transactions": "/v2/l1/transactions", "accounts": "/v2/l1/accounts", "logs": "/v2/l1/logs", "volumes": "/v2/l1/volumes"}[q.Resource]
	r := httpReq{Method: "GET", Path: path, Query: url.Values{}, Headers: map[string]string{}}
	if q.Body != nil {
		f, err := substitute(q.Resource, q.Body, vals)
		if err != nil {
			return r, err
		}
		r.Body = mustJSON(f)
	}
	eff := map[string]any{}
	for k, v := range q.Params {
		eff[k] = v
	}
	for k, v := range reqParams {
		eff[k] = v
	}
	// sort = column[:order]: a request that names only the column keeps the order the template chose (the
	// statement does not say which of the two readings is meant; the code's reading is accepted)
	if ts, ok := q.Params["sort"].(string); ok {
		if rs, ok := reqParams["sort"].(string); ok && !strings.Contains(rs, ":") && strings.Contains(ts, ":") {
			eff["sort"] = rs + ":" + strings.SplitN(ts, ":", 2)[1]
		}
	}
	for k, v := range eff {
		switch k {
		case "pageSize":
			r.Query.Set("pageSize", varToString(v))
		case "sort":
			r.Query.Set("sort", v.(string))
		case "endTime":
			r.Query.Set("pit", v.(string))
		case "startTime":
			r.Query.Set("oot", v.(string))
		case "groupBy":
			r.Query.Set("groupBy", varToString(v))
		case "insertionDate":
			r.Query.Set("insertionDate", fmt.Sprint(v))
		case "expand":
			var parts []string
			for _, e := range v.([]any) {
				parts = append(parts, e.(string))
			}
			r.Query.Set("expand", strings.Join(parts, ","))
		}
	}
	return r, nil
}

type pageView struct {
	Status   int
	Items    []string
	PageSize string
	HasMore  bool
	Next     string
	Raw      string
}

func parsePage(rec interface {
	Result() *http.Response
}, status int, body []byte) pageView {
	pv := pageView{Status: status, Raw: truncate(string(body), 300)}
	var resp struct {
		Cursor struct {
			PageSize json.Number       `json:"pageSize"`
			HasMore  bool              `json:"hasMore"`
			Next     string            `json:"next"`
			Data     []json.RawMessage `json:"data"`
		} `json:"cursor"`
	}
	if status/100 == 2 && json.Unmarshal(body, &resp) == nil {
		for _, d := range resp.Cursor.Data {
			pv.Items = append(pv.Items, canonRaw(d))
		}
		pv.PageSize = resp.Cursor.PageSize.String()
		pv.HasMore = resp.Cursor.HasMore
		pv.Next = resp.Cursor.Next
	}
	return pv
}

func canonRaw(d json.RawMessage) string {
	v, ok := decodeJSON(d)
	if !ok {
		return string(d)
	}
	return string(mustJSON(v))
}

func TestC37(t *testing.T) {
	st := stats.New("C37", "exploration", ruleC37, assumePgsim,
		"'the equivalent direct list query' is the list endpoint of the resource called with the substituted filter as body and the effective parameters as query string; both routes run the same storage code, so the check decides template resolution, parameter overlay, defaults and cursor continuation, not the listing itself (C20/C21)")
	defer st.Write(t)
	n := stats.N(200, 600)
	st.Set("requested_checks", n)
	stats.Check(t, n, 37, func(rt *rapid.T) {
		w := NewWorld(rt, st, envOptionsDefault(), "C37")
		defer w.Close()
		l := w.AddLedger("l1", "b1", features.DefaultFeatures)
		w.Drive(rt, l, nil, HistOpts{Steps: 14, Reverts: true, Metadata: true, MaxPostings: 3})
		// two balances one unit apart beyond 2^53: a filter value that went through a float64 cannot tell them apart
		big1, _ := new(big.Int).SetString("9007199254740993", 10)
		big0, _ := new(big.Int).SetString("9007199254740992", 10)
		if out := w.CreateTx(l, TxRequest{Postings: ledger.Postings{ledger.NewPosting("world", "u:1", "USD/2", big1), ledger.NewPosting("world", "u:2", "USD/2", big0)}, Force: true}); out.Kind != ErrNone {
			w.harness("seeding big balances failed: %v", out.Err)
		}
		// accounts named after large numbers: an int variable written into an address pattern must come out in full digits
		if out := w.CreateTx(l, TxRequest{Postings: ledger.Postings{ledger.NewPosting("world", "u:1234567", "USD/2", big.NewInt(3)), ledger.NewPosting("world", "u:20250923", "EUR", big.NewInt(4))}}); out.Kind != ErrNone {
			w.harness("seeding numbered accounts failed: %v", out.Err)
		}
		now := w.Env.Sim.Clock()
		// ---- schema with generated templates
		var tpls []qTemplate
		queriesDoc := map[string]any{}
		for i := 0; i < 3; i++ {
			q := qTemplate{ID: fmt.Sprintf("q%d", i), Resource: rapid.SampledFrom([]string{"transactions", "transactions", "accounts", "logs", "volumes"}).Draw(rt, "resource"), Vars: map[string]qVar{}}
			if rapid.IntRange(0, 5).Draw(rt, "noBody") != 0 {
				q.Body = genQFilter(rt, q.Resource, q.Vars, 2)
			}
			q.Params = genQParams(rt, q.Resource, now, false)
			tpls = append(tpls, q)
			queriesDoc[q.ID] = q.toJSON()
		}
		raw := mustJSON(map[string]any{"chart": map[string]any{"any": map[string]any{}}, "queries": queriesDoc})
		var data ledger.SchemaData
		if err := json.Unmarshal(raw, &data); err != nil {
			rt.Fatalf("HARNESS-ERROR: generated schema does not decode: %v\n%s", err, raw)
		}
		if _, _, _, err := l.C.InsertSchema(w.Ctx, ledgercontroller.Parameters[ledgercontroller.InsertSchema]{Input: ledgercontroller.InsertSchema{Version: "v1", Data: data}}); err != nil {
			w.checkErr(err)
			rt.Fatalf("HARNESS-ERROR: generated schema refused: %v\n%s", err, raw)
		}
		router := w.Env.Router()
		for _, q := range tpls {
			for b := 0; b < 2; b++ {
				// ---- bindings
				vals := map[string]any{}     // what the reference substitutes (defaults included)
				callVars := map[string]any{} // what the request carries
				names := make([]string, 0, len(q.Vars))
				for name := range q.Vars {
					names = append(names, name)
				}
				sort.Strings(names)
				boundNonString := false
				for _, name := range names {
					v := q.Vars[name]
					if v.Default != nil {
						vals[name] = v.Default
					}
					if rapid.IntRange(0, 4).Draw(rt, "omit:"+name) == 0 {
						continue
					}
					var val any
					switch v.Type {
					case "string":
						val = rapid.SampledFrom(append(append([]string{}, qAddrValues...), "r1", "v", "1", "")).Draw(rt, "strVal")
					case "int":
						val = json.Number(rapid.SampledFrom([]string{"0", "1", "1", "2", "2", "3", "5", "50", "1234567", "1234567", "20250923", "9007199254740993", "100000000000000000000", "-1"}).Draw(rt, "intVal"))
						boundNonString = true
					case "boolean":
						val = rapid.Bool().Draw(rt, "boolVal")
						boundNonString = true
					case "date":
						val = now.Add(-time.Duration(rapid.IntRange(0, 80).Draw(rt, "hoursBack")) * time.Hour).UTC().Format(time.RFC3339)
						boundNonString = true
					}
					vals[name] = val
					callVars[name] = val
				}
				var reqParams map[string]any
				if rapid.IntRange(0, 1).Draw(rt, "withRequestParams") == 0 {
					reqParams = genQParams(rt, q.Resource, now, true)
				}
				runBody := map[string]any{}
				if len(callVars) > 0 {
					runBody["vars"] = callVars
				}
				if reqParams != nil {
					runBody["params"] = reqParams
				}
				run := httpReq{Method: "POST", Path: "/v2/l1/queries/" + q.ID + "/run", Query: url.Values{"schemaVersion": {"v1"}}, Headers: map[string]string{}, Body: mustJSON(runBody)}
				direct, refErr := directRequest(q, vals, reqParams)
				desc := fmt.Sprintf("template %s = %s\n  run:    %s\n  direct: %s", q.ID, mustJSON(q.toJSON()), run, direct)

				pages := 0
				selected := 0
				for {
					recRun := run.do(router)
					pvRun := parsePage(recRun, recRun.Code, recRun.Body.Bytes())
					if recRun.Code >= 500 {
						rt.Fatalf("VIOLATION[C37]: running the template answered HTTP %d %s\n%s", recRun.Code, pvRun.Raw, desc)
					}
					if refErr != nil {
						// a variable without value: the run must be refused
						if recRun.Code/100 == 2 {
							rt.Fatalf("VIOLATION[C37]: the run succeeded although %v\n%s", refErr, desc)
						}
						break
					}
					recDir := direct.do(router)
					pvDir := parsePage(recDir, recDir.Code, recDir.Body.Bytes())
					if recDir.Code >= 500 {
						w.harness("direct list request answered %d: %s\n%s", recDir.Code, pvDir.Raw, desc)
					}
					if (pvRun.Status/100 == 2) != (pvDir.Status/100 == 2) {
						rt.Fatalf("VIOLATION[C37]: the run answered HTTP %d (%s), the equivalent direct query HTTP %d (%s)\n%s", pvRun.Status, pvRun.Raw, pvDir.Status, pvDir.Raw, desc)
					}
					if pvRun.Status/100 != 2 {
						break
					}
					pages++
					selected += len(pvRun.Items)
					if pvRun.PageSize != pvDir.PageSize || pvRun.HasMore != pvDir.HasMore {
						rt.Fatalf("VIOLATION[C37]: page %d: the run has pageSize=%s hasMore=%v, the direct query pageSize=%s hasMore=%v\n%s", pages, pvRun.PageSize, pvRun.HasMore, pvDir.PageSize, pvDir.HasMore, desc)
					}
					if strings.Join(pvRun.Items, "\n") != strings.Join(pvDir.Items, "\n") {
						rt.Fatalf("VIOLATION[C37]: page %d differs\n  run:    %v\n  direct: %v\n%s", pages, pvRun.Items, pvDir.Items, desc)
					}
					if !pvRun.HasMore || pages >= 6 {
						break
					}
					// continue both walks with their own cursors
					run.Body = mustJSON(map[string]any{"cursor": pvRun.Next})
					direct.Query = url.Values{"cursor": {pvDir.Next}}
					direct.Body = nil
				}
				override := false
				for k := range reqParams {
					if _, ok := q.Params[k]; ok {
						override = true
					}
				}
				cls := []string{"resource:" + q.Resource}
				if refErr != nil {
					cls = append(cls, "missing-variable")
				}
				if pages >= 2 {
					cls = append(cls, "pages>=2")
				}
				if override {
					cls = append(cls, "param-override")
				}
				if boundNonString {
					cls = append(cls, "typed-variable-bound")
				}
				d := desc
				st.Case(desc, boundNonString && (override || pages >= 2) && selected > 0, func() any { return map[string]any{"case": d, "pages": pages} }, cls...)
			}
		}
		st.Add("completed_checks", 1)
	})
}

func envOptionsDefault() env.Options { return env.Options{} }
