package e2

import (
	"encoding/json"
	"fmt"
	"math/big"
	"net/url"
	"strings"
	"testing"
	"time"

	"pgregory.net/rapid"

	ledger "github.com/formancehq/ledger/internal"
	"github.com/formancehq/ledger/verifharness/env"
	"github.com/formancehq/ledger/verifharness/refmodel"
	"github.com/formancehq/ledger/verifharness/stats"
)

const ruleC25HTTP = "HTTP leg: on a ledger with small generated balances, 3-6 postings requests (1-8 postings, repeated accounts, source == destination, world on either side, zero and edge amounts, optional timestamp / reference / metadata / force, on the default, the machine or the interpreter runtime) are sent as JSON through the real router over the real storage code - POST /v2/{ledger}/transactions, POST /{ledger}/transactions (v1), a one-element POST /v2/{ledger}/_bulk as application/json and as a JSON stream; the answer must be INSUFFICIENT_FUND exactly when the reference fold says some non-world source would go below zero (never with force), otherwise the transaction returned, and the one read back with GET, must carry exactly the submitted postings in order, the submitted metadata, reference and timestamp; balances read back through GET accounts must follow; non-trivial = request with >= 2 postings on one account sent through v1 or a bulk; distinct = by requests + routes"

func TestC25HTTP(t *testing.T) {
	st := stats.New("C25", "exploration", ruleC25HTTP, assumePgsim)
	defer st.Write(t)
	n := stats.N(120, 500)
	st.Set("requested_checks_http", n)
	stats.Check(t, n, 2525, func(rt *rapid.T) {
		w := NewWorld(rt, st, env.Options{}, "C25")
		defer w.Close()
		l := w.AddLedger("l1", "b1", GenFeatures(rt))
		router := w.Env.Router()
		// some funds to spend
		for _, a := range []string{"a", "bank", "u:1"} {
			if rapid.IntRange(0, 3).Draw(rt, "funded") != 0 {
				w.CreateTx(l, TxRequest{Postings: ledger.Postings{ledger.NewPosting("world", a, "USD/2", big.NewInt(int64(rapid.IntRange(0, 60).Draw(rt, "balance"))))}})
			}
		}
		do := func(r httpReq) (int, map[string]any, string) {
			if r.Query == nil {
				r.Query = url.Values{}
			}
			rec := r.do(router)
			if rec == nil {
				rt.Fatalf("HARNESS-ERROR: request could not be built: %s", r)
			}
			doc, _ := decodeJSON(rec.Body.Bytes())
			m, _ := doc.(map[string]any)
			return rec.Code, m, truncate(rec.Body.String(), 600)
		}
		var hist []string
		nontrivial := false
		for i, k := 0, rapid.IntRange(3, 6).Draw(rt, "requests"); i < k; i++ {
			r := w.GenPostingsRequest(rt, l, 8)
			r.DryRun, r.AccountMetadata = false, nil
			route := rapid.SampledFrom([]string{"v2", "v1", "bulk", "bulk-stream"}).Draw(rt, "route")
			if route == "v1" {
				r.Force = false // the v1 route has no force option
			}
			runtime := ""
			if route != "v1" {
				runtime = rapid.SampledFrom([]string{"", "", "machine", "experimental-interpreter"}).Draw(rt, "runtime")
			}
			if runtime == "experimental-interpreter" {
				// the interpreter leaves zero-amount postings out (a difference between the runtimes recorded under C26):
				// requests sent to it carry none
				for i := range r.Postings {
					if r.Postings[i].Amount.Sign() == 0 {
						r.Postings[i].Amount = big.NewInt(1)
					}
				}
			}
			want := l.expectPostings(r)
			body := map[string]any{}
			var ps []map[string]any
			for _, p := range r.Postings {
				ps = append(ps, map[string]any{"source": p.Source, "destination": p.Destination, "asset": p.Asset, "amount": json.Number(p.Amount.String())})
			}
			body["postings"] = ps
			if r.Metadata != nil {
				body["metadata"] = r.Metadata
			}
			if r.Reference != "" {
				body["reference"] = r.Reference
			}
			if !r.Timestamp.IsZero() {
				body["timestamp"] = r.Timestamp.UTC().Format(time.RFC3339Nano)
			}
			if r.Force {
				body["force"] = true
			}
			if runtime != "" {
				body["runtime"] = runtime
			}
			var req httpReq
			switch route {
			case "v2":
				req = httpReq{Method: "POST", Path: "/v2/l1/transactions", Body: mustJSON(body)}
			case "v1":
				req = httpReq{Method: "POST", Path: "/l1/transactions", Body: mustJSON(body)}
			case "bulk":
				req = httpReq{Method: "POST", Path: "/v2/l1/_bulk", Body: mustJSON([]any{map[string]any{"action": "CREATE_TRANSACTION", "data": body}})}
			default:
				req = httpReq{Method: "POST", Path: "/v2/l1/_bulk", Headers: map[string]string{"Content-Type": "application/vnd.formance.ledger.api.v2.bulk+json-stream"},
					Body: append(mustJSON(map[string]any{"action": "CREATE_TRANSACTION", "data": body}), '\n')}
			}
			code, doc, raw := do(req)
			desc := fmt.Sprintf("%s runtime=%q %s", route, runtime, r.describe())
			// ---- outcome
			var txDoc map[string]any
			errorCode := fmt.Sprint(doc["errorCode"])
			switch route {
			case "v2":
				txDoc, _ = doc["data"].(map[string]any)
			case "v1":
				if arr, _ := doc["data"].([]any); len(arr) == 1 {
					txDoc, _ = arr[0].(map[string]any)
				}
			default:
				if arr, _ := doc["data"].([]any); len(arr) == 1 {
					el, _ := arr[0].(map[string]any)
					if el["responseType"] == "ERROR" {
						errorCode = fmt.Sprint(el["errorCode"])
					} else {
						txDoc, _ = el["data"].(map[string]any)
					}
				}
			}
			got := ErrNone
			switch {
			case code/100 == 2 && txDoc != nil:
			case errorCode == "INSUFFICIENT_FUND":
				got = ErrInsufficientFunds
			case errorCode == "CONFLICT":
				got = ErrReferenceConflict
			default:
				got = ErrOther
			}
			hist = append(hist, fmt.Sprintf("%s => HTTP %d %s", desc, code, got))
			history := strings.Join(hist, "\n  ")
			if got != want {
				rt.Fatalf("VIOLATION[C25]: %s is answered HTTP %d (%s), the reference fold expects %q\n  response: %s\nhistory:\n  %s\n  %s", desc, code, got, want, raw, l.History(), history)
			}
			if got != ErrNone {
				l.Failures++
				continue
			}
			// ---- the transaction returned, and the one read back
			var tx ledger.Transaction
			if err := json.Unmarshal(mustJSON(txDoc), &tx); err != nil || tx.ID == nil {
				rt.Fatalf("VIOLATION[C25]: %s: the transaction in the response cannot be decoded (%v): %s", desc, err, raw)
			}
			check := func(where string, tx ledger.Transaction) {
				if !postingsEqual(tx.Postings, toModelPostings(r.Postings)) {
					rt.Fatalf("VIOLATION[C25]: %s: %s carries postings that differ from the request\n  submitted: %s\n  recorded:  %s\nhistory:\n  %s", desc, where, postingsStr(r.Postings), postingsStr(tx.Postings), history)
				}
				wantMeta := r.Metadata
				if wantMeta == nil {
					wantMeta = map[string]string{}
				}
				if !metaEqual(map[string]string(tx.Metadata), wantMeta) {
					rt.Fatalf("VIOLATION[C25]: %s: %s carries metadata %v, submitted %v", desc, where, tx.Metadata, r.Metadata)
				}
				if tx.Reference != r.Reference {
					rt.Fatalf("VIOLATION[C25]: %s: %s carries reference %q, submitted %q", desc, where, tx.Reference, r.Reference)
				}
				if !r.Timestamp.IsZero() && !tm(tx.Timestamp).Equal(r.Timestamp) {
					rt.Fatalf("VIOLATION[C25]: %s: %s carries timestamp %s, submitted %s", desc, where, tm(tx.Timestamp), r.Timestamp)
				}
			}
			check("the response", tx)
			_, doc, raw = do(httpReq{Method: "GET", Path: fmt.Sprintf("/v2/l1/transactions/%d", *tx.ID)})
			var back ledger.Transaction
			if d, _ := doc["data"].(map[string]any); d == nil || json.Unmarshal(mustJSON(d), &back) != nil || back.ID == nil {
				rt.Fatalf("VIOLATION[C25]: %s: transaction %d cannot be read back: %s", desc, *tx.ID, raw)
			}
			check("the transaction read back", back)
			// keep the reference model in step
			l.M.AddTx(&refmodel.Tx{ID: *back.ID, Postings: toModelPostings(back.Postings), Timestamp: tm(back.Timestamp), InsertedAt: tm(back.InsertedAt), UpdatedAt: tm(back.UpdatedAt),
				Reference: back.Reference, Metadata: map[string]string(back.Metadata.Copy())}, nil, nil)
			if r.Reference != "" {
				l.Refs[r.Reference] = true
			}
			l.Ops = append(l.Ops, desc+fmt.Sprintf(" => tx %d", *back.ID))
			seen := map[string]int{}
			for _, p := range r.Postings {
				seen[p.Source+"|"+p.Asset]++
				seen[p.Destination+"|"+p.Asset]++
			}
			for _, c := range seen {
				if c >= 2 && route != "v2" {
					nontrivial = true
				}
			}
		}
		// balances follow
		vols := l.M.VolumesNow()
		for _, k := range vols.Keys() {
			_, doc, raw := do(httpReq{Method: "GET", Path: "/v2/l1/accounts/" + k[0], Query: url.Values{"expand": {"volumes"}}})
			if !l.Has("MOVES_HISTORY", "ON") {
				break
			}
			in, ok1 := numberAt(doc, "data", "volumes", k[1], "input")
			out, ok2 := numberAt(doc, "data", "volumes", k[1], "output")
			v := vols.Get(k[0], k[1])
			if !ok1 || !ok2 || in != v.In.String() || out != v.Out.String() {
				rt.Fatalf("VIOLATION[C25]: GET account %s reads %s volumes (%s,%s), the fold of the accepted requests gives (%s,%s)\n  response: %s\nhistory:\n  %s", k[0], k[1], in, out, v.In, v.Out, raw, strings.Join(hist, "\n  "))
			}
		}
		st.Case(strings.Join(hist, "\n"), nontrivial, func() any { return map[string]any{"requests": hist} })
		st.Add("completed_checks_http", 1)
	})
}
