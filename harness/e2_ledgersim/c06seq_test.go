package e2

import (
	"fmt"
	"math/big"
	"strings"
	"testing"

	"pgregory.net/rapid"

	ledger "github.com/formancehq/ledger/internal"
	"github.com/formancehq/ledger/verifharness/env"
	"github.com/formancehq/ledger/verifharness/stats"
)

const ruleC06Seq = "sequential part: a transaction A credits one or two accounts through 1-4 postings (several postings to the same account and asset, several sources, pass-through accounts), other transactions may credit the same accounts, the credited accounts then spend a drawn part of what they hold (amounts drawn around 'what is left covers each posting of A alone but not their sum'), and A is reverted (non-forced 3 times out of 4, fresh or re-used controller): the revert must be refused exactly when the reference fold says some non-world account would end below zero, spends beyond the balance must be refused, and after every step the accounts listing must equal the fold and show no non-world balance below zero unless a forced write put it there; non-trivial = non-forced revert of a transaction with >= 2 postings to one account after a partial spend; distinct = by operation history"

// TestC06Seq is the sequential counterpart of TestC06: what a revert is checked against.
func TestC06Seq(t *testing.T) {
	st := stats.New("C06", "exploration", ruleC06Seq, assumePgsim)
	defer st.Write(t)
	n := stats.N(250, 800)
	st.Set("requested_checks_sequential", n)
	stats.Check(t, n, 606, func(rt *rapid.T) {
		w := NewWorld(rt, st, env.Options{}, "C06", "C15")
		defer w.Close()
		l := w.AddLedger("l1", "b1", GenFeatures(rt))
		asset := rapid.SampledFrom([]string{"USD/2", "COIN"}).Draw(rt, "asset")
		dests := []string{"shop", "u:1"}
		srcs := []string{"world", "world", "bank"}
		forcedDebt := false
		create := func(r TxRequest) TxOutcome {
			want := l.expectPostings(r)
			out := w.CreateTx(l, r)
			if out.Kind != want {
				w.V("C06", "create %s: outcome %q (%v), the model expects %q\nhistory:\n  %s", r.describe(), out.Kind, out.Err, want, l.History())
			}
			if r.Force && out.Kind == ErrNone {
				forcedDebt = true
			}
			return out
		}
		// bank holds something to send
		create(TxRequest{Postings: ledger.Postings{ledger.NewPosting("world", "bank", asset, big.NewInt(500))}})
		// transaction A
		var a ledger.Postings
		perDest := map[string][]int64{}
		for i, k := 0, rapid.IntRange(1, 4).Draw(rt, "postingsOfA"); i < k; i++ {
			d := dests[0]
			if rapid.IntRange(0, 3).Draw(rt, "otherDest") == 0 {
				d = dests[1]
			}
			amt := int64(rapid.IntRange(1, 60).Draw(rt, "amountOfA"))
			a = append(a, ledger.NewPosting(rapid.SampledFrom(srcs).Draw(rt, "sourceOfA"), d, asset, big.NewInt(amt)))
			perDest[d] = append(perDest[d], amt)
		}
		if rapid.IntRange(0, 4).Draw(rt, "passThrough") == 0 {
			// one destination forwards part of what it got inside A itself
			a = append(a, ledger.NewPosting(a[0].Destination, "u:2", asset, big.NewInt(a[0].Amount.Int64()/2)))
		}
		outA := create(TxRequest{Postings: a})
		if outA.Kind != ErrNone {
			return
		}
		if rapid.IntRange(0, 2).Draw(rt, "otherCredit") == 0 {
			create(TxRequest{Postings: ledger.Postings{ledger.NewPosting("world", dests[0], asset, big.NewInt(int64(rapid.IntRange(1, 30).Draw(rt, "extra"))))}})
		}
		multi := false
		partial := false
		for _, d := range dests {
			if len(perDest[d]) >= 2 {
				multi = true
			}
			bal := l.balance(d, asset).Int64()
			if bal <= 0 {
				continue
			}
			// what is left after the spend is drawn around the amounts of A's postings to d
			var spend int64
			switch rapid.IntRange(0, 3).Draw(rt, "spendShape") {
			case 0:
				spend = 0
			case 1:
				spend = int64(rapid.IntRange(1, int(bal)).Draw(rt, "spend"))
			case 2:
				// leaves exactly the largest single posting of A to d (covers each alone, not the sum)
				var mx int64
				for _, x := range perDest[d] {
					if x > mx {
						mx = x
					}
				}
				spend = bal - mx
			default:
				spend = bal + int64(rapid.IntRange(1, 5).Draw(rt, "beyond")) // must be refused
			}
			if spend <= 0 {
				continue
			}
			out := create(TxRequest{Postings: ledger.Postings{ledger.NewPosting(d, "sink", asset, big.NewInt(spend))}, Force: rapid.IntRange(0, 9).Draw(rt, "forcedSpend") == 0})
			if out.Kind == ErrNone && spend > 0 && len(perDest[d]) >= 2 {
				partial = true
			}
		}
		if rapid.IntRange(0, 2).Draw(rt, "reopen") == 0 {
			w.Reopen(l)
		}
		r := RevertRequest{ID: *outA.Tx.ID, Force: rapid.IntRange(0, 3).Draw(rt, "forceRevert") == 0, AtEffectiveDate: rapid.Bool().Draw(rt, "atEffectiveDate")}
		want := l.expectRevert(r)
		out := w.Revert(l, r)
		if out.Kind != want {
			w.V("C06", "revert %+v: outcome %q (%v), the model expects %q\nhistory:\n  %s", r, out.Kind, out.Err, want, l.History())
		}
		if r.Force && out.Kind == ErrNone {
			forcedDebt = true
		}
		// the ledger agrees with the fold, and nobody is in debt unless a forced write did it
		w.CheckAccounts(l, nil, 15)
		w.CheckAggregated(l, nil, false, nil, nil)
		if !forcedDebt {
			vols := l.M.VolumesNow()
			for _, k := range vols.Keys() {
				if k[0] != "world" && vols.Get(k[0], k[1]).Balance().Sign() < 0 {
					w.V("C06", "account %s ends with %s %s although no write was forced\nhistory:\n  %s", k[0], vols.Get(k[0], k[1]).Balance(), k[1], l.History())
				}
			}
		}
		st.Case(strings.Join(l.Ops, "\n"), multi && partial && !r.Force, sampleHistory(l), fmt.Sprintf("revert:%s", out.Kind))
		st.Add("completed_checks_sequential", 1)
	})
}
