package e2

import (
	"errors"
	"fmt"
	"math/big"
	"reflect"
	"strings"
	"testing"

	"pgregory.net/rapid"

	ledger "github.com/formancehq/ledger/internal"
	"github.com/formancehq/ledger/internal/api/bulking"
	"github.com/formancehq/ledger/pkg/features"
	"github.com/formancehq/ledger/verifharness/pgsim"
	"github.com/formancehq/ledger/verifharness/stats"
)

const ruleC07F = "fault enumeration: for every generated write (create by postings, revert, 4 metadata operations, insert schema; as a single request or as an atomic bulk of 1-3 elements; on an 'initializing' or an in-use ledger, fresh or re-used controller chain) the operation is first attempted with a database failure injected at SQL statement k = 1, 2, 3, ... (once before the statement runs, once after its effect has been applied inside the transaction) and then at COMMIT j = 1, 2, ..., until a position past the end lets it complete; a third dimension injects a retryable error - a deadlock (SQLSTATE 40P01), or a refusal for lack of connection slots (53300), which the service answers by replaying the whole request up to 10 times - at statement k of writes and dry runs, so that the retry paths replay them: a replayed write must be applied exactly once; after every attempt that reports an error all tables (bucket and _system, committed rows) must be identical to the snapshot taken before it and the Listener must have received nothing; an attempt that reports success although the fault fired must have made every write it acknowledges durable (one log each); non-trivial = operation with >= 4 enumerated positions of which >= 1 after an effect, that finally commits; distinct = by operation + pre-state history"

// runOps issues the operation (single write or atomic bulk) and returns the error of every part.
func (r *evRun) runOps(l *c31Ledger, mode string, ops []evOp) []error {
	w := r.w
	if mode == "single" {
		_, _, err := ops[0].run(w.Ctx, l.c)
		return []error{err}
	}
	var els []bulking.BulkElement
	for _, o := range ops {
		e, _ := o.element()
		els = append(els, e)
	}
	bulk := make(bulking.Bulk, len(els))
	for _, e := range els {
		bulk <- e
	}
	close(bulk)
	results := make(chan bulking.BulkElementResult, len(els))
	err := bulking.NewBulker(l.c, bulking.WithParallelism(1)).Run(w.Ctx, bulk, results, bulking.BulkingOptions{Atomic: true})
	var errs []error
	for res := range results {
		errs = append(errs, res.Error)
	}
	return append(errs, err)
}

func anyErr(errs []error) error {
	for _, e := range errs {
		if e != nil {
			return e
		}
	}
	return nil
}

type faultEnumStats struct {
	positions, afterEffect, swallowed int
	completed                         bool
}

// enumerate attempts the operation under every fault position of one dimension, then lets it complete.
func (r *evRun) enumerate(t interface{ Fatalf(string, ...any) }, l *c31Ledger, mode string, ops []evOp, dimension string) faultEnumStats {
	var fs faultEnumStats
	sim := r.w.Env.Sim
	desc := fmt.Sprintf("%s on %s %v", mode, l.name, ops)
	attempt := func(plan faultPlan) (fired bool, failed bool) {
		before := sim.Dump()
		evBefore := len(r.lis.events)
		logsBefore := len(r.lis.committedLogs(l.name))
		var errs []error
		tr := withFault(sim, plan, func() { errs = r.runOps(l, mode, ops) })
		for _, e := range errs {
			if e != nil && !errors.Is(e, errInjected) {
				r.w.checkErr(e)
			}
		}
		err := anyErr(errs)
		if !tr.Fired {
			return false, err != nil
		}
		fs.positions++
		if err == nil {
			// the failed statement did not make the operation fail (its error was not needed for the outcome). Then the
			// operation claims success: every write it reports must be in the journal (a COMMIT that failed must not be
			// answered with success)
			fs.swallowed++
			noKey := true
			for _, o := range ops {
				if o.IK != "" || o.DryRun {
					noKey = false
				}
			}
			if noKey {
				grew := len(r.lis.committedLogs(l.name)) - logsBefore
				if grew != len(ops) {
					t.Fatalf("VIOLATION[C07]: %s reports success for its %d write(s) under an injected database failure (%s) but the journal grew by %d log(s): an acknowledged write is not durable\nhistory:\n  %s", desc, len(ops), plan, grew, strings.Join(r.hist, "\n  "))
				}
			}
			return true, false
		}
		after := sim.Dump()
		if !reflect.DeepEqual(before, after) {
			t.Fatalf("VIOLATION[C07]: %s failed under an injected database failure (%s: %v) but left a trace\n%s\nhistory:\n  %s", desc, plan, truncateErr(err), dumpDiff(before, after), strings.Join(r.hist, "\n  "))
		}
		if n := len(r.lis.events) - evBefore; n != 0 {
			t.Fatalf("VIOLATION[C07]: %s failed under an injected database failure (%s) but %d event(s) were published\nhistory:\n  %s", desc, plan, n, strings.Join(r.hist, "\n  "))
		}
		return true, true
	}
	switch dimension {
	case "statement":
		for k := 1; k <= 60; k++ {
			fired, failed := attempt(faultPlan{Kind: "stmt-before", At: k})
			if !fired {
				fs.completed = !failed
				break
			}
			if !failed {
				fs.completed = true // it went through although statement k failed
				break
			}
			fired, failed = attempt(faultPlan{Kind: "stmt-after", At: k})
			if fired && failed {
				fs.afterEffect++
			}
			if !fired || !failed {
				fs.completed = !failed
				break
			}
		}
	case "deadlock", "refused":
		// a retryable failure at statement k - the statement is the victim of a deadlock, or the database has no
		// connection slot left for it: the operation is replayed by a retry path and must then behave exactly like a
		// first attempt - in particular a dry run must still leave nothing behind, and a write is applied once
		dry := mode == "single" && ops[0].DryRun
		for k := 1; k <= 60; k++ {
			before := sim.Dump()
			evBefore := len(r.lis.events)
			logsBefore := len(r.lis.committedLogs(l.name))
			var errs []error
			tr := withFault(sim, faultPlan{Kind: dimension, At: k}, func() { errs = r.runOps(l, mode, ops) })
			for _, e := range errs {
				if e != nil {
					r.w.checkErr(e)
				}
			}
			if !tr.Fired {
				fs.completed = anyErr(errs) == nil
				if dry {
					fs.completed = false
				}
				break
			}
			fs.positions++
			err := anyErr(errs)
			if err != nil || dry {
				fs.afterEffect++
				if after := sim.Dump(); !reflect.DeepEqual(before, after) {
					what := "failed"
					if err == nil {
						what = "was a dry run replayed after a deadlock"
					}
					t.Fatalf("VIOLATION[C07]: %s %s (%s injected at statement %d, outcome %v) but left a trace\n%s\nhistory:\n  %s", desc, what, dimension, k, err, dumpDiff(before, after), strings.Join(r.hist, "\n  "))
				}
				if n := len(r.lis.events) - evBefore; n != 0 {
					t.Fatalf("VIOLATION[C07]: %s (%s injected at statement %d, outcome %v) published %d event(s) without a durable write\nhistory:\n  %s", desc, dimension, k, err, n, strings.Join(r.hist, "\n  "))
				}
				continue
			}
			// a real write went through on the retry: once, and the history has advanced - stop enumerating this operation
			if grew := len(r.lis.committedLogs(l.name)) - logsBefore; grew != len(ops) {
				t.Fatalf("VIOLATION[C07]: %s was replayed after a retryable failure (%s at statement %d) and answered with success for its %d write(s), but the journal grew by %d log(s)\nhistory:\n  %s", desc, dimension, k, len(ops), grew, strings.Join(r.hist, "\n  "))
			}
			fs.completed = true
			break
		}
	case "commit":
		for j := 1; j <= 6; j++ {
			fired, failed := attempt(faultPlan{Kind: "commit", At: j})
			if fired && failed {
				fs.afterEffect++
			}
			if !fired || !failed {
				fs.completed = !failed
				break
			}
		}
	}
	r.hist = append(r.hist, fmt.Sprintf("%s [all %s positions: %d, after an effect: %d] => completed=%v", desc, dimension, fs.positions, fs.afterEffect, fs.completed))
	return fs
}

func TestC07Faults(t *testing.T) { runFaultEnumeration(t, "C07", 80, 200) }

// TestC08Faults: the same enumeration for C08 - a write answered with success has its log in the journal, a write
// answered with an error has none - whatever statement or COMMIT fails on the way.
func TestC08Faults(t *testing.T) { runFaultEnumeration(t, "C08", 40, 120) }

func runFaultEnumeration(t *testing.T, id string, quick, thorough int) {
	st := stats.New(id, "fault_enumeration", ruleC07F, assumePgsim,
		"a database failure is an error returned by the driver for one statement (before or after its effect; the open transaction is then in the aborted state) or for a COMMIT (the transaction is rolled back); failures inside a statement's execution are not modelled")
	defer st.Write(t)
	n := stats.N(quick, thorough)
	st.Set("requested_checks_fault_enumeration", n)
	stats.Check(t, n, 77, func(rt *rapid.T) {
		fs := features.DefaultFeatures
		if rapid.IntRange(0, 3).Draw(rt, "minimalFeatures") == 0 {
			fs = features.MinimalFeatureSet
		}
		r := newEvRun(rt, st, fs, 1)
		defer r.w.Close()
		l := r.ls[0]
		if rapid.IntRange(0, 2).Draw(rt, "seeded") != 0 {
			// an in-use ledger with something to revert / annotate
			for i := 0; i < 2; i++ {
				o := evOp{Kind: "create", Post: ledger.Postings{ledger.NewPosting("world", "bank", "USD/2", big.NewInt(50)), ledger.NewPosting("world", "a:b", "EUR", big.NewInt(9))}, Meta: map[string]string{"k": "v"}}
				if errs := r.runOps(l, "single", []evOp{o}); anyErr(errs) != nil {
					r.w.harness("seeding failed: %v", anyErr(errs))
				}
			}
			r.hist = append(r.hist, "seeded with 2 transactions")
		}
		var total faultEnumStats
		nops := rapid.IntRange(2, 5).Draw(rt, "operations")
		for i := 0; i < nops; i++ {
			if rapid.IntRange(0, 3).Draw(rt, "reopen") == 0 {
				r.reopen(l)
			}
			mode := rapid.SampledFrom([]string{"single", "single", "atomic-bulk"}).Draw(rt, "mode")
			var ops []evOp
			if mode == "single" {
				ops = []evOp{genEvOp(rt, r.w.Env.Sim, l.bucket, l.name, true, false)}
				ops[0].DryRun = rapid.IntRange(0, 3).Draw(rt, "dryRun") == 0
			} else {
				k := rapid.IntRange(1, 3).Draw(rt, "bulkSize")
				for j := 0; j < k; j++ {
					ops = append(ops, genEvOp(rt, r.w.Env.Sim, l.bucket, l.name, false, false))
				}
			}
			for j := range ops {
				ops[j].IK = "" // every attempt must be a fresh execution
			}
			dim := rapid.SampledFrom([]string{"statement", "statement", "commit", "deadlock", "refused"}).Draw(rt, "dimension")
			if ops[0].DryRun && dim != "refused" {
				dim = "deadlock" // the other dimensions need an operation that can eventually commit
			}
			fs := r.enumerate(rt, l, mode, ops, dim)
			total.positions += fs.positions
			total.afterEffect += fs.afterEffect
			total.swallowed += fs.swallowed
			total.completed = total.completed || fs.completed
			st.Add("fault_positions", fs.positions)
			if fs.swallowed > 0 {
				st.Class("fault-swallowed")
			}
			st.Class("dimension:"+dim, "mode:"+mode, "op:"+ops[0].Kind)
			r.w.Env.Sim.AdvanceClock(1e9)
		}
		hist := r.hist
		st.Case(strings.Join(hist, "\n"), total.positions >= 4 && total.afterEffect >= 1 && total.completed, func() any {
			return map[string]any{"history": hist}
		})
		st.Add("completed_checks", 1)
		_ = pgsim.Null
	})
}
