package e2

import (
	"encoding/json"
	"fmt"
	"math/big"
	"reflect"
	"strings"
	"testing"

	"pgregory.net/rapid"

	ledger "github.com/formancehq/ledger/internal"
	ledgercontroller "github.com/formancehq/ledger/internal/controller/ledger"
	"github.com/formancehq/ledger/verifharness/env"
	"github.com/formancehq/ledger/verifharness/stats"
)

const ruleC14Templates = "references under a schema with transaction templates: two ledgers of one bucket adopt (at the start or in the middle of the history) a schema whose templates send a variable amount from world to a variable account, on the machine or the interpreter runtime; 6-16 creates per case, each with a reference drawn from a pool of 4 (or none), submitted as a template call (schemaVersion + script.template + vars), as a script of its own, or as postings, through the controller chain or the HTTP routes; a create whose reference is already held by a transaction of the same ledger must be refused with the reference-conflict error and leave every table unchanged, any other must succeed, return the reference it was given and store it: the transactions table holds exactly one row per (ledger, reference) and the row of each answered id carries the requested reference; non-trivial = >= 1 refused template call and >= 1 reference shared by the two ledgers; distinct = by operation history"

func TestC14Templates(t *testing.T) {
	st := stats.New("C14", "exploration", ruleC14Templates, assumePgsim)
	defer st.Write(t)
	n := stats.N(150, 900)
	st.Set("requested_checks_templates", n)
	stats.Check(t, n, 1441, func(rt *rapid.T) {
		mode := rapid.SampledFrom([]ledgercontroller.SchemaEnforcementMode{ledgercontroller.SchemaEnforcementAudit, ledgercontroller.SchemaEnforcementAudit, ledgercontroller.SchemaEnforcementStrict}).Draw(rt, "mode")
		w := NewWorld(rt, st, env.Options{Enforcement: mode, Interpreter: true}, "C14")
		defer w.Close()
		if rapid.IntRange(0, 2).Draw(rt, "throughTheAPI") == 0 {
			w.ViaHTTP = true
		}
		fs := GenFeatures(rt)
		ls := []*LState{w.AddLedger("l1", "b1", fs), w.AddLedger("l2", "b1", fs)}
		runtime := rapid.SampledFrom([]string{"", "machine", "experimental-interpreter"}).Draw(rt, "templateRuntime")
		tpl := map[string]any{"script": "vars {\n  account $dst\n  monetary $amt\n}\nsend $amt (\n  source = @world\n  destination = $dst\n)\n"}
		if runtime != "" {
			tpl["runtime"] = runtime
		}
		raw := mustJSON(map[string]any{"chart": map[string]any{"world": map[string]any{}, "a": map[string]any{}, "bank": map[string]any{}, "u": map[string]any{"$id": map[string]any{}}}, "transactions": map[string]any{"pay": tpl, "pay2": tpl}})
		var data ledger.SchemaData
		if err := json.Unmarshal(raw, &data); err != nil {
			rt.Fatalf("HARNESS-ERROR: the schema does not decode: %v\n%s", err, raw)
		}
		adopted := map[string]bool{}
		adopt := func(l *LState) {
			if _, _, _, err := l.C.InsertSchema(w.Ctx, ledgercontroller.Parameters[ledgercontroller.InsertSchema]{Input: ledgercontroller.InsertSchema{Version: "v1", Data: data}}); err != nil {
				w.checkErr(err)
				w.harness("the schema is refused: %v\n%s", err, raw)
			}
			adopted[l.Name] = true
		}
		var hist []string
		for _, l := range ls {
			if rapid.Bool().Draw(rt, "schemaFirst:"+l.Name) {
				adopt(l)
				hist = append(hist, l.Name+": schema v1 adopted")
			}
		}
		held := map[string]map[string]uint64{"l1": {}, "l2": {}}
		refusedTemplate, shared := 0, false
		steps := rapid.IntRange(6, 16).Draw(rt, "steps")
		for i := 0; i < steps; i++ {
			l := ls[rapid.IntRange(0, 1).Draw(rt, "ledger")]
			if !adopted[l.Name] && rapid.IntRange(0, 4).Draw(rt, "adoptNow") == 0 {
				adopt(l)
				hist = append(hist, l.Name+": schema v1 adopted")
			}
			ref := ""
			if rapid.IntRange(0, 4).Draw(rt, "withRef") != 0 {
				ref = rapid.SampledFrom(refPool).Draw(rt, "ref")
			}
			dst := rapid.SampledFrom([]string{"a", "bank", "u:1"}).Draw(rt, "dst")
			amt := rapid.IntRange(1, 50).Draw(rt, "amount")
			form := rapid.SampledFrom([]string{"template", "template", "script", "postings"}).Draw(rt, "form")
			if !adopted[l.Name] && form == "template" {
				form = "postings"
			}
			if adopted[l.Name] && mode == ledgercontroller.SchemaEnforcementStrict {
				form = "template" // anything else is refused for reasons of its own
			}
			r := TxRequest{Reference: ref}
			switch form {
			case "template":
				r.Template = rapid.SampledFrom([]string{"pay", "pay2"}).Draw(rt, "template")
				r.Vars = map[string]string{"dst": dst, "amt": fmt.Sprintf("USD/2 %d", amt)}
				r.SchemaVersion = "v1"
			case "script":
				r.Script = fmt.Sprintf("send [USD/2 %d] (\n  source = @world\n  destination = @%s\n)\n", amt, dst)
			default:
				r.Postings = ledger.Postings{ledger.NewPosting("world", dst, "USD/2", big.NewInt(int64(amt)))}
			}
			if adopted[l.Name] {
				r.SchemaVersion = "v1"
			}
			desc := fmt.Sprintf("%s: create (%s) amount=%d dst=%s ref=%q", l.Name, form, amt, dst, ref)
			_, conflict := held[l.Name][ref]
			conflict = conflict && ref != ""
			before := w.Env.Sim.Dump()
			_, res, _, err := l.C.CreateTransaction(w.Ctx, r.params())
			w.checkErr(err)
			kind := classify(err)
			all := strings.Join(append(hist, desc), "\n  ")
			switch {
			case conflict:
				if kind != ErrReferenceConflict {
					rt.Fatalf("VIOLATION[C14]: %s: reference %q is held by transaction %d of that ledger, the create must be refused with a reference conflict; got %q (%v)\nhistory:\n  %s", desc, ref, held[l.Name][ref], kind, err, all)
				}
				if after := w.Env.Sim.Dump(); !reflect.DeepEqual(before, after) {
					rt.Fatalf("VIOLATION[C14]: %s was refused with a reference conflict but left a trace\n%s\nhistory:\n  %s", desc, dumpDiff(before, after), all)
				}
				if form == "template" {
					refusedTemplate++
				}
				hist = append(hist, desc+" => reference conflict")
				continue
			case kind != ErrNone:
				rt.Fatalf("VIOLATION[C14]: %s: no transaction of that ledger holds reference %q, yet the create failed: %q (%v)\nhistory:\n  %s", desc, ref, kind, err, all)
			}
			tx := res.Transaction
			if tx.Reference != ref {
				rt.Fatalf("VIOLATION[C14]: %s: the transaction was created with reference %q\nhistory:\n  %s", desc, tx.Reference, all)
			}
			if ref != "" {
				held[l.Name][ref] = *tx.ID
				other := "l1"
				if l.Name == "l1" {
					other = "l2"
				}
				if _, ok := held[other][ref]; ok {
					shared = true
				}
			}
			hist = append(hist, fmt.Sprintf("%s => tx %d", desc, *tx.ID))
			// what is stored
			perRef := map[string]int{}
			for _, row := range w.Env.Sim.Rows("b1", "transactions") {
				stored := ""
				if !row["reference"].IsNull() {
					stored = row["reference"].S
				}
				if stored != "" {
					perRef[row["ledger"].S+"\x00"+stored]++
				}
				if row["ledger"].S == l.Name && row["id"].N.Uint64() == *tx.ID && stored != ref {
					rt.Fatalf("VIOLATION[C14]: %s: transaction %d is stored with reference %q\nhistory:\n  %s", desc, *tx.ID, stored, strings.Join(hist, "\n  "))
				}
			}
			for k, n := range perRef {
				if n > 1 {
					rt.Fatalf("VIOLATION[C14]: %d stored transactions carry (ledger, reference) %q\nhistory:\n  %s", n, strings.ReplaceAll(k, "\x00", ", "), strings.Join(hist, "\n  "))
				}
			}
		}
		st.Case(strings.Join(hist, "\n"), refusedTemplate >= 1 && shared, func() any {
			return map[string]any{"history": hist, "mode": string(mode), "via_http": w.ViaHTTP}
		}, fmt.Sprintf("mode:%s", mode), fmt.Sprintf("via-http:%v", w.ViaHTTP), fmt.Sprintf("refused-template-calls:%d", min(refusedTemplate, 3)), fmt.Sprintf("template-runtime:%s", runtime))
		st.Add("completed_checks_templates", 1)
	})
}
