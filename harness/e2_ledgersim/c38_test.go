package e2

import (
	"bytes"
	"encoding/base64"
	"encoding/json"
	"fmt"
	"math/big"
	"net/http"
	"net/http/httptest"
	"net/url"
	"reflect"
	"regexp"
	"sort"
	"strconv"
	"strings"
	"sync"
	"testing"
	"time"

	"pgregory.net/rapid"

	ledger "github.com/formancehq/ledger/internal"
	"github.com/formancehq/ledger/pkg/features"
	"github.com/formancehq/ledger/verifharness/env"
	"github.com/formancehq/ledger/verifharness/known"
	"github.com/formancehq/ledger/verifharness/pgsim"
	"github.com/formancehq/ledger/verifharness/stats"
)

// ---------------------------------------------------------------- request model

type httpReq struct {
	Route   string
	Method  string
	Path    string
	Query   url.Values
	Body    []byte
	Headers map[string]string
	// Write says the route can modify the ledger; Partial says an error answer may legitimately follow partial effects (bulk, import).
	Write, Partial bool
	// MustReject is set by a mutation that makes the input invalid beyond doubt: the answer must be 4xx.
	MustReject string
	Mutations  []string
}

func (r httpReq) String() string {
	q := ""
	if len(r.Query) > 0 {
		q = "?" + r.Query.Encode()
	}
	h := ""
	if len(r.Headers) > 0 {
		keys := make([]string, 0, len(r.Headers))
		for k := range r.Headers {
			keys = append(keys, k)
		}
		sort.Strings(keys)
		for _, k := range keys {
			h += fmt.Sprintf(" -H %q", k+": "+r.Headers[k])
		}
	}
	b := ""
	if len(r.Body) > 0 {
		b = " -d " + fmt.Sprintf("%q", truncate(string(r.Body), 400))
	}
	m := ""
	if len(r.Mutations) > 0 {
		m = "   # " + strings.Join(r.Mutations, ", ")
	}
	return fmt.Sprintf("%s %s%s%s%s%s", r.Method, r.Path, q, h, b, m)
}

func (r httpReq) do(h http.Handler) *httptest.ResponseRecorder {
	target := r.Path
	if len(r.Query) > 0 {
		target += "?" + r.Query.Encode()
	}
	req, err := http.NewRequest(r.Method, "http://ledger"+target, bytes.NewReader(r.Body))
	if err != nil {
		// the client library refuses to even build it: not something a server ever sees
		return nil
	}
	req.RequestURI = target
	for k, v := range r.Headers {
		req.Header.Set(k, v)
	}
	if len(r.Body) > 0 && req.Header.Get("Content-Type") == "" {
		req.Header.Set("Content-Type", "application/json")
	}
	rec := httptest.NewRecorder()
	done := make(chan struct{})
	go func() {
		defer close(done)
		h.ServeHTTP(rec, req)
	}()
	select {
	case <-done:
		return rec
	case <-time.After(requestWatchdog):
		// an in-memory request that has not been answered after a minute is blocked (e.g. on a lock nobody will release)
		hung := httptest.NewRecorder()
		hung.Code = -2
		return hung
	}
}

const requestWatchdog = 60 * time.Second

// ---------------------------------------------------------------- seeded deployment

type apiWorld struct {
	w      *World
	l      *LState
	router http.Handler
	txIDs  []uint64
}

const c38Schema = `{"chart":{"world":{},"bank":{},"a":{"$x":{".self":{},"$y":{}}},"u":{"$id":{".metadata":{"kind":{"default":"user"}}}},"_":{},"-":{},"p":{"$n":{}}},
"transactions":{"pay":{"description":"pay","script":"vars {\n account $dst\n monetary $m\n}\nsend $m (\n source = @world\n destination = $dst\n)"}},
"queries":{"byAccount":{"resource":"transactions","vars":{"acc":"string"},"body":{"$match":{"account":"${acc}"}},"params":{"pageSize":2}},
"rich":{"resource":"accounts","vars":{"min":{"type":"int","default":10}},"body":{"$gte":{"balance[USD/2]":"${min}"}}},
"vols":{"resource":"volumes","params":{"groupBy":1}},
"journal":{"resource":"logs"}}}`

func newAPIWorld(t T, st *stats.Collector) *apiWorld {
	w := NewWorld(t, st, env.Options{}, "C38")
	l := w.AddLedger("l1", "b1", features.DefaultFeatures)
	now := w.Env.Sim.Clock()
	mk := func(ps ledger.Postings, ref string, md map[string]string, ts time.Time) uint64 {
		out := w.CreateTx(l, TxRequest{Postings: ps, Reference: ref, Metadata: md, Timestamp: ts})
		if out.Kind != ErrNone {
			w.harness("seeding the API world failed: %v", out.Err)
		}
		return *out.Tx.ID
	}
	a := &apiWorld{w: w, l: l}
	a.txIDs = append(a.txIDs, mk(ledger.Postings{ledger.NewPosting("world", "bank", "USD/2", big.NewInt(1000)), ledger.NewPosting("world", "u:1", "EUR", big.NewInt(50))}, "r1", map[string]string{"k": "v"}, time.Time{}))
	w.Env.Sim.AdvanceClock(time.Hour)
	a.txIDs = append(a.txIDs, mk(ledger.Postings{ledger.NewPosting("bank", "a:b", "USD/2", big.NewInt(100))}, "", nil, now.Add(-48*time.Hour)))
	a.txIDs = append(a.txIDs, mk(ledger.Postings{ledger.NewPosting("bank", "u:2", "USD/2", big.NewInt(7))}, "r2", map[string]string{"role": "x"}, time.Time{}))
	w.SaveAccountMeta(l, "u:1", map[string]string{"role": "admin"}, false)
	w.Env.Sim.AdvanceClock(time.Hour)
	if out := w.Revert(l, RevertRequest{ID: a.txIDs[2], Force: true}); out.Kind != ErrNone {
		w.harness("seeding revert failed: %v", out.Err)
	} else {
		a.txIDs = append(a.txIDs, *out.Tx.ID)
	}
	// a pristine ledger, target of the import route
	if err := w.Env.CreateLedger(w.Ctx, "imp", "b2", features.DefaultFeatures); err != nil {
		w.harness("CreateLedger(imp): %v", err)
	}
	a.router = w.Env.Router()
	// schema through the API itself (also proves the seed request shapes are accepted)
	rec := httpReq{Method: "POST", Path: "/v2/l1/schemas/v1", Body: []byte(c38Schema)}.do(a.router)
	if rec.Code != http.StatusNoContent {
		w.harness("seeding schema failed: HTTP %d %s", rec.Code, rec.Body.String())
	}
	w.Env.Sim.AdvanceClock(time.Hour)
	return a
}

// ---------------------------------------------------------------- valid request generators

var apiAddresses = []string{"world", "bank", "a:b", "u:1", "u:2", "u:9", "_", "-"}
var apiAssets = []string{"USD/2", "EUR", "COIN/6"}

func (a *apiWorld) genPostingsJSON(t *rapid.T) []any {
	n := rapid.IntRange(1, 3).Draw(t, "nPostings")
	var out []any
	for i := 0; i < n; i++ {
		src := "world"
		if rapid.IntRange(0, 3).Draw(t, "fromBank") == 0 {
			src = "bank"
		}
		out = append(out, map[string]any{"source": src, "destination": rapid.SampledFrom(apiAddresses).Draw(t, "dst"),
			"asset": rapid.SampledFrom(apiAssets).Draw(t, "asset"), "amount": json.Number(fmt.Sprint(rapid.IntRange(0, 30).Draw(t, "amount")))})
	}
	return out
}

func (a *apiWorld) pickTx(t *rapid.T) string {
	if rapid.IntRange(0, 6).Draw(t, "unknownTx") == 0 {
		return fmt.Sprint(rapid.IntRange(50, 60).Draw(t, "txID"))
	}
	return fmt.Sprint(a.txIDs[rapid.IntRange(0, len(a.txIDs)-1).Draw(t, "txIdx")])
}

func genFilter(t *rapid.T, resource string, depth int) any {
	leaf := func() any {
		switch resource {
		case "transactions":
			switch rapid.IntRange(0, 6).Draw(t, "txLeaf") {
			case 0:
				return map[string]any{"$match": map[string]any{"account": rapid.SampledFrom([]string{"bank", "u:", "a:b", ":1"}).Draw(t, "addr")}}
			case 1:
				return map[string]any{"$match": map[string]any{"reference": "r1"}}
			case 2:
				return map[string]any{"$match": map[string]any{"metadata[k]": "v"}}
			case 3:
				return map[string]any{"$gte": map[string]any{"id": json.Number("2")}}
			case 4:
				return map[string]any{"$match": map[string]any{"reverted": rapid.Bool().Draw(t, "rev")}}
			case 5:
				return map[string]any{"$exists": map[string]any{"metadata": "role"}}
			default:
				return map[string]any{"$lt": map[string]any{"timestamp": "2030-01-01T00:00:00Z"}}
			}
		case "accounts", "volumes", "balances":
			switch rapid.IntRange(0, 3).Draw(t, "accLeaf") {
			case 0:
				return map[string]any{"$match": map[string]any{"address": rapid.SampledFrom([]string{"bank", "u:", "a:b", ":1"}).Draw(t, "addr")}}
			case 1:
				return map[string]any{"$match": map[string]any{"metadata[role]": "admin"}}
			case 2:
				if resource == "balances" {
					return map[string]any{"$exists": map[string]any{"metadata": "role"}}
				}
				return map[string]any{"$gte": map[string]any{"balance[USD/2]": json.Number("5")}}
			default:
				return map[string]any{"$in": map[string]any{"address": []any{"bank", "u:1"}}}
			}
		default: // logs
			if rapid.Bool().Draw(t, "logLeaf") {
				return map[string]any{"$gte": map[string]any{"id": json.Number("2")}}
			}
			return map[string]any{"$lt": map[string]any{"date": "2030-01-01T00:00:00Z"}}
		}
	}
	if depth <= 0 || rapid.IntRange(0, 2).Draw(t, "leaf") != 0 {
		return leaf()
	}
	switch rapid.IntRange(0, 2).Draw(t, "combinator") {
	case 0:
		return map[string]any{"$and": []any{genFilter(t, resource, depth-1), genFilter(t, resource, depth-1)}}
	case 1:
		return map[string]any{"$or": []any{genFilter(t, resource, depth-1), genFilter(t, resource, depth-1)}}
	default:
		return map[string]any{"$not": genFilter(t, resource, depth-1)}
	}
}

func mustJSON(v any) []byte {
	b, err := json.Marshal(v)
	if err != nil {
		panic(err)
	}
	return b
}

func (a *apiWorld) listParams(t *rapid.T, q url.Values, resource string, v2 bool) {
	if rapid.IntRange(0, 2).Draw(t, "withPageSize") == 0 {
		q.Set("pageSize", fmt.Sprint(rapid.IntRange(1, 20).Draw(t, "pageSize")))
	}
	if v2 {
		if rapid.IntRange(0, 3).Draw(t, "withPIT") == 0 {
			q.Set("pit", a.w.Env.Sim.Clock().Add(-time.Duration(rapid.IntRange(0, 100).Draw(t, "pitHours"))*time.Hour).Format(time.RFC3339))
		}
		if rapid.IntRange(0, 3).Draw(t, "withExpand") == 0 && (resource == "transactions" || resource == "accounts") {
			q.Set("expand", rapid.SampledFrom([]string{"volumes", "effectiveVolumes", "volumes,effectiveVolumes"}).Draw(t, "expand"))
		}
	}
}

// genValid draws one well-formed request of the route table.
func (a *apiWorld) genValid(t *rapid.T) httpReq {
	route := rapid.SampledFrom(apiRoutes).Draw(t, "route")
	r := httpReq{Route: route, Query: url.Values{}, Headers: map[string]string{}}
	v2 := strings.HasPrefix(route, "v2")
	base := "/l1"
	if v2 {
		base = "/v2/l1"
	}
	withIK := func() {
		if rapid.IntRange(0, 4).Draw(t, "withIK") == 0 {
			r.Headers["Idempotency-Key"] = rapid.SampledFrom(ikPool).Draw(t, "ik")
		}
	}
	meta := func() map[string]any {
		return map[string]any{rapid.SampledFrom([]string{"k", "role", "x y"}).Draw(t, "mk"): rapid.SampledFrom([]string{"v", "", "é∑", `q"`}).Draw(t, "mv")}
	}
	switch route {
	case "v2 POST /transactions", "v1 POST /transactions":
		r.Method, r.Path, r.Write = "POST", base+"/transactions", true
		body := map[string]any{}
		switch rapid.IntRange(0, 3).Draw(t, "txShape") {
		case 0, 1:
			body["postings"] = a.genPostingsJSON(t)
		case 2:
			body["script"] = map[string]any{"plain": "vars {\n account $dst\n monetary $m\n}\nsend $m (\n source = @world\n destination = $dst\n)",
				"vars": map[string]any{"dst": rapid.SampledFrom(apiAddresses[1:]).Draw(t, "dst"), "m": map[string]any{"asset": "USD/2", "amount": json.Number(fmt.Sprint(rapid.IntRange(0, 50).Draw(t, "amt")))}}}
		default:
			body["script"] = map[string]any{"plain": "vars {\n number $n\n string $s\n asset $a\n portion $p\n}\nsend [$a 30] (\n source = @world\n destination = {\n  $p to @u:1\n  remaining to @u:2\n }\n)\nset_tx_meta(\"n\", $n)\nset_tx_meta(\"s\", $s)",
				"vars": map[string]any{"n": rapid.SampledFrom([]any{json.Number("3"), "3", "null", "-1", "1e3", ""}).Draw(t, "numberVar"), "s": rapid.SampledFrom([]string{"x", "", "null"}).Draw(t, "stringVar"),
					"a": rapid.SampledFrom([]string{"EUR", "USD/2", "null", "eur"}).Draw(t, "assetVar"), "p": rapid.SampledFrom([]string{"1/3", "50%", "0", "1", "2/1", "null", "x", "1/0", "0/0", "7 / 000", "101%", "-1/2", "1/-2", "0.5", "%"}).Draw(t, "portionVar")}}
		}
		if rapid.IntRange(0, 2).Draw(t, "withMeta") == 0 {
			body["metadata"] = meta()
		}
		if rapid.IntRange(0, 3).Draw(t, "withRef") == 0 {
			body["reference"] = rapid.SampledFrom([]string{"r1", "r7", "r8", "r9"}).Draw(t, "ref")
		}
		if rapid.IntRange(0, 3).Draw(t, "withTS") == 0 {
			body["timestamp"] = a.w.Env.Sim.Clock().Add(-time.Duration(rapid.IntRange(1, 500).Draw(t, "back")) * time.Minute).Format(time.RFC3339)
		}
		if v2 {
			if rapid.IntRange(0, 5).Draw(t, "dry") == 0 {
				r.Query.Set("dryRun", "true")
			}
			if rapid.IntRange(0, 5).Draw(t, "accMeta") == 0 {
				body["accountMetadata"] = map[string]any{"u:1": meta()}
			}
			if rapid.IntRange(0, 6).Draw(t, "schema") == 0 {
				r.Query.Set("schemaVersion", "v1")
			}
		} else if rapid.IntRange(0, 5).Draw(t, "preview") == 0 {
			r.Query.Set("preview", "true")
		}
		r.Body = mustJSON(body)
		withIK()
	case "v2 GET /transactions", "v1 GET /transactions", "v2 HEAD /transactions", "v1 HEAD /transactions":
		r.Method, r.Path = strings.Fields(route)[1], base+"/transactions"
		a.listParams(t, r.Query, "transactions", v2)
		if v2 {
			if rapid.IntRange(0, 1).Draw(t, "withFilter") == 0 {
				r.Body = mustJSON(genFilter(t, "transactions", 2))
			}
			if rapid.IntRange(0, 4).Draw(t, "sort") == 0 {
				r.Query.Set("sort", rapid.SampledFrom([]string{"id:asc", "timestamp:desc", "insertedAt", "id"}).Draw(t, "sortBy"))
			}
		} else {
			switch rapid.IntRange(0, 6).Draw(t, "v1Filter") {
			case 0:
				r.Query.Set("account", "bank")
			case 1:
				r.Query.Set("reference", "r1")
			case 2:
				r.Query.Set("metadata[k]", "v")
			case 3:
				r.Query.Set("after", "3")
			case 4:
				r.Query.Set("startTime", "2020-01-01T00:00:00Z")
			case 5:
				r.Query.Set("destination", "u:")
			}
		}
	case "v2 GET /transactions/{id}", "v1 GET /transactions/{id}":
		r.Method, r.Path = "GET", base+"/transactions/"+a.pickTx(t)
		if v2 && rapid.IntRange(0, 2).Draw(t, "expand") == 0 {
			r.Query.Set("expand", "volumes")
		}
	case "v2 POST /transactions/{id}/revert", "v1 POST /transactions/{id}/revert":
		r.Method, r.Path, r.Write = "POST", base+"/transactions/"+a.pickTx(t)+"/revert", true
		if v2 {
			if rapid.Bool().Draw(t, "force") {
				r.Query.Set("force", "true")
			}
			if rapid.IntRange(0, 3).Draw(t, "atEff") == 0 {
				r.Query.Set("atEffectiveDate", "true")
			}
			if rapid.IntRange(0, 3).Draw(t, "dry") == 0 {
				r.Query.Set("dryRun", "true")
			}
			if rapid.IntRange(0, 2).Draw(t, "withBody") == 0 {
				r.Body = mustJSON(map[string]any{"metadata": meta()})
			}
		} else if rapid.Bool().Draw(t, "disableChecks") {
			r.Query.Set("disableChecks", "true")
		}
		withIK()
	case "v2 POST /transactions/{id}/metadata", "v1 POST /transactions/{id}/metadata":
		r.Method, r.Path, r.Write = "POST", base+"/transactions/"+a.pickTx(t)+"/metadata", true
		r.Body = mustJSON(meta())
		withIK()
	case "v2 DELETE /transactions/{id}/metadata/{key}", "v1 DELETE /transactions/{id}/metadata/{key}":
		r.Method, r.Path, r.Write = "DELETE", base+"/transactions/"+a.pickTx(t)+"/metadata/"+rapid.SampledFrom([]string{"k", "role", "nope"}).Draw(t, "key"), true
	case "v2 GET /accounts", "v1 GET /accounts", "v2 HEAD /accounts", "v1 HEAD /accounts":
		r.Method, r.Path = strings.Fields(route)[1], base+"/accounts"
		a.listParams(t, r.Query, "accounts", v2)
		if v2 {
			if rapid.IntRange(0, 1).Draw(t, "withFilter") == 0 {
				r.Body = mustJSON(genFilter(t, "accounts", 2))
			}
		} else {
			switch rapid.IntRange(0, 4).Draw(t, "v1Filter") {
			case 0:
				r.Query.Set("address", "u:")
			case 1:
				r.Query.Set("metadata[role]", "admin")
			case 2:
				r.Query.Set("balance", "5")
				r.Query.Set("balanceOperator", rapid.SampledFrom([]string{"gte", "e", "lt", "ne"}).Draw(t, "op"))
			}
		}
	case "v2 GET /accounts/{address}", "v1 GET /accounts/{address}":
		r.Method, r.Path = "GET", base+"/accounts/"+rapid.SampledFrom(apiAddresses).Draw(t, "addr")
		if v2 && rapid.IntRange(0, 2).Draw(t, "expand") == 0 {
			r.Query.Set("expand", "volumes")
		}
	case "v2 POST /accounts/{address}/metadata", "v1 POST /accounts/{address}/metadata":
		r.Method, r.Path, r.Write = "POST", base+"/accounts/"+rapid.SampledFrom(apiAddresses[1:]).Draw(t, "addr")+"/metadata", true
		r.Body = mustJSON(meta())
		withIK()
	case "v2 DELETE /accounts/{address}/metadata/{key}", "v1 DELETE /accounts/{address}/metadata/{key}":
		r.Method, r.Path, r.Write = "DELETE", base+"/accounts/"+rapid.SampledFrom(apiAddresses[1:]).Draw(t, "addr")+"/metadata/"+rapid.SampledFrom([]string{"k", "role", "nope"}).Draw(t, "key"), true
	case "v2 GET /aggregate/balances", "v1 GET /aggregate/balances":
		r.Method, r.Path = "GET", base+"/aggregate/balances"
		if v2 {
			if rapid.IntRange(0, 2).Draw(t, "pit") == 0 {
				r.Query.Set("pit", a.w.Env.Sim.Clock().Add(-time.Hour).Format(time.RFC3339))
				if rapid.Bool().Draw(t, "ins") {
					r.Query.Set("useInsertionDate", "true")
				}
			}
			if rapid.Bool().Draw(t, "withFilter") {
				r.Body = mustJSON(genFilter(t, "balances", 1))
			}
		} else if rapid.Bool().Draw(t, "address") {
			r.Query.Set("address", "u:")
		}
	case "v1 GET /balances":
		r.Method, r.Path = "GET", base+"/balances"
		if rapid.Bool().Draw(t, "address") {
			r.Query.Set("address", "u:")
		}
	case "v2 GET /volumes":
		r.Method, r.Path = "GET", base+"/volumes"
		a.listParams(t, r.Query, "volumes", true)
		if rapid.IntRange(0, 2).Draw(t, "group") == 0 {
			r.Query.Set("groupBy", fmt.Sprint(rapid.IntRange(0, 3).Draw(t, "groupBy")))
		}
		if rapid.IntRange(0, 3).Draw(t, "ins") == 0 {
			r.Query.Set("insertionDate", "true")
		}
		if rapid.IntRange(0, 3).Draw(t, "oot") == 0 {
			r.Query.Set("startTime", a.w.Env.Sim.Clock().Add(-200*time.Hour).Format(time.RFC3339))
		}
		if rapid.Bool().Draw(t, "withFilter") {
			r.Body = mustJSON(genFilter(t, "volumes", 1))
		}
	case "v2 GET /logs", "v1 GET /logs":
		r.Method, r.Path = "GET", base+"/logs"
		a.listParams(t, r.Query, "logs", false)
		if v2 && rapid.Bool().Draw(t, "withFilter") {
			r.Body = mustJSON(genFilter(t, "logs", 1))
		}
		if !v2 && rapid.IntRange(0, 2).Draw(t, "after") == 0 {
			r.Query.Set("after", "2")
		}
	case "v2 POST /logs/export":
		r.Method, r.Path = "POST", base+"/logs/export"
	case "v2 POST /logs/import":
		r.Method, r.Path, r.Write, r.Partial = "POST", "/v2/imp/logs/import", true, true
		logs := []string{
			`{"type":"NEW_TRANSACTION","data":{"transaction":{"postings":[{"source":"world","destination":"bank","amount":5,"asset":"USD/2"}],"metadata":{},"timestamp":"2023-01-01T00:00:00Z","id":1,"reverted":false,"insertedAt":"2023-01-01T00:00:00Z","updatedAt":"2023-01-01T00:00:00Z"},"accountMetadata":{}},"date":"2023-01-01T00:00:00Z","idempotencyKey":"","id":1,"hash":null}`,
			`{"type":"SET_METADATA","data":{"targetType":"ACCOUNT","targetId":"bank","metadata":{"k":"v"}},"date":"2023-01-01T00:00:01Z","idempotencyKey":"","id":2,"hash":null}`,
			`{"type":"SET_METADATA","data":{"targetType":"TRANSACTION","targetId":1,"metadata":{"k":"v"}},"date":"2023-01-01T00:00:02Z","idempotencyKey":"","id":3,"hash":null}`,
			`{"type":"DELETE_METADATA","data":{"targetType":"ACCOUNT","targetId":"bank","key":"k"},"date":"2023-01-01T00:00:03Z","idempotencyKey":"","id":4,"hash":null}`,
			`{"type":"REVERTED_TRANSACTION","data":{"revertedTransaction":{"postings":[{"source":"world","destination":"bank","amount":5,"asset":"USD/2"}],"metadata":{},"timestamp":"2023-01-01T00:00:00Z","id":1,"reverted":true,"revertedAt":"2023-01-01T00:00:04Z","insertedAt":"2023-01-01T00:00:00Z","updatedAt":"2023-01-01T00:00:04Z"},"transaction":{"postings":[{"source":"bank","destination":"world","amount":5,"asset":"USD/2"}],"metadata":{"com.formance.spec/state/reverts":"1"},"timestamp":"2023-01-01T00:00:04Z","id":2,"reverted":false,"insertedAt":"2023-01-01T00:00:04Z","updatedAt":"2023-01-01T00:00:04Z"}},"date":"2023-01-01T00:00:04Z","idempotencyKey":"","id":5,"hash":null}`,
		}
		// one log per request (so that JSON-node mutations apply to it); the ledger accepts them in order only
		r.Body = []byte(logs[rapid.IntRange(0, len(logs)-1).Draw(t, "importLog")] + "\n")
	case "v2 POST /_bulk":
		r.Method, r.Path, r.Write, r.Partial = "POST", base+"/_bulk", true, true
		n := rapid.IntRange(1, 3).Draw(t, "bulkSize")
		var els []any
		for i := 0; i < n; i++ {
			switch rapid.IntRange(0, 3).Draw(t, "elKind") {
			case 0, 1:
				els = append(els, map[string]any{"action": "CREATE_TRANSACTION", "data": map[string]any{"postings": a.genPostingsJSON(t), "metadata": map[string]any{}}})
			case 2:
				els = append(els, map[string]any{"action": "ADD_METADATA", "data": map[string]any{"targetType": "ACCOUNT", "targetId": "u:1", "metadata": meta()}})
			default:
				els = append(els, map[string]any{"action": "REVERT_TRANSACTION", "data": map[string]any{"id": json.Number(a.pickTx(t)), "force": true}})
			}
		}
		if rapid.IntRange(0, 5).Draw(t, "actionSpelling") == 0 {
			// an action named in another case is no action of the API: the whole request is refused
			el := els[rapid.IntRange(0, len(els)-1).Draw(t, "respelled")].(map[string]any)
			name := el["action"].(string)
			if rapid.Bool().Draw(t, "lower") {
				el["action"] = strings.ToLower(name)
			} else {
				el["action"] = name[:1] + strings.ToLower(name[1:])
			}
		}
		r.Body = mustJSON(els)
		if rapid.Bool().Draw(t, "atomic") {
			r.Query.Set("atomic", "true")
			r.Partial = false
		}
	case "v2 POST /_bulk script-stream":
		r.Method, r.Path, r.Write, r.Partial = "POST", base+"/_bulk", true, true
		r.Headers["Content-Type"] = "application/vnd.formance.ledger.api.v2.bulk+script-stream"
		var sb strings.Builder
		for i, n := 0, rapid.IntRange(1, 3).Draw(t, "scripts"); i < n; i++ {
			sb.WriteString("//script")
			if rapid.IntRange(0, 2).Draw(t, "streamIK") == 0 {
				sb.WriteString(" ik=" + rapid.SampledFrom(ikPool).Draw(t, "ik"))
			}
			sb.WriteString("\nsend [USD/2 " + fmt.Sprint(rapid.IntRange(0, 9).Draw(t, "amt")) + "] (\n source = @world\n destination = @" + rapid.SampledFrom(apiAddresses[1:]).Draw(t, "dst") + "\n)\n//end\n")
		}
		r.Body = []byte(sb.String())
	case "v2 POST /_bulk json-stream":
		r.Method, r.Path, r.Write, r.Partial = "POST", base+"/_bulk", true, true
		r.Headers["Content-Type"] = "application/vnd.formance.ledger.api.v2.bulk+json-stream"
		var sb strings.Builder
		for i, n := 0, rapid.IntRange(1, 3).Draw(t, "elements"); i < n; i++ {
			sb.Write(mustJSON(map[string]any{"action": "CREATE_TRANSACTION", "data": map[string]any{"postings": a.genPostingsJSON(t), "metadata": map[string]any{}}}))
			sb.WriteString("\n")
		}
		r.Body = []byte(sb.String())
	case "v2 POST /schemas/{version}":
		r.Method, r.Path, r.Write = "POST", base+"/schemas/"+rapid.SampledFrom([]string{"v1", "v2", "v3"}).Draw(t, "version"), true
		r.Body = []byte(c38Schema)
	case "v2 GET /schemas/{version}":
		r.Method, r.Path = "GET", base+"/schemas/"+rapid.SampledFrom([]string{"v1", "v9"}).Draw(t, "version")
	case "v2 GET /schemas":
		r.Method, r.Path = "GET", base+"/schemas"
		a.listParams(t, r.Query, "schemas", false)
	case "v2 POST /queries/{id}/run":
		id := rapid.SampledFrom([]string{"byAccount", "rich", "vols", "journal", "nope"}).Draw(t, "queryID")
		r.Method, r.Path = "POST", base+"/queries/"+id+"/run"
		r.Query.Set("schemaVersion", "v1")
		body := map[string]any{}
		switch id {
		case "byAccount":
			body["vars"] = map[string]any{"acc": rapid.SampledFrom([]string{"bank", "u:", "a:b"}).Draw(t, "acc")}
		case "rich":
			if rapid.Bool().Draw(t, "withMin") {
				body["vars"] = map[string]any{"min": json.Number(fmt.Sprint(rapid.IntRange(0, 100).Draw(t, "min")))}
			}
		}
		if rapid.IntRange(0, 3).Draw(t, "undeclaredVar") == 0 {
			// a variable the template does not declare is ignored
			vars, _ := body["vars"].(map[string]any)
			if vars == nil {
				vars = map[string]any{}
			}
			vars[rapid.SampledFrom([]string{"adress", "x", ""}).Draw(t, "undeclared")] = rapid.SampledFrom([]any{"bank", json.Number("3"), nil, true}).Draw(t, "undeclaredValue")
			body["vars"] = vars
		}
		if rapid.IntRange(0, 2).Draw(t, "params") == 0 {
			body["params"] = map[string]any{"pageSize": json.Number(fmt.Sprint(rapid.IntRange(1, 5).Draw(t, "ps")))}
		}
		r.Body = mustJSON(body)
	case "v2 GET /_info", "v1 GET /_info", "v2 GET /stats", "v1 GET /stats":
		r.Method, r.Path = "GET", base+"/"+strings.TrimPrefix(strings.Fields(route)[2], "/")
	case "v2 GET /", "v2 GET /{ledger}":
		r.Method, r.Path = "GET", "/v2"
		if route == "v2 GET /{ledger}" {
			r.Path = "/v2/" + rapid.SampledFrom([]string{"l1", "nope"}).Draw(t, "ledger")
		}
	case "v2 POST /{ledger}":
		r.Method, r.Path = "POST", "/v2/"+rapid.SampledFrom([]string{"l1", "fresh1", "fresh2"}).Draw(t, "ledger")
		if rapid.Bool().Draw(t, "withBody") {
			r.Body = mustJSON(map[string]any{"bucket": rapid.SampledFrom([]string{"b1", "b2"}).Draw(t, "bucket"), "metadata": map[string]any{"a": "b"}})
		}
	case "v2 PUT /{ledger}/metadata":
		r.Method, r.Path = "PUT", "/v2/l1/metadata"
		r.Body = mustJSON(meta())
	case "v2 DELETE /{ledger}/metadata/{key}":
		r.Method, r.Path = "DELETE", "/v2/l1/metadata/k"
	case "v1 POST /transactions/batch":
		r.Method, r.Path = "POST", base+"/transactions/batch"
		r.Body = []byte(`{"transactions":[]}`)
	default:
		panic("route without generator: " + route)
	}
	return r
}

var apiRoutes = []string{
	"v2 POST /transactions", "v2 POST /transactions", "v1 POST /transactions", "v1 POST /transactions",
	"v2 GET /transactions", "v1 GET /transactions", "v2 HEAD /transactions", "v1 HEAD /transactions",
	"v2 GET /transactions/{id}", "v1 GET /transactions/{id}",
	"v2 POST /transactions/{id}/revert", "v1 POST /transactions/{id}/revert",
	"v2 POST /transactions/{id}/metadata", "v1 POST /transactions/{id}/metadata",
	"v2 DELETE /transactions/{id}/metadata/{key}", "v1 DELETE /transactions/{id}/metadata/{key}",
	"v2 GET /accounts", "v1 GET /accounts", "v2 HEAD /accounts", "v1 HEAD /accounts",
	"v2 GET /accounts/{address}", "v1 GET /accounts/{address}",
	"v2 POST /accounts/{address}/metadata", "v1 POST /accounts/{address}/metadata",
	"v2 DELETE /accounts/{address}/metadata/{key}", "v1 DELETE /accounts/{address}/metadata/{key}",
	"v2 GET /aggregate/balances", "v1 GET /aggregate/balances", "v1 GET /balances",
	"v2 GET /volumes", "v2 GET /logs", "v1 GET /logs", "v2 POST /logs/export", "v2 POST /logs/import",
	"v2 POST /_bulk", "v2 POST /_bulk script-stream", "v2 POST /_bulk json-stream", "v2 POST /schemas/{version}", "v2 GET /schemas/{version}", "v2 GET /schemas",
	"v2 POST /queries/{id}/run", "v2 GET /_info", "v1 GET /_info", "v2 GET /stats", "v1 GET /stats",
	"v2 GET /", "v2 GET /{ledger}", "v2 POST /{ledger}", "v2 PUT /{ledger}/metadata", "v2 DELETE /{ledger}/metadata/{key}",
	"v1 POST /transactions/batch",
}

// ---------------------------------------------------------------- mutations

var hostileJSON = []any{nil, true, false, json.Number("0"), json.Number("-1"), json.Number("1.5"), json.Number("1e400"), json.Number("18446744073709551616"),
	json.Number("-9223372036854775809"), sqlMarker, "", "abc", " ", "a:::b", "é∑", "\u0000", "${x}", "0", "-1", "null", strings.Repeat("A", 300),
	[]any{}, map[string]any{}, []any{nil}, []any{[]any{[]any{}}}, map[string]any{"a": map[string]any{"b": nil}}, []any{json.Number("1"), "x"}}

// sqlMarker is a client-supplied string that must never reach a SQL statement outside a quoted literal or identifier.
const sqlMarker = "zqxj;drop"

var hostileStrings = []string{sqlMarker, sqlMarker, "", " ", "abc", "-1", "0", "1.5", "1e9", "99999999999999999999999", "null", "true", "é∑", "%", "%zz", "'", `"`, "\\", "a b", "a:::b", ":", "a:", "../x", "\x00", "${x}", "{}", "[]",
	strings.Repeat("9", 400), "2023-13-45", "yesterday", "0000-00-00T00:00:00Z", "id:sideways", ";drop table", "$", "metadata[", "balance[", "balance[]"}

type jsonPath []any // string keys and int indexes

func collectPaths(v any, cur jsonPath, out *[]jsonPath) {
	*out = append(*out, append(jsonPath{}, cur...))
	switch x := v.(type) {
	case map[string]any:
		keys := make([]string, 0, len(x))
		for k := range x {
			keys = append(keys, k)
		}
		sort.Strings(keys)
		for _, k := range keys {
			collectPaths(x[k], append(cur, k), out)
		}
	case []any:
		for i := range x {
			collectPaths(x[i], append(cur, i), out)
		}
	}
}

// setAt returns a copy of v with the node at path replaced (or deleted when del is set).
func setAt(v any, path jsonPath, nv any, del bool) any {
	if len(path) == 0 {
		return nv
	}
	switch x := v.(type) {
	case map[string]any:
		c := make(map[string]any, len(x))
		for k, e := range x {
			c[k] = e
		}
		k := path[0].(string)
		if len(path) == 1 && del {
			delete(c, k)
			return c
		}
		c[k] = setAt(c[k], path[1:], nv, del)
		return c
	case []any:
		c := append([]any{}, x...)
		i := path[0].(int)
		if i >= len(c) {
			return c
		}
		if len(path) == 1 && del {
			return append(c[:i], c[i+1:]...)
		}
		c[i] = setAt(c[i], path[1:], nv, del)
		return c
	}
	return v
}

func getAt(v any, path jsonPath) any {
	for _, p := range path {
		switch x := v.(type) {
		case map[string]any:
			v = x[p.(string)]
		case []any:
			if i := p.(int); i < len(x) {
				v = x[i]
			} else {
				return nil
			}
		default:
			return nil
		}
	}
	return v
}

func pathStr(p jsonPath) string {
	var sb strings.Builder
	for _, e := range p {
		fmt.Fprintf(&sb, "/%v", e)
	}
	if sb.Len() == 0 {
		return "/"
	}
	return sb.String()
}

func decodeJSON(b []byte) (any, bool) {
	dec := json.NewDecoder(bytes.NewReader(b))
	dec.UseNumber()
	var v any
	if err := dec.Decode(&v); err != nil {
		return nil, false
	}
	return v, true
}

// hasJSONBody says whether the route reads a JSON document from the body (so that a broken document is invalid input).
func (r httpReq) requiresJSONBody() bool {
	switch {
	case strings.HasSuffix(r.Route, "POST /transactions"), strings.HasSuffix(r.Route, "/metadata") && r.Method == "POST",
		r.Route == "v2 POST /_bulk", r.Route == "v2 POST /schemas/{version}", r.Route == "v2 POST /queries/{id}/run", r.Route == "v2 PUT /{ledger}/metadata":
		return true
	}
	return false
}

// mutate applies one drawn mutation to the request.
func (a *apiWorld) mutate(t *rapid.T, r httpReq) httpReq {
	note := func(s string, args ...any) { r.Mutations = append(r.Mutations, fmt.Sprintf(s, args...)) }
	reject := func(string) {} // the verdict is derived from the final request, see mustReject
	doc, isJSON := decodeJSON(r.Body)
	kinds := []string{"query-value", "query-add", "path-segment", "header", "content-type", "raw-body"}
	if isJSON && len(r.Body) > 0 {
		kinds = append(kinds, "json-type", "json-type", "json-type", "json-delete", "json-targeted", "json-targeted", "json-truncate", "json-extra-field")
	}
	if !isJSON && len(r.Body) > 0 {
		kinds = append(kinds, "text-line", "text-line", "text-line")
	}
	switch k := rapid.SampledFrom(kinds).Draw(t, "mutation"); k {
	case "text-line":
		// line-level damage to a text stream (script-stream bulk, concatenated JSON documents)
		lines := strings.Split(string(r.Body), "\n")
		i := rapid.IntRange(0, len(lines)-1).Draw(t, "line")
		switch rapid.IntRange(0, 6).Draw(t, "lineOp") {
		case 0:
			lines = append(lines[:i], lines[i+1:]...)
		case 1:
			lines[i] = strings.SplitN(lines[i], "=", 2)[0]
		case 2:
			lines = append(lines[:i], append([]string{"//script"}, lines[i:]...)...)
		case 3:
			lines = append(lines[:i], append([]string{"//end"}, lines[i:]...)...)
		case 4:
			lines = lines[:i+1]
		case 5:
			lines[i] = lines[i] + "," + lines[i]
		default:
			lines[i] = rapid.SampledFrom([]string{"//script ik", "//script ik=", "//script ,", "//script x", "//script ik=a,ik=b", "//", "", "{", "null"}).Draw(t, "lineValue")
		}
		r.Body = []byte(strings.Join(lines, "\n"))
		note("text line %d edited", i)
	case "json-type":
		var paths []jsonPath
		collectPaths(doc, nil, &paths)
		p := paths[rapid.IntRange(0, len(paths)-1).Draw(t, "path")]
		nv := hostileJSON[rapid.IntRange(0, len(hostileJSON)-1).Draw(t, "hostile")]
		r.Body = mustJSON(setAt(doc, p, nv, false))
		note("json %s := %s", pathStr(p), truncate(string(mustJSON(nv)), 40))
	case "json-delete":
		var paths []jsonPath
		collectPaths(doc, nil, &paths)
		if len(paths) > 1 {
			p := paths[rapid.IntRange(1, len(paths)-1).Draw(t, "path")]
			r.Body = mustJSON(setAt(doc, p, nil, true))
			note("json delete %s", pathStr(p))
		}
	case "json-extra-field":
		// an unknown key is added to one of the objects of the document (the root, a posting, the vars of a script or of a
		// query template, a metadata map, ...)
		var paths, objs []jsonPath
		collectPaths(doc, nil, &paths)
		for _, p := range paths {
			if _, ok := getAt(doc, p).(map[string]any); ok {
				objs = append(objs, p)
			}
		}
		if len(objs) > 0 {
			p := objs[rapid.IntRange(0, len(objs)-1).Draw(t, "object")]
			c := map[string]any{}
			for k, v := range getAt(doc, p).(map[string]any) {
				c[k] = v
			}
			key := rapid.SampledFrom([]string{"", "__proto__", "id", "postCommitVolumes", "reverted", "ledger", "é", "adress", "x"}).Draw(t, "extraKey")
			c[key] = hostileJSON[rapid.IntRange(0, len(hostileJSON)-1).Draw(t, "hostile")]
			r.Body = mustJSON(setAt(doc, p, c, false))
			note("json extra field %q in %s", key, pathStr(p))
		}
	case "json-truncate":
		if len(r.Body) > 2 {
			cut := rapid.IntRange(1, len(r.Body)-1).Draw(t, "cut")
			r.Body = r.Body[:cut]
			note("body truncated at %d", cut)
			if _, ok := decodeJSON(r.Body); !ok && r.requiresJSONBody() {
				reject("the body is not a complete JSON document")
			}
		}
	case "json-targeted":
		// invalidate one posting field, the classic client mistakes
		var paths []jsonPath
		collectPaths(doc, nil, &paths)
		var cands []jsonPath
		for _, p := range paths {
			if len(p) >= 2 {
				if key, ok := p[len(p)-1].(string); ok && (key == "source" || key == "destination" || key == "asset" || key == "amount") {
					if _, isIdx := p[len(p)-2].(int); isIdx {
						cands = append(cands, p)
					}
				}
			}
		}
		if len(cands) == 0 {
			break
		}
		p := cands[rapid.IntRange(0, len(cands)-1).Draw(t, "posting")]
		var nv any
		switch p[len(p)-1].(string) {
		case "source", "destination":
			nv = rapid.SampledFrom([]string{"", "a b", "a::b", ":a", "a:", "é", "a/b", "a.b"}).Draw(t, "badAddress")
			reject(fmt.Sprintf("posting address %q is not a valid address", nv))
		case "asset":
			nv = rapid.SampledFrom([]string{"", "usd", "USD/", "US D", "USD/a", "/2", "USD//2", "é"}).Draw(t, "badAsset")
			reject(fmt.Sprintf("posting asset %q is not a valid asset", nv))
		default:
			nv = json.Number(rapid.SampledFrom([]string{"-1", "-100000000000000000000"}).Draw(t, "badAmount"))
			reject(fmt.Sprintf("posting amount %v is negative", nv))
		}
		r.Body = mustJSON(setAt(doc, p, nv, false))
		note("json %s := %v", pathStr(p), nv)
	case "raw-body":
		r.Body = []byte(rapid.SampledFrom([]string{"", "{", "[", "null", "true", "42", `"str"`, "{}", "[]", "[{}]", `{"a":`, "\x00\x01", "<xml/>", "postings=1", `{"postings":null}`, `{"script":{"plain":"send"}}`,
			`{"postings":[],"script":{"plain":""}}`, `[{"action":"NOPE","data":{}}]`, `[{"action":"CREATE_TRANSACTION"}]`, `[{"action":"CREATE_TRANSACTION","data":null}]`, `[null]`, `{"vars":{"acc":1}}`,
			`{"cursor":"xxx"}`, `{"params":{"sort":"nope:asc"}}`, `{"params":{"pageSize":-1}}`, `{"chart":null}`, `{"chart":{"$x":{}}}`, `{"chart":{"a":{".pattern":"("}}}`,
			`{"$match":{}}`, `{"$match":{"nope":1}}`, `{"$and":[]}`, `{"$not":[]}`, `{"$in":{"address":"x"}}`, `{"$match":{"balance[":1}}`, `{"$lt":{"timestamp":"x"}}`, `{"$match":{"id":"abc"}}`,
			`{"$match":{"metadata[k]":{"a":1}}}`, `{"$gte":{"balance[USD/2]":"abc"}}`, `{"$match":{"address":["a"]}}`, `{"$exists":{"metadata":1}}`, `{"$like":{"address":"%"}}`}).Draw(t, "rawBody"))
		note("raw body %q", truncate(string(r.Body), 40))
		if _, ok := decodeJSON(r.Body); !ok && len(r.Body) > 0 && r.requiresJSONBody() {
			reject("the body is not JSON")
		}
	case "query-value":
		keys := make([]string, 0, len(r.Query))
		for k := range r.Query {
			keys = append(keys, k)
		}
		sort.Strings(keys)
		if len(keys) == 0 {
			break
		}
		q := cloneValues(r.Query)
		key := keys[rapid.IntRange(0, len(keys)-1).Draw(t, "queryKey")]
		v := rapid.SampledFrom(hostileStrings).Draw(t, "hostileString")
		q.Set(key, v)
		r.Query = q
		note("query %s=%q", key, truncate(v, 30))
		switch key {
		case "pit", "oot", "startTime", "endTime":
			if _, err := time.Parse(time.RFC3339Nano, v); err != nil && v != "" && r.readsDate(key) {
				reject(fmt.Sprintf("%s=%q is not a date", key, v))
			}
		}
	case "query-add":
		q := cloneValues(r.Query)
		key := rapid.SampledFrom([]string{"pageSize", "page_size", "cursor", "pagination_token", "pit", "oot", "expand", "sort", "query", "after", "startTime", "endTime", "start_time", "balance", "balanceOperator", "balance_operator",
			"groupBy", "dryRun", "force", "atomic", "parallel", "continueOnFailure", "schemaVersion", "metadata[a.b]", "metadata", "address", "account", "source", "destination", "reference", "useInsertionDate", "insertionDate", "preview", "disableChecks"}).Draw(t, "newKey")
		var v string
		switch {
		case key == "cursor" || key == "pagination_token":
			v = a.genBadCursor(t)
			if r.isList() && key == "cursor" && cursorUndecodable(v) {
				reject("the cursor is not the base64 encoding of a JSON object")
			}
		case key == "pageSize" && rapid.Bool().Draw(t, "nonNumericPageSize"):
			v = rapid.SampledFrom([]string{"abc", "1.5", "", " 5", "0x10", "１"}).Draw(t, "badPageSize")
			if r.isList() && v != "" && strings.HasPrefix(r.Route, "v2") {
				reject(fmt.Sprintf("pageSize=%q is not a number", v))
			}
		default:
			v = rapid.SampledFrom(hostileStrings).Draw(t, "hostileString")
		}
		q.Set(key, v)
		r.Query = q
		note("query +%s=%q", key, truncate(v, 40))
	case "path-segment":
		parts := strings.Split(r.Path, "/")
		if len(parts) < 3 {
			break
		}
		i := rapid.IntRange(2, len(parts)-1).Draw(t, "segment")
		v := rapid.SampledFrom([]string{sqlMarker, "abc", "-1", "0", "1.5", "99999999999999999999999", "é", "%20", "%zz", "a%2Fb", "a:::b", ":", "$", "..", "%00", "l1", "_", "transactions", "nope", strings.Repeat("x", 300), "a b"}).Draw(t, "segValue")
		old := parts[i]
		parts[i] = v
		r.Path = strings.Join(parts, "/")
		note("path segment %q -> %q", old, v)
		if strings.Contains(r.Route, "/transactions/{id}") && i == len(strings.Split(strings.SplitN(r.Route, " ", 3)[2], "/"))+map[bool]int{true: 2, false: 1}[strings.HasPrefix(r.Route, "v2")] {
			// not worth the bookkeeping: ids are checked by the generic oracle only
		}
	case "header":
		h := map[string]string{}
		for k, v := range r.Headers {
			h[k] = v
		}
		key := rapid.SampledFrom([]string{"Idempotency-Key", "Accept", "Formance-Bigint-As-String", "Authorization", "Content-Length-X", "Prefer"}).Draw(t, "headerKey")
		h[key] = rapid.SampledFrom([]string{"", " ", "é", strings.Repeat("k", 500), "true", "application/xml", "Bearer x", "\t"}).Draw(t, "headerVal")
		r.Headers = h
		note("header %s=%q", key, truncate(h[key], 20))
	case "content-type":
		h := map[string]string{}
		for k, v := range r.Headers {
			h[k] = v
		}
		h["Content-Type"] = rapid.SampledFrom([]string{"text/plain", "application/xml", "application/json; charset=latin1", "application/vnd.formance.ledger.api.v2.bulk+json-stream", "application/vnd.formance.ledger.api.v2.bulk+script-stream", "multipart/form-data", ";"}).Draw(t, "contentType")
		r.Headers = h
		note("content-type %q", h["Content-Type"])
		// another content type may select another body syntax: the JSON-specific verdict no longer applies
	}
	return r
}

// readsDate says whether the v2 route is known to parse the date parameter.
func (r httpReq) readsDate(key string) bool {
	switch r.Route {
	case "v2 GET /transactions", "v2 GET /accounts", "v2 GET /transactions/{id}", "v2 GET /accounts/{address}", "v2 GET /aggregate/balances":
		return key == "pit"
	case "v2 GET /volumes":
		return true
	}
	return false
}

func (r httpReq) isList() bool {
	switch r.Route {
	case "v2 GET /transactions", "v1 GET /transactions", "v2 GET /accounts", "v1 GET /accounts", "v2 GET /volumes", "v2 GET /logs", "v1 GET /logs", "v2 GET /schemas", "v1 GET /balances":
		return true
	}
	return false
}

func cloneValues(q url.Values) url.Values {
	c := url.Values{}
	for k, v := range q {
		c[k] = append([]string{}, v...)
	}
	return c
}

// cursorUndecodable says whether the cursor cannot be a cursor of any endpoint (not base64url, or not a JSON object).
func cursorUndecodable(c string) bool {
	raw, err := base64.RawURLEncoding.DecodeString(c)
	if err != nil {
		return true
	}
	var m map[string]any
	return json.Unmarshal(raw, &m) != nil || m == nil
}

func (a *apiWorld) genBadCursor(t *rapid.T) string {
	enc := func(s string) string { return base64.RawURLEncoding.EncodeToString([]byte(s)) }
	return rapid.SampledFrom([]string{"!!!", "abc", enc("garbage"), enc("{}"), enc("null"), enc("[]"), enc(`{"pageSize":-1}`), enc(`{"offset":-5,"pageSize":3}`), enc(`{"column":"nope","paginationID":1,"order":0,"pageSize":1,"bottom":1}`),
		enc(`{"column":"id; drop table","pageSize":15,"order":1}`), enc(`{"column":"` + sqlMarker + `","pageSize":15,"order":1,"offset":0}`), enc(`{"column":"` + sqlMarker + `","pageSize":15,"order":0,"paginationID":2,"bottom":1}`),
		enc(`{"pageSize":15,"offset":0,"order":0,"column":"id","options":{"expand":["` + sqlMarker + `"]}}`), enc(`{"pageSize":15,"offset":0,"order":0,"column":"id","options":{"qb":{"$match":{"` + sqlMarker + `":"x"}}}}`), enc(`{"pageSize":100000000}`), enc(`{"offset":18446744073709551615,"pageSize":15}`), enc(`{"qb":{"$match":{"nope":1}},"pageSize":15}`),
		enc(`{"options":{"qb":{"$match":{"id":"abc"}}},"pageSize":15,"column":"id"}`), enc(`{"options":{"pit":"zzz"},"pageSize":15}`), base64.StdEncoding.EncodeToString([]byte(`{"pageSize":1`))}).Draw(t, "badCursor")
}

// ---------------------------------------------------------------- oracle

// unquotedOccurrence returns the position of the first occurrence of marker in sql that lies outside
// single-quoted literals (” escapes), double-quoted identifiers and dollar-free comments; -1 if none.
func unquotedOccurrence(sql, marker string) int {
	in := byte(0)
	for i := 0; i < len(sql); i++ {
		c := sql[i]
		switch {
		case in == 0 && (c == '\'' || c == '"'):
			in = c
		case in != 0 && c == in:
			if i+1 < len(sql) && sql[i+1] == in {
				i++ // doubled quote inside the literal / identifier
			} else {
				in = 0
			}
		case in == 0 && strings.HasPrefix(sql[i:], marker):
			return i
		}
	}
	return -1
}

var (
	addressRe = regexp.MustCompile(`^[a-zA-Z0-9_-]+(:[a-zA-Z0-9_-]+)*$`)
	assetRe   = regexp.MustCompile(`^[A-Z][A-Z0-9]{0,16}(_[A-Z]{1,16})?(/\d{1,6})?$`)
)

// mustReject derives, from the request as finally sent, whether it is invalid beyond doubt ("" = no verdict).
func (r httpReq) mustReject() string {
	ct := r.Headers["Content-Type"]
	jsonCT := ct == "" || strings.HasPrefix(ct, "application/json")
	doc, isJSON := decodeJSON(r.Body)
	if r.requiresJSONBody() && jsonCT && len(r.Body) > 0 && !isJSON {
		return "the body is not a JSON document"
	}
	if isJSON && jsonCT && r.Route == "v2 POST /_bulk" {
		if els, ok := doc.([]any); ok {
			for i, e := range els {
				if em, ok := e.(map[string]any); ok {
					if name, ok := em["action"].(string); ok && !bulkActions[name] {
						return fmt.Sprintf("elements[%d].action = %q is not an action of the API", i, name)
					}
				}
			}
		}
	}
	if isJSON && jsonCT && (r.Route == "v2 POST /transactions" || r.Route == "v1 POST /transactions") {
		if m, ok := doc.(map[string]any); ok {
			if ps, ok := m["postings"].([]any); ok {
				for i, p := range ps {
					pm, ok := p.(map[string]any)
					if !ok {
						continue
					}
					for _, k := range []string{"source", "destination"} {
						if v, ok := pm[k].(string); ok && !addressRe.MatchString(v) {
							return fmt.Sprintf("postings[%d].%s = %q is not a valid address", i, k, v)
						}
					}
					if v, ok := pm["asset"].(string); ok && !assetRe.MatchString(v) {
						return fmt.Sprintf("postings[%d].asset = %q is not a valid asset", i, v)
					}
					if v, ok := pm["amount"].(json.Number); ok && strings.HasPrefix(v.String(), "-") && strings.Trim(v.String(), "-0.eE+") != "" {
						return fmt.Sprintf("postings[%d].amount = %s is negative", i, v)
					}
				}
			}
		}
	}
	if c := r.Query.Get("cursor"); c != "" && r.isList() && cursorUndecodable(c) {
		return "the cursor is not the base64 encoding of a JSON object"
	}
	if r.Query.Get("cursor") == "" {
		for _, key := range []string{"pit", "oot", "startTime", "endTime"} {
			if v := r.Query.Get(key); v != "" && r.readsDate(key) {
				if _, err := time.Parse(time.RFC3339Nano, v); err != nil {
					return fmt.Sprintf("%s=%q is not a date", key, v)
				}
			}
		}
		if v, ok := r.Query["pageSize"]; ok && len(v) > 0 && v[0] != "" && r.isList() && strings.HasPrefix(r.Route, "v2") {
			if _, err := strconv.ParseUint(v[0], 10, 64); err != nil {
				return fmt.Sprintf("pageSize=%q is not a number", v[0])
			}
		}
	}
	return ""
}

type apiVerdict struct {
	Status      int
	Problem     string
	Unsupported bool
}

// bucketDump is the content of the data tables (what "the ledger" holds); the ledgers registry is reported separately.
func (a *apiWorld) bucketDump() map[string][]string {
	d := a.w.Env.Sim.Dump()
	out := map[string][]string{}
	for name, rows := range d {
		if strings.HasPrefix(name, "_system.") || strings.HasPrefix(name, ".") || len(rows) == 0 {
			continue
		}
		out[name] = rows
	}
	return out
}

func (a *apiWorld) judge(r httpReq) apiVerdict {
	before := a.bucketDump()
	unsBefore, _ := pgsim.UnsupportedSeen()
	var stmts []string
	var smu sync.Mutex
	a.w.Env.Sim.Hooks.BeforeStatement = func(_ int64, _ bool, sql string) error {
		smu.Lock()
		stmts = append(stmts, sql)
		smu.Unlock()
		return nil
	}
	rec := r.do(a.router)
	a.w.Env.Sim.Hooks = pgsim.Hooks{}
	if rec == nil {
		return apiVerdict{Status: -1}
	}
	v := apiVerdict{Status: rec.Code}
	for _, sql := range stmts {
		if pos := unquotedOccurrence(sql, sqlMarker); pos >= 0 {
			lo := pos - 80
			if lo < 0 {
				lo = 0
			}
			hi := pos + 60
			if hi > len(sql) {
				hi = len(sql)
			}
			v.Problem = fmt.Sprintf("client-supplied text reached a SQL statement outside any quoted literal or identifier (HTTP %d): ...%s...", rec.Code, sql[lo:hi])
			return v
		}
	}
	if unsAfter, what := pgsim.UnsupportedSeen(); unsAfter != unsBefore {
		v.Unsupported = true
		v.Problem = what
		return v
	}
	body := rec.Body.Bytes()
	ct := rec.Header().Get("Content-Type")
	switch {
	case rec.Code == -2:
		v.Problem = fmt.Sprintf("no response within %s: the request hangs", requestWatchdog)
		return v
	case rec.Code >= 500:
		v.Problem = fmt.Sprintf("HTTP %d (body %q): a server error in answer to a client request", rec.Code, truncate(string(body), 200))
		return v
	case rec.Code < 100:
		v.Problem = fmt.Sprintf("invalid status code %d", rec.Code)
		return v
	}
	if r.Method == "HEAD" || rec.Code == http.StatusNoContent {
		if len(body) > 0 && rec.Code == http.StatusNoContent {
			v.Problem = fmt.Sprintf("HTTP 204 with a body: %q", truncate(string(body), 100))
			return v
		}
	} else if len(body) > 0 && strings.Contains(ct, "json") && r.Route != "v2 POST /logs/export" {
		doc, ok := decodeJSON(body)
		if !ok {
			v.Problem = fmt.Sprintf("HTTP %d announces JSON but the body does not parse: %q", rec.Code, truncate(string(body), 200))
			return v
		}
		if rec.Code >= 400 {
			m, _ := doc.(map[string]any)
			if code, _ := m["errorCode"].(string); code == "" {
				v.Problem = fmt.Sprintf("HTTP %d error body without errorCode: %q", rec.Code, truncate(string(body), 200))
				return v
			}
		}
	} else if len(body) == 0 && rec.Code >= 400 && rec.Code != http.StatusNotFound && rec.Code != http.StatusMethodNotAllowed {
		v.Problem = fmt.Sprintf("HTTP %d with an empty body", rec.Code)
		return v
	}
	if why := r.mustReject(); why != "" && rec.Code < 400 {
		v.Problem = fmt.Sprintf("HTTP %d although %s", rec.Code, why)
		return v
	}
	partial := r.Partial
	if strings.HasPrefix(r.Route, "v2 POST /_bulk") {
		partial = strings.ToLower(r.Query.Get("atomic")) != "true" // QueryParamBool: anything else is false
	}
	if rec.Code >= 400 && !partial {
		if after := a.bucketDump(); !reflect.DeepEqual(before, after) {
			v.Problem = fmt.Sprintf("HTTP %d but the ledger changed:\n%s", rec.Code, dumpDiff(before, after))
			return v
		}
	}
	return v
}

const ruleC38 = "requests to the real v1+v2 router (recover middleware included) over a seeded ledger (4 transactions incl. a revert and a back-dated one, metadata, a schema with transaction and query templates): a valid request is drawn for one of 45 routes (both API versions; writes, reads, lists with filters/PIT/expand, bulk, schemas, query templates, import/export, ledger management), then 0-3 grammar-aware mutations are applied (type confusion / deletion / extra fields on any JSON node, targeted invalid posting address/asset/amount, truncated or foreign bodies, hostile query values, forged cursors, hostile path segments, headers, content types). Oracle: never a 5xx or recovered panic; a body announced as JSON parses and error bodies carry an errorCode; a request the mutation made invalid beyond doubt is answered 4xx; after any >= 400 answer every table of the bucket is unchanged (non-atomic bulk and import excepted); non-trivial = mutated request on a write route or with a JSON-node mutation; distinct = by request text"

var bulkActions = map[string]bool{"CREATE_TRANSACTION": true, "ADD_METADATA": true, "REVERT_TRANSACTION": true, "DELETE_METADATA": true}

const FindingAPIBalanceNoAsset = "C38-accounts-balance-without-asset"

// usesAssetlessBalance recognises the class of known finding C38-accounts-balance-without-asset: an accounts
// listing / count filtered on `balance` without an asset (the only form the v1 `balance` parameter has).
func (r httpReq) usesAssetlessBalance() bool {
	if !strings.Contains(r.Path, "/accounts") && !strings.Contains(r.Path, "/balances") {
		return false
	}
	if !strings.HasPrefix(r.Path, "/v2/") {
		if b := r.Query.Get("balance"); b != "" {
			if _, err := strconv.ParseInt(b, 10, 64); err == nil {
				return true
			}
		}
	}
	return bytes.Contains(r.Body, []byte(`"balance"`)) || strings.Contains(r.Query.Get("query"), `"balance"`)
}

// reproduceAPIBalanceNoAsset: the documented v1 request GET /{ledger}/accounts?balance=0&balanceOperator=gte is answered 500 as soon as an account holds two assets.
func reproduceAPIBalanceNoAsset() bool {
	defer func() { _ = recover() }()
	a := newAPIWorld(&quietT{}, nil)
	defer a.w.Close()
	a.w.CreateTx(a.l, TxRequest{Postings: ledger.Postings{ledger.NewPosting("world", "bank", "EUR", big.NewInt(1))}})
	rec := httpReq{Method: "GET", Path: "/l1/accounts", Query: url.Values{"balance": {"0"}, "balanceOperator": {"gte"}}}.do(a.router)
	return rec != nil && rec.Code == http.StatusInternalServerError
}

// c38Pinned replays the shrunk requests behind the defects this check found (all repaired by fix: commits);
// each must be answered without server error, and with the status class given.
func c38Pinned() string {
	q := func(kv ...string) url.Values {
		v := url.Values{}
		for i := 0; i+1 < len(kv); i += 2 {
			v.Set(kv[i], kv[i+1])
		}
		return v
	}
	type pin struct {
		req  httpReq
		want int // status class (2 or 4); 0 = anything but 5xx
	}
	pins := []pin{
		{httpReq{Route: "v1 GET /transactions", Method: "GET", Path: "/l1/transactions", Query: q("after", "3")}, 2},
		{httpReq{Route: "v1 GET /logs", Method: "GET", Path: "/l1/logs", Query: q("after", "2")}, 2},
		{httpReq{Route: "v1 GET /transactions", Method: "GET", Path: "/l1/transactions", Query: q("after", "abc")}, 4},
		{httpReq{Route: "v2 GET /transactions", Method: "GET", Path: "/v2/l1/transactions", Query: q("sort", "abc")}, 4},
		{httpReq{Route: "v2 GET /transactions", Method: "GET", Path: "/v2/l1/transactions", Query: q("cursor", "bnVsbA")}, 4},
		{httpReq{Route: "v2 GET /accounts", Method: "GET", Path: "/v2/l1/accounts", Query: q("cursor", base64.RawURLEncoding.EncodeToString([]byte(`{"column":"`+sqlMarker+`","pageSize":15,"order":1,"offset":0}`)))}, 4},
		{httpReq{Route: "v2 GET /accounts", Method: "GET", Path: "/v2/l1/accounts", Query: q("cursor", base64.RawURLEncoding.EncodeToString([]byte(`{"column":"address","pageSize":15,"offset":0}`)))}, 4},
		{httpReq{Route: "v1 GET /aggregate/balances", Method: "GET", Path: "/l1/aggregate/balances", Query: q("expand", "x")}, 0},
		{httpReq{Route: "v1 GET /balances", Method: "GET", Path: "/l1/balances", Query: q("expand", sqlMarker)}, 4},
		{httpReq{Route: "v2 GET /accounts", Method: "GET", Path: "/v2/l1/accounts", Query: q("expand", sqlMarker)}, 4},
		{httpReq{Route: "v2 GET /accounts/{address}", Method: "GET", Path: "/v2/l1/accounts/world", Query: q("expand", "x")}, 4},
		{httpReq{Route: "v2 GET /logs", Method: "GET", Path: "/v2/l1/logs", Query: q("expand", "x")}, 4},
		{httpReq{Route: "v2 GET /", Method: "GET", Path: "/v2", Query: q("expand", "x")}, 4},
		{httpReq{Route: "v1 POST /transactions", Method: "POST", Path: "/l1/transactions", Write: true,
			Body: []byte(`{"script":{"plain":"vars {\n account $dst\n}\nsend [USD/2 1] (\n source = @world\n destination = $dst\n)","vars":{"dst":false}}}`)}, 4},
		{httpReq{Route: "v2 GET /volumes", Method: "GET", Path: "/v2/l1/volumes", Body: []byte(`{"$in":{"address":["a:","u:1"]}}`)}, 4},
		{httpReq{Route: "v2 GET /volumes", Method: "GET", Path: "/v2/l1/volumes", Body: []byte(`{"$in":{"address":[1]}}`)}, 4},
		{httpReq{Route: "v2 GET /aggregate/balances", Method: "GET", Path: "/v2/l1/aggregate/balances", Body: []byte(`{"$in":{"address":["a:","u:1"]}}`)}, 4},
		{httpReq{Route: "v2 HEAD /accounts", Method: "HEAD", Path: "/v2/l1/accounts", Body: []byte(`{"$in":{"address":["a:","u:1"]}}`)}, 4},
		{httpReq{Route: "v2 GET /volumes", Method: "GET", Path: "/v2/l1/volumes", Body: []byte(`{"$match":{"balance[":1}}`)}, 4},
		{httpReq{Route: "v2 PUT /{ledger}/metadata", Method: "PUT", Path: "/v2/l1/metadata", Body: []byte(`null`)}, 0},
		{httpReq{Route: "v2 GET /transactions", Method: "GET", Path: "/v2/l1/transactions"}, 2},
		{httpReq{Route: "v2 POST /transactions/{id}/metadata", Method: "POST", Path: "/v2/l1/transactions/1/metadata", Write: true, Body: []byte(`null`)}, 0},
		{httpReq{Route: "v2 GET /transactions", Method: "GET", Path: "/v2/l1/transactions"}, 2},
		{httpReq{Route: "v2 POST /logs/import", Method: "POST", Path: "/v2/imp/logs/import", Write: true, Partial: true, Body: []byte(`{"type":"NOPE","data":{},"id":1}`)}, 4},
		{httpReq{Route: "v2 POST /logs/import", Method: "POST", Path: "/v2/imp/logs/import", Write: true, Partial: true, Body: []byte(`{"type":"SET_METADATA","data":{"targetType":"X","targetId":1,"metadata":{}},"id":1}`)}, 4},
		{httpReq{Route: "v2 POST /logs/import", Method: "POST", Path: "/v2/imp/logs/import", Write: true, Partial: true, Body: []byte(`{"type":"NEW_TRANSACTION","data":null,"id":1}`)}, 4},
		{httpReq{Route: "v2 POST /logs/import", Method: "POST", Path: "/v2/imp/logs/import", Write: true, Partial: true, Body: []byte(`{"type":"NEW_TRANSACTION","data":{"transaction":{"postings":[{"source":"world","destination":"bank","amount":null,"asset":"USD/2"}],"metadata":{},"timestamp":"2023-01-01T00:00:00Z","id":1},"accountMetadata":{}},"date":"2023-01-01T00:00:00Z","id":1}`)}, 4},
		{httpReq{Route: "v2 POST /logs/import", Method: "POST", Path: "/v2/imp/logs/import", Write: true, Partial: true, Body: []byte(`{"type":"SET_METADATA","data":{"targetType":"ACCOUNT","targetId":false,"metadata":{"k":"v"}},"date":"2023-01-01T00:00:01Z","id":1}`)}, 4},
		{httpReq{Route: "v2 POST /logs/import", Method: "POST", Path: "/v2/imp/logs/import", Write: true, Partial: true, Body: []byte(`{"type":"NEW_TRANSACTION","data":{"transaction":{"postings":[]},"accountMetadata":{}}}`)}, 4},
		{httpReq{Route: "v2 POST /logs/import", Method: "POST", Path: "/v2/imp/logs/import", Write: true, Partial: true, Body: []byte(`{"type":"SET_METADATA","data":{"targetType":"TRANSACTION","targetId":1,"metadata":{"k":"v"}},"date":"2023-01-01T00:00:02Z","idempotencyKey":"","id":3,"hash":null}`)}, 4},
		{httpReq{Route: "v2 POST /logs/import", Method: "POST", Path: "/v2/imp/logs/import", Write: true, Partial: true, Body: []byte(`{"script":{"plain":"send"}}`)}, 4},
		// the malformed stream above must not leave the ledger locked: its first write has to be answered
		{httpReq{Route: "v2 POST /transactions", Method: "POST", Path: "/v2/imp/transactions", Write: true, Body: []byte(`{"postings":[{"source":"world","destination":"bank","asset":"USD/2","amount":1}]}`)}, 2},
		{httpReq{Route: "v2 POST /_bulk script-stream", Method: "POST", Path: "/v2/l1/_bulk", Write: true, Partial: true, Headers: map[string]string{"Content-Type": "application/vnd.formance.ledger.api.v2.bulk+script-stream"}, Body: []byte("//script ik\nsend [USD/2 1] (\n source = @world\n destination = @bank\n)\n//end\n")}, 0},
		{httpReq{Route: "v2 POST /_bulk script-stream", Method: "POST", Path: "/v2/l1/_bulk", Write: true, Partial: true, Headers: map[string]string{"Content-Type": "application/vnd.formance.ledger.api.v2.bulk+script-stream"}, Body: []byte("//script\n//end\n")}, 0},
		{httpReq{Route: "v2 POST /transactions", Method: "POST", Path: "/v2/l1/transactions", Write: true, Body: []byte(`{"script":{"plain":"vars {\n number $n\n}\nsend [USD/2 1] (\n source = @world\n destination = @bank\n)\nset_tx_meta(\"n\", $n)","vars":{"n":"null"}}}`)}, 4},
		// a query template run with a variable the template does not declare (ignored) and with a wrongly typed declared one
		{httpReq{Route: "v2 POST /queries/{id}/run", Method: "POST", Path: "/v2/l1/queries/byAccount/run", Query: q("schemaVersion", "v1"), Body: []byte(`{"vars":{"acc":"bank","adress":null}}`)}, 2},
		{httpReq{Route: "v2 POST /queries/{id}/run", Method: "POST", Path: "/v2/l1/queries/rich/run", Query: q("schemaVersion", "v1"), Body: []byte(`{"vars":{"min":{"a":1}}}`)}, 4},
		// a portion given as a fraction with a zero denominator, as a variable and as a literal
		{httpReq{Route: "v2 POST /transactions", Method: "POST", Path: "/v2/l1/transactions", Write: true, Body: []byte(`{"script":{"plain":"vars {\n portion $p\n}\nsend [USD/2 3] (\n source = @world\n destination = {\n  $p to @u:1\n  remaining to @u:2\n }\n)","vars":{"p":"1/0"}}}`)}, 4},
		{httpReq{Route: "v1 POST /transactions", Method: "POST", Path: "/l1/transactions", Write: true, Body: []byte(`{"script":{"plain":"send [USD/2 3] (\n source = @world\n destination = {\n  1/0 to @u:1\n  remaining to @u:2\n }\n)"}}`)}, 4},
		{httpReq{Route: "v1 POST /transactions/{id}/metadata", Method: "POST", Path: "/l1/transactions/1/metadata", Write: true, Headers: map[string]string{"Idempotency-Key": "pin1"}, Body: []byte(`{"a":"b"}`)}, 2},
		{httpReq{Route: "v1 POST /transactions/{id}/revert", Method: "POST", Path: "/l1/transactions/1/revert", Write: true, Headers: map[string]string{"Idempotency-Key": "pin1"}}, 4},
	}
	var problem string
	func() {
		defer func() {
			if rec := recover(); rec != nil {
				if _, ok := rec.(skipCheck); !ok {
					panic(rec)
				}
				problem = "seeding the pinned world failed"
			}
		}()
		a := newAPIWorld(&quietT{}, nil)
		defer a.w.Close()
		for _, p := range pins {
			if p.req.Query == nil {
				p.req.Query = url.Values{}
			}
			v := a.judge(p.req)
			if v.Problem != "" {
				problem = fmt.Sprintf("%s\n  request: %s", v.Problem, p.req)
				return
			}
			if p.want != 0 && v.Status/100 != p.want {
				problem = fmt.Sprintf("HTTP %d, want %dxx\n  request: %s", v.Status, p.want, p.req)
				return
			}
		}
	}()
	return problem
}

func TestC38(t *testing.T) {
	st := stats.New("C38", "exploration", ruleC38, assumePgsim,
		"a request whose SQL falls outside the stand-in's subset is discarded and counted (skipped_unsupported_sql), never judged",
		"type errors raised by PostgreSQL itself for well-formed SQL (e.g. text compared with bigint) are only seen where the stand-in models them")
	defer st.Write(t)
	if problem := c38Pinned(); problem != "" && !stats.SkipPinned() {
		t.Fatalf("VIOLATION[C38] (pinned request): %s", problem)
	}
	st.Set("pinned_requests", 41)
	if known.IsOpen(FindingAPIBalanceNoAsset) && reproduceAPIBalanceNoAsset() {
		fmt.Println(known.Line(FindingAPIBalanceNoAsset))
		st.Known(known.Line(FindingAPIBalanceNoAsset))
	}
	n := stats.N(400, 1500)
	st.Set("requested_checks", n)
	stats.Check(t, n, 38, func(rt *rapid.T) {
		a := newAPIWorld(rt, st)
		defer a.w.Close()
		nreq := rapid.IntRange(5, 25).Draw(rt, "requests")
		for i := 0; i < nreq; i++ {
			r := a.genValid(rt)
			nm := rapid.SampledFrom([]int{0, 1, 1, 1, 2, 3}).Draw(rt, "mutations")
			for j := 0; j < nm; j++ {
				r = a.mutate(rt, r)
			}
			v := a.judge(r)
			if v.Unsupported {
				st.Add("skipped_unsupported_sql", 1)
				st.Class("unsupported-sql")
				continue
			}
			if v.Status >= 500 && known.IsOpen(FindingAPIBalanceNoAsset) && r.usesAssetlessBalance() {
				st.Excluded(FindingAPIBalanceNoAsset)
				continue
			}
			cls := []string{"route:" + r.Route, fmt.Sprintf("status:%dxx", v.Status/100)}
			for _, m := range r.Mutations {
				cls = append(cls, "mutation:"+strings.Fields(m)[0])
			}
			if r.mustReject() != "" {
				cls = append(cls, "must-reject")
			}
			if v.Problem != "" {
				rt.Fatalf("VIOLATION[C38]: %s\n  request: %s", v.Problem, r)
			}
			jsonMut := false
			for _, m := range r.Mutations {
				if strings.HasPrefix(m, "json") || strings.HasPrefix(m, "raw") || strings.HasPrefix(m, "body") {
					jsonMut = true
				}
			}
			req := r
			st.Case(r.String(), len(r.Mutations) > 0 && (r.Write || jsonMut), func() any { return map[string]any{"request": req.String(), "status": v.Status} }, cls...)
		}
		st.Add("completed_checks", 1)
	})
}
