package e2

import (
	"bytes"
	"encoding/json"
	"errors"
	"fmt"
	"math/big"
	"reflect"
	"regexp"
	"sort"
	"strings"
	"testing"

	"pgregory.net/rapid"

	"github.com/formancehq/go-libs/v5/pkg/storage/bun/paginate"
	"github.com/formancehq/go-libs/v5/pkg/types/metadata"

	ledger "github.com/formancehq/ledger/internal"
	ledgercontroller "github.com/formancehq/ledger/internal/controller/ledger"
	"github.com/formancehq/ledger/internal/storage/common"
	"github.com/formancehq/ledger/pkg/features"
	"github.com/formancehq/ledger/verifharness/env"
	"github.com/formancehq/ledger/verifharness/stats"
)

// ---------------------------------------------------------------- chart generator (AST -> JSON) and reference matcher

type chartNode struct {
	Fixed    map[string]*chartNode
	VarLabel string
	VarPat   *string
	Var      *chartNode
	Self     bool               // explicit ".self": {}
	Meta     map[string]*string // ".metadata": key -> default (nil = declared without default)
	HasMeta  bool
}

func (n *chartNode) isLeaf() bool { return len(n.Fixed) == 0 && n.Var == nil }

// isAccount: a leaf, or a segment that says ".self".
func (n *chartNode) isAccount() bool { return n.isLeaf() || n.Self }

func (n *chartNode) toJSON() map[string]any {
	out := map[string]any{}
	for k, c := range n.Fixed {
		out[k] = c.toJSON()
	}
	if n.Var != nil {
		v := n.Var.toJSON()
		if n.VarPat != nil {
			v[".pattern"] = *n.VarPat
		}
		out["$"+n.VarLabel] = v
	}
	if n.Self {
		out[".self"] = map[string]any{}
	}
	if n.HasMeta {
		m := map[string]any{}
		for k, d := range n.Meta {
			if d == nil {
				m[k] = map[string]any{}
			} else {
				m[k] = map[string]any{"default": *d}
			}
		}
		out[".metadata"] = m
	}
	return out
}

var chartSegNames = []string{"bank", "u", "a", "b", "c", "x1", "_", "-", "users", "0"}
var chartPatterns = []string{`^[0-9]{1,3}$`, `^[a-z]+$`, `[0-9]`, `^x`, `.*`, `^$`, `^(a|b)$`, `\d+`}

func genChartNode(t *rapid.T, depth int, root bool) *chartNode {
	n := &chartNode{}
	kids := 0
	if depth > 0 {
		kids = rapid.IntRange(0, 3).Draw(t, "fixedChildren")
		if root && kids == 0 {
			kids = 1
		}
	}
	for i := 0; i < kids; i++ {
		name := rapid.SampledFrom(chartSegNames).Draw(t, "segment")
		if n.Fixed == nil {
			n.Fixed = map[string]*chartNode{}
		}
		n.Fixed[name] = genChartNode(t, depth-1, false)
	}
	if !root && depth > 0 && rapid.IntRange(0, 2).Draw(t, "withVariable") == 0 {
		n.VarLabel = rapid.SampledFrom([]string{"id", "x", "user_id", "A-1"}).Draw(t, "label")
		n.Var = genChartNode(t, depth-1, false)
		if rapid.Bool().Draw(t, "withPattern") {
			p := rapid.SampledFrom(chartPatterns).Draw(t, "pattern")
			n.VarPat = &p
		}
	}
	if !root {
		if !n.isLeaf() && rapid.IntRange(0, 2).Draw(t, "self") == 0 {
			n.Self = true
		}
		if n.isLeaf() && rapid.IntRange(0, 5).Draw(t, "redundantSelf") == 0 {
			n.Self = true
		}
		if n.isAccount() && rapid.IntRange(0, 2).Draw(t, "withMetadata") == 0 {
			n.HasMeta = true
			n.Meta = map[string]*string{}
			for i, k := 0, rapid.IntRange(0, 2).Draw(t, "metaKeys"); i < k; i++ {
				key := rapid.SampledFrom([]string{"kind", "role", "x y", "é"}).Draw(t, "metaKey")
				if rapid.IntRange(0, 3).Draw(t, "noDefault") == 0 {
					n.Meta[key] = nil
				} else {
					d := rapid.SampledFrom([]string{"user", "", "é∑", `q"`}).Draw(t, "default")
					n.Meta[key] = &d
				}
			}
		}
	}
	return n
}

// refFind is the reference chart matcher: fixed segments first, then the variable segment (pattern searched, unanchored).
func refFind(children map[string]*chartNode, varNode *chartNode, varPat *string, segs []string) *chartNode {
	seg := segs[0]
	var next *chartNode
	if c, ok := children[seg]; ok {
		next = c
	} else if varNode != nil {
		if varPat != nil {
			if ok, _ := regexp.MatchString(*varPat, seg); !ok {
				return nil
			}
		}
		next = varNode
	}
	if next == nil {
		return nil
	}
	if len(segs) == 1 {
		if next.isAccount() {
			return next
		}
		return nil
	}
	return refFind(next.Fixed, next.Var, next.VarPat, segs[1:])
}

func (n *chartNode) find(address string) *chartNode {
	return refFind(n.Fixed, nil, nil, strings.Split(address, ":"))
}

func (n *chartNode) defaults() map[string]string {
	out := map[string]string{}
	for k, d := range n.Meta {
		if d != nil {
			out[k] = *d
		}
	}
	return out
}

// genAddresses draws addresses biased towards the chart's own segment names.
func genAddress(t *rapid.T) string {
	n := rapid.IntRange(1, 4).Draw(t, "segments")
	parts := make([]string, n)
	for i := range parts {
		parts[i] = rapid.SampledFrom([]string{"bank", "u", "a", "b", "c", "x1", "_", "-", "users", "0", "12", "1234", "abc", "xy", "Z"}).Draw(t, "seg")
	}
	return strings.Join(parts, ":")
}

func classifyChart(real *ledger.ChartOfAccounts, address string) (accepted bool, defaults map[string]string, err error) {
	acc, e := real.FindAccountSchema(address)
	if e != nil {
		if errors.Is(e, ledger.ErrInvalidAccount{}) {
			return false, nil, nil
		}
		return false, nil, e
	}
	if acc == nil {
		return false, nil, fmt.Errorf("nil account schema without error")
	}
	return true, map[string]string(acc.DefaultMetadata()), nil
}

// ---------------------------------------------------------------- C30

const ruleC30 = "random valid charts (depth <= 4; fixed and variable segments, patterns, explicit and implicit .self, .metadata with and without defaults), transaction templates and query templates are written as JSON, decoded by the real code, then (a) marshalled and decoded again, (b) inserted with the real InsertSchema and read back with GetSchema and ListSchemas over the stand-in, (c) posted as generated to POST /v2/{ledger}/schemas/{version} and read back with GET; 12 generated addresses plus every account path of the chart are classified (accepted / rejected, default metadata) by the reference matcher on the generated tree, by the decoded chart and by each round-tripped chart, and templates / query templates are compared; non-trivial = chart with .self on a non-leaf, a variable segment with a pattern and default metadata; distinct = by chart JSON"

func equalStringMaps(a, b map[string]string) bool {
	if len(a) != len(b) {
		return false
	}
	for k, v := range a {
		if bv, ok := b[k]; !ok || bv != v {
			return false
		}
	}
	return true
}

func chartFeatures(n *chartNode, f map[string]bool) {
	if n.Self && !n.isLeaf() {
		f["self-on-non-leaf"] = true
	}
	if n.Var != nil {
		f["variable"] = true
		if n.VarPat != nil {
			f["pattern"] = true
		}
		chartFeatures(n.Var, f)
	}
	for _, d := range n.Meta {
		if d != nil {
			f["default-metadata"] = true
		}
	}
	for _, c := range n.Fixed {
		chartFeatures(c, f)
	}
}

// accountPaths lists one concrete address per account of the chart (variable segments instantiated from samples).
func accountPaths(n *chartNode, prefix []string, out *[]string) {
	visit := func(name string, c *chartNode) {
		p := append(append([]string{}, prefix...), name)
		if c.isAccount() {
			*out = append(*out, strings.Join(p, ":"))
		}
		accountPaths(c, p, out)
	}
	names := make([]string, 0, len(n.Fixed))
	for k := range n.Fixed {
		names = append(names, k)
	}
	sort.Strings(names)
	for _, k := range names {
		visit(k, n.Fixed[k])
	}
	if n.Var != nil {
		for _, s := range []string{"12", "abc", "x1"} {
			visit(s, n.Var)
		}
	}
}

func genSchemaJSON(t *rapid.T) (*chartNode, []byte) {
	root := genChartNode(t, rapid.IntRange(1, 4).Draw(t, "depth"), true)
	doc := map[string]any{"chart": root.toJSON()}
	if rapid.IntRange(0, 2).Draw(t, "withTemplates") == 0 {
		doc["transactions"] = map[string]any{"t1": map[string]any{"description": "d", "script": "vars {\n account $dst\n}\nsend [USD/2 10] (\n source = @world\n destination = $dst\n)", "runtime": rapid.SampledFrom([]string{"", "machine", "experimental-interpreter"}).Draw(t, "runtime")}}
	}
	if rapid.IntRange(0, 2).Draw(t, "withQueries") == 0 {
		doc["queries"] = map[string]any{
			"q1": map[string]any{"resource": "transactions", "vars": map[string]any{"acc": "string", "n": map[string]any{"type": "int", "default": json.Number(rapid.SampledFrom([]string{"3", "9007199254740993", "18446744073709551617", "1000000000000000000007"}).Draw(t, "intDefault"))}}, "body": map[string]any{"$and": []any{map[string]any{"$match": map[string]any{"account": "${acc}"}}, map[string]any{"$gte": map[string]any{"id": "${n}"}}}}, "params": map[string]any{"pageSize": json.Number("5"), "sort": "id:asc"}},
			"q2": map[string]any{"resource": "volumes", "params": map[string]any{"groupBy": json.Number("2"), "insertionDate": true}, "description": "é"},
			"q3": map[string]any{"resource": "accounts", "body": map[string]any{"$gte": map[string]any{"balance[USD/2]": json.Number(rapid.SampledFrom([]string{"10", "9007199254740993", "36893488147419103233"}).Draw(t, "threshold"))}}},
		}
	}
	return root, mustJSON(doc)
}

func TestC30(t *testing.T) {
	st := stats.New("C30", "exploration", ruleC30, assumePgsim, "jsonb storage of the schemas table is the stand-in's (documents are stored parsed and re-serialised, like jsonb)")
	defer st.Write(t)
	n := stats.N(600, 2000)
	st.Set("requested_checks", n)
	stats.Check(t, n, 30, func(rt *rapid.T) {
		root, raw := genSchemaJSON(rt)
		var data ledger.SchemaData
		if err := json.Unmarshal(raw, &data); err != nil {
			rt.Fatalf("HARNESS-ERROR: generated schema does not decode: %v\n%s", err, raw)
		}
		// (a) JSON round trip
		again, err := json.Marshal(data)
		if err != nil {
			rt.Fatalf("VIOLATION[C30]: a decoded schema cannot be marshalled: %v\n%s", err, raw)
		}
		var data2 ledger.SchemaData
		if err := json.Unmarshal(again, &data2); err != nil {
			rt.Fatalf("VIOLATION[C30]: a marshalled schema cannot be decoded again: %v\n  original: %s\n  marshalled: %s", err, raw, again)
		}
		// (b) storage round trip
		w := NewWorld(rt, st, env.Options{}, "C30")
		defer w.Close()
		l := w.AddLedger("l1", "b1", features.DefaultFeatures)
		if _, _, _, err := l.C.InsertSchema(w.Ctx, ledgercontroller.Parameters[ledgercontroller.InsertSchema]{Input: ledgercontroller.InsertSchema{Version: "v1", Data: data}}); err != nil {
			w.checkErr(err)
			rt.Fatalf("VIOLATION[C30]: a valid schema is refused by InsertSchema: %v\n%s", err, raw)
		}
		stored, err := l.C.GetSchema(w.Ctx, "v1")
		if err != nil {
			w.checkErr(err)
			rt.Fatalf("VIOLATION[C30]: GetSchema after InsertSchema: %v", err)
		}
		variants := map[string]ledger.SchemaData{"decoded": data, "marshal+unmarshal": data2, "InsertSchema+GetSchema": stored.SchemaData}
		names := []string{"decoded", "marshal+unmarshal", "InsertSchema+GetSchema"}
		// (c) the same document as a client sends it: POST /schemas/{version} with the generated JSON, GET it back
		if post := w.httpCall("POST", "/v2/l1/schemas/v2", []byte(raw)); post.Code/100 != 2 {
			rt.Fatalf("VIOLATION[C30]: a valid schema is refused by POST /v2/l1/schemas/v2: HTTP %d %s\n%s", post.Code, truncate(post.Body.String(), 300), raw)
		}
		get := w.httpCall("GET", "/v2/l1/schemas/v2", nil)
		var viaAPI struct {
			Data ledger.Schema `json:"data"`
		}
		if err := json.Unmarshal(get.Body.Bytes(), &viaAPI); get.Code != 200 || err != nil {
			rt.Fatalf("VIOLATION[C30]: GET /v2/l1/schemas/v2 after the POST: HTTP %d (%v) %s", get.Code, err, truncate(get.Body.String(), 300))
		}
		if viaAPI.Data.Version != "v2" {
			rt.Fatalf("VIOLATION[C30]: GET /v2/l1/schemas/v2 returns version %q", viaAPI.Data.Version)
		}
		variants["POST+GET /schemas"] = viaAPI.Data.SchemaData
		names = append(names, "POST+GET /schemas")
		var addrs []string
		accountPaths(root, nil, &addrs)
		for i := 0; i < 12; i++ {
			addrs = append(addrs, genAddress(rt))
		}
		accepted := 0
		for _, addr := range addrs {
			want := root.find(addr)
			for _, name := range names {
				v := variants[name]
				ok, defs, err := classifyChart(&v.Chart, addr)
				if err != nil {
					rt.Fatalf("VIOLATION[C30]: %s chart fails on %q: %v\n%s", name, addr, err, raw)
				}
				code := "C30"
				if name == "decoded" {
					code = "C29" // the decoded chart disagrees with the chart as written
				}
				if ok != (want != nil) {
					rt.Fatalf("VIOLATION[%s]: the %s chart %s address %q, the chart as written %s it\n  schema: %s\n  marshalled: %s", code, name, verb(ok), addr, verb(want != nil), raw, again)
				}
				if ok && !equalStringMaps(defs, want.defaults()) {
					rt.Fatalf("VIOLATION[%s]: the %s chart gives %q the default metadata %v, the chart as written %v\n  schema: %s\n  marshalled: %s", code, name, addr, defs, want.defaults(), raw, again)
				}
			}
			if want != nil {
				accepted++
			}
		}
		for _, name := range names[1:] {
			v := variants[name]
			if !reflect.DeepEqual(normTemplates(v.Transactions), normTemplates(data.Transactions)) {
				rt.Fatalf("VIOLATION[C30]: transaction templates changed through %s\n  before: %+v\n  after:  %+v", name, data.Transactions, v.Transactions)
			}
			if a, b := canonJSON(v.Queries), canonJSON(data.Queries); a != b {
				rt.Fatalf("VIOLATION[C30]: query templates changed through %s\n  before: %s\n  after:  %s", name, b, a)
			}
		}
		f := map[string]bool{}
		chartFeatures(root, f)
		var classes []string
		for k := range f {
			classes = append(classes, k)
		}
		sort.Strings(classes)
		st.Case(string(raw), f["self-on-non-leaf"] && f["pattern"] && f["default-metadata"] && accepted > 0, func() any {
			return map[string]any{"schema": json.RawMessage(raw), "addresses": addrs[:min(6, len(addrs))]}
		}, classes...)
		st.Add("completed_checks", 1)
	})
}

func verb(accepted bool) string {
	if accepted {
		return "accepts"
	}
	return "rejects"
}

func normTemplates(t ledger.TransactionTemplates) map[string]ledger.TransactionTemplate {
	out := map[string]ledger.TransactionTemplate{}
	for k, v := range t {
		out[k] = v
	}
	return out
}

func canonJSON(v any) string {
	b, err := json.Marshal(v)
	if err != nil {
		return "marshal error: " + err.Error()
	}
	var x any
	dec := json.NewDecoder(strings.NewReader(string(b)))
	dec.UseNumber()
	if err := dec.Decode(&x); err != nil {
		return string(b)
	}
	if m, ok := x.(map[string]any); ok && len(m) == 0 {
		return "{}"
	}
	if x == nil {
		return "{}"
	}
	c, _ := json.Marshal(x)
	return string(c)
}

// ---------------------------------------------------------------- C29

const ruleC29 = "ledgers in strict and in audit enforcement mode receive a generated schema (random chart as in C30, with or without transaction templates) at the start of, in the middle of (after schema-less writes on the same controller chain), or never during a history of writes: creates by postings whose accounts lie inside / outside the chart, creates through a template or without one, account metadata writes, reverts, each naming the schema version, an unknown version, or none. Oracle from the chart as written (reference matcher): strict mode rejects a missing or unknown version, a posting outside the chart and a missing template, with every table unchanged; audit mode accepts missing version, outside accounts and missing template; accounts the chart declares receive its default metadata when first created and never afterwards, existing values are never overwritten (account metadata read back after every write); non-trivial = history with >= 1 rejected and >= 1 accepted write under a schema and an account created with defaults; distinct = by schema + history"

type c29Write struct {
	Kind      string // create, saveAccMeta, revert
	Dst       []string
	Src       string
	Version   string
	Template  string
	OwnScript bool // the request also carries a script of its own besides naming the template
	Addr      string
	Meta      map[string]string
	AccMeta   map[string]string
	TxID      uint64
}

func (x c29Write) String() string {
	switch x.Kind {
	case "create":
		s := fmt.Sprintf("create %s->%v", x.Src, x.Dst)
		if x.OwnScript {
			s += " +own-script"
		}
		if x.Template != "" {
			s += " template=" + x.Template
		}
		if x.AccMeta != nil {
			s += fmt.Sprintf(" accountMetadata[%s]=%v", x.Dst[0], x.AccMeta)
		}
		return s + " schema=" + x.Version
	case "saveAccMeta":
		return fmt.Sprintf("saveAccMeta %s %v schema=%s", x.Addr, x.Meta, x.Version)
	default:
		return fmt.Sprintf("revert %d schema=%s", x.TxID, x.Version)
	}
}

func TestC29(t *testing.T) { runSchemaHistories(t, "C29", ruleC29, 300, 800) }

const ruleSchemaReplay = "the journal of a ledger that lives under a schema: after each generated history (see below) the journal is exported, sent through JSON and imported into a fresh ledger of another bucket; the import must succeed and the copy must list the same accounts (metadata - the chart's defaults included -, first usage, volumes), the same transactions and the same logs as the source: what the chart added when an account was created is part of what the journal must reproduce; non-trivial = an account created with default metadata under a schema; distinct = by schema + history || "

// TestC08Schemas / TestC11Schemas: the histories of C29 with the replay of the journal as the deciding step.
func TestC08Schemas(t *testing.T) { runSchemaHistories(t, "C08", ruleSchemaReplay+ruleC29, 120, 500) }
func TestC11Schemas(t *testing.T) { runSchemaHistories(t, "C11", ruleSchemaReplay+ruleC29, 120, 500) }

func runSchemaHistories(t *testing.T, id, rule string, quick, thorough int) {
	st := stats.New(id, "exploration", rule, assumePgsim,
		"an unknown schema version is refused in both modes by the code (nothing can be validated against it); the check requires it in strict mode and only counts it in audit mode")
	defer st.Write(t)
	n := stats.N(quick, thorough)
	st.Set("requested_checks_schema_histories", n)
	stats.Check(t, n, 29, func(rt *rapid.T) {
		mode := rapid.SampledFrom([]ledgercontroller.SchemaEnforcementMode{ledgercontroller.SchemaEnforcementStrict, ledgercontroller.SchemaEnforcementStrict, ledgercontroller.SchemaEnforcementAudit}).Draw(rt, "mode")
		root, raw := genSchemaJSON(rt)
		// every chart of this check knows world, so that funding transactions are possible
		if root.Fixed == nil {
			root.Fixed = map[string]*chartNode{}
		}
		if rapid.IntRange(0, 5).Draw(rt, "worldInChart") != 0 {
			root.Fixed["world"] = &chartNode{}
		}
		var doc map[string]any
		dec := json.NewDecoder(bytes.NewReader(raw))
		dec.UseNumber() // integers of the query templates stay exact
		_ = dec.Decode(&doc)
		doc["chart"] = root.toJSON()
		raw = mustJSON(doc)
		var data ledger.SchemaData
		if err := json.Unmarshal(raw, &data); err != nil {
			rt.Fatalf("HARNESS-ERROR: generated schema does not decode: %v\n%s", err, raw)
		}
		hasTemplates := len(data.Transactions) > 0
		w := NewWorld(rt, st, env.Options{Enforcement: mode}, "C29")
		if rapid.IntRange(0, 2).Draw(rt, "throughTheAPI") == 0 {
			// the writes travel through the HTTP routes (schemaVersion parameter, template / script bodies, error codes)
			w.ViaHTTP = true
			st.Class("writes-through-the-api")
		}
		defer w.Close()
		l := w.AddLedger("l1", "b1", features.DefaultFeatures)
		hist := []string{fmt.Sprintf("mode=%s schema=%s", mode, raw)}
		// the schema is adopted at the start of the history, in the middle of it (after writes that knew no
		// schema, on the same controller chain), or never
		withSchema := false
		insertSchema := func() {
			if _, _, _, err := l.C.InsertSchema(w.Ctx, ledgercontroller.Parameters[ledgercontroller.InsertSchema]{Input: ledgercontroller.InsertSchema{Version: "v1", Data: data}}); err != nil {
				w.checkErr(err)
				rt.Fatalf("VIOLATION[C29]: a valid schema is refused: %v\n%s", err, raw)
			}
			withSchema = true
			hist = append(hist, "insert schema v1")
		}
		adoption := rapid.SampledFrom([]string{"first", "first", "later", "later", "never"}).Draw(rt, "schemaAdoption")
		if adoption == "first" {
			insertSchema()
		}
		var preSchemaWrites int
		// model: account -> metadata (existence = key present)
		model := map[string]map[string]string{}
		var txIDs []uint64
		var rejected, acceptedUnderSchema, withDefaults int
		var candidates, withDefaultsCandidates []string
		accountPaths(root, nil, &candidates)
		for _, c := range candidates {
			if n := root.find(c); n != nil && len(n.defaults()) > 0 {
				withDefaultsCandidates = append(withDefaultsCandidates, c)
			}
		}

		readAccountsMeta := func() map[string]map[string]string {
			out := map[string]map[string]string{}
			for _, row := range w.Env.Sim.Rows("b1", "accounts") {
				if row["ledger"].S != "l1" {
					continue
				}
				m := map[string]string{}
				if j, ok := row["metadata"].J.(map[string]any); ok {
					for k, v := range j {
						m[k] = fmt.Sprint(v)
					}
				}
				out[row["address"].S] = m
			}
			return out
		}
		touch := func(addr string, schemaInForce bool, explicit map[string]string) {
			cur, exists := model[addr]
			if !exists {
				cur = map[string]string{}
				if schemaInForce {
					if n := root.find(addr); n != nil {
						for k, v := range n.defaults() {
							cur[k] = v
						}
						if len(n.defaults()) > 0 {
							withDefaults++
						}
					}
				}
			}
			for k, v := range explicit {
				cur[k] = v
			}
			model[addr] = cur
		}

		step := func(rt *rapid.T) {
			pickAddr := func(label string) string {
				if len(withDefaultsCandidates) > 0 && rapid.IntRange(0, 2).Draw(rt, label+"WithDefaults") == 0 {
					return withDefaultsCandidates[rapid.IntRange(0, len(withDefaultsCandidates)-1).Draw(rt, label+"DefIdx")]
				}
				if len(candidates) > 0 && rapid.IntRange(0, 2).Draw(rt, label+"InChart") != 0 {
					return candidates[rapid.IntRange(0, len(candidates)-1).Draw(rt, label+"Idx")]
				}
				return genAddress(rt)
			}
			x := c29Write{Kind: rapid.SampledFrom([]string{"create", "create", "create", "saveAccMeta", "revert"}).Draw(rt, "kind")}
			x.Version = rapid.SampledFrom([]string{"v1", "v1", "v1", "", "v9"}).Draw(rt, "version")
			var out error
			before := w.Env.Sim.Dump()
			// what the schema (if any is in force for this write) says
			schemaInForce := withSchema && x.Version == "v1"
			var wantReject string
			switch {
			case x.Version == "v9" || (x.Version == "v1" && !withSchema):
				wantReject = "unknown schema version"
			case x.Version == "" && withSchema && mode == ledgercontroller.SchemaEnforcementStrict:
				wantReject = "schema version not specified"
			}
			switch x.Kind {
			case "create":
				x.Src = "world"
				nd := rapid.IntRange(1, 2).Draw(rt, "destinations")
				for i := 0; i < nd; i++ {
					x.Dst = append(x.Dst, pickAddr("dst"))
				}
				useTemplate := hasTemplates && rapid.IntRange(0, 2).Draw(rt, "useTemplate") != 0
				if rapid.IntRange(0, 9).Draw(rt, "unknownTemplate") == 0 {
					x.Template = "nope"
				} else if useTemplate {
					x.Template = "t1"
					x.Dst = x.Dst[:1]
				}
				if rapid.IntRange(0, 3).Draw(rt, "withAccMeta") == 0 {
					x.AccMeta = map[string]string{rapid.SampledFrom([]string{"kind", "role", "z"}).Draw(rt, "amk"): rapid.SampledFrom([]string{"set", "", "user"}).Draw(rt, "amv")}
				}
				var run ledgercontroller.RunScript
				if x.Template != "" {
					run = ledgercontroller.RunScript{Script: ledgercontroller.Script{Template: x.Template, Vars: map[string]string{"dst": x.Dst[0]}}}
					if !w.ViaHTTP && rapid.IntRange(0, 3).Draw(rt, "ownScriptBesidesTheTemplate") == 0 { // the single-transaction route refuses the combination up front
						// the request names the template and carries a script of its own (a bulk element or a direct caller can):
						// naming a template means running the template
						x.OwnScript = true
						run.Script.Plain = "vars {\n account $dst\n}\nsend [USD/2 77] (\n source = @world\n destination = $dst\n)\nset_tx_meta(\"own\", \"script\")"
					}
				} else {
					var ps ledger.Postings
					for _, d := range x.Dst {
						ps = append(ps, ledger.NewPosting(x.Src, d, "USD/2", big.NewInt(10)))
					}
					run = ledgercontroller.TxToScriptData(ledger.TransactionData{Postings: ps}, false)
				}
				var am map[string]metadata.Metadata
				if x.AccMeta != nil {
					am = map[string]metadata.Metadata{x.Dst[0]: toMD(x.AccMeta)}
				}
				params := ledgercontroller.Parameters[ledgercontroller.CreateTransaction]{SchemaVersion: x.Version, Input: ledgercontroller.CreateTransaction{RunScript: run, AccountMetadata: am}}
				var res *ledger.CreatedTransaction
				var err error
				if rapid.IntRange(0, 2).Draw(rt, "insideATransaction") == 0 {
					// the way an atomic bulk sends its elements: through a controller derived for one SQL transaction
					st.Class("create-through-a-derived-controller")
					txc, _, berr := l.C.BeginTX(w.Ctx, nil)
					if berr != nil {
						w.harness("BeginTX: %v", berr)
					}
					_, res, _, err = txc.CreateTransaction(w.Ctx, params)
					if err == nil {
						err = txc.Commit(w.Ctx)
					} else {
						_ = txc.Rollback(w.Ctx)
					}
				} else {
					_, res, _, err = l.C.CreateTransaction(w.Ctx, params)
				}
				out = err
				if wantReject == "" {
					switch {
					case x.Template == "nope" || (x.Template != "" && !(schemaInForce && hasTemplates)):
						wantReject = "unknown template / template without schema templates"
					case schemaInForce && hasTemplates && x.Template == "" && mode == ledgercontroller.SchemaEnforcementStrict:
						wantReject = "the schema defines templates and none is used"
					case schemaInForce && mode == ledgercontroller.SchemaEnforcementStrict:
						for _, a := range append([]string{x.Src}, x.Dst...) {
							if root.find(a) == nil {
								wantReject = fmt.Sprintf("account %s is outside the chart", a)
								break
							}
						}
					}
				}
				if err == nil && x.OwnScript {
					for _, p := range res.Transaction.Postings {
						if p.Amount.Cmp(big.NewInt(77)) == 0 {
							rt.Fatalf("VIOLATION[C29]: %s names template %s but the script carried by the request was executed instead (postings %s, recorded template %q)\nhistory:\n  %s", x, x.Template, postingsStr(res.Transaction.Postings), res.Transaction.Template, strings.Join(hist, "\n  "))
						}
					}
					if _, own := res.Transaction.Metadata["own"]; own {
						rt.Fatalf("VIOLATION[C29]: %s names template %s but carries the metadata set by the request's own script", x, x.Template)
					}
				}
				if err == nil {
					txIDs = append(txIDs, *res.Transaction.ID)
					touch(x.Src, schemaInForce, nil)
					for i, d := range x.Dst {
						if i == 0 {
							touch(d, schemaInForce, x.AccMeta)
						} else {
							touch(d, schemaInForce, nil)
						}
					}
				}
			case "saveAccMeta":
				x.Addr = pickAddr("addr")
				x.Meta = map[string]string{rapid.SampledFrom([]string{"kind", "role", "z"}).Draw(rt, "mk"): rapid.SampledFrom([]string{"set", "", "user"}).Draw(rt, "mv")}
				_, _, err := l.C.SaveAccountMetadata(w.Ctx, ledgercontroller.Parameters[ledgercontroller.SaveAccountMetadata]{SchemaVersion: x.Version, Input: ledgercontroller.SaveAccountMetadata{Address: x.Addr, Metadata: toMD(x.Meta)}})
				out = err
				if err == nil {
					touch(x.Addr, schemaInForce, x.Meta)
				}
			case "revert":
				if len(txIDs) == 0 {
					rt.Skip("nothing to revert")
				}
				x.TxID = txIDs[rapid.IntRange(0, len(txIDs)-1).Draw(rt, "txIdx")]
				_, _, _, err := l.C.RevertTransaction(w.Ctx, ledgercontroller.Parameters[ledgercontroller.RevertTransaction]{SchemaVersion: x.Version, Input: ledgercontroller.RevertTransaction{TransactionID: x.TxID, Force: true}})
				out = err
				if errors.Is(err, ledgercontroller.ErrAlreadyReverted{}) {
					hist = append(hist, x.String()+" => already reverted")
					return
				}
			}
			w.checkErr(out)
			hist = append(hist, fmt.Sprintf("%s => %v", x, errStrings([]error{out})[0]))
			history := strings.Join(hist, "\n  ")
			isSchemaErr := out != nil && (errors.Is(out, ledgercontroller.ErrSchemaValidationError{}) || errors.Is(out, ledgercontroller.ErrSchemaNotSpecified{}) || errors.Is(out, ledgercontroller.ErrSchemaNotFound{}))
			switch {
			case wantReject != "" && out == nil:
				if mode == ledgercontroller.SchemaEnforcementAudit && wantReject == "unknown schema version" {
					break
				}
				rt.Fatalf("VIOLATION[C29]: %s was accepted in %s mode although %s\nhistory:\n  %s", x, mode, wantReject, history)
			case wantReject == "" && isSchemaErr:
				rt.Fatalf("VIOLATION[C29]: %s was refused in %s mode (%v) although the schema allows it / the mode only audits\nhistory:\n  %s", x, mode, out, history)
			case wantReject == "" && out != nil:
				rt.Fatalf("VIOLATION[C29]: %s failed: %v\nhistory:\n  %s", x, out, history)
			}
			if out != nil {
				rejected++
				if after := w.Env.Sim.Dump(); !reflect.DeepEqual(before, after) {
					rt.Fatalf("VIOLATION[C29]: the refused write %s left a trace\n%s\nhistory:\n  %s", x, dumpDiff(before, after), history)
				}
			} else if schemaInForce {
				acceptedUnderSchema++
			}
			if got := readAccountsMeta(); !reflect.DeepEqual(got, model) {
				rt.Fatalf("VIOLATION[C29]: account metadata after %s\n  stored:   %v\n  expected: %v (chart defaults on first creation only, explicit values win, nothing overwritten)\nhistory:\n  %s", x, got, model, history)
			}
		}
		setSteps(10)
		actions := map[string]func(*rapid.T){"write": func(t *rapid.T) {
			if !withSchema {
				preSchemaWrites++
			}
			step(t)
		}}
		if adoption == "later" {
			actions["adoptSchema"] = func(t *rapid.T) {
				if withSchema || preSchemaWrites == 0 {
					return
				}
				insertSchema()
			}
		}
		rt.Repeat(actions)
		if id != "C29" {
			w.replayIntoCopy(rt, id, l, hist)
		}
		var classes []string
		classes = append(classes, "mode:"+string(mode), "adoption:"+adoption)
		if adoption == "later" && withSchema {
			classes = append(classes, "schema-adopted-after-writes")
		}
		if hasTemplates {
			classes = append(classes, "templates")
		}
		if rejected > 0 {
			classes = append(classes, "has-rejection")
		}
		if withDefaults > 0 {
			classes = append(classes, "defaults-applied")
		}
		st.Case(strings.Join(hist, "\n"), rejected >= 1 && acceptedUnderSchema >= 1 && withDefaults >= 1, func() any {
			h := hist
			if len(h) > 8 {
				h = h[:8]
			}
			return map[string]any{"history": h}
		}, classes...)
		st.Add("completed_checks_schema_histories", 1)
	})
}

// replayIntoCopy exports the journal of l, imports it into a fresh ledger and compares every listing of the two.
func (w *World) replayIntoCopy(rt *rapid.T, id string, l *LState, hist []string) {
	saved := importsViaHTTP
	importsViaHTTP = false
	defer func() { importsViaHTTP = saved }()
	direct, err := w.Env.Ledger(w.Ctx, l.Name)
	if err != nil {
		w.harness("%v", err)
	}
	src := &LState{Name: l.Name, Bucket: l.Bucket, Features: l.Features, C: direct}
	logs := w.exportLogs(src)
	if len(logs) == 0 {
		return
	}
	wasHTTP := w.ViaHTTP
	w.ViaHTTP = false
	cp := w.AddLedger("copy", "b2", l.Features)
	w.ViaHTTP = wasHTTP
	history := strings.Join(hist, "\n  ")
	if err := w.importLogs(cp, logs); err != nil {
		rt.Fatalf("VIOLATION[%s]: the exported journal of %s (%d logs) is refused by Import on a fresh ledger: %v\nhistory:\n  %s", id, l.Name, len(logs), err, history)
	}
	list := func(c ledgercontroller.Controller, what string) []string {
		var out []string
		switch what {
		case "accounts":
			got, _, err := paginateAll(w, "ListAccounts", common.InitialPaginatedQuery[any]{PageSize: 100, Options: common.ResourceQuery[any]{Expand: []string{"volumes"}}},
				func(q common.PaginatedQuery[any]) (*paginate.Cursor[ledger.Account], error) { return c.ListAccounts(w.Ctx, q) })
			if err != nil {
				w.harness("listing accounts: %v", err)
			}
			for _, a := range got {
				out = append(out, string(mustJSON(a)))
			}
		case "transactions":
			got, _, err := paginateAll(w, "ListTransactions", common.InitialPaginatedQuery[any]{PageSize: 100, Options: common.ResourceQuery[any]{Expand: []string{"volumes"}}},
				func(q common.PaginatedQuery[any]) (*paginate.Cursor[ledger.Transaction], error) { return c.ListTransactions(w.Ctx, q) })
			if err != nil {
				w.harness("listing transactions: %v", err)
			}
			for _, a := range got {
				out = append(out, string(mustJSON(a)))
			}
		default:
			got, _, err := paginateAll(w, "ListLogs", common.InitialPaginatedQuery[any]{PageSize: 100},
				func(q common.PaginatedQuery[any]) (*paginate.Cursor[ledger.Log], error) { return c.ListLogs(w.Ctx, q) })
			if err != nil {
				w.harness("listing logs: %v", err)
			}
			for _, a := range got {
				out = append(out, string(mustJSON(a)))
			}
		}
		return out
	}
	for _, what := range []string{"accounts", "transactions", "logs"} {
		a, b := list(src.C, what), list(cp.C, what)
		if len(a) != len(b) {
			rt.Fatalf("VIOLATION[%s]: the source lists %d %s, the ledger rebuilt from its journal %d\nhistory:\n  %s", id, len(a), what, len(b), history)
		}
		for i := range a {
			if a[i] != b[i] {
				rt.Fatalf("VIOLATION[%s]: %s differ between the source and the ledger rebuilt from its journal:\n  source: %s\n  copy:   %s\nhistory:\n  %s", id, what, a[i], b[i], history)
			}
		}
	}
}
