package e2

import (
	"encoding/json"
	"fmt"
	"math/big"
	"net/http"
	"net/url"
	"strings"
	"testing"

	"pgregory.net/rapid"

	"github.com/formancehq/ledger/pkg/features"
	"github.com/formancehq/ledger/verifharness/env"
	"github.com/formancehq/ledger/verifharness/gen"
	"github.com/formancehq/ledger/verifharness/stats"
)

const ruleC36HTTP = "HTTP leg: 1-4 transactions with amounts from {0,1,2^53+-1,2^63+-1,2^64+-1,10^30,random big} are created through POST /v2 and /v1 transactions (postings with JSON-number amounts, script literal, monetary variable as string and as {asset, amount}) and through POST /v2/_bulk, on the real router over the real storage code; the model adds them up with math/big; every amount, volume and balance is then read back through GET transaction(s) (+expand), accounts (+expand=volumes), volumes, aggregated balances, v1 balances and logs, with and without the Formance-Bigint-As-String header, parsed with json.Number, and must equal the model exactly; a balance filter at the exact value must select the account; non-trivial = a value above 2^64 surviving create -> list -> aggregate; distinct = by amounts+forms"

// findNumbers collects every number (json.Number or digit string when bigint-as-string is on) stored under the given keys.
func numberAt(v any, path ...string) (string, bool) {
	cur := v
	for _, p := range path {
		m, ok := cur.(map[string]any)
		if !ok {
			return "", false
		}
		cur, ok = m[p]
		if !ok {
			return "", false
		}
	}
	switch x := cur.(type) {
	case json.Number:
		return x.String(), true
	case string:
		return x, true
	}
	return "", false
}

func TestC36HTTP(t *testing.T) {
	st := stats.New("C36", "exploration", ruleC36HTTP, assumePgsim, "numeric columns are arbitrary-precision integers in the stand-in, like PostgreSQL numeric")
	defer st.Write(t)
	n := stats.N(250, 800)
	st.Set("requested_checks", n)
	two64 := new(big.Int).Lsh(big.NewInt(1), 64)
	stats.Check(t, n, 3636, func(rt *rapid.T) {
		w := NewWorld(rt, st, env.Options{}, "C36")
		defer w.Close()
		w.AddLedger("l1", "b1", features.DefaultFeatures)
		router := w.Env.Router()
		do := func(r httpReq) (int, any, string) {
			if r.Query == nil {
				r.Query = url.Values{}
			}
			rec := r.do(router)
			if rec == nil {
				rt.Fatalf("HARNESS-ERROR: request could not be built: %s", r)
			}
			doc, _ := decodeJSON(rec.Body.Bytes())
			return rec.Code, doc, truncate(rec.Body.String(), 500)
		}
		asset := "USD/2"
		total := new(big.Int) // received by acc
		acc := "big:1"
		var desc []string
		maxAmount := new(big.Int)
		ntx := rapid.IntRange(1, 4).Draw(rt, "transactions")
		for i := 0; i < ntx; i++ {
			amount := gen.Amount().Draw(rt, "amount")
			if rapid.Bool().Draw(rt, "edge") {
				amount = new(big.Int).Set(rapid.SampledFrom(gen.EdgeAmounts).Draw(rt, "edgeAmount"))
			}
			form := rapid.SampledFrom([]string{"v2-postings", "v2-script-literal", "v2-var-string", "v2-var-object", "v1-postings", "v1-var-object", "bulk"}).Draw(rt, "form")
			var r httpReq
			script := func(vars string) string {
				return fmt.Sprintf(`{"script":{"plain":"vars {\n monetary $m\n}\nsend $m (\n source = @world\n destination = @%s\n)","vars":{"m":%s}}}`, acc, vars)
			}
			switch form {
			case "v2-postings":
				r = httpReq{Method: "POST", Path: "/v2/l1/transactions", Body: []byte(fmt.Sprintf(`{"postings":[{"source":"world","destination":"%s","asset":"%s","amount":%s}]}`, acc, asset, amount))}
			case "v2-script-literal":
				r = httpReq{Method: "POST", Path: "/v2/l1/transactions", Body: []byte(fmt.Sprintf(`{"script":{"plain":"send [%s %s] (\n source = @world\n destination = @%s\n)"}}`, asset, amount, acc))}
			case "v2-var-string":
				r = httpReq{Method: "POST", Path: "/v2/l1/transactions", Body: []byte(script(fmt.Sprintf(`"%s %s"`, asset, amount)))}
			case "v2-var-object":
				r = httpReq{Method: "POST", Path: "/v2/l1/transactions", Body: []byte(script(fmt.Sprintf(`{"asset":"%s","amount":%s}`, asset, amount)))}
			case "v1-postings":
				r = httpReq{Method: "POST", Path: "/l1/transactions", Body: []byte(fmt.Sprintf(`{"postings":[{"source":"world","destination":"%s","asset":"%s","amount":%s}]}`, acc, asset, amount))}
			case "v1-var-object":
				r = httpReq{Method: "POST", Path: "/l1/transactions", Body: []byte(script(fmt.Sprintf(`{"asset":"%s","amount":%s}`, asset, amount)))}
			case "bulk":
				r = httpReq{Method: "POST", Path: "/v2/l1/_bulk", Body: []byte(fmt.Sprintf(`[{"action":"CREATE_TRANSACTION","data":{"postings":[{"source":"world","destination":"%s","asset":"%s","amount":%s}]}}]`, acc, asset, amount))}
			}
			code, doc, raw := do(r)
			if code/100 != 2 {
				rt.Fatalf("VIOLATION[C36]: a transaction of %s %s sent as %s is refused: HTTP %d %s", amount, asset, form, code, raw)
			}
			// the response itself carries the amount exactly
			var got string
			var ok bool
			switch form {
			case "v1-postings", "v1-var-object":
				arr, _ := doc.(map[string]any)["data"].([]any)
				if len(arr) == 1 {
					ps, _ := arr[0].(map[string]any)["postings"].([]any)
					if len(ps) == 1 {
						got, ok = numberAt(ps[0], "amount")
					}
				}
			case "bulk":
				arr, _ := doc.(map[string]any)["data"].([]any)
				if len(arr) == 1 {
					ps, _ := arr[0].(map[string]any)["data"].(map[string]any)["postings"].([]any)
					if len(ps) == 1 {
						got, ok = numberAt(ps[0], "amount")
					}
				}
			default:
				ps, _ := doc.(map[string]any)["data"].(map[string]any)["postings"].([]any)
				if len(ps) == 1 {
					got, ok = numberAt(ps[0], "amount")
				}
			}
			if !ok || got != amount.String() {
				rt.Fatalf("VIOLATION[C36]: %s sent as %s is answered with amount %q\n  response: %s", amount, form, got, raw)
			}
			total.Add(total, amount)
			if amount.Cmp(maxAmount) > 0 {
				maxAmount = amount
			}
			desc = append(desc, form+":"+amount.String())
		}
		want := total.String()
		history := strings.Join(desc, ", ")
		for _, bigintAsString := range []bool{false, true} {
			h := map[string]string{}
			if bigintAsString {
				h["Formance-Bigint-As-String"] = "true"
			}
			check := func(what, got string, ok bool, raw string) {
				if !ok || got != want {
					rt.Fatalf("VIOLATION[C36]: %s (bigint-as-string=%v) reads %q, the exact sum is %s\n  transactions: %s\n  response: %s", what, bigintAsString, got, want, history, raw)
				}
			}
			// account with volumes
			_, doc, raw := do(httpReq{Method: "GET", Path: "/v2/l1/accounts/" + acc, Query: url.Values{"expand": {"volumes"}}, Headers: h})
			got, ok := numberAt(doc, "data", "volumes", asset, "input")
			check("GET /v2/accounts/{address}?expand=volumes input", got, ok, raw)
			got, ok = numberAt(doc, "data", "volumes", asset, "balance")
			check("GET /v2/accounts/{address}?expand=volumes balance", got, ok, raw)
			// volumes listing
			_, doc, raw = do(httpReq{Method: "GET", Path: "/v2/l1/volumes", Headers: h, Body: []byte(fmt.Sprintf(`{"$match":{"address":"%s"}}`, acc))})
			if rows, _ := doc.(map[string]any)["cursor"].(map[string]any)["data"].([]any); len(rows) == 1 {
				got, ok = numberAt(rows[0], "input")
				check("GET /v2/volumes input", got, ok, raw)
				got, ok = numberAt(rows[0], "balance")
				check("GET /v2/volumes balance", got, ok, raw)
			} else {
				rt.Fatalf("VIOLATION[C36]: GET /v2/volumes lists %d rows for %s\n  response: %s", len(rows), acc, raw)
			}
			// aggregated balances
			_, doc, raw = do(httpReq{Method: "GET", Path: "/v2/l1/aggregate/balances", Headers: h, Body: []byte(fmt.Sprintf(`{"$match":{"address":"%s"}}`, acc))})
			got, ok = numberAt(doc, "data", asset)
			check("GET /v2/aggregate/balances", got, ok, raw)
			// world is the mirror image
			_, doc, raw = do(httpReq{Method: "GET", Path: "/v2/l1/aggregate/balances", Headers: h, Body: []byte(`{"$match":{"address":"world"}}`)})
			got, ok = numberAt(doc, "data", asset)
			if !ok || got != new(big.Int).Neg(total).String() {
				rt.Fatalf("VIOLATION[C36]: aggregated balance of world reads %q, want %s\n  response: %s", got, new(big.Int).Neg(total), raw)
			}
			// v1 balances
			_, doc, raw = do(httpReq{Method: "GET", Path: "/l1/balances", Query: url.Values{"address": {acc}}, Headers: h})
			if rows, _ := doc.(map[string]any)["cursor"].(map[string]any)["data"].([]any); len(rows) == 1 {
				got, ok = numberAt(rows[0], acc, asset)
				check("GET /{ledger}/balances", got, ok, raw)
			} else {
				rt.Fatalf("VIOLATION[C36]: GET /balances lists %d rows\n  response: %s", len(rows), raw)
			}
			// the last transaction's post commit volumes through the listing
			_, doc, raw = do(httpReq{Method: "GET", Path: "/v2/l1/transactions", Query: url.Values{"pageSize": {"1"}, "expand": {"volumes"}}, Headers: h})
			if rows, _ := doc.(map[string]any)["cursor"].(map[string]any)["data"].([]any); len(rows) == 1 {
				got, ok = numberAt(rows[0], "postCommitVolumes", acc, asset, "input")
				check("GET /v2/transactions postCommitVolumes", got, ok, raw)
			}
			// a balance filter at the exact value selects the account, one above does not
			code, doc, raw := do(httpReq{Method: "GET", Path: "/v2/l1/accounts", Headers: h, Body: []byte(fmt.Sprintf(`{"$and":[{"$match":{"address":"%s"}},{"$gte":{"balance[%s]":%s}}]}`, acc, asset, want))})
			if rows, _ := doc.(map[string]any)["cursor"].(map[string]any)["data"].([]any); code != http.StatusOK || len(rows) != 1 {
				rt.Fatalf("VIOLATION[C36]: the filter balance[%s] >= %s does not select %s (HTTP %d)\n  response: %s", asset, want, acc, code, raw)
			}
			above := new(big.Int).Add(total, big.NewInt(1))
			code, doc, raw = do(httpReq{Method: "GET", Path: "/v2/l1/accounts", Headers: h, Body: []byte(fmt.Sprintf(`{"$and":[{"$match":{"address":"%s"}},{"$gte":{"balance[%s]":%s}}]}`, acc, asset, above))})
			if rows, _ := doc.(map[string]any)["cursor"].(map[string]any)["data"].([]any); code != http.StatusOK || len(rows) != 0 {
				rt.Fatalf("VIOLATION[C36]: the filter balance[%s] >= %s selects %s whose balance is %s (HTTP %d)\n  response: %s", asset, above, acc, want, code, raw)
			}
		}
		st.Case(history, maxAmount.Cmp(two64) > 0, func() any { return map[string]any{"transactions": desc, "sum": want} })
		st.Add("completed_checks", 1)
	})
}
