package e2

import (
	"fmt"
	"reflect"
	"sort"

	ledger "github.com/formancehq/ledger/internal"
	"github.com/formancehq/ledger/verifharness/known"
	"github.com/formancehq/ledger/verifharness/refmodel"
)

// ReplayLogs rebuilds a reference ledger from log payloads alone (C08: the
// journal determines the state).
func ReplayLogs(logs []ledger.Log) (*refmodel.Ledger, error) {
	m := refmodel.New("replay")
	sorted := append([]ledger.Log{}, logs...)
	sort.Slice(sorted, func(i, j int) bool { return *sorted[i].ID < *sorted[j].ID })
	for _, lg := range sorted {
		switch p := lg.Data.(type) {
		case ledger.CreatedTransaction:
			tx := p.Transaction
			if tx.ID == nil {
				return nil, fmt.Errorf("log %d: transaction without id", *lg.ID)
			}
			am := map[string]map[string]string{}
			for a, md := range p.AccountMetadata {
				am[a] = map[string]string(md.Copy())
			}
			m.AddTx(&refmodel.Tx{ID: *tx.ID, Postings: toModelPostings(tx.Postings), Timestamp: tm(tx.Timestamp), InsertedAt: tm(tx.InsertedAt),
				UpdatedAt: tm(tx.UpdatedAt), Reference: tx.Reference, Metadata: map[string]string(tx.Metadata.Copy()), Template: tx.Template}, am, nil)
		case ledger.RevertedTransaction:
			rt := p.RevertTransaction
			if p.RevertedTransaction.ID == nil || rt.ID == nil || p.RevertedTransaction.RevertedAt == nil {
				return nil, fmt.Errorf("log %d: incomplete revert payload", *lg.ID)
			}
			if m.Tx(*p.RevertedTransaction.ID) == nil {
				return nil, fmt.Errorf("log %d reverts unknown transaction %d", *lg.ID, *p.RevertedTransaction.ID)
			}
			m.MarkReverted(*p.RevertedTransaction.ID, tm(*p.RevertedTransaction.RevertedAt))
			m.KeepFirstUsage = known.IsOpen(FindingRevertFirstUsage) // mirrors World.Revert
			m.AddTx(&refmodel.Tx{ID: *rt.ID, Postings: toModelPostings(rt.Postings), Timestamp: tm(rt.Timestamp), InsertedAt: tm(rt.InsertedAt),
				UpdatedAt: tm(rt.UpdatedAt), Metadata: map[string]string(rt.Metadata.Copy()), RevertOf: p.RevertedTransaction.ID}, nil, nil)
			m.KeepFirstUsage = false
		case ledger.SavedMetadata:
			switch p.TargetType {
			case ledger.MetaTargetTypeTransaction:
				id, ok := toUint64(p.TargetID)
				if !ok || m.Tx(id) == nil {
					return nil, fmt.Errorf("log %d: metadata for unknown transaction %v", *lg.ID, p.TargetID)
				}
				m.SaveTxMeta(id, map[string]string(p.Metadata.Copy()), tm(lg.Date))
			case ledger.MetaTargetTypeAccount:
				m.SaveAccountMeta(fmt.Sprint(p.TargetID), map[string]string(p.Metadata.Copy()), tm(lg.Date), nil)
			}
		case ledger.DeletedMetadata:
			switch p.TargetType {
			case ledger.MetaTargetTypeTransaction:
				id, ok := toUint64(p.TargetID)
				if !ok || m.Tx(id) == nil {
					return nil, fmt.Errorf("log %d: metadata deletion for unknown transaction %v", *lg.ID, p.TargetID)
				}
				m.DeleteTxMeta(id, p.Key, tm(lg.Date))
			case ledger.MetaTargetTypeAccount:
				m.DeleteAccountMeta(fmt.Sprint(p.TargetID), p.Key, tm(lg.Date))
			}
		case ledger.InsertedSchema:
			m.Schemas = append(m.Schemas, p.Schema.Version)
		default:
			return nil, fmt.Errorf("log %d: unknown payload %T", *lg.ID, lg.Data)
		}
	}
	return m, nil
}

func toUint64(v any) (uint64, bool) {
	switch x := v.(type) {
	case uint64:
		return x, true
	case int:
		return uint64(x), true
	case int64:
		return uint64(x), true
	case float64:
		return uint64(x), true
	}
	rv := reflect.ValueOf(v)
	if rv.IsValid() && rv.CanUint() {
		return rv.Uint(), true
	}
	return 0, false
}

// CompareModels reports the first difference between the live model (built from
// API responses) and a model replayed from the journal.
func CompareModels(live, replay *refmodel.Ledger) string {
	if len(live.Txs) != len(replay.Txs) {
		return fmt.Sprintf("%d transactions in the ledger, %d in the journal", len(live.Txs), len(replay.Txs))
	}
	for i, a := range live.Txs {
		b := replay.Txs[i]
		if a.ID != b.ID || !reflect.DeepEqual(a.Postings, b.Postings) || !a.Timestamp.Equal(b.Timestamp) || !a.InsertedAt.Equal(b.InsertedAt) || a.Reference != b.Reference {
			return fmt.Sprintf("transaction #%d differs: ledger %+v, journal %+v", i, *a, *b)
		}
		if !metaEqual(a.Metadata, b.Metadata) {
			return fmt.Sprintf("transaction %d metadata: ledger %v, journal %v", a.ID, a.Metadata, b.Metadata)
		}
		if (a.RevertedAt == nil) != (b.RevertedAt == nil) || (a.RevertedAt != nil && !a.RevertedAt.Equal(*b.RevertedAt)) {
			return fmt.Sprintf("transaction %d revert mark: ledger %v, journal %v", a.ID, a.RevertedAt, b.RevertedAt)
		}
	}
	la, ra := live.SortedAccounts(), replay.SortedAccounts()
	if !reflect.DeepEqual(la, ra) {
		return fmt.Sprintf("accounts: ledger %v, journal %v", la, ra)
	}
	for _, addr := range la {
		a, b := live.Accounts[addr], replay.Accounts[addr]
		if !metaEqual(a.Metadata, b.Metadata) {
			return fmt.Sprintf("account %s metadata: ledger %v, journal %v", addr, a.Metadata, b.Metadata)
		}
		if !a.FirstUsage.Equal(b.FirstUsage) {
			return fmt.Sprintf("account %s first usage: ledger %s, journal %s", addr, a.FirstUsage, b.FirstUsage)
		}
	}
	lv, rv := live.VolumesNow(), replay.VolumesNow()
	for _, k := range lv.Keys() {
		if !lv.Get(k[0], k[1]).Equal(rv.Get(k[0], k[1])) {
			return fmt.Sprintf("volumes of %s/%s: ledger %s, journal %s", k[0], k[1], lv.Get(k[0], k[1]), rv.Get(k[0], k[1]))
		}
	}
	if len(lv.Keys()) != len(rv.Keys()) {
		return "different sets of account/asset pairs"
	}
	return ""
}

type refmodelLog = refmodel.Log

func txToModel(tx ledger.Transaction) *refmodel.Tx {
	return &refmodel.Tx{ID: *tx.ID, Postings: toModelPostings(tx.Postings), Timestamp: tm(tx.Timestamp), InsertedAt: tm(tx.InsertedAt), UpdatedAt: tm(tx.UpdatedAt),
		Reference: tx.Reference, Metadata: map[string]string(tx.Metadata.Copy()), Template: tx.Template}
}

func logOf(id uint64, typ string, txID *uint64) *refmodel.Log {
	return &refmodel.Log{ID: id, Type: typ, TxID: txID}
}

// logsOfPrefix returns the exported logs whose ids the destination already holds (imported prefix case).
func logsOfPrefix(exported []ledger.Log, existing []*refmodel.Log) []ledger.Log {
	have := map[uint64]bool{}
	for _, lg := range existing {
		have[lg.ID] = true
	}
	var out []ledger.Log
	for _, lg := range exported {
		if have[*lg.ID] {
			out = append(out, lg)
		}
	}
	return out
}
