// Engine E2: the real system controller, ledger controller chain, storage
// driver and ledger store run over the pgsim stand-in; generated histories are
// applied to them and to the reference model side by side.
package e2

import (
	"bytes"
	"context"
	"encoding/json"
	"errors"
	"fmt"
	"math/big"
	"net/http"
	"os"
	"sort"
	"strings"
	"time"

	"pgregory.net/rapid"

	"github.com/formancehq/go-libs/v5/pkg/storage/postgres"
	"github.com/formancehq/go-libs/v5/pkg/types/metadata"
	libtime "github.com/formancehq/go-libs/v5/pkg/types/time"

	ledger "github.com/formancehq/ledger/internal"
	ledgercontroller "github.com/formancehq/ledger/internal/controller/ledger"
	"github.com/formancehq/ledger/internal/machine"
	ledgerstore "github.com/formancehq/ledger/internal/storage/ledger"
	"github.com/formancehq/ledger/pkg/features"
	"github.com/formancehq/ledger/verifharness/env"
	"github.com/formancehq/ledger/verifharness/gen"
	"github.com/formancehq/ledger/verifharness/known"
	"github.com/formancehq/ledger/verifharness/pgsim"
	"github.com/formancehq/ledger/verifharness/refmodel"
	"github.com/formancehq/ledger/verifharness/stats"
)

// T is what the world needs from rapid.T (also satisfied by a plain recorder for pinned reproducers).
type T interface {
	Fatalf(format string, args ...any)
	Logf(format string, args ...any)
}

type LState struct {
	Name     string
	Bucket   string
	Features features.FeatureSet
	C        ledgercontroller.Controller
	M        *refmodel.Ledger
	// bookkeeping for expectations
	Refs     map[string]bool
	IKs      map[string]string // idempotency key -> canonical description of the input it was used with
	Ops      []string          // human readable history
	Failures int
	DryRuns  int
}

type World struct {
	T   T
	Ctx context.Context
	Env *env.Env
	L   []*LState
	St  *stats.Collector
	// Focus lists the properties this run decides. A discrepancy that belongs to
	// another property is counted (class "other:<id>") and left to that property's check.
	Focus   map[string]bool
	inCheck bool
	// ViaHTTP: the ledgers' controllers send their writes and reads through the real HTTP API (see httpctrl.go)
	ViaHTTP        bool
	Narrow         bool // GenPostingsRequest draws from three accounts, one asset and balance-sized amounts
	V1Writes       bool // with ViaHTTP: writes use the v1 routes whenever v1 can express them
	BigintAsString bool // with ViaHTTP: requests ask for amounts as strings (the API's own renderers)
	router         http.Handler
	APICalls       int
	// PreOpen: the first PreOpen concurrent writers of runWriters use a controller chain opened before the run
	PreOpen int
}

// V reports a violation of property code. A discrepancy that several properties forbid is given as
// "C02|C05": it is reported under the first of them that is in focus.
func (w *World) V(code, format string, args ...any) {
	if strings.Contains(code, "|") {
		codes := strings.Split(code, "|")
		code = codes[0]
		for _, c := range codes {
			if w.Focus != nil && w.Focus[c] {
				code = c
				break
			}
		}
	}
	if w.Focus == nil || w.Focus[code] || anyCode {
		w.T.Fatalf("VIOLATION["+code+"]: "+format, args...)
	}
	if w.St != nil {
		w.St.Class("other:" + code)
	}
	if w.inCheck {
		panic(skipCheck{})
	}
}

// anyCode (VERIF_ANYCODE=1, a diagnosis aid, never set by the registered commands): report discrepancies outside
// the focus of the running check as well.
var anyCode = os.Getenv("VERIF_ANYCODE") != ""

type skipCheck struct{}

// guard runs a read check; a discrepancy outside the focus abandons just that check.
func (w *World) guard(f func()) {
	prev := w.inCheck
	w.inCheck = true
	defer func() {
		w.inCheck = prev
		if r := recover(); r != nil {
			if _, ok := r.(skipCheck); !ok {
				panic(r)
			}
		}
	}()
	f()
}

func AllFeatures() features.FeatureSet { return features.DefaultFeatures }

func NewWorld(t T, st *stats.Collector, o env.Options, focus ...string) *World {
	if rt, ok := t.(*rapid.T); ok && o.ScriptCache == 0 {
		// the compiled-script cache of the deployment: the service's default, a tiny one (evictions), or none
		switch rapid.IntRange(0, 5).Draw(rt, "scriptCache") {
		case 0:
			o.ScriptCache = -1
		case 1, 2:
			o.ScriptCache = rapid.IntRange(1, 3).Draw(rt, "scriptCacheSize")
		}
	}
	w := &World{T: t, Ctx: context.Background(), Env: env.New(o), St: st}
	if len(focus) > 0 {
		w.Focus = map[string]bool{}
		for _, f := range focus {
			w.Focus[f] = true
		}
	}
	return w
}

func (w *World) Close() { w.Env.Close() }

func (w *World) AddLedger(name, bucket string, fs features.FeatureSet) *LState {
	if err := w.Env.CreateLedger(w.Ctx, name, bucket, fs); err != nil {
		w.harness("CreateLedger(%s): %v", name, err)
	}
	c, err := w.Env.Ledger(w.Ctx, name)
	if err != nil {
		w.harness("%v", err)
	}
	l := &LState{Name: name, Bucket: bucket, Features: fs, C: w.wrap(name, c), M: refmodel.New(name), Refs: map[string]bool{}, IKs: map[string]string{}}
	w.L = append(w.L, l)
	return l
}

// Reopen fetches a fresh controller chain for the ledger (as a new request / process would).
func (w *World) Reopen(l *LState) {
	c, err := w.Env.Ledger(w.Ctx, l.Name)
	if err != nil {
		w.harness("%v", err)
	}
	l.C = w.wrap(l.Name, c)
}

// wrap routes the controller through the HTTP API when the world says so.
func (w *World) wrap(name string, c ledgercontroller.Controller) ledgercontroller.Controller {
	if !w.ViaHTTP {
		return c
	}
	if w.router == nil {
		w.router = w.Env.Router()
	}
	return &httpCtrl{Controller: c, router: w.router, name: name, calls: &w.APICalls, v1Writes: w.V1Writes, bigintAsString: w.BigintAsString,
		violation: func(code, msg string) { w.V(code, "%s", msg) }}
}

func (w *World) harness(format string, args ...any) {
	stats.HarnessError(w.T, format, args...)
}

// checkErr turns stand-in limitations into harness errors instead of violations.
func (w *World) checkErr(err error) {
	var un *pgsim.ErrUnsupported
	if errors.As(err, &un) {
		w.harness("%v", err)
	}
	if err != nil && strings.Contains(err.Error(), "pgsim: unsupported SQL") {
		w.harness("%v", err)
	}
}

func (l *LState) Has(feature, value string) bool { return l.Features[feature] == value }

func (l *LState) History() string { return strings.Join(l.Ops, "\n  ") }

// ------------------------------------------------------------ conversions

func toModelPostings(ps ledger.Postings) []refmodel.Posting {
	out := make([]refmodel.Posting, len(ps))
	for i, p := range ps {
		out[i] = refmodel.Posting{Source: p.Source, Destination: p.Destination, Asset: p.Asset, Amount: new(big.Int).Set(p.Amount)}
	}
	return out
}

func postingsEqual(a ledger.Postings, b []refmodel.Posting) bool {
	if len(a) != len(b) {
		return false
	}
	for i := range a {
		if a[i].Source != b[i].Source || a[i].Destination != b[i].Destination || a[i].Asset != b[i].Asset || a[i].Amount.Cmp(b[i].Amount) != 0 {
			return false
		}
	}
	return true
}

func postingsStr(ps ledger.Postings) string {
	parts := make([]string, len(ps))
	for i, p := range ps {
		parts[i] = fmt.Sprintf("%s->%s %s %s", p.Source, p.Destination, p.Amount, p.Asset)
	}
	return strings.Join(parts, "; ")
}

func metaEqual(a map[string]string, b map[string]string) bool {
	if len(a) != len(b) {
		return false
	}
	for k, v := range a {
		if bv, ok := b[k]; !ok || bv != v {
			return false
		}
	}
	return true
}

// pcvDiff compares API volumes with model volumes for exactly the model's pairs.
func pcvDiff(got ledger.PostCommitVolumes, want refmodel.Volumes) string {
	n := 0
	for acc, m := range want {
		for asset, wv := range m {
			n++
			gv, ok := got[acc][asset]
			if !ok || gv.Input == nil || gv.Output == nil {
				return fmt.Sprintf("missing %s/%s (want %s)", acc, asset, wv)
			}
			if gv.Input.Cmp(wv.In) != 0 || gv.Output.Cmp(wv.Out) != 0 {
				return fmt.Sprintf("%s/%s = (%s,%s), want %s", acc, asset, gv.Input, gv.Output, wv)
			}
		}
	}
	gn := 0
	for _, m := range got {
		gn += len(m)
	}
	if gn != n {
		return fmt.Sprintf("%d account/asset pairs, want %d (got %v)", gn, n, got)
	}
	return ""
}

func tm(t libtime.Time) time.Time { return t.Time.UTC() }

// ------------------------------------------------------------- operations

type TxRequest struct {
	Postings        ledger.Postings
	Script          string
	Vars            map[string]string
	Runtime         ledger.RuntimeType
	Timestamp       time.Time // zero = server assigned
	Reference       string
	Metadata        map[string]string
	AccountMetadata map[string]map[string]string
	ScriptAccMeta   map[string]map[string]string // what the script itself sets on accounts (from the generator), nil for postings
	Force           bool
	IK              string
	DryRun          bool
	SchemaVersion   string
	Template        string
}

func (r TxRequest) describe() string {
	var sb strings.Builder
	if len(r.Postings) > 0 {
		sb.WriteString("postings[" + postingsStr(r.Postings) + "]")
	} else {
		sb.WriteString(fmt.Sprintf("script[%q vars=%v runtime=%s]", r.Script, r.Vars, r.Runtime))
	}
	if !r.Timestamp.IsZero() {
		sb.WriteString(" ts=" + r.Timestamp.Format(time.RFC3339Nano))
	}
	if r.Reference != "" {
		sb.WriteString(" ref=" + r.Reference)
	}
	if len(r.Metadata) > 0 {
		sb.WriteString(fmt.Sprintf(" meta=%v", r.Metadata))
	}
	if len(r.AccountMetadata) > 0 {
		sb.WriteString(fmt.Sprintf(" accMeta=%v", r.AccountMetadata))
	}
	if r.Force {
		sb.WriteString(" force")
	}
	if r.IK != "" {
		sb.WriteString(" ik=" + r.IK)
	}
	if r.DryRun {
		sb.WriteString(" dryRun")
	}
	if r.SchemaVersion != "" {
		sb.WriteString(" schema=" + r.SchemaVersion)
	}
	if r.Template != "" {
		sb.WriteString(" template=" + r.Template)
	}
	return sb.String()
}

func (r TxRequest) params() ledgercontroller.Parameters[ledgercontroller.CreateTransaction] {
	var run ledgercontroller.RunScript
	md := metadata.Metadata{}
	for k, v := range r.Metadata {
		md[k] = v
	}
	if len(r.Postings) > 0 {
		run = ledgercontroller.TxToScriptData(ledger.TransactionData{Postings: r.Postings, Metadata: md, Reference: r.Reference}, r.Force)
	} else {
		vars := map[string]string{}
		for k, v := range r.Vars {
			vars[k] = v
		}
		run = ledgercontroller.RunScript{Script: ledgercontroller.Script{Plain: r.Script, Vars: vars, Template: r.Template}, Metadata: md, Reference: r.Reference}
	}
	if !r.Timestamp.IsZero() {
		run.Timestamp = libtime.New(r.Timestamp)
	}
	var am map[string]metadata.Metadata
	if r.AccountMetadata != nil {
		am = map[string]metadata.Metadata{}
		for a, m := range r.AccountMetadata {
			am[a] = metadata.Metadata{}
			for k, v := range m {
				am[a][k] = v
			}
		}
	}
	return ledgercontroller.Parameters[ledgercontroller.CreateTransaction]{
		DryRun: r.DryRun, IdempotencyKey: r.IK, SchemaVersion: r.SchemaVersion,
		Input: ledgercontroller.CreateTransaction{RunScript: run, AccountMetadata: am, Runtime: r.Runtime},
	}
}

const FindingRevertFirstUsage = "C18-revert-first-usage"

type ErrKind string

const (
	ErrNone              ErrKind = ""
	ErrInsufficientFunds ErrKind = "insufficient-funds"
	ErrReferenceConflict ErrKind = "reference-conflict"
	ErrIdempotencyInput  ErrKind = "invalid-idempotency-input"
	ErrAlreadyReverted   ErrKind = "already-reverted"
	ErrNotFound          ErrKind = "not-found"
	ErrNoPostings        ErrKind = "no-postings"
	ErrCompilation       ErrKind = "compilation"
	ErrSchema            ErrKind = "schema"
	ErrMetadataOverride  ErrKind = "metadata-override"
	// ErrAccountRace: two transactions used a never-seen account at the same time; UpsertAccounts inserts it without
	// ON CONFLICT, so the one that commits second fails on the accounts_ledger unique index and is rolled back. No listed
	// property forbids a concurrent write from failing, so the concurrent checks treat it as a failed write (which must
	// have no effect); it cannot occur in a sequential history.
	ErrAccountRace ErrKind = "account-first-use-race"
	ErrOther       ErrKind = "other"
)

func classify(err error) ErrKind {
	switch {
	case err == nil:
		return ErrNone
	case errors.Is(err, &machine.ErrInsufficientFund{}):
		return ErrInsufficientFunds
	case errors.Is(err, ledgerstore.ErrTransactionReferenceConflict{}):
		return ErrReferenceConflict
	case errors.Is(err, ledgercontroller.ErrInvalidIdempotencyInput{}):
		return ErrIdempotencyInput
	case errors.Is(err, ledgercontroller.ErrAlreadyReverted{}):
		return ErrAlreadyReverted
	case errors.Is(err, postgres.ErrNotFound):
		return ErrNotFound
	case errors.Is(err, ledgercontroller.ErrNoPostings):
		return ErrNoPostings
	case errors.Is(err, ledgercontroller.ErrCompilationFailed{}), errors.Is(err, &machine.ErrInvalidVars{}):
		return ErrCompilation
	case errors.Is(err, ledgercontroller.ErrSchemaValidationError{}), errors.Is(err, ledgercontroller.ErrSchemaNotSpecified{}), errors.Is(err, ledgercontroller.ErrSchemaNotFound{}):
		return ErrSchema
	case errors.Is(err, &ledgercontroller.ErrMetadataOverride{}):
		return ErrMetadataOverride
	case strings.Contains(err.Error(), `unique constraint "accounts_ledger"`):
		return ErrAccountRace
	}
	return ErrOther
}

// balances of the model, for predicting insufficient funds.
func (l *LState) balance(acc, asset string) *big.Int {
	v := l.M.VolumesNow().Get(acc, asset)
	return v.Balance()
}

// expectPostings predicts the outcome of a postings request from the model.
func (l *LState) expectPostings(r TxRequest) ErrKind {
	if !r.Force {
		cur := map[[2]string]*big.Int{}
		get := func(acc, asset string) *big.Int {
			k := [2]string{acc, asset}
			if v, ok := cur[k]; ok {
				return v
			}
			v := l.balance(acc, asset)
			cur[k] = v
			return v
		}
		for _, p := range r.Postings {
			if p.Source != "world" && p.Amount.Sign() > 0 && get(p.Source, p.Asset).Cmp(p.Amount) < 0 {
				return ErrInsufficientFunds
			}
			cur[[2]string{p.Source, p.Asset}] = new(big.Int).Sub(get(p.Source, p.Asset), p.Amount)
			cur[[2]string{p.Destination, p.Asset}] = new(big.Int).Add(get(p.Destination, p.Asset), p.Amount)
		}
	}
	if r.Reference != "" && l.Refs[r.Reference] {
		return ErrReferenceConflict
	}
	return ErrNone
}

type TxOutcome struct {
	Kind ErrKind
	Err  error
	Log  *ledger.Log
	Tx   *ledger.Transaction
	Hit  bool
}

// CreateTx runs the request on the real controller and, when it commits,
// records the reported transaction in the model after checking it against the
// request and the model (C03 post-commit volumes, C16 ids, C25 postings, C18 dates).
func (w *World) CreateTx(l *LState, r TxRequest) TxOutcome {
	desc := "create " + r.describe()
	before := w.Env.Sim.CommitSeq()
	log, res, hit, err := l.C.CreateTransaction(context.WithValue(w.Ctx, txRequestKey{}, &r), r.params())
	w.checkErr(err)
	out := TxOutcome{Kind: classify(err), Err: err, Log: log, Hit: hit}
	if err != nil {
		l.Ops = append(l.Ops, desc+" => "+string(out.Kind)+": "+truncateErr(err))
		l.Failures++
		return out
	}
	out.Tx = &res.Transaction
	if hit {
		l.Ops = append(l.Ops, desc+fmt.Sprintf(" => idempotency hit (log %d)", *log.ID))
		return out
	}
	tx := res.Transaction
	if r.DryRun {
		l.DryRuns++
		l.Ops = append(l.Ops, desc+" => dry run ok")
		if after := w.Env.Sim.CommitSeq(); l.M != nil && after != before && len(w.L) == 1 && l.stateInUse() && !w.ViaHTTP { // (a request through the API runs lookups of its own, each an implicit transaction)
			w.V("C07", "a dry run committed a database transaction (commit seq %d -> %d)\nhistory:\n  %s", before, after, l.History())
		}
		return out
	}
	// ---- checks on the reported transaction
	if tx.ID == nil {
		w.V("C16", "committed transaction without id\nhistory:\n  %s\n  %s", l.History(), desc)
	}
	for _, prev := range l.M.Txs {
		if prev.ID >= *tx.ID {
			w.V("C16", "transaction id %d is not greater than the earlier committed id %d\nhistory:\n  %s\n  %s", *tx.ID, prev.ID, l.History(), desc)
		}
	}
	if len(r.Postings) > 0 && !postingsEqual(tx.Postings, toModelPostings(r.Postings)) {
		w.V("C25", "recorded postings differ from the request\n  submitted: %s\n  recorded:  %s\nhistory:\n  %s", postingsStr(r.Postings), postingsStr(tx.Postings), l.History())
	}
	if !r.Timestamp.IsZero() && !tm(tx.Timestamp).Equal(r.Timestamp) {
		w.V("C18", "transaction timestamp %s differs from the requested %s", tm(tx.Timestamp), r.Timestamp)
	}
	if tx.Reference != r.Reference {
		w.V("C14", "reference %q recorded for request reference %q", tx.Reference, r.Reference)
	}
	mtx := &refmodel.Tx{ID: *tx.ID, Postings: toModelPostings(tx.Postings), Timestamp: tm(tx.Timestamp), InsertedAt: tm(tx.InsertedAt), UpdatedAt: tm(tx.UpdatedAt),
		Reference: tx.Reference, Metadata: map[string]string(tx.Metadata.Copy()), Template: tx.Template}
	am := map[string]map[string]string{}
	for a, m := range res.AccountMetadata {
		am[a] = map[string]string(m.Copy())
	}
	if r.Script != "" && r.ScriptAccMeta != nil || len(r.Postings) > 0 {
		// the account metadata of the write is known beforehand: what the script sets, then what the request carries
		// (key by key, the request wins); the model follows that, not what the answer reports
		want := map[string]map[string]string{}
		for a, m := range r.ScriptAccMeta {
			want[a] = map[string]string{}
			for k, v := range m {
				want[a][k] = v
			}
		}
		for a, m := range r.AccountMetadata {
			if want[a] == nil {
				want[a] = map[string]string{}
			}
			for k, v := range m {
				want[a][k] = v
			}
		}
		for a, m := range want {
			for k, v := range m {
				got, ok := am[a][k]
				_, fromRequest := r.AccountMetadata[a][k]
				// values set by the script are compared on the machine runtime only (the generator knows its rendering)
				if !ok || ((fromRequest || r.Runtime == "") && got != v) {
					w.V("C17", "the write sets metadata %q=%q on account %s (script: %v, request: %v); the answer reports %v\nhistory:\n  %s\n  %s", k, v, a, r.ScriptAccMeta, r.AccountMetadata, am, l.History(), desc)
				}
			}
		}
		for a, m := range am {
			for k := range m {
				if _, ok := want[a][k]; !ok {
					w.V("C17", "the answer reports metadata %q on account %s that neither the script nor the request sets: %v\nhistory:\n  %s\n  %s", k, a, am, l.History(), desc)
				}
			}
		}
	}
	l.M.AddTx(mtx, am, nil)
	if r.Reference != "" {
		l.Refs[r.Reference] = true
	}
	if d := pcvDiff(tx.PostCommitVolumes, l.M.PostCommitAt(mtx)); d != "" {
		w.V("C03", "postCommitVolumes of transaction %d: %s\nhistory:\n  %s\n  %s", *tx.ID, d, l.History(), desc)
	}
	w.checkRenderedTx(l, tx, desc)
	if l.Has(features.FeatureMovesHistory, "ON") && l.Has(features.FeatureMovesHistoryPostCommitEffectiveVolumes, "SYNC") {
		if d := pcvDiff(tx.PostCommitEffectiveVolumes, l.M.PostCommitEffectiveAt(mtx)); d != "" {
			w.V("C04", "postCommitEffectiveVolumes of transaction %d: %s\nhistory:\n  %s\n  %s", *tx.ID, d, l.History(), desc)
		}
	}
	w.recordLog(l, log, "NEW_TRANSACTION", r.IK, tx.ID, desc)
	l.Ops = append(l.Ops, desc+fmt.Sprintf(" => tx %d log %d at %s", *tx.ID, *log.ID, tm(tx.InsertedAt).Format("15:04:05.000")))
	return out
}

func (l *LState) stateInUse() bool { return len(l.M.Logs) > 0 }

func truncateErr(err error) string {
	s := err.Error()
	if len(s) > 160 {
		s = s[:160] + "…"
	}
	return s
}

// recordLog checks the log entry a committed write returned (C08: exactly one, ids strictly increasing).
func (w *World) recordLog(l *LState, log *ledger.Log, typ, ik string, txID *uint64, desc string) {
	if log == nil || log.ID == nil {
		w.V("C08", "committed write returned no log\nhistory:\n  %s\n  %s", l.History(), desc)
	}
	for _, prev := range l.M.Logs {
		if prev.ID >= *log.ID {
			w.V("C08", "log id %d is not greater than the earlier log id %d\nhistory:\n  %s\n  %s", *log.ID, prev.ID, l.History(), desc)
		}
	}
	if log.Type.String() != typ {
		w.V("C08", "log type %s for a %s operation", log.Type.String(), typ)
	}
	l.M.Logs = append(l.M.Logs, &refmodel.Log{ID: *log.ID, Type: typ, IdempotencyKey: ik, Date: tm(log.Date), Hash: log.Hash, SchemaVersion: log.SchemaVersion, TxID: txID})
}

type RevertRequest struct {
	ID              uint64
	Force           bool
	AtEffectiveDate bool
	Metadata        map[string]string
	IK              string
	DryRun          bool
}

// expectRevert predicts the outcome of a revert from the model.
func (l *LState) expectRevert(r RevertRequest) ErrKind {
	tx := l.M.Tx(r.ID)
	if tx == nil {
		return ErrNotFound
	}
	if tx.RevertedAt != nil {
		return ErrAlreadyReverted
	}
	if !r.Force {
		// every non-world account ends >= 0 on the assets it gives back
		vols := l.M.VolumesNow()
		delta := map[[2]string]*big.Int{}
		add := func(acc, asset string, d *big.Int) {
			k := [2]string{acc, asset}
			if delta[k] == nil {
				delta[k] = new(big.Int)
			}
			delta[k].Add(delta[k], d)
		}
		dests := map[[2]string]bool{}
		for _, p := range tx.Postings {
			add(p.Destination, p.Asset, new(big.Int).Neg(p.Amount))
			add(p.Source, p.Asset, p.Amount)
			dests[[2]string{p.Destination, p.Asset}] = true
		}
		for k := range dests {
			if k[0] == "world" {
				continue
			}
			final := new(big.Int).Add(vols.Get(k[0], k[1]).Balance(), delta[k])
			if final.Sign() < 0 {
				return ErrInsufficientFunds
			}
		}
	}
	return ErrNone
}

func (w *World) Revert(l *LState, r RevertRequest) TxOutcome {
	desc := fmt.Sprintf("revert %d force=%v atEffectiveDate=%v meta=%v ik=%s dryRun=%v", r.ID, r.Force, r.AtEffectiveDate, r.Metadata, r.IK, r.DryRun)
	md := metadata.Metadata{}
	for k, v := range r.Metadata {
		md[k] = v
	}
	log, res, hit, err := l.C.RevertTransaction(w.Ctx, ledgercontroller.Parameters[ledgercontroller.RevertTransaction]{
		DryRun: r.DryRun, IdempotencyKey: r.IK,
		Input: ledgercontroller.RevertTransaction{TransactionID: r.ID, Force: r.Force, AtEffectiveDate: r.AtEffectiveDate, Metadata: md},
	})
	w.checkErr(err)
	out := TxOutcome{Kind: classify(err), Err: err, Log: log, Hit: hit}
	if err != nil {
		l.Ops = append(l.Ops, desc+" => "+string(out.Kind)+": "+truncateErr(err))
		l.Failures++
		return out
	}
	out.Tx = &res.RevertTransaction
	if hit {
		l.Ops = append(l.Ops, desc+" => idempotency hit")
		return out
	}
	if r.DryRun {
		l.DryRuns++
		l.Ops = append(l.Ops, desc+" => dry run ok")
		return out
	}
	orig := l.M.Tx(r.ID)
	rt := res.RevertTransaction
	// ---- C15: exact, single inverse
	want := make([]refmodel.Posting, len(orig.Postings))
	for i, p := range orig.Postings {
		want[len(orig.Postings)-1-i] = refmodel.Posting{Source: p.Destination, Destination: p.Source, Asset: p.Asset, Amount: p.Amount}
	}
	if !postingsEqual(rt.Postings, want) {
		w.V("C15", "revert postings are not the original's reversed and swapped\n  original: %v\n  revert:   %s\nhistory:\n  %s", orig.Postings, postingsStr(rt.Postings), l.History())
	}
	if rt.Metadata[ledger.RevertMetadataSpecKey()] != fmt.Sprint(r.ID) {
		w.V("C15", "revert of transaction %d carries the revert mark %q (request metadata %v): %v", r.ID, rt.Metadata[ledger.RevertMetadataSpecKey()], r.Metadata, rt.Metadata)
	}
	for k, v := range r.Metadata {
		if k != ledger.RevertMetadataSpecKey() && rt.Metadata[k] != v {
			w.V("C15", "revert transaction lost request metadata %q", k)
		}
	}
	if res.RevertedTransaction.RevertedAt == nil {
		w.V("C15", "reverted transaction returned without revertedAt")
	}
	revertedAt := tm(*res.RevertedTransaction.RevertedAt)
	if r.AtEffectiveDate {
		if !tm(rt.Timestamp).Equal(orig.Timestamp) {
			w.V("C15", "revert at effective date has timestamp %s, original has %s", tm(rt.Timestamp), orig.Timestamp)
		}
	} else if !tm(rt.Timestamp).Equal(revertedAt) {
		w.V("C15", "revert timestamp %s differs from the revert time %s", tm(rt.Timestamp), revertedAt)
	}
	if rt.ID == nil {
		w.V("C16", "revert transaction without id")
	}
	for _, prev := range l.M.Txs {
		if prev.ID >= *rt.ID {
			w.V("C16", "revert transaction id %d is not greater than the earlier id %d", *rt.ID, prev.ID)
		}
	}
	l.M.MarkReverted(r.ID, revertedAt)
	// known finding C18-revert-first-usage: the revert transaction does not lower first usages
	l.M.KeepFirstUsage = known.IsOpen(FindingRevertFirstUsage)
	defer func() { l.M.KeepFirstUsage = false }()
	mtx := &refmodel.Tx{ID: *rt.ID, Postings: toModelPostings(rt.Postings), Timestamp: tm(rt.Timestamp), InsertedAt: tm(rt.InsertedAt), UpdatedAt: tm(rt.UpdatedAt),
		Metadata: map[string]string(rt.Metadata.Copy()), RevertOf: &r.ID}
	l.M.AddTx(mtx, nil, nil)
	if d := pcvDiff(rt.PostCommitVolumes, l.M.PostCommitAt(mtx)); d != "" {
		w.V("C03", "postCommitVolumes of revert transaction %d: %s\nhistory:\n  %s\n  %s", *rt.ID, d, l.History(), desc)
	}
	w.recordLog(l, log, "REVERTED_TRANSACTION", r.IK, rt.ID, desc)
	l.Ops = append(l.Ops, desc+fmt.Sprintf(" => tx %d log %d", *rt.ID, *log.ID))
	return out
}

func (w *World) SaveTxMeta(l *LState, id uint64, m map[string]string, ik string, dry bool) ErrKind {
	desc := fmt.Sprintf("saveTxMeta %d %v dryRun=%v", id, m, dry)
	md := metadata.Metadata{}
	for k, v := range m {
		md[k] = v
	}
	log, hit, err := l.C.SaveTransactionMetadata(w.Ctx, ledgercontroller.Parameters[ledgercontroller.SaveTransactionMetadata]{DryRun: dry, IdempotencyKey: ik,
		Input: ledgercontroller.SaveTransactionMetadata{TransactionID: id, Metadata: md}})
	w.checkErr(err)
	kind := classify(err)
	if err != nil {
		l.Failures++
		l.Ops = append(l.Ops, desc+" => "+string(kind)+": "+truncateErr(err))
		return kind
	}
	if hit || dry {
		l.Ops = append(l.Ops, desc+" => hit/dry")
		return kind
	}
	if l.M.Tx(id) == nil {
		w.V("C17", "metadata saved on transaction %d which does not exist\nhistory:\n  %s", id, l.History())
	}
	l.M.SaveTxMeta(id, m, tm(log.Date))
	w.recordLog(l, log, "SET_METADATA", ik, nil, desc)
	l.Ops = append(l.Ops, desc+fmt.Sprintf(" => log %d", *log.ID))
	return kind
}

func (w *World) DeleteTxMeta(l *LState, id uint64, key string, dry bool) ErrKind {
	desc := fmt.Sprintf("deleteTxMeta %d %q dryRun=%v", id, key, dry)
	log, hit, err := l.C.DeleteTransactionMetadata(w.Ctx, ledgercontroller.Parameters[ledgercontroller.DeleteTransactionMetadata]{DryRun: dry,
		Input: ledgercontroller.DeleteTransactionMetadata{TransactionID: id, Key: key}})
	w.checkErr(err)
	kind := classify(err)
	if err != nil {
		l.Failures++
		l.Ops = append(l.Ops, desc+" => "+string(kind)+": "+truncateErr(err))
		return kind
	}
	if hit || dry {
		l.Ops = append(l.Ops, desc+" => hit/dry")
		return kind
	}
	l.M.DeleteTxMeta(id, key, tm(log.Date))
	w.recordLog(l, log, "DELETE_METADATA", "", nil, desc)
	l.Ops = append(l.Ops, desc+fmt.Sprintf(" => log %d", *log.ID))
	return kind
}

func (w *World) SaveAccountMeta(l *LState, addr string, m map[string]string, dry bool) ErrKind {
	desc := fmt.Sprintf("saveAccountMeta %s %v dryRun=%v", addr, m, dry)
	md := metadata.Metadata{}
	for k, v := range m {
		md[k] = v
	}
	log, hit, err := l.C.SaveAccountMetadata(w.Ctx, ledgercontroller.Parameters[ledgercontroller.SaveAccountMetadata]{DryRun: dry,
		Input: ledgercontroller.SaveAccountMetadata{Address: addr, Metadata: md}})
	w.checkErr(err)
	kind := classify(err)
	if err != nil {
		l.Failures++
		l.Ops = append(l.Ops, desc+" => "+string(kind)+": "+truncateErr(err))
		return kind
	}
	if hit || dry {
		l.Ops = append(l.Ops, desc+" => hit/dry")
		return kind
	}
	l.M.SaveAccountMeta(addr, m, tm(log.Date), nil)
	w.recordLog(l, log, "SET_METADATA", "", nil, desc)
	l.Ops = append(l.Ops, desc+fmt.Sprintf(" => log %d", *log.ID))
	return kind
}

func (w *World) DeleteAccountMeta(l *LState, addr, key string, dry bool) ErrKind {
	desc := fmt.Sprintf("deleteAccountMeta %s %q dryRun=%v", addr, key, dry)
	log, hit, err := l.C.DeleteAccountMetadata(w.Ctx, ledgercontroller.Parameters[ledgercontroller.DeleteAccountMetadata]{DryRun: dry,
		Input: ledgercontroller.DeleteAccountMetadata{Address: addr, Key: key}})
	w.checkErr(err)
	kind := classify(err)
	if err != nil {
		l.Failures++
		l.Ops = append(l.Ops, desc+" => "+string(kind)+": "+truncateErr(err))
		return kind
	}
	if hit || dry {
		l.Ops = append(l.Ops, desc+" => hit/dry")
		return kind
	}
	l.M.DeleteAccountMeta(addr, key, tm(log.Date))
	w.recordLog(l, log, "DELETE_METADATA", "", nil, desc)
	l.Ops = append(l.Ops, desc+fmt.Sprintf(" => log %d", *log.ID))
	return kind
}

// ------------------------------------------------------------- generators

var metaKeys = []string{"k", "role", "x y", `q"uote`, "é∑", "100%", "pro%20mo"}

func genMeta(t *rapid.T, label string) map[string]string {
	n := rapid.IntRange(0, 2).Draw(t, label+"N")
	if n == 0 {
		return nil
	}
	m := map[string]string{}
	for i := 0; i < n; i++ {
		m[rapid.SampledFrom(metaKeys).Draw(t, label+"Key")] = gen.FreeText().Draw(t, label+"Val")
	}
	return m
}

var refPool = []string{"r1", "r2", "r3", `ref "q"`}
var ikPool = []string{"ik1", "ik2", "ik3"}

// GenTimestamp draws a zero (server assigned), past, tied or future effective timestamp.
func (w *World) GenTimestamp(t *rapid.T, l *LState) time.Time {
	now := w.Env.Sim.Clock()
	switch rapid.IntRange(0, 9).Draw(t, "tsKind") {
	case 0, 1:
		return now.Add(-time.Duration(rapid.IntRange(1, 72).Draw(t, "hoursBack")) * time.Hour)
	case 2:
		if len(l.M.Txs) > 0 {
			return l.M.Txs[rapid.IntRange(0, len(l.M.Txs)-1).Draw(t, "tieWith")].Timestamp
		}
	case 3:
		return now.Add(time.Duration(rapid.IntRange(1, 48).Draw(t, "hoursAhead")) * time.Hour)
	case 4:
		if rapid.Bool().Draw(t, "beyondTheWallClock") {
			// post-dated far ahead: later than the wall clock of the machine running the check, whatever the stand-in's
			// clock says (code that consults time.Now() instead of the database sees these as "not yet")
			return time.Date(2090, 1, 1, 0, 0, 0, 0, time.UTC).Add(time.Duration(rapid.IntRange(0, 2000).Draw(t, "hoursInto2090")) * time.Hour)
		}
	}
	return time.Time{}
}

var narrowAccounts = []string{"a", "bank", "u:1"}

func (w *World) GenPostingsRequest(t *rapid.T, l *LState, maxPostings int) TxRequest {
	n := rapid.IntRange(1, maxPostings).Draw(t, "nPostings")
	if w.Narrow && n < 2 && maxPostings >= 2 && rapid.IntRange(0, 3).Draw(t, "single") != 0 {
		n = 2
	}
	ps := make(ledger.Postings, 0, n)
	for i := 0; i < n; i++ {
		if w.Narrow {
			// few accounts, one asset, amounts of the size of the balances: requests draw on several bounded sources
			// at once and their outcome hinges on the exact balance of each
			src := rapid.SampledFrom(narrowAccounts).Draw(t, "src")
			if rapid.IntRange(0, 5).Draw(t, "fromWorld") == 0 {
				src = "world"
			}
			dst := rapid.SampledFrom(append([]string{"sink"}, narrowAccounts...)).Draw(t, "dst")
			ps = append(ps, ledger.Posting{Source: src, Destination: dst, Asset: "USD/2", Amount: big.NewInt(int64(rapid.IntRange(0, 40).Draw(t, "amount")))})
			continue
		}
		src := gen.Account().Draw(t, "src")
		if rapid.IntRange(0, 2).Draw(t, "fromWorld") == 0 {
			src = "world"
		}
		dst := gen.Account().Draw(t, "dst")
		if rapid.IntRange(0, 11).Draw(t, "self") == 0 {
			dst = src
		}
		ps = append(ps, ledger.Posting{Source: src, Destination: dst, Asset: gen.Asset().Draw(t, "asset"), Amount: gen.SmallAmount().Draw(t, "amount")})
	}
	r := TxRequest{Postings: ps, Timestamp: w.GenTimestamp(t, l), Metadata: genMeta(t, "txMeta")}
	if rapid.IntRange(0, 3).Draw(t, "withRef") == 0 {
		r.Reference = rapid.SampledFrom(refPool).Draw(t, "ref")
	}
	if rapid.IntRange(0, 5).Draw(t, "force") == 0 {
		r.Force = true
	}
	if rapid.IntRange(0, 7).Draw(t, "dry") == 0 {
		r.DryRun = true
	}
	if rapid.IntRange(0, 5).Draw(t, "accMeta") == 0 {
		r.AccountMetadata = map[string]map[string]string{gen.NonWorldAccount().Draw(t, "accMetaAddr"): {rapid.SampledFrom(metaKeys).Draw(t, "amk"): gen.FreeText().Draw(t, "amv")}}
	}
	return r
}

// sorted helper
func sortedKeys[M ~map[string]V, V any](m M) []string {
	out := make([]string, 0, len(m))
	for k := range m {
		out = append(out, k)
	}
	sort.Strings(out)
	return out
}

func revertParams(r RevertRequest) ledgercontroller.Parameters[ledgercontroller.RevertTransaction] {
	md := metadata.Metadata{}
	for k, v := range r.Metadata {
		md[k] = v
	}
	return ledgercontroller.Parameters[ledgercontroller.RevertTransaction]{DryRun: r.DryRun, IdempotencyKey: r.IK,
		Input: ledgercontroller.RevertTransaction{TransactionID: r.ID, Force: r.Force, AtEffectiveDate: r.AtEffectiveDate, Metadata: md}}
}

// checkRenderedTx renders the transaction as JSON (the core type's MarshalJSON, which computes preCommitVolumes) and
// checks that the pre-commit volumes are the post-commit ones minus the transaction's own postings (C03).
func (w *World) checkRenderedTx(l *LState, tx ledger.Transaction, desc string) {
	b, err := json.Marshal(tx)
	if err != nil {
		w.V("C03", "transaction %v cannot be rendered as JSON: %v", tx.ID, err)
	}
	dec := json.NewDecoder(bytes.NewReader(b))
	dec.UseNumber()
	var doc map[string]any
	if err := dec.Decode(&doc); err != nil {
		w.harness("re-decoding a rendered transaction: %v", err)
	}
	if msg := preCommitProblem(doc); msg != "" {
		w.V("C03", "%s (as rendered by Transaction.MarshalJSON)\nhistory:\n  %s\n  %s", msg, l.History(), desc)
	}
}
