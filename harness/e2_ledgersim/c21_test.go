package e2

import (
	"fmt"
	"math/big"
	"sort"
	"strings"
	"testing"
	"time"

	"pgregory.net/rapid"

	"github.com/formancehq/go-libs/v5/pkg/storage/bun/paginate"
	"github.com/formancehq/go-libs/v5/pkg/types/pointer"

	ledger "github.com/formancehq/ledger/internal"
	"github.com/formancehq/ledger/internal/storage/common"
	"github.com/formancehq/ledger/pkg/features"
	"github.com/formancehq/ledger/verifharness/env"
	"github.com/formancehq/ledger/verifharness/refmodel"
	"github.com/formancehq/ledger/verifharness/stats"
)

// walk follows next cursors to the end, then previous cursors back to the start,
// and returns the pages seen on the way forward.
func walk[T any, O any](w *World, what string, first common.InitialPaginatedQuery[O], key func(T) string,
	fetch func(q common.PaginatedQuery[O]) (*paginate.Cursor[T], error)) ([][]string, bool) {
	var pages [][]string
	var cursors []*paginate.Cursor[T]
	var q common.PaginatedQuery[O] = first
	for {
		cur, err := fetch(q)
		w.checkErr(err)
		if err != nil {
			w.V("C21", "%s failed: %v", what, err)
			return nil, false
		}
		keys := make([]string, len(cur.Data))
		for i, d := range cur.Data {
			keys[i] = key(d)
		}
		if len(keys) > int(first.PageSize) {
			w.V("C21", "%s: page of %d items for page size %d", what, len(keys), first.PageSize)
		}
		pages = append(pages, keys)
		cursors = append(cursors, cur)
		if cur.HasMore != (cur.Next != "") {
			w.V("C21", "%s: hasMore=%v but next=%q", what, cur.HasMore, cur.Next)
		}
		if !cur.HasMore {
			break
		}
		nq, err := common.UnmarshalCursor[O](cur.Next)
		if err != nil {
			w.V("C21", "%s: next cursor does not decode: %v", what, err)
			return nil, false
		}
		q = nq
		if len(pages) > 5000 {
			w.V("C21", "%s: pagination does not terminate", what)
			return nil, false
		}
	}
	// walk back
	for k := len(pages) - 1; k > 0; k-- {
		prev := cursors[k].Previous
		if prev == "" {
			w.V("C21", "%s: page %d of %d has no previous cursor", what, k+1, len(pages))
			return pages, false
		}
		pq, err := common.UnmarshalCursor[O](prev)
		if err != nil {
			w.V("C21", "%s: previous cursor does not decode: %v", what, err)
			return pages, false
		}
		cur, err := fetch(pq)
		w.checkErr(err)
		if err != nil {
			w.V("C21", "%s: following previous failed: %v", what, err)
			return pages, false
		}
		keys := make([]string, len(cur.Data))
		for i, d := range cur.Data {
			keys[i] = key(d)
		}
		if strings.Join(keys, ",") != strings.Join(pages[k-1], ",") {
			w.V("C21", "%s: previous of page %d is [%s], the page before was [%s]\nall pages forward: %v", what, k+1, strings.Join(keys, ","), strings.Join(pages[k-1], ","), pages)
			return pages, false
		}
		cursors[k-1] = cur
	}
	if len(cursors) > 0 && cursors[0].Previous != "" && len(pages) > 1 {
		// the first page reached again by walking back must not claim a page before it
		w.V("C21", "%s: first page has a previous cursor after walking back", what)
	}
	return pages, true
}

func flatten(pages [][]string) []string {
	var out []string
	for _, p := range pages {
		out = append(out, p...)
	}
	return out
}

func (w *World) checkPagination(t *rapid.T, l *LState) (resource string, pagesSeen int) {
	return w.checkPaginationPS(t, l, uint64(rapid.IntRange(1, 4).Draw(t, "pageSize")))
}

func (w *World) checkPaginationPS(t *rapid.T, l *LState, ps uint64) (resource string, pagesSeen int) {
	order := paginate.Order(paginate.OrderAsc)
	if rapid.Bool().Draw(t, "desc") {
		order = paginate.OrderDesc
	}
	resource = rapid.SampledFrom([]string{"transactions", "logs", "accounts", "volumes", "volumes-grouped"}).Draw(t, "resource")
	var pit *time.Time
	if (resource == "transactions" || resource == "accounts") && rapid.IntRange(0, 2).Draw(t, "pit") == 0 {
		pit = w.genPIT(t, l)
	}
	var filter *Filter
	fres := map[string]string{"transactions": "transactions", "logs": "logs", "accounts": "accounts", "volumes": "volumes", "volumes-grouped": "volumes"}[resource]
	if rapid.IntRange(0, 2).Draw(t, "withFilter") == 0 && resource != "volumes-grouped" {
		filter = GenFilter(t, fres, l)
	}
	sel := func(e *Entity) bool {
		if filter == nil {
			return true
		}
		s, und := filter.Decide(e, true)
		return s && !und
	}
	undecided := func(e *Entity) bool {
		if filter == nil {
			return false
		}
		_, und := filter.Decide(e, true)
		return und
	}
	var want []string
	skip := false
	what := fmt.Sprintf("%s(pageSize=%d order=%v pit=%v filter=%v)", resource, ps, order, pit, filter)
	var pages [][]string
	ok := false
	rq := func() (b interface{}) { return nil }
	_ = rq
	switch resource {
	case "transactions":
		history := l.Has(features.FeatureTransactionMetadataHistory, "SYNC")
		for _, tx := range l.M.Txs {
			if vis, _, _ := txAt(tx, pit, history); !vis {
				continue
			}
			e := txEntity(tx, pit, history)
			if undecided(e) {
				skip = true
			}
			if sel(e) {
				want = append(want, fmt.Sprint(tx.ID))
			}
		}
		sort.Slice(want, func(i, j int) bool {
			a, b := 0, 0
			fmt.Sscan(want[i], &a)
			fmt.Sscan(want[j], &b)
			if order == paginate.OrderAsc {
				return a < b
			}
			return a > b
		})
		q := common.InitialPaginatedQuery[any]{PageSize: ps, Order: pointer.For(order), Options: common.ResourceQuery[any]{PIT: lt(pit)}}
		if filter != nil {
			q.Options.Builder = filter.Builder()
		}
		pages, ok = walk(w, what, q, func(tx ledger.Transaction) string { return fmt.Sprint(*tx.ID) },
			func(q common.PaginatedQuery[any]) (*paginate.Cursor[ledger.Transaction], error) {
				return l.C.ListTransactions(w.Ctx, q)
			})
	case "logs":
		for _, lg := range l.M.Logs {
			e := &Entity{ID: bigOf(lg.ID), Type: lg.Type, Dates: map[string]*time.Time{"date": ptrTime(lg.Date)}}
			if sel(e) {
				want = append(want, fmt.Sprint(lg.ID))
			}
		}
		if order == paginate.OrderDesc {
			for i, j := 0, len(want)-1; i < j; i, j = i+1, j-1 {
				want[i], want[j] = want[j], want[i]
			}
		}
		q := common.InitialPaginatedQuery[any]{PageSize: ps, Order: pointer.For(order)}
		if filter != nil {
			q.Options.Builder = filter.Builder()
		}
		pages, ok = walk(w, what, q, func(lg ledger.Log) string { return fmt.Sprint(*lg.ID) },
			func(q common.PaginatedQuery[any]) (*paginate.Cursor[ledger.Log], error) {
				return l.C.ListLogs(w.Ctx, q)
			})
	case "accounts":
		var vols refmodel.Volumes
		if pit != nil {
			vols = l.M.VolumesWindow(pit, nil, false)
		} else {
			vols = l.M.VolumesNow()
		}
		if pit != nil && filter != nil {
			fs := map[string]bool{}
			filter.features(fs)
			if fs["balance"] && !(l.Has(features.FeatureMovesHistory, "ON") && l.Has(features.FeatureMovesHistoryPostCommitEffectiveVolumes, "SYNC")) {
				return resource, 0
			}
		}
		history := l.Has(features.FeatureAccountMetadataHistory, "SYNC")
		for _, addr := range l.M.SortedAccounts() {
			a := l.M.Accounts[addr]
			if pit != nil && a.AltFirstUsage != nil && !a.AltFirstUsage.After(*pit) && a.FirstUsage.After(*pit) {
				return resource, 0
			}
			if pit != nil && a.FirstUsage.After(*pit) {
				continue
			}
			e := accountEntity(a, vols)
			if pit != nil && history {
				e.Metadata = refmodel.MetaAt(a.History, *pit)
			}
			if undecided(e) {
				skip = true
			}
			if sel(e) {
				want = append(want, addr)
			}
		}
		if order == paginate.OrderDesc {
			for i, j := 0, len(want)-1; i < j; i, j = i+1, j-1 {
				want[i], want[j] = want[j], want[i]
			}
		}
		q := common.InitialPaginatedQuery[any]{PageSize: ps, Order: pointer.For(order), Options: common.ResourceQuery[any]{PIT: lt(pit)}}
		if filter != nil {
			q.Options.Builder = filter.Builder()
		}
		pages, ok = walk(w, what, q, func(a ledger.Account) string { return a.Address },
			func(q common.PaginatedQuery[any]) (*paginate.Cursor[ledger.Account], error) {
				return l.C.ListAccounts(w.Ctx, q)
			})
	case "volumes", "volumes-grouped":
		lvl := 0
		if resource == "volumes-grouped" {
			lvl = rapid.IntRange(1, 2).Draw(t, "groupLvl")
		}
		vols := l.M.VolumesNow()
		seen := map[string]bool{}
		for _, k := range vols.Keys() {
			a := l.M.Accounts[k[0]]
			e := &Entity{Address: k[0], Asset: k[1], Balance: vols.Get(k[0], k[1]).Balance(), Metadata: a.Metadata, Dates: map[string]*time.Time{"first_usage": ptrTime(a.FirstUsage)}}
			if undecided(e) {
				skip = true
			}
			if sel(e) {
				key := groupAddress(k[0], lvl) + "/" + k[1]
				if !seen[key] {
					seen[key] = true
					want = append(want, key)
				}
			}
		}
		// ordered by account; ties between assets of one account are not ordered by the API: compare as per-account multisets
		q := common.InitialPaginatedQuery[ledger.GetVolumesOptions]{PageSize: ps, Order: pointer.For(order), Options: common.ResourceQuery[ledger.GetVolumesOptions]{Opts: ledger.GetVolumesOptions{GroupLvl: lvl}}}
		if filter != nil {
			q.Options.Builder = filter.Builder()
		}
		pages, ok = walk(w, what, q, func(v ledger.VolumesWithBalanceByAssetByAccount) string { return v.Account + "/" + v.Asset },
			func(q common.PaginatedQuery[ledger.GetVolumesOptions]) (*paginate.Cursor[ledger.VolumesWithBalanceByAssetByAccount], error) {
				return l.C.GetVolumesWithBalances(w.Ctx, q)
			})
		if ok && !skip {
			got := flatten(pages)
			// account order must be monotone, and the multiset equal
			for i := 1; i < len(got); i++ {
				a, b := strings.SplitN(got[i-1], "/", 2)[0], strings.SplitN(got[i], "/", 2)[0]
				if (order == paginate.OrderAsc && a > b) || (order == paginate.OrderDesc && a < b) {
					w.V("C21", "%s: accounts out of order: %v\nhistory:\n  %s", what, got, l.History())
				}
			}
			gs, ws := append([]string{}, got...), append([]string{}, want...)
			sort.Strings(gs)
			sort.Strings(ws)
			// zero rows created by balance locking are tolerated
			if strings.Join(gs, ",") != strings.Join(ws, ",") {
				extra := diffStrings(gs, ws)
				missing := diffStrings(ws, gs)
				if len(missing) > 0 || (filter == nil && lvl == 0 && len(extra) > 0 && !allZeroRows(w, l, extra)) {
					w.V("C21", "%s: pages give %v, the reference list is %v\nhistory:\n  %s", what, got, want, l.History())
				}
			}
		}
		return resource, len(pages)
	}
	if ok && !skip {
		got := flatten(pages)
		if strings.Join(got, ",") != strings.Join(want, ",") {
			w.V("C21", "%s: concatenated pages [%s] differ from the reference list [%s]\npages: %v\nhistory:\n  %s", what, strings.Join(got, ","), strings.Join(want, ","), pages, l.History())
		}
	}
	return resource, len(pages)
}

func diffStrings(a, b []string) []string {
	in := map[string]int{}
	for _, x := range b {
		in[x]++
	}
	var out []string
	for _, x := range a {
		if in[x] > 0 {
			in[x]--
			continue
		}
		out = append(out, x)
	}
	return out
}

func allZeroRows(w *World, l *LState, keys []string) bool {
	return false
}

const ruleC21 = "histories (postings creates, reverts, metadata writes), then per history 8 paginated walks: resource in {transactions by id, logs by id, accounts by address, volumes by account, volumes grouped by 1-2 address segments}, page size 1-4, both orders, optional generated filter, optional PIT, plus 2 walks of the volumes of a generated window (pit / oot, either date mode, page size 1-3) compared with the fold; next cursors are followed to the end and previous cursors back to the first page; the concatenation must equal the reference list in order without duplicate or omission, and previous of page k must be page k-1; non-trivial = walk of >= 3 pages; distinct = by walk description + history"

const ruleC21Large = "large listings: a ledger is loaded with 105-260 transactions (one new account each, a few assets, some metadata and reverts), then 6 walks as above with page sizes drawn from {50, 99, 100, 101, 102, 128, 150, n-1, n, n+1, 1000} (n = number of transactions), so that pages larger than 100 items, the page boundary at the last item and single-page answers are all reached; non-trivial = walk with a page size above 100 over more than 101 entities; distinct = by walk description + size"

// TestC21Large covers page sizes the histories above never reach (the storage layer takes any page size; the v1 API lets
// clients ask for up to 1000 items).
func TestC21Large(t *testing.T) {
	st := stats.New("C21", "exploration", ruleC21Large, assumePgsim)
	defer st.Write(t)
	n := stats.N(6, 25)
	st.Set("requested_checks_large", n)
	stats.Check(t, n, 2121, func(rt *rapid.T) {
		w := NewWorld(rt, st, env.Options{}, "C21")
		defer w.Close()
		l := w.AddLedger("l1", "b1", GenFeatures(rt))
		ntx := rapid.IntRange(105, 260).Draw(rt, "transactions")
		assets := []string{"USD/2", "EUR", "COIN"}
		for i := 0; i < ntx; i++ {
			r := TxRequest{Postings: ledger.Postings{ledger.NewPosting("world", fmt.Sprintf("u:%03d", i), assets[i%3], big.NewInt(int64(1+i%7)))}}
			if i%10 == 0 {
				r.Metadata = map[string]string{"k": "v"}
			}
			if out := w.CreateTx(l, r); out.Kind != ErrNone {
				w.harness("loading transaction %d failed: %v", i, out.Err)
			}
			if i%40 == 39 {
				w.Revert(l, RevertRequest{ID: uint64(i), Force: true})
			}
			w.Env.Sim.AdvanceClock(1e6)
		}
		total := len(l.M.Txs)
		sizes := []int{50, 99, 100, 101, 102, 128, 150, total - 1, total, total + 1, 1000}
		for i := 0; i < 6; i++ {
			ps := uint64(rapid.SampledFrom(sizes).Draw(rt, "largePageSize"))
			res, pages := w.checkPaginationPS(rt, l, ps)
			st.Case(fmt.Sprint(ntx, res, ps, pages, i), ps > 100 && total > 101, func() any {
				return map[string]any{"resource": res, "pageSize": ps, "pages": pages, "transactions": total}
			}, "resource:"+res, fmt.Sprintf("large-pageSize:%d", ps))
		}
		st.Add("completed_checks_large", 1)
	})
}

// windowedVolumesWalk lists the volumes of a window (pit / oot, either date mode) page by page with a small page size:
// every page must come from the same result set as the first one, so any disagreement with the fold - a row listed
// twice, missing, or carrying the amounts of another window - counts for C21 here.
func (w *World) windowedVolumesWalk(t *rapid.T, l *LState) bool {
	if !l.Has(features.FeatureMovesHistory, "ON") || len(l.M.Txs) == 0 {
		return false
	}
	pit := w.genPIT(t, l)
	var oot *time.Time
	if rapid.IntRange(0, 2).Draw(t, "withStart") == 0 {
		oot = w.genPIT(t, l)
		if oot.After(*pit) {
			pit, oot = oot, pit
		}
	}
	useInsertionDate := rapid.Bool().Draw(t, "insertionDate")
	ps := uint64(rapid.IntRange(1, 3).Draw(t, "windowPageSize"))
	focus := w.Focus
	w.Focus = nil
	w.CheckVolumes(l, pit, oot, useInsertionDate, rapid.IntRange(0, 1).Draw(t, "windowGroup"), ps)
	w.Focus = focus
	return true
}

func TestC21(t *testing.T) {
	st := stats.New("C21", "exploration", ruleC21, assumePgsim, "entities whose filter evaluation falls in the class of known finding C20-null-under-not make the walk's content comparison be skipped (cursor mechanics are still checked)")
	defer st.Write(t)
	n := stats.N(300, 800)
	st.Set("requested_checks", n)
	stats.Check(t, n, 21, func(rt *rapid.T) {
		w, l, _ := RunHistory(rt, st, HistOpts{Focus: []string{"C21"}, Features: GenFeatures, Steps: 28, Scripts: false, Reverts: true, Metadata: true, MaxPostings: 3, SecondLedger: true})
		defer w.Close()
		for i := 0; i < 8; i++ {
			res, pages := w.checkPagination(rt, l)
			st.Case(fmt.Sprint(i, res, pages)+strings.Join(l.Ops, "\n"), pages >= 3, func() any {
				return map[string]any{"resource": res, "pages": pages, "history_len": len(l.Ops)}
			}, "resource:"+res, fmt.Sprintf("pages:%d", min(pages, 6)))
		}
		for i := 0; i < 2; i++ {
			if w.windowedVolumesWalk(rt, l) {
				st.Class("windowed-volumes-walk")
			}
		}
		st.Add("completed_checks", 1)
	})
}
