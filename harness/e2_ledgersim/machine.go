package e2

import (
	"flag"
	"fmt"
	"reflect"
	"sort"
	"strconv"
	"strings"
	"time"

	"pgregory.net/rapid"

	"github.com/formancehq/go-libs/v5/pkg/query"
	"github.com/formancehq/go-libs/v5/pkg/storage/bun/paginate"

	ledger "github.com/formancehq/ledger/internal"
	"github.com/formancehq/ledger/pkg/features"
	e1 "github.com/formancehq/ledger/verifharness/e1_numscript"
	"github.com/formancehq/ledger/verifharness/env"
	"github.com/formancehq/ledger/verifharness/gen"
	"github.com/formancehq/ledger/verifharness/stats"
)

// HistOpts configures the shared stateful machine.
type HistOpts struct {
	Focus        []string
	Features     func(t *rapid.T) features.FeatureSet
	Steps        int  // average number of actions per history
	Scripts      bool // include generated Numscript creates (both runtimes)
	Reverts      bool
	Metadata     bool
	Reads        bool // run read checks after every step
	FinalReads   bool // run the full read sweep at the end
	NoTrace      bool // C07: compare raw table dumps around failed and dry-run writes
	PITReads     bool
	MaxPostings  int
	Enforcement  string
	Bulks        bool // atomic bulks (with at most one failing element) are among the writes
	ViaHTTP      bool // writes and reads go through the real HTTP API (v2 routes) instead of the controller chain
	SecondLedger bool // in half of the cases a second ledger shares the bucket and receives a quarter of the writes
}

// GenFeatures draws one of the 48 feature combinations, biased to the default one.
func GenFeatures(t *rapid.T) features.FeatureSet {
	if rapid.IntRange(0, 2).Draw(t, "defaultFeatures") == 0 {
		return features.DefaultFeatures
	}
	fs := features.FeatureSet{}
	for _, k := range features.DefaultFeatures.SortedKeys() {
		fs[k] = rapid.SampledFrom(features.FeatureConfigurations[k]).Draw(t, "feature:"+k)
	}
	return fs
}

func FullFeatures(*rapid.T) features.FeatureSet { return features.DefaultFeatures }

func setSteps(n int) {
	if n > 0 {
		_ = flag.Set("rapid.steps", strconv.Itoa(n))
	}
}

// HistorySummary is what a run of the machine reports for non-triviality rules.
type HistorySummary struct {
	Commits, Failures, DryRuns, Reverts, BackDated, MultiTouch, SelfPosting, MetaOps, ScriptTx, Reads, PITReads int
	Key                                                                                                         string
}

func (w *World) dumpKey() string {
	d := w.Env.Sim.Dump()
	names := make([]string, 0, len(d))
	for k := range d {
		names = append(names, k)
	}
	sort.Strings(names)
	var sb strings.Builder
	for _, n := range names {
		sb.WriteString(n + ":\n" + strings.Join(d[n], "\n") + "\n")
	}
	return sb.String()
}

// noTrace runs op and, if it failed or was a dry run, requires every table to be unchanged (C07).
func (w *World) noTrace(l *LState, enabled bool, what string, op func() (failedOrDry bool)) {
	if !enabled {
		op()
		return
	}
	before := w.Env.Sim.Dump()
	if op() {
		after := w.Env.Sim.Dump()
		if !reflect.DeepEqual(before, after) {
			w.V("C07", "%s left a trace in the database\n%s\nhistory:\n  %s", what, dumpDiff(before, after), l.History())
		}
	}
}

func dumpDiff(a, b map[string][]string) string {
	var sb strings.Builder
	for name := range b {
		as, bs := map[string]bool{}, map[string]bool{}
		for _, r := range a[name] {
			as[r] = true
		}
		for _, r := range b[name] {
			bs[r] = true
		}
		for r := range bs {
			if !as[r] {
				sb.WriteString("  + " + name + ": " + r + "\n")
			}
		}
		for r := range as {
			if !bs[r] {
				sb.WriteString("  - " + name + ": " + r + "\n")
			}
		}
	}
	return sb.String()
}

func (w *World) genPIT(t *rapid.T, l *LState) *time.Time {
	var candidates []time.Time
	for _, tx := range l.M.Txs {
		candidates = append(candidates, tx.Timestamp, tx.InsertedAt)
		if tx.RevertedAt != nil {
			candidates = append(candidates, *tx.RevertedAt)
		}
	}
	for _, lg := range l.M.Logs {
		candidates = append(candidates, lg.Date)
	}
	if len(candidates) == 0 {
		v := w.Env.Sim.Clock()
		return &v
	}
	base := candidates[rapid.IntRange(0, len(candidates)-1).Draw(t, "pitBase")]
	switch rapid.IntRange(0, 3).Draw(t, "pitShift") {
	case 0:
		base = base.Add(-time.Microsecond)
	case 1:
		base = base.Add(time.Microsecond)
	case 2:
		base = base.Add(time.Duration(rapid.IntRange(-3000, 3000).Draw(t, "pitMinutes")) * time.Minute)
	}
	return &base
}

// RandomReads runs a drawn subset of the read checks.
func (w *World) RandomReads(t *rapid.T, l *LState, o HistOpts, sum *HistorySummary) {
	ps := uint64(rapid.SampledFrom([]int{1, 2, 3, 5, 15}).Draw(t, "pageSize"))
	var pit *time.Time
	if o.PITReads && rapid.Bool().Draw(t, "usePIT") {
		pit = w.genPIT(t, l)
		sum.PITReads++
	}
	sum.Reads++
	switch rapid.IntRange(0, 4).Draw(t, "readKind") {
	case 0:
		order := paginate.Order(paginate.OrderDesc)
		if rapid.Bool().Draw(t, "asc") {
			order = paginate.OrderAsc
		}
		w.CheckTransactions(l, pit, ps, order)
	case 1:
		w.CheckAccounts(l, pit, ps)
	case 2:
		var oot *time.Time
		if pit != nil && rapid.Bool().Draw(t, "useOOT") {
			oot = w.genPIT(t, l)
		}
		w.CheckVolumes(l, pit, oot, rapid.Bool().Draw(t, "insertionDate"), rapid.IntRange(0, 3).Draw(t, "groupLvl"), ps)
	case 3:
		w.CheckAggregated(l, pit, rapid.Bool().Draw(t, "aggInsertionDate"), nil, nil)
	case 4:
		order := paginate.Order(paginate.OrderDesc)
		if rapid.Bool().Draw(t, "logsAsc") {
			order = paginate.OrderAsc
		}
		w.CheckLogs(l, ps, order)
	}
}

// FullSweep runs every read check once without PIT (and with one PIT when enabled).
func (w *World) FullSweep(t *rapid.T, l *LState, o HistOpts) {
	w.CheckTransactions(l, nil, 3, paginate.OrderDesc)
	w.CheckAccounts(l, nil, 4)
	w.CheckVolumes(l, nil, nil, false, 0, 5)
	w.CheckAggregated(l, nil, false, nil, nil)
	// the same sums restricted by an address pattern and by a metadata value some account carries: these filters go
	// through the accounts table, which every ledger of the bucket shares
	for _, prefix := range []string{"u", "a"} {
		prefix := prefix
		w.CheckAggregated(l, nil, false, query.Match("address", prefix+":"), func(addr string) bool {
			segs := strings.Split(addr, ":")
			return len(segs) == 2 && segs[0] == prefix
		})
	}
	for _, addr := range l.M.SortedAccounts() {
		md := l.M.Accounts[addr].Metadata
		if len(md) == 0 {
			continue
		}
		key := sortedKeys(md)[0]
		if strings.ContainsAny(key, "[]%") {
			continue
		}
		val := md[key]
		w.CheckAggregated(l, nil, false, query.Match("metadata["+key+"]", val), func(a string) bool {
			acc := l.M.Accounts[a]
			if acc == nil {
				return false
			}
			v, ok := acc.Metadata[key]
			return ok && v == val
		})
		break
	}
	w.CheckLogs(l, 4, paginate.OrderAsc)
	w.CheckMovesTable(l)
	w.CheckVolumesTable(l)
	w.CheckStats(l)
	if len(l.M.Txs) > 0 {
		// a point in time beyond every recorded date: the answer is the current state, but it is computed from the moves
		beyond := w.Env.Sim.Clock().Add(1000 * time.Hour)
		for _, tx := range l.M.Txs {
			if !tx.Timestamp.Before(beyond) {
				beyond = tx.Timestamp.Add(time.Hour)
			}
		}
		w.CheckAccounts(l, &beyond, 15)
	}
	if o.PITReads && len(l.M.Txs) > 0 {
		pit := w.genPIT(t, l)
		w.CheckTransactions(l, pit, 15, paginate.OrderAsc)
		w.CheckAccounts(l, pit, 15)
		w.CheckVolumes(l, pit, nil, false, 0, 15)
		w.CheckVolumes(l, pit, nil, true, 0, 15)
		w.CheckAggregated(l, pit, true, nil, nil)
		w.CheckAggregated(l, pit, false, nil, nil)
	}
}

// GenScriptRequest turns a generated Numscript program into a create request.
func (w *World) GenScriptRequest(t *rapid.T, l *LState) TxRequest {
	p := e1.GenProgram(t, e1.Opts{MaxStmts: 2, MaxDepth: 2})
	r := TxRequest{Script: p.Render(len(p.Stmts)), Vars: p.CopyVars(), Timestamp: w.GenTimestamp(t, l)}
	if rapid.IntRange(0, 2).Draw(t, "interpreterRuntime") == 0 {
		r.Runtime = "experimental-interpreter"
	}
	if rapid.IntRange(0, 4).Draw(t, "scriptRef") == 0 {
		r.Reference = rapid.SampledFrom(refPool).Draw(t, "ref")
	}
	if rapid.IntRange(0, 7).Draw(t, "scriptDry") == 0 {
		r.DryRun = true
	}
	_, r.ScriptAccMeta = p.ScriptMeta()
	if rapid.IntRange(0, 2).Draw(t, "requestAccountMetadata") == 0 {
		// metadata for accounts in the request itself, next to what the script sets: on the same account the two are
		// merged key by key (the request wins on a key both set)
		addr := gen.NonWorldAccount().Draw(t, "accMetaAddr")
		if len(r.ScriptAccMeta) > 0 && rapid.IntRange(0, 3).Draw(t, "onAScriptAccount") != 0 {
			addr = rapid.SampledFrom(sortedKeys(r.ScriptAccMeta)).Draw(t, "scriptAccount")
		}
		r.AccountMetadata = map[string]map[string]string{addr: {rapid.SampledFrom([]string{"k1", "k2", "role", "tier"}).Draw(t, "amk"): gen.FreeText().Draw(t, "amv")}}
	}
	return r
}

// RunHistory drives one generated history on one ledger of a fresh world and returns its summary.
func RunHistory(t *rapid.T, st *stats.Collector, o HistOpts) (*World, *LState, *HistorySummary) {
	opts := env.Options{}
	w := NewWorld(t, st, opts, o.Focus...)
	w.ViaHTTP = o.ViaHTTP
	if o.ViaHTTP && rapid.IntRange(0, 2).Draw(t, "bigintAsString") == 0 {
		w.BigintAsString = true
		if st != nil {
			st.Class("bigint-as-string")
		}
	}
	if o.ViaHTTP && rapid.IntRange(0, 2).Draw(t, "writesThroughV1") == 0 {
		w.V1Writes = true
		if st != nil {
			st.Class("writes-through-v1-routes")
		}
	}
	fs := o.Features(t)
	l := w.AddLedger("l1", "b1", fs)
	var other *LState
	if o.SecondLedger && rapid.Bool().Draw(t, "secondLedgerInTheBucket") {
		// a neighbour in the same bucket: same account names, same transaction and log ids, its own history
		other = w.AddLedger("l2", "b1", fs)
		if st != nil {
			st.Class("shared-bucket")
		}
	}
	return w, l, w.Drive(t, l, other, o)
}

// Drive runs a generated history on ledger l (and optionally a second one) of an existing world.
func (w *World) Drive(t *rapid.T, l, other *LState, o HistOpts) *HistorySummary {
	fs := l.Features
	sum := &HistorySummary{}
	if o.MaxPostings == 0 {
		o.MaxPostings = 4
	}
	setSteps(o.Steps)

	pickTx := func(t *rapid.T) uint64 {
		if len(l.M.Txs) == 0 || rapid.IntRange(0, 9).Draw(t, "unknownTx") == 0 {
			return uint64(rapid.IntRange(1, 40).Draw(t, "txID"))
		}
		return l.M.Txs[rapid.IntRange(0, len(l.M.Txs)-1).Draw(t, "txIdx")].ID
	}

	actions := map[string]func(*rapid.T){
		"createPostings": func(t *rapid.T) {
			target := l
			if other != nil && rapid.IntRange(0, 3).Draw(t, "onOther") == 0 {
				target = other
			}
			r := w.GenPostingsRequest(t, target, o.MaxPostings)
			want := target.expectPostings(r)
			w.noTrace(target, o.NoTrace, "a failed or dry-run create ("+r.describe()+")", func() bool {
				var out TxOutcome
				if r.DryRun && rapid.Bool().Draw(t, "dryRunUnderDeadlock") {
					// the first attempt of the dry run is the victim of a deadlock: the retry path replays it, and it
					// must still move nothing
					k := rapid.IntRange(1, 8).Draw(t, "deadlockAtStatement")
					tr := withFault(w.Env.Sim, faultPlan{Kind: "deadlock", At: k}, func() { out = w.CreateTx(target, r) })
					if tr.Fired && w.St != nil {
						w.St.Class("dry-run-replayed-after-deadlock")
					}
				} else {
					out = w.CreateTx(target, r)
				}
				if out.Kind != want {
					code := "C25"
					if want == ErrReferenceConflict || out.Kind == ErrReferenceConflict {
						code = "C14"
					}
					w.V(code, "create %s: outcome %q (%v), the model expects %q\nhistory:\n  %s", r.describe(), out.Kind, out.Err, want, target.History())
				}
				if out.Kind == ErrNone && !r.DryRun {
					sum.Commits++
					if !r.Timestamp.IsZero() && r.Timestamp.Before(tm(out.Tx.InsertedAt)) {
						sum.BackDated++
					}
					touched := map[string]int{}
					for _, p := range r.Postings {
						touched[p.Source+"/"+p.Asset]++
						if p.Source != p.Destination {
							touched[p.Destination+"/"+p.Asset]++
						} else {
							sum.SelfPosting++
						}
					}
					for _, n := range touched {
						if n >= 2 {
							sum.MultiTouch++
							break
						}
					}
				}
				return out.Kind != ErrNone || r.DryRun
			})
		},
		"advanceClock": func(t *rapid.T) {
			w.Env.Sim.AdvanceClock(time.Duration(rapid.IntRange(1, 600).Draw(t, "minutes")) * time.Minute)
		},
		"reopen": func(t *rapid.T) { w.Reopen(l) },
	}
	if o.Scripts {
		actions["createScript"] = func(t *rapid.T) {
			r := w.GenScriptRequest(t, l)
			w.noTrace(l, o.NoTrace, "a failed or dry-run script create", func() bool {
				out := w.CreateTx(l, r)
				if out.Kind == ErrNone && !r.DryRun {
					sum.Commits++
					sum.ScriptTx++
				}
				return out.Kind != ErrNone || r.DryRun
			})
		}
	}
	if o.Bulks {
		actions["atomicBulk"] = func(t *rapid.T) {
			sum.Commits += w.AtomicBulk(t, l)
		}
	}
	if o.Reverts {
		actions["revert"] = func(t *rapid.T) {
			r := RevertRequest{ID: pickTx(t), Force: rapid.IntRange(0, 2).Draw(t, "force") == 0, AtEffectiveDate: rapid.Bool().Draw(t, "atEffectiveDate"),
				Metadata: genMeta(t, "revertMeta"), DryRun: rapid.IntRange(0, 7).Draw(t, "dry") == 0}
			if rapid.IntRange(0, 4).Draw(t, "forwardedMark") == 0 {
				// a client forwarding the metadata of another transaction, the revert mark of an earlier revert included:
				// the mark of this revert names the transaction it reverts all the same
				if r.Metadata == nil {
					r.Metadata = map[string]string{}
				}
				r.Metadata[ledger.RevertMetadataSpecKey()] = fmt.Sprint(pickTx(t) + uint64(rapid.IntRange(0, 2).Draw(t, "markOffset")))
			}
			want := l.expectRevert(r)
			w.noTrace(l, o.NoTrace, fmt.Sprintf("a failed or dry-run revert of %d", r.ID), func() bool {
				out := w.Revert(l, r)
				if out.Kind != want {
					code := "C15"
					if want == ErrInsufficientFunds || out.Kind == ErrInsufficientFunds {
						code = "C06"
					}
					w.V(code, "revert %+v: outcome %q (%v), the model expects %q\nhistory:\n  %s", r, out.Kind, out.Err, want, l.History())
				}
				if out.Kind == ErrNone && !r.DryRun {
					sum.Commits++
					sum.Reverts++
				}
				return out.Kind != ErrNone || r.DryRun
			})
		}
	}
	if o.Metadata {
		actions["saveTxMeta"] = func(t *rapid.T) {
			id := pickTx(t)
			m := genMeta(t, "meta")
			if m == nil {
				m = map[string]string{"k": "v"}
			}
			dry := rapid.IntRange(0, 7).Draw(t, "dry") == 0
			w.noTrace(l, o.NoTrace, fmt.Sprintf("a failed or dry-run saveTxMeta(%d)", id), func() bool {
				kind := w.SaveTxMeta(l, id, m, "", dry)
				want := ErrNone
				if l.M.Tx(id) == nil {
					want = ErrNotFound
				}
				if kind != want {
					w.V("C17", "saveTxMeta(%d): outcome %q, the model expects %q\nhistory:\n  %s", id, kind, want, l.History())
				}
				if kind == ErrNone && !dry {
					sum.MetaOps++
					sum.Commits++
				}
				return kind != ErrNone || dry
			})
		}
		actions["deleteTxMeta"] = func(t *rapid.T) {
			id := pickTx(t)
			key := rapid.SampledFrom(metaKeys).Draw(t, "key")
			dry := rapid.IntRange(0, 7).Draw(t, "dry") == 0
			w.noTrace(l, o.NoTrace, fmt.Sprintf("a failed or dry-run deleteTxMeta(%d)", id), func() bool {
				want := ErrNone
				if tx := l.M.Tx(id); tx == nil {
					want = ErrNotFound
				} else if _, ok := tx.Metadata[key]; !ok {
					want = ErrNotFound
				}
				kind := w.DeleteTxMeta(l, id, key, dry)
				if kind != want {
					w.V("C17", "deleteTxMeta(%d,%q): outcome %q, the model expects %q\nhistory:\n  %s", id, key, kind, want, l.History())
				}
				if kind == ErrNone && !dry {
					sum.MetaOps++
					sum.Commits++
				}
				return kind != ErrNone || dry
			})
		}
		actions["saveAccountMeta"] = func(t *rapid.T) {
			addr := gen.NonWorldAccount().Draw(t, "addr")
			m := genMeta(t, "meta")
			if m == nil {
				m = map[string]string{"role": "x"}
				if rapid.Bool().Draw(t, "emptyDocument") {
					// a write of no key at all is a metadata write nonetheless: the account exists from then on
					m = map[string]string{}
				}
			}
			dry := rapid.IntRange(0, 7).Draw(t, "dry") == 0
			if other != nil && rapid.IntRange(0, 3).Draw(t, "onOther") == 0 {
				// the neighbour's account of the same name gets metadata of its own
				if kind := w.SaveAccountMeta(other, addr, m, false); kind != ErrNone {
					w.V("C17", "saveAccountMeta(%s) on the neighbour ledger failed: %q", addr, kind)
				}
				return
			}
			w.noTrace(l, o.NoTrace, "a failed or dry-run saveAccountMeta", func() bool {
				kind := w.SaveAccountMeta(l, addr, m, dry)
				if kind != ErrNone {
					w.V("C17", "saveAccountMeta(%s) failed: %q\nhistory:\n  %s", addr, kind, l.History())
				}
				if kind == ErrNone && !dry {
					sum.MetaOps++
					sum.Commits++
				}
				return kind != ErrNone || dry
			})
		}
		actions["deleteAccountMeta"] = func(t *rapid.T) {
			addr := gen.NonWorldAccount().Draw(t, "addr")
			key := rapid.SampledFrom(metaKeys).Draw(t, "key")
			dry := rapid.IntRange(0, 7).Draw(t, "dry") == 0
			w.noTrace(l, o.NoTrace, "a failed or dry-run deleteAccountMeta", func() bool {
				kind := w.DeleteAccountMeta(l, addr, key, dry)
				if kind != ErrNone {
					w.V("C17", "deleteAccountMeta(%s,%q) failed: %q\nhistory:\n  %s", addr, key, kind, l.History())
				}
				if kind == ErrNone && !dry {
					sum.MetaOps++
					sum.Commits++
				}
				return kind != ErrNone || dry
			})
		}
	}
	if o.Reads {
		actions[""] = func(t *rapid.T) {
			w.RandomReads(t, l, o, sum)
			if other != nil {
				w.RandomReads(t, other, o, sum)
			}
		}
	}
	t.Repeat(actions)
	if o.FinalReads {
		w.FullSweep(t, l, o)
		if other != nil {
			w.FullSweep(t, other, o)
		}
	}
	sum.Failures = l.Failures
	sum.DryRuns = l.DryRuns
	sum.Key = strings.Join(l.Ops, "\n") + fmt.Sprint(fs)
	return sum
}
