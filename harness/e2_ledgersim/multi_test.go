package e2

import (
	"fmt"
	"reflect"
	"strings"
	"testing"

	"pgregory.net/rapid"

	"github.com/formancehq/go-libs/v5/pkg/storage/bun/paginate"

	"github.com/formancehq/ledger/pkg/features"
	"github.com/formancehq/ledger/verifharness/env"
	"github.com/formancehq/ledger/verifharness/stats"
)

// multiSummary describes a multi-ledger history.
type multiSummary struct {
	Ledgers, Commits, RefReuseAcross, RefConflicts, JoinedLate, Failures int
	Key                                                                  string
}

// runMulti drives interleaved histories on several ledgers: up to three in
// bucket "shared" (created over time, so that a store opened while its ledger
// was alone in the bucket keeps being used after another ledger joins) and one
// alone in bucket "solo". Controllers are deliberately NOT re-opened unless the
// history says so.
// multiViaHTTP makes runMulti route every ledger's controller through the HTTP API (set by the *HTTP variants).
var multiViaHTTP bool

func runMulti(rt *rapid.T, st *stats.Collector, focus []string, gapCheck bool) (*World, *multiSummary) {
	w := NewWorld(rt, st, env.Options{}, focus...)
	w.ViaHTTP = multiViaHTTP
	if w.ViaHTTP && rapid.IntRange(0, 2).Draw(rt, "writesThroughV1") == 0 {
		w.V1Writes = true
		if st != nil {
			st.Class("writes-through-v1-routes")
		}
	}
	w.Narrow = rapid.Bool().Draw(rt, "narrowPool")
	sum := &multiSummary{}
	fs := GenFeatures(rt)
	w.AddLedger("s1", "shared", fs)
	w.AddLedger("solo", "solo", fs)
	sum.Ledgers = 2
	setSteps(30)
	pending := map[string]int{}    // uncommitted attempts on a ledger since its last committed transaction (tx id gaps allowed)
	pendingLog := map[string]int{} // uncommitted attempts since its last committed log (log id gaps allowed)
	lastID := map[string]uint64{}
	lastLog := map[string]uint64{}
	pick := func(t *rapid.T) *LState { return w.L[rapid.IntRange(0, len(w.L)-1).Draw(t, "ledger")] }
	afterCommit := func(l *LState, out TxOutcome) {
		if out.Kind != ErrNone || out.Tx == nil || out.Hit {
			pending[l.Name]++
			pendingLog[l.Name]++
			return
		}
		id, logID := *out.Tx.ID, *out.Log.ID
		if gapCheck && pending[l.Name] == 0 {
			if id != lastID[l.Name]+1 {
				w.V("C16", "ledger %s: transaction id %d follows %d although no write of this ledger was rolled back in between (ids of ledgers sharing a bucket must be independent)\n%s", l.Name, id, lastID[l.Name], w.allHistories())
			}
		}
		if gapCheck && pendingLog[l.Name] == 0 && logID != lastLog[l.Name]+1 {
			w.V("C16", "ledger %s: log id %d follows %d although no write of this ledger was rolled back in between\n%s", l.Name, logID, lastLog[l.Name], w.allHistories())
		}
		lastID[l.Name], lastLog[l.Name] = id, logID
		pending[l.Name] = 0
		pendingLog[l.Name] = 0
		sum.Commits++
	}
	rt.Repeat(map[string]func(*rapid.T){
		"create": func(t *rapid.T) {
			l := pick(t)
			r := w.GenPostingsRequest(t, l, 3)
			r.DryRun = false
			if rapid.IntRange(0, 1).Draw(t, "forceRef") == 0 {
				r.Reference = rapid.SampledFrom(refPool).Draw(t, "ref")
			}
			want := l.expectPostings(r)
			usedElsewhere := false
			for _, o := range w.L {
				if o != l && r.Reference != "" && o.Refs[r.Reference] {
					usedElsewhere = true
				}
			}
			var out TxOutcome
			if want == ErrReferenceConflict {
				// the refused write must leave nothing behind - also when its first attempt is the victim of a
				// deadlock and the refusal comes from the retry path
				before := w.Env.Sim.Dump()
				fault := "no fault"
				if rapid.Bool().Draw(t, "deadlockFirst") {
					k := rapid.IntRange(1, 10).Draw(t, "deadlockAtStatement")
					tr := withFault(w.Env.Sim, faultPlan{Kind: "deadlock", At: k}, func() { out = w.CreateTx(l, r) })
					fault = fmt.Sprintf("deadlock injected at statement %d (fired: %v)", k, tr.Fired)
					if tr.Fired {
						st.Class("reference-conflict-after-deadlock-retry")
					}
				} else {
					out = w.CreateTx(l, r)
				}
				if out.Kind == ErrOther && strings.HasPrefix(fault, "deadlock") && (strings.Contains(out.Err.Error(), "deadlock") || strings.Contains(out.Err.Error(), "HTTP 500")) {
					// the injected deadlock hit a statement outside the section the controller retries (a lookup made before
					// the write begins): the caller is answered with that error - a failed write, which must leave no trace
					st.Class("injected-deadlock-answered-to-the-caller")
					if after := w.Env.Sim.Dump(); !reflect.DeepEqual(before, after) {
						w.V("C14", "ledger %s: create %s failed (%v, %s) but left a trace\n%s\n%s", l.Name, r.describe(), out.Err, fault, dumpDiff(before, after), w.allHistories())
					}
					sum.Failures++
					afterCommit(l, out)
					return
				}
				if out.Kind == ErrReferenceConflict {
					if after := w.Env.Sim.Dump(); !reflect.DeepEqual(before, after) {
						w.V("C14", "ledger %s: create %s was refused with a reference conflict (%s) but left a trace\n%s\n%s", l.Name, r.describe(), fault, dumpDiff(before, after), w.allHistories())
					}
				}
			} else {
				out = w.CreateTx(l, r)
			}
			if out.Kind != want {
				// the model is per ledger: an outcome it does not predict is a request recorded differently from what was
				// submitted (C25) or a ledger whose answers depend on its neighbours (C19)
				code := "C25|C19"
				if want == ErrReferenceConflict || out.Kind == ErrReferenceConflict {
					code = "C14|C19"
				}
				w.V(code, "ledger %s: create %s: outcome %q (%v), the model expects %q\n%s", l.Name, r.describe(), out.Kind, out.Err, want, w.allHistories())
			}
			if out.Kind == ErrReferenceConflict {
				sum.RefConflicts++
			}
			if out.Kind == ErrNone && usedElsewhere {
				sum.RefReuseAcross++
			}
			if out.Kind != ErrNone {
				sum.Failures++
			}
			afterCommit(l, out)
		},
		"atomicBulk": func(t *rapid.T) {
			l := pick(t)
			if n := w.AtomicBulk(t, l); n > 0 {
				lastID[l.Name], lastLog[l.Name] = l.M.Txs[len(l.M.Txs)-1].ID, l.M.Logs[len(l.M.Logs)-1].ID
				pending[l.Name], pendingLog[l.Name] = 0, 0
				sum.Commits += n
			} else {
				pending[l.Name]++
				pendingLog[l.Name]++
				sum.Failures++
			}
		},
		"createScript": func(t *rapid.T) {
			// the same references through the script form of the create routes (error mapping of its own on v1)
			l := pick(t)
			r := TxRequest{Script: fmt.Sprintf("send [USD/2 %d] (\n  source = @world\n  destination = @%s\n)\n", rapid.IntRange(1, 40).Draw(t, "amount"), rapid.SampledFrom([]string{"a", "bank", "u:1"}).Draw(t, "dst")),
				ScriptAccMeta: map[string]map[string]string{}}
			if rapid.IntRange(0, 3).Draw(t, "withRef") != 0 {
				r.Reference = rapid.SampledFrom(refPool).Draw(t, "ref")
			}
			want := ErrNone
			if r.Reference != "" && l.Refs[r.Reference] {
				want = ErrReferenceConflict
			}
			before := w.Env.Sim.Dump()
			out := w.CreateTx(l, r)
			if out.Kind != want {
				w.V("C14|C19", "ledger %s: create by script ref=%q: outcome %q (%v), the model expects %q\n%s", l.Name, r.Reference, out.Kind, out.Err, want, w.allHistories())
			}
			if out.Kind == ErrReferenceConflict {
				sum.RefConflicts++
				if after := w.Env.Sim.Dump(); !reflect.DeepEqual(before, after) {
					w.V("C14", "ledger %s: create by script ref=%q was refused with a reference conflict but left a trace\n%s\n%s", l.Name, r.Reference, dumpDiff(before, after), w.allHistories())
				}
			}
			if out.Kind != ErrNone {
				sum.Failures++
			}
			afterCommit(l, out)
		},
		"revert": func(t *rapid.T) {
			l := pick(t)
			if len(l.M.Txs) == 0 {
				t.Skip("nothing to revert")
			}
			r := RevertRequest{ID: l.M.Txs[rapid.IntRange(0, len(l.M.Txs)-1).Draw(t, "tx")].ID, Force: true}
			want := l.expectRevert(r)
			out := w.Revert(l, r)
			if out.Kind != want {
				w.V("C15", "ledger %s: revert %d: outcome %q, the model expects %q\n%s", l.Name, r.ID, out.Kind, want, w.allHistories())
			}
			afterCommit(l, out)
		},
		"accountMeta": func(t *rapid.T) {
			l := pick(t)
			kind := w.SaveAccountMeta(l, rapid.SampledFrom([]string{"a", "a:b", "bank"}).Draw(t, "addr"), map[string]string{"owner": l.Name}, false)
			if kind == ErrNone {
				id := l.M.Logs[len(l.M.Logs)-1].ID
				if gapCheck && pendingLog[l.Name] == 0 && id != lastLog[l.Name]+1 {
					w.V("C16", "ledger %s: log id %d follows %d although no write of this ledger was rolled back in between\n%s", l.Name, id, lastLog[l.Name], w.allHistories())
				}
				lastLog[l.Name] = id
				pendingLog[l.Name] = 0
			} else {
				pending[l.Name]++
				pendingLog[l.Name]++
			}
		},
		"joinBucket": func(t *rapid.T) {
			n := 0
			for _, l := range w.L {
				if l.Bucket == "shared" {
					n++
				}
			}
			if n >= 3 {
				t.Skip("bucket full")
			}
			w.AddLedger(fmt.Sprintf("s%d", n+1), "shared", fs)
			sum.Ledgers++
			sum.JoinedLate++
		},
		"reopen": func(t *rapid.T) { w.Reopen(pick(t)) },
		"": func(t *rapid.T) {
			// every read of every ledger must show that ledger's own history only
			l := pick(t)
			ps := uint64(rapid.SampledFrom([]int{1, 2, 15}).Draw(t, "pageSize"))
			switch rapid.IntRange(0, 4).Draw(t, "read") {
			case 0:
				w.CheckTransactions(l, nil, ps, paginate.OrderDesc)
			case 1:
				w.CheckAccounts(l, nil, ps)
			case 2:
				w.CheckVolumes(l, nil, nil, false, 0, ps)
			case 3:
				w.CheckAggregated(l, nil, false, nil, nil)
			case 4:
				w.CheckLogs(l, ps, paginate.OrderAsc)
			}
		},
	})
	for _, l := range w.L {
		w.FullSweep(rt, l, HistOpts{PITReads: l.Has(features.FeatureMovesHistory, "ON")})
	}
	var keys []string
	for _, l := range w.L {
		keys = append(keys, l.Name+":"+strings.Join(l.Ops, "|"))
	}
	sum.Key = strings.Join(keys, "\n")
	return w, sum
}

func (w *World) allHistories() string {
	var sb strings.Builder
	for _, l := range w.L {
		sb.WriteString("history of " + l.Name + " (bucket " + l.Bucket + "):\n  " + l.History() + "\n")
	}
	return sb.String()
}

func sampleMulti(w *World) func() any {
	return func() any {
		out := map[string]any{}
		for _, l := range w.L {
			ops := l.Ops
			if len(ops) > 8 {
				ops = append(append([]string{}, ops[:8]...), "…")
			}
			out[l.Name+"@"+l.Bucket] = ops
		}
		return out
	}
}

const multiGen = "interleaved histories on 2-4 ledgers — up to three sharing bucket `shared`, created over time, plus one alone in bucket `solo` — with overlapping accounts, references and metadata; controllers are kept across ledger creations so that a store opened while alone in its bucket is used after another ledger joins; real system controller + storage driver + ledger stores over pgsim"

func TestC19(t *testing.T) {
	st := stats.New("C19", "exploration", multiGen+"; after every step a drawn read of a drawn ledger, and at the end every read of every ledger (transactions, accounts+volumes, volumes, aggregated balances, logs, with PIT when available) is compared with that ledger's own reference model; in half of the cases the shared bucket is then soft-deleted, a new ledger is created in it, written and read (fresh and re-opened controller), and after an optional restore every ledger of the bucket is read again; non-trivial = >= 3 ledgers with >= 1 joining the shared bucket after writes, and >= 4 commits; distinct = by operation histories", assumePgsim)
	defer st.Write(t)
	n := stats.N(400, 900)
	st.Set("requested_checks", n)
	stats.Check(t, n, 19, func(rt *rapid.T) {
		// any per-ledger read discrepancy in a multi-ledger world is an isolation failure
		w, sum := runMulti(rt, st, nil, false)
		defer w.Close()
		if rapid.IntRange(0, 1).Draw(rt, "softDeletedBucket") == 0 {
			// the shared bucket is soft-deleted (its ledgers keep their rows until a purge or a restore), a new ledger is
			// created in it and used; the bucket is then restored and every ledger read again
			var shared []*LState
			for _, l := range w.L {
				if l.Bucket == "shared" {
					shared = append(shared, l)
				}
			}
			if err := w.Env.System.DeleteBucket(w.Ctx, "shared"); err != nil {
				w.checkErr(err)
				w.harness("DeleteBucket(shared): %v", err)
			}
			late := w.AddLedger("late", "shared", shared[0].Features)
			for i, k := 0, rapid.IntRange(1, 3).Draw(rt, "lateWrites"); i < k; i++ {
				r := w.GenPostingsRequest(rt, late, 3)
				r.DryRun = false
				w.CreateTx(late, r)
			}
			w.FullSweep(rt, late, HistOpts{PITReads: true})
			w.Reopen(late)
			w.FullSweep(rt, late, HistOpts{PITReads: true})
			if rapid.Bool().Draw(rt, "restore") {
				if err := w.Env.System.RestoreBucket(w.Ctx, "shared"); err != nil {
					w.checkErr(err)
					w.harness("RestoreBucket(shared): %v", err)
				}
				for _, l := range append(shared, late) {
					if rapid.Bool().Draw(rt, "reopenAfterRestore") {
						w.Reopen(l)
					}
					w.FullSweep(rt, l, HistOpts{PITReads: true})
				}
				st.Class("bucket-soft-deleted-then-restored")
			} else {
				st.Class("new-ledger-in-soft-deleted-bucket")
			}
			sum.Key += "|soft-delete"
		}
		st.Case(sum.Key, sum.Ledgers >= 3 && sum.JoinedLate >= 1 && sum.Commits >= 4, sampleMulti(w))
		st.Add("completed_checks", 1)
	})
}

func TestC14(t *testing.T) {
	st := stats.New("C14", "exploration", multiGen+", biased to a pool of 4 references; a create reusing a reference of the same ledger must fail with the reference-conflict error and leave no trace, the same reference on another ledger must be accepted; at most one transaction per (ledger, reference) is ever listed; non-trivial = >= 1 conflict within a ledger and >= 1 reuse across ledgers; distinct = by operation histories", assumePgsim,
		"sequential part; concurrent creators are covered by the scheduler-driven check of this property when present")
	defer st.Write(t)
	n := stats.N(400, 900)
	st.Set("requested_checks", n)
	stats.Check(t, n, 14, func(rt *rapid.T) {
		w, sum := runMulti(rt, st, []string{"C14"}, false)
		defer w.Close()
		for _, l := range w.L {
			seen := map[string]uint64{}
			for _, tx := range l.M.Txs {
				if tx.Reference == "" {
					continue
				}
				if prev, ok := seen[tx.Reference]; ok {
					rt.Fatalf("VIOLATION[C14]: ledger %s holds transactions %d and %d with reference %q", l.Name, prev, tx.ID, tx.Reference)
				}
				seen[tx.Reference] = tx.ID
			}
		}
		st.Case(sum.Key, sum.RefConflicts >= 1 && sum.RefReuseAcross >= 1, sampleMulti(w))
		st.Add("completed_checks", 1)
	})
}

func TestC16(t *testing.T) {
	st := stats.New("C16", "exploration", multiGen+"; transaction and log ids of every ledger must be unique and increase in commit order, and — because per-ledger sequences only skip values on rolled-back writes of that same ledger — must be consecutive whenever no write of that ledger failed in between, whatever happens on the other ledgers of the bucket; non-trivial = >= 3 ledgers, >= 6 commits and >= 1 failed write; distinct = by operation histories", assumePgsim,
		"sequences and unique indexes are the stand-in's; what is decided is that the Go code draws ids from per-ledger sequences and re-synchronises them")
	defer st.Write(t)
	n := stats.N(400, 900)
	st.Set("requested_checks", n)
	stats.Check(t, n, 16, func(rt *rapid.T) {
		w, sum := runMulti(rt, st, []string{"C16"}, true)
		defer w.Close()
		st.Case(sum.Key, sum.Ledgers >= 3 && sum.Commits >= 6 && sum.Failures >= 1, sampleMulti(w))
		st.Add("completed_checks", 1)
	})
}

func TestC04(t *testing.T) {
	runFocused(t, "C04", histGen+", all with MOVES_HISTORY_POST_COMMIT_EFFECTIVE_VOLUMES=SYNC and many back-dated / tied / future timestamps; postCommitEffectiveVolumes in write responses and in every later listing (they must move when a transaction is inserted in the past) are compared with the fold by (effective date, insertion order); non-trivial = >= 2 back-dated transactions and >= 4 commits; distinct = by operation history",
		HistOpts{Features: FullFeatures, Steps: 25, Scripts: false, Reverts: true, Reads: true, FinalReads: true, PITReads: true, MaxPostings: 4, SecondLedger: true}, 150, 500,
		func(s *HistorySummary) bool { return s.BackDated >= 2 && s.Commits >= 4 },
		"the two PL/pgSQL triggers (set_effective_volumes, update_effective_volumes) are native ports inside the stand-in, installed only when the real DefaultBucket.AddLedger issues their CREATE TRIGGER; what is decided for real is the Go side: moves construction, ComputePostCommitEffectiveVolumes, the expand=effectiveVolumes SQL")
}
