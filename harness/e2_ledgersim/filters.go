package e2

import (
	"fmt"
	"math/big"
	"sort"
	"strings"
	"time"

	"pgregory.net/rapid"

	"github.com/formancehq/go-libs/v5/pkg/query"

	"github.com/formancehq/ledger/verifharness/gen"
	"github.com/formancehq/ledger/verifharness/refmodel"
)

// Filter is a generated query filter: an AST that can be rendered to the real
// query.Builder and evaluated independently on reference entities.
type Filter struct {
	Op    string // and | or | not | $match | $lt | $lte | $gt | $gte | $like | $in | $exists
	Key   string
	Value any
	Items []*Filter
}

func (f *Filter) Builder() query.Builder {
	switch f.Op {
	case "and":
		items := make([]query.Builder, len(f.Items))
		for i, it := range f.Items {
			items[i] = it.Builder()
		}
		return query.And(items...)
	case "or":
		items := make([]query.Builder, len(f.Items))
		for i, it := range f.Items {
			items[i] = it.Builder()
		}
		return query.Or(items...)
	case "not":
		return query.Not(f.Items[0].Builder())
	case "$match":
		return query.Match(f.Key, f.Value)
	case "$lt":
		return query.Lt(f.Key, f.Value)
	case "$lte":
		return query.Lte(f.Key, f.Value)
	case "$gt":
		return query.Gt(f.Key, f.Value)
	case "$gte":
		return query.Gte(f.Key, f.Value)
	case "$like":
		return query.Like(f.Key, f.Value)
	case "$in":
		return query.In(f.Key, f.Value)
	case "$exists":
		return query.Exists(f.Key, f.Value)
	}
	panic("unknown filter op " + f.Op)
}

func (f *Filter) String() string {
	switch f.Op {
	case "and", "or":
		parts := make([]string, len(f.Items))
		for i, it := range f.Items {
			parts[i] = it.String()
		}
		return "(" + strings.Join(parts, " "+f.Op+" ") + ")"
	case "not":
		return "not " + f.Items[0].String()
	}
	return fmt.Sprintf("%s{%s:%v}", f.Op, f.Key, f.Value)
}

func (f *Filter) features(out map[string]bool) {
	switch f.Op {
	case "and", "or", "not":
		out[f.Op] = true
		for _, it := range f.Items {
			it.features(out)
		}
		return
	case "$in":
		out["in"] = true
	}
	if s, ok := f.Value.(string); ok && (f.Key == "address" || f.Key == "account" || f.Key == "source" || f.Key == "destination") {
		if strings.Contains(s, "...") || strings.HasSuffix(s, ":") || strings.Contains(s, "::") || strings.HasPrefix(s, ":") {
			out["partial-address"] = true
		}
	}
	if strings.HasPrefix(f.Key, "balance") {
		out["balance"] = true
	}
	if strings.HasPrefix(f.Key, "metadata") {
		out["metadata"] = true
	}
}

// Entity is what a filter leaf is evaluated against.
type Entity struct {
	// common
	Address  string
	Metadata map[string]string
	Dates    map[string]*time.Time // timestamp, inserted_at, updated_at, reverted_at, first_usage, insertion_date, date
	// transactions
	ID           *big.Int
	Reference    string
	Reverted     bool
	Sources      []string
	Destinations []string
	// accounts / volumes
	Balances map[string]*big.Int // per asset (accounts); single asset for a volumes row
	Asset    string
	Balance  *big.Int
	// logs
	Type string
}

func cmpOp(op string, c int) bool {
	switch op {
	case "$match":
		return c == 0
	case "$lt":
		return c < 0
	case "$lte":
		return c <= 0
	case "$gt":
		return c > 0
	case "$gte":
		return c >= 0
	}
	return false
}

func likeRef(s, pattern string) bool {
	// only patterns of the form "x%" / "%x" / "%x%" / exact are generated
	switch {
	case strings.HasPrefix(pattern, "%") && strings.HasSuffix(pattern, "%") && len(pattern) >= 2:
		return strings.Contains(s, pattern[1:len(pattern)-1])
	case strings.HasSuffix(pattern, "%"):
		return strings.HasPrefix(s, pattern[:len(pattern)-1])
	case strings.HasPrefix(pattern, "%"):
		return strings.HasSuffix(s, pattern[1:])
	}
	return s == pattern
}

// Eval is the reference evaluation of a filter under its documented meaning.
// SQL three-valued logic only matters for dates that may be absent (reverted_at):
// a comparison with an absent date is unknown, and unknown under NOT stays unknown (row not selected).
func (f *Filter) Eval(e *Entity) (result bool, known bool) {
	switch f.Op {
	case "and":
		res, kn := true, true
		for _, it := range f.Items {
			r, k := it.Eval(e)
			if k && !r {
				return false, true
			}
			if !k {
				kn = false
			}
			res = res && r
		}
		return res && kn, kn
	case "or":
		kn := true
		for _, it := range f.Items {
			r, k := it.Eval(e)
			if k && r {
				return true, true
			}
			if !k {
				kn = false
			}
		}
		return false, kn
	case "not":
		r, k := f.Items[0].Eval(e)
		if !k {
			return false, false
		}
		return !r, true
	}
	key := f.Key
	switch {
	case key == "id":
		return cmpOp(f.Op, e.ID.Cmp(big.NewInt(int64(f.Value.(int))))), true
	case key == "reference":
		if e.Reference == "" {
			return false, false // stored as NULL
		}
		switch f.Op {
		case "$in":
			for _, v := range f.Value.([]any) {
				if v.(string) == e.Reference {
					return true, true
				}
			}
			return false, true
		case "$like":
			return likeRef(e.Reference, f.Value.(string)), true
		}
		return e.Reference == f.Value.(string), true
	case key == "type":
		return e.Type == f.Value.(string), true
	case key == "reverted":
		return e.Reverted == f.Value.(bool), true
	case key == "account" && e.Sources != nil, key == "source", key == "destination":
		var pool []string
		if key != "destination" {
			pool = append(pool, e.Sources...)
		}
		if key != "source" {
			pool = append(pool, e.Destinations...)
		}
		if f.Op == "$in" {
			for _, v := range f.Value.([]any) {
				for _, a := range pool {
					if a == v.(string) {
						return true, true
					}
				}
			}
			return false, true
		}
		for _, a := range pool {
			if refmodel.MatchAddress(f.Value.(string), a) {
				return true, true
			}
		}
		return false, true
	case key == "address" || key == "account":
		if f.Op == "$in" {
			for _, v := range f.Value.([]any) {
				if v.(string) == e.Address {
					return true, true
				}
			}
			return false, true
		}
		return refmodel.MatchAddress(f.Value.(string), e.Address), true
	case key == "metadata":
		_, ok := e.Metadata[f.Value.(string)]
		return ok, true
	case strings.HasPrefix(key, "metadata["):
		k := key[len("metadata[") : len(key)-1]
		v, ok := e.Metadata[k]
		return ok && v == f.Value.(string), true
	case strings.HasPrefix(key, "balance["):
		asset := key[len("balance[") : len(key)-1]
		want := big.NewInt(int64(f.Value.(int)))
		if e.Balance != nil { // volumes row: the row's own asset must match
			return e.Asset == asset && cmpOp(f.Op, e.Balance.Cmp(want)), true
		}
		b, ok := e.Balances[asset]
		if !ok {
			return false, false // no volumes row for that asset: the scalar subquery is NULL
		}
		return cmpOp(f.Op, b.Cmp(want)), true
	case key == "balance":
		want := big.NewInt(int64(f.Value.(int)))
		return cmpOp(f.Op, e.Balance.Cmp(want)), true
	default:
		if d, ok := e.Dates[key]; ok {
			if d == nil {
				return false, false
			}
			want, err := time.Parse(time.RFC3339Nano, f.Value.(string))
			if err != nil {
				panic(err)
			}
			c := 0
			if d.Before(want) {
				c = -1
			} else if d.After(want) {
				c = 1
			}
			return cmpOp(f.Op, c), true
		}
	}
	panic("filter key not modelled: " + key)
}

// Select applies the filter with SQL semantics: rows whose evaluation is true (unknown = not selected).
func (f *Filter) Select(e *Entity) bool {
	if f == nil {
		return true
	}
	r, k := f.Eval(e)
	return r && k
}

// Eval2 is the two-valued reading: a leaf about an attribute the entity does not
// have (no reference, not reverted, no volumes row for the asset) is simply
// false, and its negation true.
func (f *Filter) Eval2(e *Entity) bool {
	switch f.Op {
	case "and":
		for _, it := range f.Items {
			if !it.Eval2(e) {
				return false
			}
		}
		return true
	case "or":
		for _, it := range f.Items {
			if it.Eval2(e) {
				return true
			}
		}
		return false
	case "not":
		return !f.Items[0].Eval2(e)
	}
	r, k := f.Eval(e)
	return r && k
}

// Decide classifies an entity: definitely selected, definitely not, or — when
// the SQL (three-valued) and the two-valued readings differ, which only happens
// for an absent attribute under a negation (known finding C20-null-under-not) — undecided.
func (f *Filter) Decide(e *Entity, findingOpen bool) (selected, undecided bool) {
	a, b := f.Select(e), f.Eval2(e)
	if a == b {
		return a, false
	}
	if findingOpen {
		return false, true
	}
	return b, false
}

// ------------------------------------------------------------- generation

type filterGen struct {
	t        *rapid.T
	resource string // transactions | accounts | volumes | aggregated | logs
	dates    []time.Time
	maxID    int
	addrs    []string    // addresses present in the ledger
	metaKV   [][2]string // metadata key/values present in the ledger (on the resource's entities)
}

// derivedPattern turns an existing address into an exact, wildcarded or prefix pattern.
func (g *filterGen) derivedPattern() string {
	addr := rapid.SampledFrom(g.addrs).Draw(g.t, "existingAddr")
	parts := strings.Split(addr, ":")
	switch rapid.IntRange(0, 3).Draw(g.t, "patternKind") {
	case 0:
		return addr
	case 1:
		parts[rapid.IntRange(0, len(parts)-1).Draw(g.t, "wildSeg")] = ""
		if len(parts) == 1 {
			return addr
		}
		return strings.Join(parts, ":")
	case 2:
		n := rapid.IntRange(1, len(parts)).Draw(g.t, "prefixLen")
		return strings.Join(parts[:n], ":") + ":..."
	}
	return strings.Join(parts[:len(parts)-1], ":") + ":"
}

var addressPatterns = []string{"a", "a:b", "a:b:c", "world", "bank", "u:1", "u:2", "x_y-z:0", "a:", "a::", "a:...", "a:b:...", "u:", ":b", "::c", ":", "u:...", "...", ":1", "a:b:", "zzz", "zzz:..."}

func (g *filterGen) date() string {
	base := time.Date(2024, 1, 1, 0, 0, 0, 0, time.UTC)
	if len(g.dates) > 0 {
		base = g.dates[rapid.IntRange(0, len(g.dates)-1).Draw(g.t, "dateBase")]
	}
	switch rapid.IntRange(0, 3).Draw(g.t, "dateShift") {
	case 0:
		base = base.Add(-time.Microsecond)
	case 1:
		base = base.Add(time.Microsecond)
	case 2:
		base = base.Add(time.Duration(rapid.IntRange(-2000, 2000).Draw(g.t, "dateMinutes")) * time.Minute)
	}
	return base.UTC().Format(time.RFC3339Nano)
}

func (g *filterGen) cmp() string {
	return rapid.SampledFrom([]string{"$match", "$lt", "$lte", "$gt", "$gte"}).Draw(g.t, "cmp")
}

func (g *filterGen) addressLeaf(key string) *Filter {
	if rapid.IntRange(0, 5).Draw(g.t, "addrIn") == 0 {
		n := rapid.IntRange(1, 3).Draw(g.t, "inN")
		vals := make([]any, n)
		for i := range vals {
			vals[i] = gen.Account().Draw(g.t, "inAddr")
		}
		return &Filter{Op: "$in", Key: key, Value: vals}
	}
	if len(g.addrs) > 0 && rapid.IntRange(0, 3).Draw(g.t, "derived") != 0 {
		return &Filter{Op: "$match", Key: key, Value: g.derivedPattern()}
	}
	return &Filter{Op: "$match", Key: key, Value: rapid.SampledFrom(addressPatterns).Draw(g.t, "addrPattern")}
}

func (g *filterGen) metadataLeaf() *Filter {
	if len(g.metaKV) > 0 && rapid.IntRange(0, 3).Draw(g.t, "existingMeta") != 0 {
		kv := g.metaKV[rapid.IntRange(0, len(g.metaKV)-1).Draw(g.t, "metaIdx")]
		if rapid.IntRange(0, 2).Draw(g.t, "metaExists") == 0 {
			return &Filter{Op: "$exists", Key: "metadata", Value: kv[0]}
		}
		return &Filter{Op: "$match", Key: "metadata[" + kv[0] + "]", Value: kv[1]}
	}
	k := rapid.SampledFrom(append([]string{"owner", "k1", "k2", "role"}, metaKeys...)).Draw(g.t, "metaKey")
	if rapid.Bool().Draw(g.t, "metaExists") {
		return &Filter{Op: "$exists", Key: "metadata", Value: k}
	}
	return &Filter{Op: "$match", Key: "metadata[" + k + "]", Value: gen.FreeText().Draw(g.t, "metaVal")}
}

func (g *filterGen) leaf() *Filter {
	switch g.resource {
	case "transactions":
		switch rapid.IntRange(0, 8).Draw(g.t, "txLeaf") {
		case 0:
			return &Filter{Op: g.cmp(), Key: "id", Value: rapid.IntRange(0, g.maxID+1).Draw(g.t, "idVal")}
		case 1:
			switch rapid.IntRange(0, 2).Draw(g.t, "refOp") {
			case 0:
				return &Filter{Op: "$in", Key: "reference", Value: []any{rapid.SampledFrom(refPool).Draw(g.t, "ref1"), rapid.SampledFrom(refPool).Draw(g.t, "ref2")}}
			case 1:
				return &Filter{Op: "$like", Key: "reference", Value: rapid.SampledFrom([]string{"r%", "%1", "%e%", "r1", "%"}).Draw(g.t, "refLike")}
			}
			return &Filter{Op: "$match", Key: "reference", Value: rapid.SampledFrom(refPool).Draw(g.t, "ref")}
		case 2:
			return &Filter{Op: g.cmp(), Key: rapid.SampledFrom([]string{"timestamp", "inserted_at", "updated_at", "reverted_at"}).Draw(g.t, "dateKey"), Value: g.date()}
		case 3:
			return &Filter{Op: "$match", Key: "reverted", Value: rapid.Bool().Draw(g.t, "reverted")}
		case 4, 5:
			return g.addressLeaf(rapid.SampledFrom([]string{"account", "source", "destination"}).Draw(g.t, "addrKey"))
		default:
			return g.metadataLeaf()
		}
	case "accounts":
		switch rapid.IntRange(0, 5).Draw(g.t, "accLeaf") {
		case 0, 1:
			return g.addressLeaf("address")
		case 2:
			return &Filter{Op: g.cmp(), Key: rapid.SampledFrom([]string{"first_usage", "insertion_date"}).Draw(g.t, "dateKey"), Value: g.date()}
		case 3:
			return &Filter{Op: g.cmp(), Key: "balance[" + gen.Asset().Draw(g.t, "balAsset") + "]", Value: rapid.IntRange(-50, 300).Draw(g.t, "balVal")}
		default:
			return g.metadataLeaf()
		}
	case "volumes":
		switch rapid.IntRange(0, 5).Draw(g.t, "volLeaf") {
		case 0, 1:
			return g.addressLeaf(rapid.SampledFrom([]string{"address", "account"}).Draw(g.t, "addrKey"))
		case 2:
			return &Filter{Op: g.cmp(), Key: "first_usage", Value: g.date()}
		case 3:
			if rapid.Bool().Draw(g.t, "balWithAsset") {
				return &Filter{Op: g.cmp(), Key: "balance[" + gen.Asset().Draw(g.t, "balAsset") + "]", Value: rapid.IntRange(-50, 300).Draw(g.t, "balVal")}
			}
			return &Filter{Op: g.cmp(), Key: "balance", Value: rapid.IntRange(-50, 300).Draw(g.t, "balVal")}
		default:
			return g.metadataLeaf()
		}
	case "aggregated":
		if rapid.IntRange(0, 2).Draw(g.t, "aggLeaf") == 0 {
			return g.metadataLeaf()
		}
		return g.addressLeaf("address")
	case "logs":
		switch rapid.IntRange(0, 2).Draw(g.t, "logLeaf") {
		case 0:
			return &Filter{Op: g.cmp(), Key: "id", Value: rapid.IntRange(0, g.maxID+1).Draw(g.t, "idVal")}
		case 1:
			return &Filter{Op: g.cmp(), Key: "date", Value: g.date()}
		}
		return &Filter{Op: "$match", Key: "type", Value: rapid.SampledFrom([]string{"NEW_TRANSACTION", "REVERTED_TRANSACTION", "SET_METADATA", "DELETE_METADATA"}).Draw(g.t, "logType")}
	}
	panic("unknown resource")
}

func (g *filterGen) gen(depth int) *Filter {
	if depth <= 0 || rapid.IntRange(0, 2).Draw(g.t, "leaf") == 0 {
		return g.leaf()
	}
	switch rapid.IntRange(0, 3).Draw(g.t, "node") {
	case 0:
		return &Filter{Op: "not", Items: []*Filter{g.gen(depth - 1)}}
	case 1:
		n := rapid.IntRange(1, 3).Draw(g.t, "orN")
		f := &Filter{Op: "or"}
		for i := 0; i < n; i++ {
			f.Items = append(f.Items, g.gen(depth-1))
		}
		return f
	default:
		n := rapid.IntRange(1, 3).Draw(g.t, "andN")
		f := &Filter{Op: "and"}
		for i := 0; i < n; i++ {
			f.Items = append(f.Items, g.gen(depth-1))
		}
		return f
	}
}

// GenFilter draws a filter of depth <= 4 for the resource, with date and id values taken around the ledger's own.
func GenFilter(t *rapid.T, resource string, l *LState) *Filter {
	g := &filterGen{t: t, resource: resource}
	g.addrs = l.M.SortedAccounts()
	if resource == "transactions" {
		for _, tx := range l.M.Txs {
			for _, k := range sortedKeys(tx.Metadata) {
				g.metaKV = append(g.metaKV, [2]string{k, tx.Metadata[k]})
			}
		}
	} else {
		for _, a := range g.addrs {
			for _, k := range sortedKeys(l.M.Accounts[a].Metadata) {
				g.metaKV = append(g.metaKV, [2]string{k, l.M.Accounts[a].Metadata[k]})
			}
		}
	}
	for _, tx := range l.M.Txs {
		g.dates = append(g.dates, tx.Timestamp, tx.InsertedAt)
		if tx.RevertedAt != nil {
			g.dates = append(g.dates, *tx.RevertedAt)
		}
		if int(tx.ID) > g.maxID {
			g.maxID = int(tx.ID)
		}
	}
	for _, lg := range l.M.Logs {
		g.dates = append(g.dates, lg.Date)
		if int(lg.ID) > g.maxID {
			g.maxID = int(lg.ID)
		}
	}
	return g.gen(rapid.IntRange(0, 4).Draw(t, "depth"))
}

// ------------------------------------------------------ reference entities

func ptrTime(t time.Time) *time.Time { return &t }

func txEntity(tx *refmodel.Tx, pit *time.Time, history bool) *Entity {
	_, reverted, meta := txAt(tx, pit, history)
	e := &Entity{ID: new(big.Int).SetUint64(tx.ID), Reference: tx.Reference, Reverted: reverted, Metadata: meta, Sources: []string{}, Destinations: []string{},
		Dates: map[string]*time.Time{"timestamp": ptrTime(tx.Timestamp), "inserted_at": ptrTime(tx.InsertedAt), "updated_at": ptrTime(tx.UpdatedAt), "reverted_at": nil}}
	if reverted {
		e.Dates["reverted_at"] = tx.RevertedAt
	}
	for _, p := range tx.Postings {
		e.Sources = append(e.Sources, p.Source)
		e.Destinations = append(e.Destinations, p.Destination)
	}
	return e
}

func accountEntity(a *refmodel.Account, vols refmodel.Volumes) *Entity {
	e := &Entity{Address: a.Address, Metadata: a.Metadata, Balances: map[string]*big.Int{},
		Dates: map[string]*time.Time{"first_usage": ptrTime(a.FirstUsage), "insertion_date": ptrTime(a.InsertionDate)}}
	for asset, v := range vols[a.Address] {
		e.Balances[asset] = v.Balance()
	}
	return e
}

func sortedStrings(m map[string]bool) []string {
	out := make([]string, 0, len(m))
	for k := range m {
		out = append(out, k)
	}
	sort.Strings(out)
	return out
}

func bigOf(v uint64) *big.Int { return new(big.Int).SetUint64(v) }
