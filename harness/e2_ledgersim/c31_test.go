package e2

import (
	"context"
	"encoding/json"
	"errors"
	"fmt"
	"math/big"
	"reflect"
	"sort"
	"strings"
	"sync"
	"testing"
	"time"

	"github.com/ThreeDotsLabs/watermill/message"
	"github.com/jackc/pgx/v5/pgconn"
	"pgregory.net/rapid"

	"github.com/formancehq/go-libs/v5/pkg/types/metadata"

	ledger "github.com/formancehq/ledger/internal"
	"github.com/formancehq/ledger/internal/api/bulking"
	"github.com/formancehq/ledger/internal/bus"
	ledgercontroller "github.com/formancehq/ledger/internal/controller/ledger"
	"github.com/formancehq/ledger/pkg/events"
	"github.com/formancehq/ledger/pkg/features"
	"github.com/formancehq/ledger/verifharness/env"
	"github.com/formancehq/ledger/verifharness/gen"
	"github.com/formancehq/ledger/verifharness/pgsim"
	"github.com/formancehq/ledger/verifharness/stats"
)

// ---------------------------------------------------------------- recording listener

// recEvent is one call received by the Listener, stamped with what was durable at that moment.
type recEvent struct {
	Kind   string // log type the event describes
	Ledger string
	Key    string // transaction id / target the event names
	// CommittedLogs is the number of committed logs of the ledger when the event arrived;
	// Durable says whether the row the event names was committed at that moment.
	CommittedLogs int
	Durable       bool
	OpenTx        bool // the emitting request still had an open, uncommitted SQL transaction
	Seq           int64
	// what the real bus.LedgerListener handed to the message publisher for this call
	Topic   string
	Message map[string]any
}

// recPublisher is the message.Publisher behind the real bus.LedgerListener: it keeps the last message.
type recPublisher struct {
	topic   string
	payload []byte
	n       int
}

func (p *recPublisher) Publish(topic string, msgs ...*message.Message) error {
	for _, m := range msgs {
		p.topic, p.payload = topic, append([]byte(nil), m.Payload...)
		p.n++
	}
	return nil
}
func (p *recPublisher) Close() error { return nil }

type recListener struct {
	mu     sync.Mutex
	sim    *pgsim.DB
	bucket map[string]string // ledger -> bucket
	events []recEvent
	openTx func() bool
	pub    *recPublisher
	bus    *bus.LedgerListener
}

// through sends the call through the real bus listener and returns what it published.
func (r *recListener) through(call func(l *bus.LedgerListener)) (string, map[string]any) {
	if r.bus == nil {
		r.pub = &recPublisher{}
		r.bus = bus.NewLedgerListener(r.pub)
	}
	before := r.pub.n
	call(r.bus)
	if r.pub.n != before+1 {
		return fmt.Sprintf("(%d messages published)", r.pub.n-before), nil
	}
	doc, ok := decodeJSON(r.pub.payload)
	if !ok {
		return r.pub.topic, map[string]any{"undecodable": string(r.pub.payload)}
	}
	m, _ := doc.(map[string]any)
	return r.pub.topic, m
}

func (r *recListener) committedLogs(ledgerName string) []map[string]pgsim.Value {
	var out []map[string]pgsim.Value
	for _, row := range r.sim.Rows(r.bucket[ledgerName], "logs") {
		if row["ledger"].S == ledgerName {
			out = append(out, row)
		}
	}
	return out
}

func (r *recListener) txCommitted(ledgerName string, id uint64, needReverted bool) bool {
	for _, row := range r.sim.Rows(r.bucket[ledgerName], "transactions") {
		if row["ledger"].S == ledgerName && row["id"].N != nil && row["id"].N.Uint64() == id {
			return !needReverted || !row["reverted_at"].IsNull()
		}
	}
	return false
}

func (r *recListener) add(kind, ledgerName, key string, durable bool, call func(l *bus.LedgerListener)) {
	topic, msg := r.through(call)
	n := len(r.committedLogs(ledgerName))
	open := false
	if r.openTx != nil {
		open = r.openTx()
	}
	r.mu.Lock()
	defer r.mu.Unlock()
	r.events = append(r.events, recEvent{Kind: kind, Ledger: ledgerName, Key: key, CommittedLogs: n, Durable: durable, OpenTx: open, Seq: r.sim.CommitSeq(), Topic: topic, Message: msg})
}

func (r *recListener) CommittedTransactions(ctx context.Context, l string, tx ledger.Transaction, am ledger.AccountMetadata) {
	id := uint64(0)
	if tx.ID != nil {
		id = *tx.ID
	}
	r.add("NEW_TRANSACTION", l, fmt.Sprint(id), r.txCommitted(l, id, false), func(b *bus.LedgerListener) { b.CommittedTransactions(ctx, l, tx, am) })
}
func (r *recListener) SavedMetadata(ctx context.Context, l string, targetType, id string, md metadata.Metadata) {
	r.add("SET_METADATA", l, targetType+":"+id, true, func(b *bus.LedgerListener) { b.SavedMetadata(ctx, l, targetType, id, md) })
}
func (r *recListener) RevertedTransaction(ctx context.Context, l string, reverted, revert ledger.Transaction) {
	rid, oid := uint64(0), uint64(0)
	if revert.ID != nil {
		rid = *revert.ID
	}
	if reverted.ID != nil {
		oid = *reverted.ID
	}
	r.add("REVERTED_TRANSACTION", l, fmt.Sprint(rid), r.txCommitted(l, rid, false) && r.txCommitted(l, oid, true), func(b *bus.LedgerListener) { b.RevertedTransaction(ctx, l, reverted, revert) })
}
func (r *recListener) DeletedMetadata(ctx context.Context, l string, targetType string, targetID any, key string) {
	r.add("DELETE_METADATA", l, fmt.Sprintf("%s:%v:%s", targetType, targetID, key), true, func(b *bus.LedgerListener) { b.DeletedMetadata(ctx, l, targetType, targetID, key) })
}
func (r *recListener) InsertedSchema(ctx context.Context, l string, s ledger.Schema) {
	durable := false
	for _, row := range r.sim.Rows(r.bucket[l], "schemas") {
		if row["ledger"].S == l && row["version"].S == s.Version {
			durable = true
		}
	}
	r.add("INSERTED_SCHEMA", l, s.Version, durable, func(b *bus.LedgerListener) { b.InsertedSchema(ctx, l, s) })
}

func (r *recListener) count(ledgerName string) int {
	r.mu.Lock()
	defer r.mu.Unlock()
	n := 0
	for _, e := range r.events {
		if e.Ledger == ledgerName {
			n++
		}
	}
	return n
}

// ---------------------------------------------------------------- fault injection

var errInjected = errors.New("verif: injected database failure")

type faultPlan struct {
	Kind string // "", "stmt-before", "stmt-after", "commit", "deadlock", "refused"
	At   int    // 1-based position among the statements / commits of the operation
}

func (f faultPlan) String() string {
	if f.Kind == "" {
		return "no fault"
	}
	return fmt.Sprintf("%s#%d", f.Kind, f.At)
}

// counters of what an operation executed (used to enumerate fault positions)
type opTrace struct {
	Stmts, Commits int
	Fired          bool
}

// withFault runs op with the plan armed on the stand-in's statement hooks.
func withFault(sim *pgsim.DB, plan faultPlan, op func()) opTrace {
	var tr opTrace
	var mu sync.Mutex
	isCommit := func(sql string) bool {
		s := strings.ToLower(strings.TrimSpace(sql))
		return s == "commit" || strings.HasPrefix(s, "commit")
	}
	isControl := func(sql string) bool {
		s := strings.ToLower(strings.TrimSpace(sql))
		return isCommit(sql) || strings.HasPrefix(s, "begin") || strings.HasPrefix(s, "rollback") || strings.HasPrefix(s, "savepoint") || strings.HasPrefix(s, "release")
	}
	sim.Hooks.BeforeStatement = func(_ int64, _ bool, sql string) error {
		if isControl(sql) {
			return nil
		}
		mu.Lock()
		defer mu.Unlock()
		tr.Stmts++
		if plan.Kind == "stmt-before" && tr.Stmts == plan.At {
			tr.Fired = true
			return errInjected
		}
		if plan.Kind == "refused" && tr.Stmts == plan.At && !tr.Fired {
			// the database has no connection slot left for this statement: the service retries the whole request
			tr.Fired = true
			return &pgconn.PgError{Severity: "FATAL", Code: "53300", Message: "sorry, too many clients already"}
		}
		if plan.Kind == "deadlock" && tr.Stmts == plan.At && !tr.Fired {
			// the statement is chosen as the victim of a deadlock: a retryable failure
			tr.Fired = true
			return &pgconn.PgError{Severity: "ERROR", Code: "40P01", Message: "deadlock detected"}
		}
		return nil
	}
	sim.Hooks.AfterStatement = func(_ int64, _ bool, sql string) error {
		if isControl(sql) {
			return nil
		}
		mu.Lock()
		defer mu.Unlock()
		if plan.Kind == "stmt-after" && tr.Stmts == plan.At && !tr.Fired {
			tr.Fired = true
			return errInjected
		}
		return nil
	}
	sim.Hooks.BeforeCommit = func(int64) error {
		mu.Lock()
		defer mu.Unlock()
		tr.Commits++
		if plan.Kind == "commit" && tr.Commits == plan.At {
			tr.Fired = true
			return errInjected
		}
		return nil
	}
	defer func() { sim.Hooks = pgsim.Hooks{} }()
	op()
	return tr
}

// ---------------------------------------------------------------- generated writes

// evOp is one generated write of the events / bulk checks.
type evOp struct {
	Kind    string // create, revert, saveTxMeta, deleteTxMeta, saveAccMeta, deleteAccMeta, insertSchema
	Post    ledger.Postings
	Script  string // create only: a Numscript program instead of postings (it may set transaction metadata itself)
	MetaNil bool   // create by script only: the request carries no metadata object at all
	Ref     string
	TxID    uint64
	Force   bool
	Addr    string
	Key     string
	Meta    map[string]string
	AccMeta map[string]map[string]string // create only: metadata set on accounts by the transaction
	IK      string
	DryRun  bool
	Version string
	// revert only
	NilMeta         bool
	AtEffectiveDate bool
}

func (o evOp) String() string {
	var s string
	switch o.Kind {
	case "create":
		s = "create[" + postingsStr(o.Post) + "]"
		if o.Script != "" {
			s = fmt.Sprintf("create script %q metadata=%v", o.Script, o.Meta)
			if o.MetaNil {
				s = fmt.Sprintf("create script %q metadata=nil", o.Script)
			}
		}
		if o.Ref != "" {
			s += " ref=" + o.Ref
		}
		if len(o.AccMeta) > 0 {
			b, _ := json.Marshal(o.AccMeta)
			s += " accountMetadata=" + string(b)
		}
	case "revert":
		s = fmt.Sprintf("revert %d force=%v", o.TxID, o.Force)
		if o.AtEffectiveDate {
			s += " atEffectiveDate"
		}
		if o.NilMeta {
			s += " meta=nil"
		} else {
			s += fmt.Sprintf(" meta=%v", o.Meta)
		}
	case "saveTxMeta":
		s = fmt.Sprintf("saveTxMeta %d %v", o.TxID, o.Meta)
	case "deleteTxMeta":
		s = fmt.Sprintf("deleteTxMeta %d %q", o.TxID, o.Key)
	case "saveAccMeta":
		s = fmt.Sprintf("saveAccMeta %s %v", o.Addr, o.Meta)
	case "deleteAccMeta":
		s = fmt.Sprintf("deleteAccMeta %s %q", o.Addr, o.Key)
	case "insertSchema":
		s = "insertSchema " + o.Version
	}
	if o.IK != "" {
		s += " ik=" + o.IK
	}
	if o.DryRun {
		s += " dryRun"
	}
	return s
}

func (o evOp) accMeta() map[string]metadata.Metadata {
	if len(o.AccMeta) == 0 {
		return nil
	}
	out := map[string]metadata.Metadata{}
	for a, m := range o.AccMeta {
		out[a] = toMD(m)
	}
	return out
}

func toMD(m map[string]string) metadata.Metadata {
	md := metadata.Metadata{}
	for k, v := range m {
		md[k] = v
	}
	return md
}

// run executes the write on a controller; it returns the log (nil on error / for nothing) and the error.
func (o evOp) run(ctx context.Context, c ledgercontroller.Controller) (log *ledger.Log, hit bool, err error) {
	switch o.Kind {
	case "create":
		run := ledgercontroller.TxToScriptData(ledger.TransactionData{Postings: o.Post, Metadata: toMD(o.Meta), Reference: o.Ref}, o.Force)
		if o.Script != "" {
			run = ledgercontroller.RunScript{Script: ledgercontroller.Script{Plain: o.Script, Vars: map[string]string{}}, Metadata: toMD(o.Meta), Reference: o.Ref}
			if o.MetaNil {
				run.Metadata = nil
			}
		}
		log, _, hit, err = c.CreateTransaction(ctx, ledgercontroller.Parameters[ledgercontroller.CreateTransaction]{DryRun: o.DryRun, IdempotencyKey: o.IK,
			Input: ledgercontroller.CreateTransaction{RunScript: run, AccountMetadata: o.accMeta()}})
	case "revert":
		md := toMD(o.Meta)
		if o.NilMeta {
			md = nil
		}
		log, _, hit, err = c.RevertTransaction(ctx, ledgercontroller.Parameters[ledgercontroller.RevertTransaction]{DryRun: o.DryRun, IdempotencyKey: o.IK,
			Input: ledgercontroller.RevertTransaction{TransactionID: o.TxID, Force: o.Force, AtEffectiveDate: o.AtEffectiveDate, Metadata: md}})
	case "saveTxMeta":
		log, hit, err = c.SaveTransactionMetadata(ctx, ledgercontroller.Parameters[ledgercontroller.SaveTransactionMetadata]{DryRun: o.DryRun, IdempotencyKey: o.IK,
			Input: ledgercontroller.SaveTransactionMetadata{TransactionID: o.TxID, Metadata: toMD(o.Meta)}})
	case "deleteTxMeta":
		log, hit, err = c.DeleteTransactionMetadata(ctx, ledgercontroller.Parameters[ledgercontroller.DeleteTransactionMetadata]{DryRun: o.DryRun, IdempotencyKey: o.IK,
			Input: ledgercontroller.DeleteTransactionMetadata{TransactionID: o.TxID, Key: o.Key}})
	case "saveAccMeta":
		log, hit, err = c.SaveAccountMetadata(ctx, ledgercontroller.Parameters[ledgercontroller.SaveAccountMetadata]{DryRun: o.DryRun, IdempotencyKey: o.IK,
			Input: ledgercontroller.SaveAccountMetadata{Address: o.Addr, Metadata: toMD(o.Meta)}})
	case "deleteAccMeta":
		log, hit, err = c.DeleteAccountMetadata(ctx, ledgercontroller.Parameters[ledgercontroller.DeleteAccountMetadata]{DryRun: o.DryRun, IdempotencyKey: o.IK,
			Input: ledgercontroller.DeleteAccountMetadata{Address: o.Addr, Key: o.Key}})
	case "insertSchema":
		var chart ledger.ChartOfAccounts
		_ = json.Unmarshal([]byte(`{"world":{},"bank":{},"a":{"$x":{".self":{},"$y":{}}},"u":{"$id":{}},"_":{},"-":{}}`), &chart)
		log, _, hit, err = c.InsertSchema(ctx, ledgercontroller.Parameters[ledgercontroller.InsertSchema]{DryRun: o.DryRun, IdempotencyKey: o.IK,
			Input: ledgercontroller.InsertSchema{Version: o.Version, Data: ledger.SchemaData{Chart: chart}}})
	}
	return
}

// element renders the write as a bulk element (kinds a bulk cannot carry return false).
func (o evOp) element() (bulking.BulkElement, bool) {
	raw := func(v any) json.RawMessage { b, _ := json.Marshal(v); return b }
	switch o.Kind {
	case "create":
		return bulking.BulkElement{Action: bulking.ActionCreateTransaction, IdempotencyKey: o.IK,
			Data: bulking.TransactionRequest{Postings: o.Post, Reference: o.Ref, Metadata: toMD(o.Meta), AccountMetadata: o.accMeta(), Force: o.Force}}, true
	case "revert":
		return bulking.BulkElement{Action: bulking.ActionRevertTransaction, IdempotencyKey: o.IK,
			Data: bulking.RevertTransactionRequest{ID: o.TxID, Force: o.Force, AtEffectiveDate: o.AtEffectiveDate, Metadata: metadata.Metadata{}}}, true
	case "saveTxMeta":
		return bulking.BulkElement{Action: bulking.ActionAddMetadata, IdempotencyKey: o.IK,
			Data: bulking.AddMetadataRequest{TargetType: ledger.MetaTargetTypeTransaction, TargetID: raw(o.TxID), Metadata: toMD(o.Meta)}}, true
	case "deleteTxMeta":
		return bulking.BulkElement{Action: bulking.ActionDeleteMetadata, IdempotencyKey: o.IK,
			Data: bulking.DeleteMetadataRequest{TargetType: ledger.MetaTargetTypeTransaction, TargetID: raw(o.TxID), Key: o.Key}}, true
	case "saveAccMeta":
		return bulking.BulkElement{Action: bulking.ActionAddMetadata, IdempotencyKey: o.IK,
			Data: bulking.AddMetadataRequest{TargetType: ledger.MetaTargetTypeAccount, TargetID: raw(o.Addr), Metadata: toMD(o.Meta)}}, true
	case "deleteAccMeta":
		return bulking.BulkElement{Action: bulking.ActionDeleteMetadata, IdempotencyKey: o.IK,
			Data: bulking.DeleteMetadataRequest{TargetType: ledger.MetaTargetTypeAccount, TargetID: raw(o.Addr), Key: o.Key}}, true
	}
	return bulking.BulkElement{}, false
}

// committedTxIDs lists the committed transaction ids of a ledger, from the tables.
func committedTxIDs(sim *pgsim.DB, bucket, ledgerName string) []uint64 {
	var ids []uint64
	for _, row := range sim.Rows(bucket, "transactions") {
		if row["ledger"].S == ledgerName && row["id"].N != nil {
			ids = append(ids, row["id"].N.Uint64())
		}
	}
	sort.Slice(ids, func(i, j int) bool { return ids[i] < ids[j] })
	return ids
}

var evAccounts = []string{"bank", "a:b", "u:1", "u:2"}

func genEvOp(t *rapid.T, sim *pgsim.DB, bucket, ledgerName string, allowSchema, allowDry bool) evOp {
	ids := committedTxIDs(sim, bucket, ledgerName)
	pickTx := func() uint64 {
		if len(ids) == 0 || rapid.IntRange(0, 7).Draw(t, "unknownTx") == 0 {
			return uint64(rapid.IntRange(1, 30).Draw(t, "txID"))
		}
		return ids[rapid.IntRange(0, len(ids)-1).Draw(t, "txIdx")]
	}
	kinds := []string{"create", "create", "create", "revert", "saveTxMeta", "deleteTxMeta", "saveAccMeta", "deleteAccMeta"}
	if allowSchema {
		kinds = append(kinds, "insertSchema")
	}
	o := evOp{Kind: rapid.SampledFrom(kinds).Draw(t, "opKind")}
	switch o.Kind {
	case "create":
		n := rapid.IntRange(1, 3).Draw(t, "nPostings")
		for i := 0; i < n; i++ {
			src := "world"
			if rapid.IntRange(0, 2).Draw(t, "fromAccount") == 0 {
				src = rapid.SampledFrom(evAccounts).Draw(t, "src")
			}
			o.Post = append(o.Post, ledger.NewPosting(src, rapid.SampledFrom(evAccounts).Draw(t, "dst"), gen.Asset().Draw(t, "asset"), big.NewInt(int64(rapid.IntRange(0, 20).Draw(t, "amount")))))
		}
		if rapid.IntRange(0, 3).Draw(t, "withRef") == 0 {
			o.Ref = rapid.SampledFrom(refPool).Draw(t, "ref")
		}
		o.Meta = genMeta(t, "txMeta")
		if rapid.IntRange(0, 2).Draw(t, "withAccountMeta") == 0 {
			o.AccMeta = map[string]map[string]string{rapid.SampledFrom(evAccounts).Draw(t, "metaAccount"): {rapid.SampledFrom(metaKeys).Draw(t, "accKey"): gen.FreeText().Draw(t, "accVal")}}
		}
	case "revert":
		o.TxID = pickTx()
		o.Force = rapid.Bool().Draw(t, "force")
	case "saveTxMeta":
		o.TxID = pickTx()
		o.Meta = map[string]string{rapid.SampledFrom(metaKeys).Draw(t, "key"): gen.FreeText().Draw(t, "val")}
	case "deleteTxMeta":
		o.TxID = pickTx()
		o.Key = rapid.SampledFrom(metaKeys).Draw(t, "key")
	case "saveAccMeta":
		o.Addr = rapid.SampledFrom(evAccounts).Draw(t, "addr")
		o.Meta = map[string]string{rapid.SampledFrom(metaKeys).Draw(t, "key"): gen.FreeText().Draw(t, "val")}
	case "deleteAccMeta":
		o.Addr = rapid.SampledFrom(evAccounts).Draw(t, "addr")
		o.Key = rapid.SampledFrom(metaKeys).Draw(t, "key")
	case "insertSchema":
		o.Version = rapid.SampledFrom([]string{"v1", "v2", "v3"}).Draw(t, "version")
	}
	if rapid.IntRange(0, 3).Draw(t, "withIK") == 0 {
		o.IK = rapid.SampledFrom(ikPool).Draw(t, "ik")
	}
	if allowDry && rapid.IntRange(0, 6).Draw(t, "dry") == 0 {
		o.DryRun = true
	}
	return o
}

// ---------------------------------------------------------------- C31

const ruleC31 = "stateful histories on 1-2 ledgers of one deployment with a recording Listener: every write kind (create, revert, 4 metadata operations, insert schema; failing inputs, dry runs, idempotency keys) issued as a single request, inside an atomic bulk, or inside a non-atomic bulk (with/without continueOnFailure), on a fresh or a re-used controller chain (so first writes on an 'initializing' ledger occur in every mode), with a database failure injected at a drawn SQL statement (before or after its effect) or at a drawn COMMIT of the operation. Oracle, from the stand-in's committed tables only: (a) when an event arrives, the row it names and at least as many logs as events so far are committed and the emitting request holds no open SQL transaction; (b) after every operation the events received equal, one for one by type and target, the logs that became durable during it; (c) every call is passed through the real bus.LedgerListener to a recording message publisher, and the message (topic, type, ledger, transaction id / postings / metadata / reference / timestamp, account metadata, target, key, schema) must describe the committed log it announces; non-trivial = history with >= 1 event-producing commit inside a bulk or first write, >= 1 injected fault that fired and >= 1 failed or dry-run write; distinct = by operation history"

type c31Ledger struct {
	name, bucket string
	c            ledgercontroller.Controller
}

func logKeyOfRow(row map[string]pgsim.Value) (string, string) {
	typ := row["type"].S
	data, _ := row["data"].J.(map[string]any)
	num := func(v any) string {
		switch x := v.(type) {
		case json.Number:
			return x.String()
		case float64:
			return fmt.Sprint(uint64(x))
		case string:
			return x
		}
		return fmt.Sprint(v)
	}
	switch typ {
	case "NEW_TRANSACTION":
		tx, _ := data["transaction"].(map[string]any)
		return typ, num(tx["id"])
	case "REVERTED_TRANSACTION":
		tx, _ := data["transaction"].(map[string]any)
		return typ, num(tx["id"])
	case "SET_METADATA":
		return typ, fmt.Sprintf("%v:%s", data["targetType"], num(data["targetId"]))
	case "DELETE_METADATA":
		return typ, fmt.Sprintf("%v:%s:%v", data["targetType"], num(data["targetId"]), data["key"])
	case "INSERTED_SCHEMA", "UPDATED_SCHEMA":
		s, _ := data["schema"].(map[string]any)
		if s == nil {
			return "INSERTED_SCHEMA", num(data["version"])
		}
		return "INSERTED_SCHEMA", num(s["version"])
	}
	return typ, ""
}

// ---- what the published message says, against the committed log it announces

func jsonNum(v any) string {
	switch x := v.(type) {
	case json.Number:
		return x.String()
	case string:
		return x
	case nil:
		return ""
	}
	return fmt.Sprint(v)
}

func sameInstant(a, b any) bool {
	as, _ := a.(string)
	bs, _ := b.(string)
	ta, err1 := time.Parse(time.RFC3339Nano, as)
	tb, err2 := time.Parse(time.RFC3339Nano, bs)
	return err1 == nil && err2 == nil && ta.Equal(tb)
}

func evMeta(v any) map[string]any {
	m, _ := v.(map[string]any)
	if m == nil {
		return map[string]any{}
	}
	return m
}

// sameTx compares what identifies and makes up a transaction: id, postings, metadata, reference, timestamp.
func sameTx(ev, logged any) string {
	e, _ := ev.(map[string]any)
	l, _ := logged.(map[string]any)
	if e == nil || l == nil {
		return "transaction missing"
	}
	if jsonNum(e["id"]) != jsonNum(l["id"]) {
		return fmt.Sprintf("id %s, committed %s", jsonNum(e["id"]), jsonNum(l["id"]))
	}
	if !reflect.DeepEqual(e["postings"], l["postings"]) {
		return fmt.Sprintf("postings %v, committed %v", e["postings"], l["postings"])
	}
	if !reflect.DeepEqual(evMeta(e["metadata"]), evMeta(l["metadata"])) {
		return fmt.Sprintf("metadata %v, committed %v", e["metadata"], l["metadata"])
	}
	if jsonNum(e["reference"]) != jsonNum(l["reference"]) {
		return fmt.Sprintf("reference %q, committed %q", jsonNum(e["reference"]), jsonNum(l["reference"]))
	}
	if !sameInstant(e["timestamp"], l["timestamp"]) {
		return fmt.Sprintf("timestamp %v, committed %v", e["timestamp"], l["timestamp"])
	}
	return ""
}

// eventDescribes compares the message the real bus listener published with the committed log row it announces.
func eventDescribes(ev recEvent, row map[string]pgsim.Value, ledgerName string) string {
	typ := row["type"].S
	wantTopic := map[string]string{"NEW_TRANSACTION": events.EventTypeCommittedTransactions, "REVERTED_TRANSACTION": events.EventTypeRevertedTransaction,
		"SET_METADATA": events.EventTypeSavedMetadata, "DELETE_METADATA": events.EventTypeDeletedMetadata, "INSERTED_SCHEMA": events.EventTypeInsertedSchema}[typ]
	if ev.Message == nil {
		return "nothing decodable was handed to the publisher: " + ev.Topic
	}
	if ev.Topic != wantTopic || jsonNum(ev.Message["type"]) != wantTopic {
		return fmt.Sprintf("topic %q / type %q, want %q", ev.Topic, jsonNum(ev.Message["type"]), wantTopic)
	}
	p, _ := ev.Message["payload"].(map[string]any)
	if p == nil {
		return "the message has no payload"
	}
	if jsonNum(p["ledger"]) != ledgerName {
		return fmt.Sprintf("ledger %q, want %q", jsonNum(p["ledger"]), ledgerName)
	}
	data, _ := row["data"].J.(map[string]any)
	switch typ {
	case "NEW_TRANSACTION":
		txs, _ := p["transactions"].([]any)
		if len(txs) != 1 {
			return fmt.Sprintf("%d transactions in the message", len(txs))
		}
		if d := sameTx(txs[0], data["transaction"]); d != "" {
			return "transaction: " + d
		}
		if !reflect.DeepEqual(evMeta(p["accountMetadata"]), evMeta(data["accountMetadata"])) {
			return fmt.Sprintf("accountMetadata %v, committed %v", p["accountMetadata"], data["accountMetadata"])
		}
	case "REVERTED_TRANSACTION":
		if d := sameTx(p["revertTransaction"], data["transaction"]); d != "" {
			return "revert transaction: " + d
		}
		e, _ := p["revertedTransaction"].(map[string]any)
		l, _ := data["revertedTransaction"].(map[string]any)
		if e == nil || l == nil || jsonNum(e["id"]) != jsonNum(l["id"]) {
			return fmt.Sprintf("reverted transaction %v, committed %v", e["id"], l["id"])
		}
		if rev, _ := e["reverted"].(bool); !rev {
			return "the reverted transaction is not marked reverted in the message"
		}
	case "SET_METADATA":
		if jsonNum(p["targetType"]) != jsonNum(data["targetType"]) || jsonNum(p["targetId"]) != jsonNum(data["targetId"]) {
			return fmt.Sprintf("target %v:%v, committed %v:%v", p["targetType"], p["targetId"], data["targetType"], data["targetId"])
		}
		if !reflect.DeepEqual(evMeta(p["metadata"]), evMeta(data["metadata"])) {
			return fmt.Sprintf("metadata %v, committed %v", p["metadata"], data["metadata"])
		}
	case "DELETE_METADATA":
		if jsonNum(p["targetType"]) != jsonNum(data["targetType"]) || jsonNum(p["targetId"]) != jsonNum(data["targetId"]) || jsonNum(p["key"]) != jsonNum(data["key"]) {
			return fmt.Sprintf("target %v:%v key %v, committed %v:%v key %v", p["targetType"], p["targetId"], p["key"], data["targetType"], data["targetId"], data["key"])
		}
	case "INSERTED_SCHEMA":
		e, _ := p["schema"].(map[string]any)
		l, _ := data["schema"].(map[string]any)
		if e == nil || l == nil || jsonNum(e["version"]) != jsonNum(l["version"]) || !reflect.DeepEqual(e["chart"], l["chart"]) {
			return fmt.Sprintf("schema %v, committed %v", e, l)
		}
	}
	return ""
}

// evRun is one deployment with a recording listener on which event/bulk steps are executed.
type evRun struct {
	w    *World
	lis  *recListener
	ls   []*c31Ledger
	hist []string
	// per-ledger writes that carried an idempotency key (candidates for an exact replay)
	ikOps                                                    map[string][]evOp
	bulkCommits, firedFaults, failedOrDry, firstWrites, hits int
}

func newEvRun(t T, st *stats.Collector, fs features.FeatureSet, ledgers int) *evRun {
	lis := &recListener{bucket: map[string]string{}}
	w := NewWorld(t, st, env.Options{Listener: lis}, "C31")
	lis.sim = w.Env.Sim
	r := &evRun{w: w, lis: lis, ikOps: map[string][]evOp{}}
	for i := 0; i < ledgers; i++ {
		name := fmt.Sprintf("l%d", i+1)
		if err := w.Env.CreateLedger(w.Ctx, name, "b1", fs); err != nil {
			w.harness("CreateLedger: %v", err)
		}
		c, err := w.Env.Ledger(w.Ctx, name)
		if err != nil {
			w.harness("%v", err)
		}
		lis.bucket[name] = "b1"
		r.ls = append(r.ls, &c31Ledger{name: name, bucket: "b1", c: c})
	}
	return r
}

func (r *evRun) reopen(l *c31Ledger) {
	c, err := r.w.Env.Ledger(r.w.Ctx, l.name)
	if err != nil {
		r.w.harness("%v", err)
	}
	l.c = c
}

// exec runs one operation (a single write or a bulk) under a fault plan and checks the events against the committed tables.
func (r *evRun) exec(l *c31Ledger, mode string, ops []evOp, plan faultPlan) {
	w, lis := r.w, r.lis
	logsBefore := lis.committedLogs(l.name)
	evBefore := len(lis.events)
	wasInitializing := len(logsBefore) == 0
	desc := fmt.Sprintf("%s on %s [%s] %s", mode, l.name, plan, fmt.Sprint(ops))
	var opErrs []error
	tr := withFault(w.Env.Sim, plan, func() {
		if mode == "single" {
			_, hit, err := ops[0].run(w.Ctx, l.c)
			opErrs = append(opErrs, err)
			if hit && err == nil {
				r.hits++
			}
			return
		}
		var els []bulking.BulkElement
		for _, o := range ops {
			e, _ := o.element()
			els = append(els, e)
		}
		bulk := make(bulking.Bulk, len(els))
		for _, e := range els {
			bulk <- e
		}
		close(bulk)
		results := make(chan bulking.BulkElementResult, len(els))
		err := bulking.NewBulker(l.c, bulking.WithParallelism(1)).Run(w.Ctx, bulk, results, bulking.BulkingOptions{Atomic: mode == "atomic-bulk", ContinueOnFailure: mode == "bulk-continue"})
		for res := range results {
			opErrs = append(opErrs, res.Error)
		}
		opErrs = append(opErrs, err)
	})
	for _, e := range opErrs {
		if e != nil && !errors.Is(e, errInjected) {
			w.checkErr(e)
		}
	}
	if tr.Fired {
		r.firedFaults++
	}
	for _, e := range opErrs {
		if e != nil {
			r.failedOrDry++
			break
		}
	}
	if len(ops) == 1 && ops[0].DryRun {
		r.failedOrDry++
	}
	for _, o := range ops {
		if o.IK != "" {
			r.ikOps[l.name] = append(r.ikOps[l.name], o)
		}
	}
	logsAfter := lis.committedLogs(l.name)
	newLogs := logsAfter[len(logsBefore):]
	lis.mu.Lock()
	newEvents := append([]recEvent(nil), lis.events[evBefore:]...)
	lis.mu.Unlock()
	r.hist = append(r.hist, fmt.Sprintf("%s => %d new logs, %d events, errors %v", desc, len(newLogs), len(newEvents), errStrings(opErrs)))
	history := strings.Join(r.hist, "\n  ")

	// (a) every event arrived after its write was durable
	for i, e := range newEvents {
		if e.Ledger != l.name {
			w.V("C31", "event %s(%s) published for ledger %s during an operation on %s\nhistory:\n  %s", e.Kind, e.Key, e.Ledger, l.name, history)
		}
		if !e.Durable {
			w.V("C31", "event %s(%s) on %s was published before the row it describes was committed (%d logs committed at that moment)\nhistory:\n  %s", e.Kind, e.Key, e.Ledger, e.CommittedLogs, history)
		}
		if e.CommittedLogs < len(logsBefore)+i+1 {
			w.V("C31", "event #%d of the operation (%s %s) was published while only %d logs of %s were committed (%d before the operation): the write it describes was not durable yet, or it describes no new write\nhistory:\n  %s",
				i+1, e.Kind, e.Key, e.CommittedLogs, l.name, len(logsBefore), history)
		}
	}
	// (b) events == logs that became durable, one for one
	want := map[string]int{}
	for _, row := range newLogs {
		typ, key := logKeyOfRow(row)
		want[typ+" "+key]++
	}
	got := map[string]int{}
	for _, e := range newEvents {
		got[e.Kind+" "+e.Key]++
	}
	if !mapsEqual(want, got) {
		w.V("C31", "events published do not match the writes that became durable\n  durable logs: %v\n  events:       %v\nhistory:\n  %s", want, got, history)
	}
	// (c) each message, as the real bus listener hands it to the publisher, describes the write it announces
	for i, e := range newEvents {
		typ, key := logKeyOfRow(newLogs[i])
		if typ != e.Kind || key != e.Key {
			w.St.Class("events-in-another-order-than-logs")
			break
		}
		if d := eventDescribes(e, newLogs[i], l.name); d != "" {
			w.V("C31", "the message published for %s %s on %s does not describe the committed write: %s\nhistory:\n  %s", e.Kind, e.Key, l.name, d, history)
		}
		w.St.Add("messages_compared_with_their_log", 1)
	}
	if len(newLogs) > 0 && (mode != "single" || wasInitializing) {
		r.bulkCommits++
	}
	if len(newLogs) > 0 && wasInitializing {
		r.firstWrites++
	}
	w.Env.Sim.AdvanceClock(1e9)
}

// c31Pinned replays the shrunk reproducers of the two defects this check found (both repaired by fix: commits).
func c31Pinned() (string, bool) {
	create := evOp{Kind: "create", Post: ledger.Postings{ledger.NewPosting("world", "bank", "USD/2", big.NewInt(5))}}
	scenarios := map[string]func(r *evRun){
		"atomic bulk as first write on an initializing ledger whose COMMIT fails": func(r *evRun) {
			r.exec(r.ls[0], "atomic-bulk", []evOp{create}, faultPlan{Kind: "commit", At: 1})
		},
		"single first write on an initializing ledger whose COMMIT fails": func(r *evRun) {
			r.exec(r.ls[0], "single", []evOp{create}, faultPlan{Kind: "commit", At: 1})
			r.exec(r.ls[0], "single", []evOp{create}, faultPlan{Kind: "commit", At: 2})
		},
		"replay of a committed write with the same idempotency key": func(r *evRun) {
			o := evOp{Kind: "deleteAccMeta", Addr: "a:b", Key: "k", IK: "ik1"}
			r.exec(r.ls[0], "single", []evOp{o}, faultPlan{})
			r.exec(r.ls[0], "bulk", []evOp{o}, faultPlan{})
			r.exec(r.ls[0], "single", []evOp{o}, faultPlan{})
		},
	}
	names := make([]string, 0, len(scenarios))
	for n := range scenarios {
		names = append(names, n)
	}
	sort.Strings(names)
	for _, n := range names {
		q := &pinT{}
		func() {
			defer func() {
				if rec := recover(); rec != nil {
					if _, ok := rec.(skipCheck); !ok {
						panic(rec)
					}
				}
			}()
			r := newEvRun(q, nil, features.DefaultFeatures, 1)
			defer r.w.Close()
			scenarios[n](r)
		}()
		if q.msg != "" {
			return n + ": " + q.msg, false
		}
	}
	return "", true
}

// pinT records the first failure message of a pinned scenario.
type pinT struct{ msg string }

func (p *pinT) Fatalf(f string, a ...any) {
	if p.msg == "" {
		p.msg = fmt.Sprintf(f, a...)
	}
	panic(skipCheck{})
}
func (p *pinT) Logf(string, ...any) {}

func TestC31(t *testing.T) {
	st := stats.New("C31", "fault_enumeration", ruleC31, assumePgsim,
		"a database failure is an error returned by the driver for one statement (the open transaction is then in the aborted state) or for a COMMIT (the transaction is rolled back)",
		"'after commit' is judged from the stand-in's committed rows at the instant the Listener is called")
	defer st.Write(t)
	if msg, ok := c31Pinned(); !ok && !stats.SkipPinned() {
		t.Fatalf("pinned reproducer failed: %s", msg)
	}
	st.Set("pinned_reproducers", 3)
	n := stats.N(300, 700)
	st.Set("requested_checks", n)
	stats.Check(t, n, 31, func(rt *rapid.T) {
		fs := features.DefaultFeatures
		if rapid.IntRange(0, 3).Draw(rt, "minimalFeatures") == 0 {
			fs = features.MinimalFeatureSet
		}
		r := newEvRun(rt, st, fs, rapid.IntRange(1, 2).Draw(rt, "ledgers"))
		defer r.w.Close()
		w := r.w
		step := func(rt *rapid.T) {
			l := r.ls[rapid.IntRange(0, len(r.ls)-1).Draw(rt, "ledger")]
			if rapid.IntRange(0, 3).Draw(rt, "reopen") == 0 {
				r.reopen(l)
			}
			mode := rapid.SampledFrom([]string{"single", "single", "atomic-bulk", "bulk", "bulk-continue"}).Draw(rt, "mode")
			genOne := func(allowSchema, allowDry bool) evOp {
				if prev := r.ikOps[l.name]; len(prev) > 0 && rapid.IntRange(0, 4).Draw(rt, "replayIK") == 0 {
					o := prev[rapid.IntRange(0, len(prev)-1).Draw(rt, "replayIdx")]
					if (allowSchema || o.Kind != "insertSchema") && (allowDry || !o.DryRun) {
						return o
					}
				}
				return genEvOp(rt, w.Env.Sim, l.bucket, l.name, allowSchema, allowDry)
			}
			var ops []evOp
			if mode == "single" {
				ops = []evOp{genOne(true, true)}
			} else {
				k := rapid.IntRange(1, 4).Draw(rt, "bulkSize")
				for i := 0; i < k; i++ {
					ops = append(ops, genOne(false, false))
				}
			}
			plan := faultPlan{}
			switch rapid.IntRange(0, 5).Draw(rt, "fault") {
			case 0:
				plan = faultPlan{Kind: "commit", At: rapid.IntRange(1, 3).Draw(rt, "commitNo")}
			case 1:
				plan = faultPlan{Kind: "stmt-before", At: rapid.IntRange(1, 14).Draw(rt, "stmtNo")}
			case 2:
				plan = faultPlan{Kind: "stmt-after", At: rapid.IntRange(1, 14).Draw(rt, "stmtNo")}
			}
			r.exec(l, mode, ops, plan)
		}
		setSteps(12)
		rt.Repeat(map[string]func(*rapid.T){"op": step})
		var classes []string
		if r.bulkCommits > 0 {
			classes = append(classes, "commit-in-bulk-or-first-write")
		}
		if r.firstWrites > 0 {
			classes = append(classes, "first-write-committed")
		}
		if r.firedFaults > 0 {
			classes = append(classes, "fault-fired")
		}
		if r.hits > 0 {
			classes = append(classes, "idempotency-hit")
		}
		hist := r.hist
		st.Case(strings.Join(hist, "\n"), r.bulkCommits >= 1 && r.firedFaults >= 1 && r.failedOrDry >= 1, func() any {
			h := hist
			if len(h) > 8 {
				h = h[:8]
			}
			return map[string]any{"history": h}
		}, classes...)
		st.Add("completed_checks", 1)
	})
}

func errStrings(errs []error) []string {
	out := make([]string, len(errs))
	for i, e := range errs {
		if e == nil {
			out[i] = "ok"
		} else {
			out[i] = truncateErr(e)
		}
	}
	return out
}

func mapsEqual(a, b map[string]int) bool {
	if len(a) != len(b) {
		return false
	}
	for k, v := range a {
		if b[k] != v {
			return false
		}
	}
	return true
}
