package e2

import (
	"context"
	"encoding/json"
	"fmt"
	"math/big"
	"net/http/httptest"
	"reflect"
	"strings"

	"pgregory.net/rapid"

	ledger "github.com/formancehq/ledger/internal"
	"github.com/formancehq/ledger/internal/api/bulking"
	ledgercontroller "github.com/formancehq/ledger/internal/controller/ledger"
	"github.com/formancehq/ledger/verifharness/refmodel"
)

// AtomicBulk issues one atomic bulk of 2-4 elements on the ledger - creates drawing on world, with at most one element
// that must fail (insufficient funds, a reference already used, an unknown transaction) at a drawn position, with and
// without continueOnFailure, through the real Bulker or through POST /_bulk when the world is routed through HTTP. An
// atomic bulk is one write: with a failing element it must leave every table as it was; otherwise every element is
// applied and enters the reference model. It returns the number of transactions committed.
func (w *World) AtomicBulk(t *rapid.T, l *LState) int {
	n := rapid.IntRange(1, 3).Draw(t, "bulkCreates")
	var els []bulking.BulkElement
	var reqs []TxRequest
	for i := 0; i < n; i++ {
		r := TxRequest{Postings: ledger.Postings{ledger.NewPosting("world", rapid.SampledFrom([]string{"bank", "a:b", "u:1", "u:2"}).Draw(t, "bulkDst"), rapid.SampledFrom([]string{"USD/2", "EUR"}).Draw(t, "bulkAsset"), big.NewInt(int64(rapid.IntRange(0, 50).Draw(t, "bulkAmount"))))}}
		if rapid.IntRange(0, 2).Draw(t, "bulkRef") == 0 {
			r.Reference = fmt.Sprintf("bulk-%s-%d-%d", l.Name, len(l.M.Logs), i)
		}
		reqs = append(reqs, r)
		els = append(els, bulking.BulkElement{Action: bulking.ActionCreateTransaction, Data: bulking.TransactionRequest{Postings: r.Postings, Reference: r.Reference}})
	}
	failing := rapid.SampledFrom([]string{"none", "insufficient-funds", "reference-conflict", "unknown-revert"}).Draw(t, "failingElement")
	if failing == "reference-conflict" {
		used := ""
		for _, tx := range l.M.Txs {
			if tx.Reference != "" {
				used = tx.Reference
			}
		}
		if used == "" {
			failing = "insufficient-funds"
		} else {
			els = insertAt(els, rapid.IntRange(0, len(els)).Draw(t, "failingAt"), bulking.BulkElement{Action: bulking.ActionCreateTransaction,
				Data: bulking.TransactionRequest{Postings: ledger.Postings{ledger.NewPosting("world", "bank", "USD/2", big.NewInt(1))}, Reference: used}})
		}
	}
	switch failing {
	case "insufficient-funds":
		els = insertAt(els, rapid.IntRange(0, len(els)).Draw(t, "failingAt"), bulking.BulkElement{Action: bulking.ActionCreateTransaction,
			Data: bulking.TransactionRequest{Postings: ledger.Postings{ledger.NewPosting("void:never:funded", "bank", "USD/2", big.NewInt(5))}}})
	case "unknown-revert":
		els = insertAt(els, rapid.IntRange(0, len(els)).Draw(t, "failingAt"), bulking.BulkElement{Action: bulking.ActionRevertTransaction, Data: bulking.RevertTransactionRequest{ID: 99999}})
	}
	continueOnFailure := rapid.Bool().Draw(t, "continueOnFailure")
	desc := fmt.Sprintf("atomic bulk (continueOnFailure=%v, failing element: %s) of %d elements", continueOnFailure, failing, len(els))
	before := w.Env.Sim.Dump()
	type result = bulkResult
	var results []result
	if h, ok := l.C.(*httpCtrl); ok {
		var wire []map[string]any
		for _, e := range els {
			wire = append(wire, map[string]any{"action": e.Action, "data": e.Data})
		}
		rec := h.do("POST", "/_bulk", map[string][]string{"atomic": {"true"}, "continueOnFailure": {fmt.Sprint(continueOnFailure)}}, nil, hJSON(wire))
		results = decodeBulkAnswer(w, rec, desc)
	} else {
		bulk := make(bulking.Bulk, len(els))
		for _, e := range els {
			bulk <- e
		}
		close(bulk)
		ch := make(chan bulking.BulkElementResult, len(els))
		if err := bulking.NewBulker(l.C, bulking.WithParallelism(1)).Run(context.Background(), bulk, ch, bulking.BulkingOptions{Atomic: true, ContinueOnFailure: continueOnFailure}); err != nil {
			w.checkErr(err)
			w.V("C32", "%s: Bulker.Run failed: %v", desc, err)
		}
		for r := range ch {
			x := result{logID: r.LogID}
			if r.Error != nil {
				w.checkErr(r.Error)
				x.err = r.Error.Error()
			} else if tx, ok := r.Data.(ledger.Transaction); ok {
				x.tx = &tx
			}
			results = append(results, x)
		}
	}
	anyErr := false
	for _, r := range results {
		if r.err != "" {
			anyErr = true
		}
	}
	l.Ops = append(l.Ops, fmt.Sprintf("%s => errors: %v", desc, anyErr))
	if failing != "none" {
		if !anyErr {
			w.V("C32", "%s: no element reports an error\nhistory:\n  %s", desc, l.History())
		}
		if after := w.Env.Sim.Dump(); !reflect.DeepEqual(before, after) {
			w.V("C07|C02|C14|C32", "%s: one element failed, yet the bulk left a trace - an atomic bulk is applied as a whole or not at all\n%s\nhistory:\n  %s", desc, dumpDiff(before, after), l.History())
		}
		l.Failures++
		return 0
	}
	if anyErr || len(results) != len(els) {
		w.V("C32", "%s: %d results, errors: %v, although every element is valid\nhistory:\n  %s", desc, len(results), anyErr, l.History())
	}
	for i, r := range results {
		if r.tx == nil || r.tx.ID == nil {
			w.V("C32", "%s: element %d carries no transaction", desc, i)
		}
		if !postingsEqual(r.tx.Postings, toModelPostings(reqs[i].Postings)) || r.tx.Reference != reqs[i].Reference {
			w.V("C25|C32", "%s: element %d was recorded as %s ref=%q, submitted %s ref=%q", desc, i, postingsStr(r.tx.Postings), r.tx.Reference, postingsStr(reqs[i].Postings), reqs[i].Reference)
		}
		l.M.AddTx(&refmodel.Tx{ID: *r.tx.ID, Postings: toModelPostings(r.tx.Postings), Timestamp: tm(r.tx.Timestamp), InsertedAt: tm(r.tx.InsertedAt), UpdatedAt: tm(r.tx.UpdatedAt),
			Reference: r.tx.Reference, Metadata: map[string]string(r.tx.Metadata.Copy())}, nil, nil)
		if r.tx.Reference != "" {
			l.Refs[r.tx.Reference] = true
		}
		at := tm(r.tx.InsertedAt)
		for _, row := range w.Env.Sim.Rows(l.Bucket, "logs") {
			if row["ledger"].S == l.Name && row["id"].N != nil && row["id"].N.Uint64() == r.logID {
				at = row["date"].T
			}
		}
		l.M.Logs = append(l.M.Logs, &refmodel.Log{ID: r.logID, Type: "NEW_TRANSACTION", Date: at, TxID: r.tx.ID})
	}
	return len(results)
}

func insertAt(els []bulking.BulkElement, i int, e bulking.BulkElement) []bulking.BulkElement {
	out := append([]bulking.BulkElement{}, els[:i]...)
	out = append(out, e)
	return append(out, els[i:]...)
}

type bulkResult struct {
	err   string
	tx    *ledger.Transaction
	logID uint64
}

func decodeBulkAnswer(w *World, rec *httptest.ResponseRecorder, desc string) []bulkResult {
	var doc struct {
		Data []struct {
			ErrorCode    string          `json:"errorCode"`
			ResponseType string          `json:"responseType"`
			Data         json.RawMessage `json:"data"`
			LogID        uint64          `json:"logID"`
		} `json:"data"`
	}
	if err := json.Unmarshal(rec.Body.Bytes(), &doc); err != nil {
		w.V("C32", "%s: HTTP %d with an undecodable body: %s", desc, rec.Code, hCut(rec.Body.String(), 300))
	}
	var out []bulkResult
	for _, r := range doc.Data {
		x := bulkResult{logID: r.LogID}
		if r.ResponseType == "ERROR" {
			x.err = r.ErrorCode
		} else if len(r.Data) > 0 && !strings.HasPrefix(string(r.Data), "null") {
			tx := ledger.Transaction{}
			if json.Unmarshal(r.Data, &tx) == nil && tx.ID != nil {
				x.tx = &tx
			}
		}
		out = append(out, x)
	}
	return out
}

var _ ledgercontroller.Controller = (*httpCtrl)(nil)
