package e2

import (
	"fmt"
	"math/big"
	"strings"
	"testing"

	"pgregory.net/rapid"

	ledger "github.com/formancehq/ledger/internal"
	"github.com/formancehq/ledger/verifharness/env"
	"github.com/formancehq/ledger/verifharness/pgsim"
	"github.com/formancehq/ledger/verifharness/stats"
)

const ruleC31Conc = "concurrent part: 2-4 requests run under a drawn statement-level interleaving on a ledger with a recording Listener - callers sharing one idempotency key and one input (create by postings or by script, revert, transaction / account metadata save and delete), optionally one with another input, plus 0-2 independent writes without key; at the end, from the committed tables: one event per log that became durable, matched by type and target, none for callers answered with an idempotency hit, a conflict or an error; every event arrived when the row it names was committed; the message handed to the publisher by the real bus listener describes its log; non-trivial = >= 2 callers of one key with a context switch inside an open transaction; distinct = by requests + schedule"

// TestC31Concurrent: a write made once is announced once, however many requests raced for it.
func TestC31Concurrent(t *testing.T) {
	st := stats.New("C31", "exploration", ruleC31Conc, assumePgsim, assumeSched)
	defer st.Write(t)
	n := stats.N(250, 800)
	st.Set("requested_checks_concurrent", n)
	stats.Check(t, n, 3131, func(rt *rapid.T) {
		lis := &recListener{bucket: map[string]string{"l1": "b1"}}
		w := NewWorld(rt, st, env.Options{Listener: lis}, "C31")
		defer w.Close()
		lis.sim = w.Env.Sim
		l := w.AddLedger("l1", "b1", GenFeatures(rt))
		w.fund(l, []string{"bank"}, "USD/2", []int64{200})
		if out := w.CreateTx(l, TxRequest{Postings: ledger.Postings{ledger.NewPosting("world", "u:1", "USD/2", big.NewInt(9))}, Metadata: map[string]string{"k": "v"}}); out.Kind != ErrNone {
			w.harness("seeding failed: %v", out.Err)
		}
		ik := "ik-" + rapid.SampledFrom([]string{"1", "x y"}).Draw(rt, "ik")
		genOp := func(label string) evOp {
			o := evOp{Kind: rapid.SampledFrom([]string{"create", "createScript", "revert", "saveTxMeta", "deleteTxMeta", "saveAccMeta", "deleteAccMeta"}).Draw(rt, label+"Kind")}
			switch o.Kind {
			case "create":
				o.Post = ledger.Postings{ledger.NewPosting("bank", rapid.SampledFrom([]string{"u:1", "u:2"}).Draw(rt, label+"Dst"), "USD/2", big.NewInt(int64(rapid.SampledFrom([]int{1, 5, 40}).Draw(rt, label+"Amt"))))}
			case "createScript":
				o.Kind = "create"
				o.Script = fmt.Sprintf("send [USD/2 %d] (\n source = @bank\n destination = @u:2\n)\nset_tx_meta(\"origin\", \"script\")", rapid.SampledFrom([]int{1, 5}).Draw(rt, label+"Amt"))
				o.Meta = map[string]string{"k": "v"}
			case "revert":
				o.TxID = uint64(rapid.IntRange(1, 2).Draw(rt, label+"Tx"))
				o.Force = rapid.Bool().Draw(rt, label+"Force")
			case "saveTxMeta":
				o.TxID = uint64(rapid.IntRange(1, 2).Draw(rt, label+"Tx"))
				o.Meta = map[string]string{"k2": rapid.SampledFrom([]string{"v", "w"}).Draw(rt, label+"Val")}
			case "deleteTxMeta":
				o.TxID, o.Key = 2, "k"
			case "saveAccMeta":
				o.Addr = rapid.SampledFrom([]string{"u:1", "u:3"}).Draw(rt, label+"Addr")
				o.Meta = map[string]string{"role": rapid.SampledFrom([]string{"x", "y"}).Draw(rt, label+"Val")}
			case "deleteAccMeta":
				o.Addr, o.Key = "u:1", "role"
			}
			return o
		}
		base := genOp("base")
		base.IK = ik
		var ops []evOp
		for i, k := 0, rapid.IntRange(2, 3).Draw(rt, "callersOfTheKey"); i < k; i++ {
			ops = append(ops, base)
		}
		if rapid.IntRange(0, 3).Draw(rt, "withDifferentInput") == 0 {
			other := genOp("other")
			other.IK = ik
			ops[len(ops)-1] = other
		}
		for i, k := 0, rapid.IntRange(0, 2).Draw(rt, "independentWrites"); i < k; i++ {
			ops = append(ops, evOp{Kind: "create", Post: ledger.Postings{ledger.NewPosting("world", fmt.Sprintf("p:%d", i), fmt.Sprintf("A%d", i), big.NewInt(int64(i+1)))}})
		}
		logsBefore := lis.committedLogs(l.Name)
		evBefore := len(lis.events)
		type res struct {
			hit bool
			err error
		}
		outs := make([]res, len(ops))
		s := NewSched(w)
		for i := range ops {
			i := i
			s.Go(fmt.Sprintf("w%d", i), func() {
				c, err := w.Env.Ledger(w.Ctx, l.Name)
				if err != nil {
					outs[i].err = err
					return
				}
				_, hit, err := ops[i].run(w.Ctx, c)
				outs[i] = res{hit, err}
			})
		}
		if !s.Run(rt) {
			return
		}
		sched := strings.Join(s.Trace, "\n  ")
		var sb strings.Builder
		executed := 0
		for i, o := range outs {
			switch {
			case o.err != nil:
				w.checkErr(o.err)
				fmt.Fprintf(&sb, "  w%d %s => %s\n", i, ops[i], truncateErr(o.err))
			case o.hit:
				fmt.Fprintf(&sb, "  w%d %s => idempotency hit\n", i, ops[i])
			default:
				executed++
				fmt.Fprintf(&sb, "  w%d %s => executed\n", i, ops[i])
			}
		}
		describe := sb.String()
		newLogs := lis.committedLogs(l.Name)[len(logsBefore):]
		lis.mu.Lock()
		newEvents := append([]recEvent(nil), lis.events[evBefore:]...)
		lis.mu.Unlock()
		want, got := map[string]int{}, map[string]int{}
		byKey := map[string]map[string]pgsimRowT{}
		for _, row := range newLogs {
			typ, key := logKeyOfRow(row)
			want[typ+" "+key]++
			if byKey[typ+" "+key] == nil {
				byKey[typ+" "+key] = map[string]pgsimRowT{}
			}
			byKey[typ+" "+key][row["id"].N.String()] = row
		}
		for _, e := range newEvents {
			got[e.Kind+" "+e.Key]++
			if !e.Durable {
				w.V("C31", "event %s(%s) was published before the row it describes was committed\n%sschedule:\n  %s", e.Kind, e.Key, describe, sched)
			}
		}
		if !mapsEqual(want, got) {
			w.V("C31", "events published do not match the writes that became durable (%d callers executed a write)\n  durable logs: %v\n  events:       %v\n%sschedule:\n  %s", executed, want, got, describe, sched)
		}
		// each message describes the log it announces (when the pairing is unambiguous)
		for _, e := range newEvents {
			rows := byKey[e.Kind+" "+e.Key]
			if len(rows) != 1 {
				continue
			}
			for _, row := range rows {
				if d := eventDescribes(e, row, l.Name); d != "" {
					w.V("C31", "the message published for %s %s does not describe the committed write: %s\n%sschedule:\n  %s", e.Kind, e.Key, d, describe, sched)
				}
			}
		}
		st.Case(describe+sched, s.Switches >= 1, func() any {
			return map[string]any{"outcomes": strings.Split(strings.TrimSpace(describe), "\n"), "events": len(newEvents), "durable_logs": len(newLogs)}
		}, "kind:"+base.Kind, fmt.Sprintf("executed:%d", executed), fmt.Sprintf("switches:%d", min(s.Switches, 5)))
		st.Add("completed_checks_concurrent", 1)
	})
}

type pgsimRowT = map[string]pgsim.Value
