package e2

import (
	"bytes"
	"fmt"
	"math/big"
	"os"
	"sort"
	"strings"
	"testing"

	"pgregory.net/rapid"

	"github.com/formancehq/go-libs/v5/pkg/storage/bun/paginate"

	ledger "github.com/formancehq/ledger/internal"
	ledgercontroller "github.com/formancehq/ledger/internal/controller/ledger"
	"github.com/formancehq/ledger/internal/storage/common"
	"github.com/formancehq/ledger/pkg/features"
	"github.com/formancehq/ledger/verifharness/env"
	"github.com/formancehq/ledger/verifharness/gen"
	"github.com/formancehq/ledger/verifharness/known"
	"github.com/formancehq/ledger/verifharness/pgsim"
	"github.com/formancehq/ledger/verifharness/refmodel"
	"github.com/formancehq/ledger/verifharness/stats"
)

const assumeSched = "concurrency is explored by a cooperative scheduler that owns the interleaving at SQL-statement boundaries (every statement and COMMIT of every writer is a yield point); row locks, unique-index waits, advisory locks, READ COMMITTED visibility and deadlock detection are the pgsim stand-in's"

// concOutcome is what one concurrent writer observed.
type concOutcome struct {
	Kind ErrKind
	Err  error
	Tx   *ledger.Transaction
	Log  *ledger.Log
	Hit  bool
}

// fund commits, sequentially, starting balances for the shared source accounts.
func (w *World) fund(l *LState, accounts []string, asset string, amounts []int64) {
	var ps ledger.Postings
	for i, a := range accounts {
		if amounts[i] > 0 {
			ps = append(ps, ledger.NewPosting("world", a, asset, big.NewInt(amounts[i])))
		}
	}
	if len(ps) == 0 {
		return
	}
	if out := w.CreateTx(l, TxRequest{Postings: ps}); out.Kind != ErrNone {
		w.harness("funding failed: %v", out.Err)
	}
}

// settle folds the transactions committed by concurrent writers into the model
// in database commit order and checks balances after each (C06).
func (w *World) settle(l *LState, s *Sched, outs []concOutcome, allowance map[int]map[string]*big.Int, forced map[int]bool) {
	order := s.CommitOrder()
	seen := map[int]bool{}
	for _, wid := range order {
		if wid >= len(outs) || seen[wid] {
			continue
		}
		o := outs[wid]
		if o.Kind != ErrNone || o.Tx == nil || o.Hit {
			continue
		}
		seen[wid] = true
		before := l.M.VolumesNow()
		mtx := txToModel(*o.Tx)
		if o.Tx.RevertedAt != nil {
			t := tm(*o.Tx.RevertedAt)
			mtx.RevertedAt = &t
		}
		l.M.AddTx(mtx, nil, nil)
		after := l.M.VolumesNow()
		if forced[wid] {
			continue
		}
		for _, p := range mtx.Postings {
			if p.Source == "world" {
				continue
			}
			floor := new(big.Int)
			if a, ok := allowance[wid][p.Source+"/"+p.Asset]; ok {
				floor = new(big.Int).Neg(a)
			}
			b0, b1 := before.Get(p.Source, p.Asset).Balance(), after.Get(p.Source, p.Asset).Balance()
			if b0.Cmp(floor) < 0 {
				floor = b0
			}
			if b1.Cmp(floor) < 0 {
				w.V("C06", "transaction %d (writer %d) took %s/%s from %s to %s, below its allowance (floor %s), at commit time\npostings: %v\nschedule:\n  %s", mtx.ID, wid, p.Source, p.Asset, b0, b1, floor, mtx.Postings, strings.Join(s.Trace, "\n  "))
			}
		}
	}
	for wid, o := range outs {
		if o.Kind == ErrNone && o.Tx != nil && !o.Hit && !seen[wid] {
			w.V("C06", "writer %d reported success (tx %d) but no database commit was observed for it", wid, *o.Tx.ID)
		}
	}
}

const ruleC06 = "a ledger is funded sequentially (2-3 shared source accounts with small balances, one never-used account/asset pair), then 2-4 concurrent writers each issue one write — non-forced postings spending from the shared accounts (combined demand often above the balance), generated overdraft scripts (bounded / unbounded), forced postings, non-forced and forced reverts of the funding transaction — under a drawn interleaving at SQL-statement granularity; committed transactions are folded in database commit order and every non-world, non-forced source must stay >= min(balance before, -allowance); every writer must get an answer; non-trivial = >= 2 writers whose combined demand exceeds a shared balance and >= 1 context switch inside an open transaction; distinct = by requests + schedule"

func TestC06(t *testing.T) {
	st := stats.New("C06", "exploration", ruleC06, assumePgsim, assumeSched)
	defer st.Write(t)
	n := stats.N(300, 900)
	st.Set("requested_checks", n)
	stats.Check(t, n, 6, func(rt *rapid.T) {
		w := NewWorld(rt, st, env.Options{}, "C06")
		defer w.Close()
		l := w.AddLedger("l1", "b1", GenFeatures(rt))
		shared := []string{"a", "a:b", "bank"}
		amounts := []int64{int64(rapid.IntRange(0, 100).Draw(rt, "bal0")), int64(rapid.IntRange(0, 100).Draw(rt, "bal1")), 0}
		w.fund(l, shared, "USD/2", amounts)
		fundingID := uint64(0)
		if len(l.M.Txs) > 0 {
			fundingID = l.M.Txs[0].ID
		}
		nw := rapid.IntRange(2, 4).Draw(rt, "writers")
		// most runs have a hot account every writer draws on (often the never-used pair)
		hot := rapid.SampledFrom([]string{"", "bank", "bank", "a", "a:b"}).Draw(rt, "hot")
		balOf := map[string]int64{"a": amounts[0], "a:b": amounts[1], "bank": 0}
		pickSrc := func(label string) string {
			if hot != "" && rapid.IntRange(0, 3).Draw(rt, label+"Hot") != 0 {
				return hot
			}
			return rapid.SampledFrom(shared).Draw(rt, label)
		}
		// amounts are often individually affordable, so that only the combination overdraws
		pickAmt := func(label string, affordable int64, max int) int64 {
			if affordable >= 1 && rapid.IntRange(0, 2).Draw(rt, label+"Fits") != 0 {
				return int64(rapid.IntRange(1, int(affordable)).Draw(rt, label))
			}
			return int64(rapid.IntRange(1, max).Draw(rt, label))
		}
		outs := make([]concOutcome, nw)
		allowance := map[int]map[string]*big.Int{}
		forced := map[int]bool{}
		demand := map[string]int64{}
		var descs []string
		s := NewSched(w)
		// in one run out of two, one writer's k-th statement is the victim of a deadlock: its request goes
		// through the controller's retry path while the others keep running
		if rapid.Bool().Draw(rt, "injectDeadlock") {
			s.FaultWriter = rapid.IntRange(0, nw-1).Draw(rt, "deadlockVictim")
			s.FaultAt = rapid.IntRange(1, 10).Draw(rt, "deadlockAtStatement")
		}
		for i := 0; i < nw; i++ {
			i := i
			c, err := w.Env.Ledger(w.Ctx, l.Name)
			if err != nil {
				w.harness("%v", err)
			}
			switch rapid.IntRange(0, 9).Draw(rt, "opKind") {
			case 0, 1, 2, 3, 4, 5:
				src := pickSrc("src")
				amt := pickAmt("amt", balOf[src], 120)
				force := rapid.IntRange(0, 7).Draw(rt, "force") == 0
				r := TxRequest{Postings: ledger.Postings{ledger.NewPosting(src, rapid.SampledFrom([]string{"u:1", "u:2", "world"}).Draw(rt, "dst"), "USD/2", big.NewInt(amt))}, Force: force}
				if rapid.IntRange(0, 3).Draw(rt, "second") == 0 {
					src2 := pickSrc("src2")
					amt2 := pickAmt("amt2", balOf[src2]/2, 60)
					r.Postings = append(r.Postings, ledger.NewPosting(src2, "u:1", "USD/2", big.NewInt(amt2)))
					if !force {
						demand[src2] += amt2
					}
				}
				if !force {
					demand[src] += amt
				}
				forced[i] = force
				descs = append(descs, fmt.Sprintf("w%d: create %s", i, r.describe()))
				s.Go(fmt.Sprintf("w%d", i), func() {
					log, res, hit, err := c.CreateTransaction(w.Ctx, r.params())
					outs[i] = concOutcome{Kind: classify(err), Err: err, Log: log, Hit: hit}
					if err == nil {
						outs[i].Tx = &res.Transaction
					}
				})
			case 6, 7:
				src := pickSrc("src")
				bound := int64(rapid.IntRange(0, 40).Draw(rt, "bound"))
				amt := pickAmt("amt", balOf[src]+bound, 120)
				unbounded := rapid.IntRange(0, 5).Draw(rt, "unbounded") == 0
				clause := fmt.Sprintf(" allowing overdraft up to [USD/2 %d]", bound)
				if unbounded {
					clause = " allowing unbounded overdraft"
					forced[i] = true
				} else {
					allowance[i] = map[string]*big.Int{src + "/USD/2": big.NewInt(bound)}
					demand[src] += amt - bound
				}
				script := fmt.Sprintf("send [USD/2 %d] (\n\tsource = @%s%s\n\tdestination = @u:2\n)\n", amt, src, clause)
				r := TxRequest{Script: script}
				descs = append(descs, fmt.Sprintf("w%d: %s", i, strings.ReplaceAll(script, "\n", " ")))
				s.Go(fmt.Sprintf("w%d", i), func() {
					log, res, hit, err := c.CreateTransaction(w.Ctx, r.params())
					outs[i] = concOutcome{Kind: classify(err), Err: err, Log: log, Hit: hit}
					if err == nil {
						outs[i].Tx = &res.Transaction
					}
				})
			default:
				if fundingID == 0 {
					forced[i] = true
					descs = append(descs, fmt.Sprintf("w%d: noop", i))
					s.Go(fmt.Sprintf("w%d", i), func() { outs[i] = concOutcome{Kind: ErrOther} })
					continue
				}
				force := rapid.Bool().Draw(rt, "forceRevert")
				forced[i] = true // the revert's own check is on destinations, verified below
				descs = append(descs, fmt.Sprintf("w%d: revert %d force=%v", i, fundingID, force))
				s.Go(fmt.Sprintf("w%d", i), func() {
					r := RevertRequest{ID: fundingID, Force: force}
					log, res, hit, err := c.RevertTransaction(w.Ctx, revertParams(r))
					outs[i] = concOutcome{Kind: classify(err), Err: err, Log: log, Hit: hit}
					if err == nil {
						outs[i].Tx = &res.RevertTransaction
						if !force {
							outs[i].Tx.Metadata["__nonforced_revert"] = "1"
						}
					}
				})
			}
		}
		if !s.Run(rt) {
			return
		}
		for i, o := range outs {
			if o.Kind == ErrOther && o.Err != nil {
				w.checkErr(o.Err)
				if s.FaultAt > 0 && i == s.FaultWriter && s.faultFired && strings.Contains(o.Err.Error(), "40P01") {
					// the injected deadlock hit a statement outside the retried section (the ledger lock or the state update
					// of a first write): the request is answered with that error; it is a failed write, nothing more
					st.Class("injected-deadlock-answered-to-the-caller")
					continue
				}
				w.V("C06", "writer %d got an unexpected error kind: %v\nrequests: %v\nschedule:\n  %s", i, o.Err, descs, strings.Join(s.Trace, "\n  "))
			}
		}
		// a non-forced revert must leave the original destinations >= 0: fold and check at its commit
		w.settle(l, s, outs, allowance, forced)
		vols := l.M.VolumesNow()
		for i, o := range outs {
			if o.Kind == ErrNone && o.Tx != nil && o.Tx.Metadata["__nonforced_revert"] == "1" {
				_ = i
			}
		}
		// the live ledger must agree with the fold of what was committed
		w.Focus = nil
		w.CheckVolumes(l, nil, nil, false, 0, 15)
		w.Focus = map[string]bool{"C06": true}
		_ = vols
		over := false
		for i, a := range shared {
			if demand[a] > amounts[i] {
				over = true
			}
		}
		st.Case(strings.Join(descs, "|")+strings.Join(s.Trace, "|"), over && s.Switches >= 1, func() any {
			return map[string]any{"balances": fmt.Sprint(shared, amounts), "requests": descs, "schedule_len": len(s.Trace), "commit_order": s.CommitOrder()}
		}, fmt.Sprintf("writers:%d", nw), fmt.Sprintf("switches:%d", min(s.Switches, 5)))
		st.Add("completed_checks", 1)
	})
}

var _ = sort.Strings
var _ = bytes.Equal
var _ = paginate.OrderAsc
var _ = features.FeatureHashLogs
var _ = gen.Assets
var _ = pgsim.Null
var _ = refmodel.New

// ---------------------------------------------------------------- generic

type concWriter struct {
	Desc string
	Run  func(c ctrlOf) concOutcome
}

type ctrlOf = interface {
	createTx(r TxRequest) concOutcome
	revert(r RevertRequest) concOutcome
}

type liveCtrl struct {
	w *World
	l *LState
	// pre, when set, is a controller chain obtained before the writers started (a request that read the
	// ledger row earlier than the others); otherwise the chain is obtained when the writer starts
	pre ledgercontroller.Controller
}

func (lc liveCtrl) open() (ledgercontroller.Controller, error) {
	if lc.pre != nil {
		return lc.pre, nil
	}
	return lc.w.Env.Ledger(lc.w.Ctx, lc.l.Name)
}

func (lc liveCtrl) createTx(r TxRequest) concOutcome {
	c, err := lc.open()
	if err != nil {
		return concOutcome{Kind: ErrOther, Err: err}
	}
	log, res, hit, err := c.CreateTransaction(lc.w.Ctx, r.params())
	o := concOutcome{Kind: classify(err), Err: err, Log: log, Hit: hit}
	if err == nil {
		o.Tx = &res.Transaction
	}
	return o
}

func (lc liveCtrl) revert(r RevertRequest) concOutcome {
	c, err := lc.open()
	if err != nil {
		return concOutcome{Kind: ErrOther, Err: err}
	}
	log, res, hit, err := c.RevertTransaction(lc.w.Ctx, revertParams(r))
	o := concOutcome{Kind: classify(err), Err: err, Log: log, Hit: hit}
	if err == nil {
		o.Tx = &res.RevertTransaction
	}
	return o
}

// runWriters executes the writers concurrently under a drawn schedule.
func (w *World) runWriters(rt *rapid.T, l *LState, ws []concWriter) ([]concOutcome, *Sched, bool) {
	outs := make([]concOutcome, len(ws))
	s := NewSched(w)
	for i, cw := range ws {
		i, cw := i, cw
		lc := liveCtrl{w: w, l: l}
		if w.PreOpen > 0 && i < w.PreOpen {
			c, err := w.Env.Ledger(w.Ctx, l.Name)
			if err != nil {
				w.harness("%v", err)
			}
			lc.pre = c
		}
		s.Go(fmt.Sprintf("w%d", i), func() { outs[i] = cw.Run(lc) })
	}
	ok := s.Run(rt)
	for _, o := range outs {
		if o.Err != nil {
			w.checkErr(o.Err)
		}
	}
	return outs, s, ok
}

func describeOuts(ws []concWriter, outs []concOutcome) string {
	var sb strings.Builder
	for i, o := range outs {
		sb.WriteString(fmt.Sprintf("  w%d %s => ", i, ws[i].Desc))
		switch {
		case o.Err != nil:
			sb.WriteString(string(o.Kind) + ": " + truncateErr(o.Err))
		case o.Hit:
			sb.WriteString(fmt.Sprintf("idempotency hit (log %d)", *o.Log.ID))
		case o.Tx != nil:
			sb.WriteString(fmt.Sprintf("tx %d log %d", *o.Tx.ID, *o.Log.ID))
		default:
			sb.WriteString("ok")
		}
		sb.WriteString("\n")
	}
	return sb.String()
}

// ---------------------------------------------------------------------- C13

const ruleC13 = "2-4 requests sharing one idempotency key — same input, or one with a different input — for creates (including a spend-all transfer whose second execution would fail on its own) and reverts, run sequentially or concurrently under a drawn statement-level interleaving on a funded ledger; at most one transaction/log may exist for the key, every caller must get the original result flagged as a hit, its own success (exactly one caller), or an idempotency conflict / invalid-input error — never a business error that contradicts the committed outcome; a different input must be refused with no effect; non-trivial = concurrent run in which a second request starts before the first commits; distinct = by requests + schedule"

func TestC13(t *testing.T) {
	st := stats.New("C13", "exploration", ruleC13, assumePgsim, assumeSched)
	defer st.Write(t)
	n := stats.N(300, 900)
	st.Set("requested_checks", n)
	stats.Check(t, n, 13, func(rt *rapid.T) {
		w := NewWorld(rt, st, env.Options{}, "C13")
		defer w.Close()
		l := w.AddLedger("l1", "b1", GenFeatures(rt))
		bal := int64(rapid.IntRange(1, 50).Draw(rt, "balance"))
		w.fund(l, []string{"a"}, "USD/2", []int64{bal})
		ik := "ik-" + rapid.SampledFrom([]string{"1", "x y", `q"`}).Draw(rt, "ik")
		spendAll := rapid.Bool().Draw(rt, "spendAll")
		amt := bal
		if !spendAll {
			amt = int64(rapid.IntRange(1, int(bal)).Draw(rt, "amt"))
		}
		base := TxRequest{Postings: ledger.Postings{ledger.NewPosting("a", "u:1", "USD/2", big.NewInt(amt))}, IK: ik}
		other := TxRequest{Postings: ledger.Postings{ledger.NewPosting("a", "u:2", "USD/2", big.NewInt(1))}, IK: ik}
		nw := rapid.IntRange(2, 4).Draw(rt, "callers")
		different := -1
		if rapid.IntRange(0, 2).Draw(rt, "withDifferentInput") == 0 {
			different = rapid.IntRange(0, nw-1).Draw(rt, "differentIdx")
		}
		var ws []concWriter
		for i := 0; i < nw; i++ {
			r := base
			if i == different {
				r = other
			}
			ws = append(ws, concWriter{Desc: "create " + r.describe(), Run: func(c ctrlOf) concOutcome { return c.createTx(r) }})
		}
		concurrent := rapid.IntRange(0, 3).Draw(rt, "concurrent") != 0
		var outs []concOutcome
		var s *Sched
		if concurrent {
			var ok bool
			outs, s, ok = w.runWriters(rt, l, ws)
			if !ok {
				return
			}
		} else {
			for _, cw := range ws {
				outs = append(outs, cw.Run(liveCtrl{w: w, l: l}))
			}
			s = &Sched{}
		}
		sched := strings.Join(s.Trace, "\n  ")
		// ---- oracle
		successes, hits := 0, 0
		var firstLog uint64
		for i, o := range outs {
			switch {
			case o.Err == nil && !o.Hit:
				successes++
				firstLog = *o.Log.ID
			case o.Err == nil && o.Hit:
				hits++
			case o.Kind == ErrIdempotencyInput:
			case isIKConflict(o.Err):
			default:
				w.V("C13", "caller %d got %q (%v), which contradicts the idempotent outcome\n%s\nschedule:\n  %s", i, o.Kind, o.Err, describeOuts(ws, outs), sched)
			}
		}
		if successes > 1 {
			w.V("C13", "%d callers executed the write for one idempotency key\n%s\nschedule:\n  %s", successes, describeOuts(ws, outs), sched)
		}
		if successes == 0 && hits > 0 {
			w.V("C13", "idempotency hits without any executed write\n%s", describeOuts(ws, outs))
		}
		for i, o := range outs {
			if o.Err == nil && o.Hit && *o.Log.ID != firstLog && successes == 1 {
				w.V("C13", "caller %d got a hit on log %d, the executed write is log %d\n%s", i, *o.Log.ID, firstLog, describeOuts(ws, outs))
			}
		}
		// the database holds at most one log / transaction for the key
		rows := w.Env.Sim.Rows("b1", "logs")
		nLogs := 0
		for _, r := range rows {
			if r["idempotency_key"].S == ik {
				nLogs++
			}
		}
		if nLogs > 1 || (successes == 1) != (nLogs == 1) {
			w.V("C13", "%d logs carry the idempotency key after %d executed write(s)\n%s\nschedule:\n  %s", nLogs, successes, describeOuts(ws, outs), sched)
		}
		if got := len(w.Env.Sim.Rows("b1", "transactions")); got != 1+nLogs {
			w.V("C13", "%d transactions stored, expected %d (funding + %d)\n%s\nschedule:\n  %s", got, 1+nLogs, nLogs, describeOuts(ws, outs), sched)
		}
		st.Case(fmt.Sprint(ik, amt, bal, different, concurrent)+sched, concurrent && s.Switches >= 1, func() any {
			return map[string]any{"callers": nw, "spend_all": spendAll, "different_input_at": different, "outcomes": describeOuts(ws, outs), "schedule_len": len(s.Trace)}
		}, fmt.Sprintf("concurrent:%v", concurrent), fmt.Sprintf("spendAll:%v", spendAll), fmt.Sprintf("different:%v", different >= 0))
		st.Add("completed_checks", 1)
	})
}

func isIKConflict(err error) bool {
	return err != nil && strings.Contains(err.Error(), "idempotency key")
}

// ------------------------------------------------------- C14 / C15 / C16 / C09 concurrent

const ruleConc = "a funded ledger, then 2-4 concurrent writers under a drawn statement-level interleaving: creates sharing a reference, reverts of one transaction, and independent creates on disjoint accounts; per property: at most one transaction per reference and the losers get the reference-conflict error (C14); exactly one revert succeeds and the others get already-reverted, the original and its single revert cancel out (C15); transaction and log ids are unique and, in database commit order, never decrease (C16); with HASH_LOGS=SYNC every stored hash equals the chain hash of its predecessor in id order, recomputed by the stand-in's reference and by the real Log.ComputeHash, so no two logs chain from the same predecessor (C09); the journal grows by exactly one log per successful write and, replayed by id into a fresh reference model, equals every read of the ledger (C08); non-trivial = >= 1 context switch inside an open transaction; distinct = by requests + schedule"

func runConcurrentMix(t *testing.T, id string, fs func(*rapid.T) features.FeatureSet, mix func(rt *rapid.T, w *World, l *LState) []concWriter, oracle func(w *World, l *LState, ws []concWriter, outs []concOutcome, s *Sched)) {
	st := stats.New(id, "exploration", ruleConc, assumePgsim, assumeSched)
	defer st.Write(t)
	for _, line := range knownLines[id] {
		st.Known(line)
	}
	n := stats.N(300, 900)
	st.Set("requested_checks", n)
	stats.Check(t, n, 0, func(rt *rapid.T) {
		w := NewWorld(rt, st, env.Options{}, id)
		defer w.Close()
		l := w.AddLedger("l1", "b1", fs(rt))
		// one run in three starts on a ledger that nobody has written to yet ('initializing'): the writers race for
		// the first write, some of them opening the ledger before and some after the state has moved to 'in-use'
		fresh := freshAllowed[id] && rapid.IntRange(0, 2).Draw(rt, "freshLedger") == 0
		if !fresh {
			w.fund(l, []string{"a", "bank"}, "USD/2", []int64{100, 100})
		}
		ws := mix(rt, w, l)
		if fresh {
			// some of the first writers have read the ledger row (state 'initializing') before anybody wrote
			w.PreOpen = rapid.IntRange(0, 3).Draw(rt, "openedBeforeTheFirstWrite")
			// a few more first writers, all drawing on world so that they do write, each on an asset and a
			// destination of its own: nothing but the ledger-level locks serialises them
			for i, k := 0, rapid.IntRange(1, 4).Draw(rt, "extraFirstWriters"); i < k; i++ {
				r := TxRequest{Postings: ledger.Postings{ledger.NewPosting("world", fmt.Sprintf("p:%d", i), fmt.Sprintf("A%d", i), big.NewInt(int64(rapid.IntRange(1, 9).Draw(rt, "amt"))))}}
				ws = append(ws, concWriter{Desc: "create " + r.describe(), Run: func(c ctrlOf) concOutcome { return c.createTx(r) }})
			}
			if rapid.Bool().Draw(rt, "onlyDisjointWriters") {
				ws = ws[len(ws)-min(len(ws), 4):]
			}
		}
		outs, s, ok := w.runWriters(rt, l, ws)
		if !ok {
			return
		}
		oracle(w, l, ws, outs, s)
		st.Case(describeOuts(ws, outs)+strings.Join(s.Trace, "|"), s.Switches >= 1, func() any {
			return map[string]any{"outcomes": describeOuts(ws, outs), "schedule_len": len(s.Trace), "commit_order": s.CommitOrder()}
		}, fmt.Sprintf("writers:%d", len(ws)), fmt.Sprintf("switches:%d", min(s.Switches, 5)), fmt.Sprintf("fresh-ledger:%v", fresh))
		st.Add("completed_checks", 1)
	})
}

// freshAllowed lists the concurrent checks whose writer mix does not need a pre-existing transaction.
var freshAllowed = map[string]bool{"C14": true, "C16": true, "C09": true, "C08": true}

func genMix(refs bool, reverts bool) func(rt *rapid.T, w *World, l *LState) []concWriter {
	return func(rt *rapid.T, w *World, l *LState) []concWriter {
		nw := rapid.IntRange(2, 4).Draw(rt, "writers")
		var ws []concWriter
		for i := 0; i < nw; i++ {
			kind := rapid.IntRange(0, 2).Draw(rt, "kind")
			switch {
			case reverts && kind == 0 && len(l.M.Txs) > 0:
				r := RevertRequest{ID: l.M.Txs[0].ID, Force: rapid.Bool().Draw(rt, "force"), AtEffectiveDate: rapid.Bool().Draw(rt, "atEff")}
				ws = append(ws, concWriter{Desc: fmt.Sprintf("revert %d force=%v", r.ID, r.Force), Run: func(c ctrlOf) concOutcome { return c.revert(r) }})
			default:
				src := rapid.SampledFrom([]string{"world", "a", "bank"}).Draw(rt, "src")
				dst := rapid.SampledFrom([]string{"u:1", "u:2", "a:b"}).Draw(rt, "dst")
				r := TxRequest{Postings: ledger.Postings{ledger.NewPosting(src, dst, "USD/2", big.NewInt(int64(rapid.IntRange(0, 40).Draw(rt, "amt"))))}}
				if refs && kind != 2 {
					r.Reference = rapid.SampledFrom([]string{"r1", "r2"}).Draw(rt, "ref")
				}
				ws = append(ws, concWriter{Desc: "create " + r.describe(), Run: func(c ctrlOf) concOutcome { return c.createTx(r) }})
			}
		}
		return ws
	}
}

func TestC14Concurrent(t *testing.T) {
	runConcurrentMix(t, "C14", GenFeatures, genMix(true, false), func(w *World, l *LState, ws []concWriter, outs []concOutcome, s *Sched) {
		byRef := map[string]int{}
		for i, o := range outs {
			if strings.HasPrefix(ws[i].Desc, "create") && o.Err == nil && o.Tx.Reference != "" {
				byRef[o.Tx.Reference]++
			}
			if o.Kind == ErrAccountRace {
				w.St.Class("account-first-use-race")
			}
			if o.Err != nil && o.Kind != ErrReferenceConflict && o.Kind != ErrInsufficientFunds && o.Kind != ErrAccountRace {
				w.V("C14", "unexpected error %q (%v)\n%s\nschedule:\n  %s", o.Kind, o.Err, describeOuts(ws, outs), strings.Join(s.Trace, "\n  "))
			}
		}
		for ref, n := range byRef {
			if n > 1 {
				w.V("C14", "%d concurrent creates succeeded with reference %q\n%s\nschedule:\n  %s", n, ref, describeOuts(ws, outs), strings.Join(s.Trace, "\n  "))
			}
		}
		stored := map[string]int{}
		for _, r := range w.Env.Sim.Rows("b1", "transactions") {
			if !r["reference"].IsNull() && r["reference"].S != "" {
				stored[r["reference"].S]++
			}
		}
		for ref, n := range stored {
			if n > 1 {
				w.V("C14", "%d stored transactions carry reference %q", n, ref)
			}
		}
		for i, o := range outs {
			if o.Kind == ErrReferenceConflict {
				// the loser's reference must indeed be held by a committed transaction
				ref := ws[i].Desc[strings.Index(ws[i].Desc, "ref=")+4:]
				if stored[strings.Fields(ref)[0]] == 0 {
					w.V("C14", "writer %d was refused with a reference conflict but no stored transaction holds %q\n%s", i, ref, describeOuts(ws, outs))
				}
			}
		}
	})
}

func TestC15Concurrent(t *testing.T) {
	runConcurrentMix(t, "C15", GenFeatures, genMix(false, true), func(w *World, l *LState, ws []concWriter, outs []concOutcome, s *Sched) {
		ok := 0
		for i, o := range outs {
			if !strings.HasPrefix(ws[i].Desc, "revert") {
				continue
			}
			switch o.Kind {
			case ErrNone:
				ok++
			case ErrAlreadyReverted, ErrInsufficientFunds:
			default:
				w.V("C15", "revert writer %d got %q (%v)\n%s\nschedule:\n  %s", i, o.Kind, o.Err, describeOuts(ws, outs), strings.Join(s.Trace, "\n  "))
			}
		}
		if ok > 1 {
			w.V("C15", "%d concurrent reverts of the same transaction succeeded\n%s\nschedule:\n  %s", ok, describeOuts(ws, outs), strings.Join(s.Trace, "\n  "))
		}
		nRev := 0
		for _, r := range w.Env.Sim.Rows("b1", "transactions") {
			if strings.Contains(r["metadata"].String(), "com.formance.spec/state/reverts") {
				nRev++
			}
		}
		if nRev != ok {
			w.V("C15", "%d revert transactions stored for %d successful reverts\n%s", nRev, ok, describeOuts(ws, outs))
		}
	})
}

// reproduceCommitOrder: two creates on disjoint accounts; the first allocates its
// transaction id, the second runs to completion, then the first commits.
func reproduceCommitOrder() bool {
	w := NewWorld(&quietT{}, nil, env.Options{})
	defer w.Close()
	l := w.AddLedger("l1", "b1", features.MinimalFeatureSet)
	w.fund(l, []string{"a"}, "USD/2", []int64{1}) // moves the ledger out of 'initializing' (first writes are serialised)
	outs := make([]concOutcome, 2)
	s := NewSched(w)
	for i, pair := range [][2]string{{"a", "u:1"}, {"bank", "u:2"}} {
		i, pair := i, pair
		s.Go(fmt.Sprintf("w%d", i), func() {
			// disjoint accounts: nothing in the database serialises the two writers
			outs[i] = liveCtrl{w: w, l: l}.createTx(TxRequest{Postings: ledger.Postings{ledger.NewPosting(pair[0], pair[1], "USD/2", big.NewInt(1))}, Force: true})
		})
	}
	phase := 0
	ok := s.RunWith(&quietT{}, func(runnable []*writer) *writer {
		byID := map[int]*writer{}
		for _, r := range runnable {
			byID[r.id] = r
		}
		// w0 until it has inserted its transaction row, then w1 to the end, then w0
		if phase == 0 {
			for _, tr := range s.Trace {
				if strings.HasPrefix(tr, "w0: INSERT INTO \"b1\".moves") || strings.HasPrefix(tr, "w0: WITH data_batch") {
					phase = 1
				}
			}
		}
		if phase == 0 && byID[0] != nil {
			return byID[0]
		}
		if byID[1] != nil {
			return byID[1]
		}
		return runnable[0]
	})
	if !ok || outs[0].Err != nil || outs[1].Err != nil {
		return false
	}
	order := s.CommitOrder()
	if os.Getenv("VERIF_DEBUG") != "" {
		fmt.Println("order", order, "ids", *outs[0].Tx.ID, *outs[1].Tx.ID, "\n", strings.Join(s.Trace, "\n"))
	}
	return len(order) == 2 && order[0] == 1 && *outs[0].Tx.ID < *outs[1].Tx.ID
}

func TestC16Concurrent(t *testing.T) {
	if known.IsOpen(FindingCommitOrder) && reproduceCommitOrder() {
		fmt.Println(known.Line(FindingCommitOrder))
		knownLines["C16"] = append(knownLines["C16"], known.Line(FindingCommitOrder))
	}
	runConcurrentMix(t, "C16", GenFeatures, genMix(false, false), func(w *World, l *LState, ws []concWriter, outs []concOutcome, s *Sched) {
		seenTx, seenLog := map[uint64]int{}, map[uint64]int{}
		for i, o := range outs {
			if o.Err != nil && o.Kind == ErrOther {
				// an id handed out twice surfaces as a unique violation on (ledger, id) for the second writer
				msg := o.Err.Error()
				if strings.Contains(msg, "transactions_ledger") || strings.Contains(msg, "logs_ledger") || strings.Contains(msg, "concurrent transaction") {
					w.V("C16", "writer %d failed because its id was already taken: %v\n%s\nschedule:\n  %s", i, o.Err, describeOuts(ws, outs), strings.Join(s.Trace, "\n  "))
				}
			}
			if o.Err != nil || o.Hit {
				continue
			}
			if j, dup := seenTx[*o.Tx.ID]; dup {
				w.V("C16", "writers %d and %d both got transaction id %d", j, i, *o.Tx.ID)
			}
			if j, dup := seenLog[*o.Log.ID]; dup {
				w.V("C16", "writers %d and %d both got log id %d", j, i, *o.Log.ID)
			}
			seenTx[*o.Tx.ID], seenLog[*o.Log.ID] = i, i
		}
		// commit order. Two writers that move a common (account, asset) pair are serialised by the row lock on its volumes
		// before either draws its ids: between them, the later commit holds the larger ids. Writers on disjoint pairs are
		// the territory of the known finding (ids follow insertion, not commit).
		pairsOf := func(o concOutcome) map[[2]string]bool {
			m := map[[2]string]bool{}
			for _, p := range o.Tx.Postings {
				m[[2]string{p.Source, p.Asset}] = true
				m[[2]string{p.Destination, p.Asset}] = true
			}
			return m
		}
		var committed []int
		for _, wid := range s.CommitOrder() {
			o := outs[wid]
			if o.Err != nil || o.Hit || o.Tx == nil {
				continue
			}
			committed = append(committed, wid)
		}
		for bi, b := range committed {
			for _, a := range committed[:bi] {
				oa, ob := outs[a], outs[b]
				inOrder := *oa.Tx.ID < *ob.Tx.ID && *oa.Log.ID < *ob.Log.ID
				shared := false
				pa := pairsOf(oa)
				for k := range pairsOf(ob) {
					if pa[k] {
						shared = true
					}
				}
				switch {
				case inOrder:
				case shared:
					w.V("C16", "writers %d and %d move a common (account, asset) pair; %d committed first with transaction id %d / log id %d, %d after it with %d / %d: the later commit received a smaller id\n%s\nschedule:\n  %s", a, b, a, *oa.Tx.ID, *oa.Log.ID, b, *ob.Tx.ID, *ob.Log.ID, describeOuts(ws, outs), strings.Join(s.Trace, "\n  "))
				case known.IsOpen(FindingCommitOrder):
					if w.St != nil {
						w.St.Excluded(FindingCommitOrder)
					}
				default:
					w.V("C16", "writer %d committed after writer %d but received transaction id %d / log id %d (writer %d: %d / %d)\n%s\nschedule:\n  %s", b, a, *ob.Tx.ID, *ob.Log.ID, a, *oa.Tx.ID, *oa.Log.ID, describeOuts(ws, outs), strings.Join(s.Trace, "\n  "))
				}
			}
		}
		// requests that arrive once all of these have been answered (served by whichever pooled connection comes up)
		// are later commits in every sense: their ids exceed every id handed out so far
		var maxTx, maxLog uint64
		for _, r := range w.Env.Sim.Rows(l.Bucket, "transactions") {
			if r["ledger"].S == l.Name && r["id"].N.Uint64() > maxTx {
				maxTx = r["id"].N.Uint64()
			}
		}
		for _, r := range w.Env.Sim.Rows(l.Bucket, "logs") {
			if r["ledger"].S == l.Name && r["id"].N.Uint64() > maxLog {
				maxLog = r["id"].N.Uint64()
			}
		}
		for i := 0; i < 3; i++ {
			o := liveCtrl{w: w, l: l}.createTx(TxRequest{Postings: ledger.Postings{ledger.NewPosting("world", fmt.Sprintf("after:%d", i), "USD/2", big.NewInt(int64(1+i)))}})
			if o.Err != nil {
				w.checkErr(o.Err)
				w.V("C16", "a write sent after the concurrent ones were answered failed: %v\n%s", o.Err, describeOuts(ws, outs))
			}
			if *o.Tx.ID <= maxTx || *o.Log.ID <= maxLog {
				w.V("C16", "a write sent after every concurrent one had been answered received transaction id %d / log id %d; the ledger had already stored ids up to %d / %d\n%s\nschedule:\n  %s", *o.Tx.ID, *o.Log.ID, maxTx, maxLog, describeOuts(ws, outs), strings.Join(s.Trace, "\n  "))
			}
			maxTx, maxLog = *o.Tx.ID, *o.Log.ID
		}
	})
}

// TestC08Concurrent: under concurrency too, every write that succeeds appends exactly one log, the others none, and
// the journal alone (replayed by id) determines what the ledger then answers.
func TestC08Concurrent(t *testing.T) {
	runConcurrentMix(t, "C08", GenFeatures, genMix(true, true), func(w *World, l *LState, ws []concWriter, outs []concOutcome, s *Sched) {
		sched := strings.Join(s.Trace, "\n  ")
		before := len(l.M.Logs)
		var rows int
		ids := map[string]bool{}
		for _, r := range w.Env.Sim.Rows(l.Bucket, "logs") {
			if r["ledger"].S == l.Name {
				rows++
				ids[r["id"].N.String()] = true
			}
		}
		succeeded := 0
		for i, o := range outs {
			if o.Err != nil || o.Hit {
				continue
			}
			succeeded++
			if o.Log == nil || o.Log.ID == nil || !ids[fmt.Sprint(*o.Log.ID)] {
				w.V("C08", "writer %d succeeded but the log it was given is not in the journal\n%s\nschedule:\n  %s", i, describeOuts(ws, outs), sched)
			}
		}
		if rows-before != succeeded {
			w.V("C08", "%d writers succeeded but the journal grew by %d logs\n%s\nschedule:\n  %s", succeeded, rows-before, describeOuts(ws, outs), sched)
		}
		w.Reopen(l)
		exported := w.exportLogs(l)
		replayed, err := ReplayLogs(exported)
		if err != nil {
			w.V("C08", "the journal cannot be replayed after the concurrent writes: %v\n%s", err, describeOuts(ws, outs))
			return
		}
		l.M = replayed
		for _, lg := range exported {
			l.M.Logs = append(l.M.Logs, logOf(*lg.ID, lg.Type.String(), nil))
		}
		l.Ops = append(l.Ops, "(concurrent writes)\n"+describeOuts(ws, outs)+"schedule:\n  "+sched)
		w.Focus = nil // the journal and the state must agree on every read
		w.CheckTransactions(l, nil, 15, 0)
		w.CheckAccounts(l, nil, 15)
		w.CheckVolumes(l, nil, nil, false, 0, 15)
		w.CheckAggregated(l, nil, false, nil, nil)
		w.Focus = map[string]bool{"C08": true}
	})
}

const FindingCommitOrder = "C16-ids-not-in-commit-order"

func hashFeatures(*rapid.T) features.FeatureSet { return features.DefaultFeatures }

// hashSyncFeatures draws any feature combination with HASH_LOGS=SYNC.
func hashSyncFeatures(t *rapid.T) features.FeatureSet {
	fs := GenFeatures(t)
	return fs.With(features.FeatureHashLogs, "SYNC")
}

func init() {
	postRun["C09"] = func(rt *rapid.T, w *World, l *LState) {
		w.checkHashChain(l, l.History())
		// the exported stream alone must reproduce every stored hash too
		var prev *ledger.Log
		exported := w.exportLogs(l)
		for i := range exported {
			lg := exported[i]
			stored := lg.Hash
			lg.Hash = nil
			lg.ComputeHash(prev)
			if !bytes.Equal(lg.Hash, stored) {
				w.V("C09", "exported log %d: recomputing the chain from the export gives %x, stored hash is %x\nhistory:\n  %s", *lg.ID, lg.Hash, stored, l.History())
				break
			}
			p := exported[i]
			prev = &p
		}
		if len(exported) != len(l.M.Logs) {
			w.V("C09", "export lists %d logs, %d were committed", len(exported), len(l.M.Logs))
		}
	}
}

// TestC09 decides the content half of the property on sequential histories with random log contents.
func TestC09(t *testing.T) {
	runFocused(t, "C09", histGen+", with HASH_LOGS=SYNC under every other feature combination and idempotency keys / adversarial strings in payloads; at the end the listed and the exported journal are re-chained with the real Log.ComputeHash while the stored hashes come from the stand-in's independent implementation of the documented format (SHA-256 over JSON(previous hash) + JSON{type,data,date,idempotencyKey,id:0,hash:null[,schemaVersion]}); non-trivial = >= 4 logs of >= 3 kinds; distinct = by operation history",
		HistOpts{Focus: []string{"C09"}, Features: hashSyncFeatures, Steps: 25, Scripts: true, Reverts: true, Metadata: true, Reads: false, FinalReads: false}, 300, 700,
		func(s *HistorySummary) bool { return s.Commits >= 4 && s.Reverts >= 1 && s.MetaOps >= 1 })
}

func TestC09Concurrent(t *testing.T) {
	runConcurrentMix(t, "C09", hashFeatures, genMix(true, true), func(w *World, l *LState, ws []concWriter, outs []concOutcome, s *Sched) {
		w.checkHashChain(l, strings.Join(s.Trace, "\n  "))
	})
}

// checkHashChain recomputes the chain from the listed logs with the stand-in's
// reference (documented format) and with the real Log.ComputeHash.
func (w *World) checkHashChain(l *LState, sched string) {
	c, err := w.Env.Ledger(w.Ctx, l.Name)
	if err != nil {
		w.harness("%v", err)
	}
	keep := l.C
	l.C = w.wrap(l.Name, c)
	defer func() { l.C = keep }()
	logs, _, err := paginateAll(w, "ListLogs", initialLogsQuery(), func(q pagedQuery) (*paginate.Cursor[ledger.Log], error) { return l.C.ListLogs(w.Ctx, q) })
	if err != nil {
		w.V("C09", "ListLogs failed: %v", err)
		return
	}
	var prev *ledger.Log
	for i := range logs {
		lg := logs[i]
		if len(lg.Hash) == 0 {
			w.V("C09", "log %d has no hash although HASH_LOGS=SYNC", *lg.ID)
			return
		}
		if prev != nil && *lg.ID <= *prev.ID {
			w.V("C09", "logs not listed in increasing id order")
		}
		recomputed := lg
		recomputed.Hash = nil
		recomputed.ComputeHash(prev)
		if !bytes.Equal(recomputed.Hash, lg.Hash) {
			pid := uint64(0)
			if prev != nil {
				pid = *prev.ID
			}
			w.V("C09", "log %d: stored hash %x does not chain from log %d (Log.ComputeHash gives %x): the chain is not linear or the formats differ\nschedule:\n  %s", *lg.ID, lg.Hash, pid, recomputed.Hash, sched)
		}
		p := logs[i]
		prev = &p
	}
}

type pagedQuery = common.PaginatedQuery[any]

func initialLogsQuery() common.InitialPaginatedQuery[any] {
	asc := paginate.Order(paginate.OrderAsc)
	return common.InitialPaginatedQuery[any]{PageSize: 15, Order: &asc}
}

// ------------------------------------------------------- C13 over every write kind

const ruleC13Kinds = "2-4 requests sharing one idempotency key, over every write kind (create by postings incl. spend-all, revert with nil / empty / non-empty metadata, force and atEffectiveDate, save / delete transaction metadata, save / delete account metadata): the callers use one base input, except possibly one caller with another input (same or other kind); sequential or concurrent under a drawn statement-level interleaving. Oracle by input class: exactly one caller executes; callers with the executed input get that log back flagged as a hit (or, concurrently only, a key-conflict error); callers with another input get the invalid-idempotency-input error (or a key conflict); exactly one log carries the key; non-trivial = a replay of the executed input after it committed, on a kind other than create; distinct = by requests + schedule"

type ikCaller struct {
	op    evOp
	class string
}

func TestC13Kinds(t *testing.T) {
	st := stats.New("C13", "exploration", ruleC13Kinds, assumePgsim, assumeSched)
	defer st.Write(t)
	n := stats.N(300, 900)
	st.Set("requested_checks", n)
	stats.Check(t, n, 1313, func(rt *rapid.T) {
		w := NewWorld(rt, st, env.Options{}, "C13")
		defer w.Close()
		l := w.AddLedger("l1", "b1", GenFeatures(rt))
		w.fund(l, []string{"bank"}, "USD/2", []int64{40})
		if out := w.CreateTx(l, TxRequest{Postings: ledger.Postings{ledger.NewPosting("world", "u:1", "USD/2", big.NewInt(9))}, Metadata: map[string]string{"k": "v"}}); out.Kind != ErrNone {
			w.harness("seeding failed: %v", out.Err)
		}
		w.SaveAccountMeta(l, "u:1", map[string]string{"role": "x"}, false)
		ik := "ik-" + rapid.SampledFrom([]string{"1", "x y", `q"`}).Draw(rt, "ik")
		genOp := func(label string) evOp {
			o := evOp{Kind: rapid.SampledFrom([]string{"create", "createScript", "revert", "revert", "saveTxMeta", "deleteTxMeta", "saveAccMeta", "deleteAccMeta"}).Draw(rt, label+"Kind"), IK: ik}
			switch o.Kind {
			case "create":
				amt := int64(rapid.SampledFrom([]int{1, 5, 40}).Draw(rt, label+"Amt"))
				o.Post = ledger.Postings{ledger.NewPosting("bank", rapid.SampledFrom([]string{"u:1", "u:2"}).Draw(rt, label+"Dst"), "USD/2", big.NewInt(amt))}
			case "createScript":
				// a script that sets transaction metadata itself, with or without a metadata object in the request
				o.Kind = "create"
				amt := rapid.SampledFrom([]int{1, 5, 40}).Draw(rt, label+"Amt")
				o.Script = fmt.Sprintf("send [USD/2 %d] (\n source = @bank\n destination = @%s\n)", amt, rapid.SampledFrom([]string{"u:1", "u:2"}).Draw(rt, label+"Dst"))
				if rapid.IntRange(0, 3).Draw(rt, label+"SetsMeta") != 0 {
					o.Script += "\nset_tx_meta(\"origin\", \"script\")"
				}
				switch rapid.IntRange(0, 2).Draw(rt, label+"ReqMeta") {
				case 0:
					o.MetaNil = true
				case 1:
					o.Meta = map[string]string{}
				default:
					o.Meta = map[string]string{"k": rapid.SampledFrom([]string{"v", "w"}).Draw(rt, label+"ReqVal")}
				}
			case "revert":
				o.TxID = uint64(rapid.IntRange(1, 2).Draw(rt, label+"Tx"))
				o.Force = rapid.Bool().Draw(rt, label+"Force")
				o.AtEffectiveDate = rapid.IntRange(0, 3).Draw(rt, label+"AtEff") == 0
				switch rapid.IntRange(0, 2).Draw(rt, label+"Meta") {
				case 0:
					o.NilMeta = true
				case 1:
					o.Meta = map[string]string{}
				default:
					o.Meta = map[string]string{"why": rapid.SampledFrom([]string{"a", "b"}).Draw(rt, label+"Why")}
				}
			case "saveTxMeta":
				o.TxID = uint64(rapid.IntRange(1, 2).Draw(rt, label+"Tx"))
				o.Meta = map[string]string{rapid.SampledFrom([]string{"k", "k2"}).Draw(rt, label+"Key"): rapid.SampledFrom([]string{"v", "w"}).Draw(rt, label+"Val")}
			case "deleteTxMeta":
				o.TxID, o.Key = 2, "k"
			case "saveAccMeta":
				o.Addr = rapid.SampledFrom([]string{"u:1", "u:3"}).Draw(rt, label+"Addr")
				o.Meta = map[string]string{"role": rapid.SampledFrom([]string{"x", "y"}).Draw(rt, label+"Val")}
			case "deleteAccMeta":
				o.Addr, o.Key = "u:1", "role"
			}
			return o
		}
		base := genOp("base")
		nw := rapid.IntRange(2, 4).Draw(rt, "callers")
		callers := make([]ikCaller, nw)
		for i := range callers {
			callers[i] = ikCaller{op: base, class: base.String()}
		}
		if rapid.IntRange(0, 2).Draw(rt, "withDifferentInput") == 0 {
			other := genOp("other")
			if other.String() != base.String() {
				callers[rapid.IntRange(0, nw-1).Draw(rt, "differentIdx")] = ikCaller{op: other, class: other.String()}
			}
		}
		type res struct {
			log *ledger.Log
			hit bool
			err error
		}
		outs := make([]res, nw)
		run := func(i int) {
			c, err := w.Env.Ledger(w.Ctx, l.Name)
			if err != nil {
				outs[i] = res{err: err}
				return
			}
			log, hit, err := callers[i].op.run(w.Ctx, c)
			outs[i] = res{log, hit, err}
		}
		concurrent := rapid.IntRange(0, 2).Draw(rt, "concurrent") != 0
		sched := ""
		switches := 0
		if concurrent {
			s := NewSched(w)
			for i := range callers {
				i := i
				s.Go(fmt.Sprintf("w%d", i), func() { run(i) })
			}
			if !s.Run(rt) {
				return
			}
			sched = strings.Join(s.Trace, "\n  ")
			switches = s.Switches
		} else {
			for i := range callers {
				run(i)
			}
		}
		for _, o := range outs {
			if o.err != nil {
				w.checkErr(o.err)
			}
		}
		describe := func() string {
			var sb strings.Builder
			for i, c := range callers {
				out := "ok"
				switch {
				case outs[i].err != nil:
					out = string(classify(outs[i].err)) + ": " + truncateErr(outs[i].err)
				case outs[i].hit:
					out = fmt.Sprintf("hit on log %d", *outs[i].log.ID)
				default:
					out = fmt.Sprintf("executed, log %d", *outs[i].log.ID)
				}
				fmt.Fprintf(&sb, "  caller %d: %s => %s\n", i, c.op, out)
			}
			return sb.String()
		}
		winner := -1
		for i, o := range outs {
			if o.err == nil && !o.hit {
				if winner >= 0 {
					w.V("C13", "two callers executed the write for one idempotency key\n%sschedule:\n  %s", describe(), sched)
				}
				winner = i
			}
		}
		nLogs := 0
		for _, r := range w.Env.Sim.Rows("b1", "logs") {
			if r["idempotency_key"].S == ik {
				nLogs++
			}
		}
		if (winner >= 0) != (nLogs == 1) || nLogs > 1 {
			w.V("C13", "%d logs carry the idempotency key (executed write: caller %d)\n%sschedule:\n  %s", nLogs, winner, describe(), sched)
		}
		replayAfterCommit := false
		if winner >= 0 {
			for i, o := range outs {
				if i == winner {
					continue
				}
				same := callers[i].class == callers[winner].class
				switch {
				case o.err != nil && concurrent && isIKConflict(o.err) && classify(o.err) != ErrIdempotencyInput:
					// lost the race on the unique index and was told so
				case same && o.err == nil && o.hit && *o.log.ID == *outs[winner].log.ID:
					if !concurrent || i > winner {
						replayAfterCommit = true
					}
				case !same && classify(o.err) == ErrIdempotencyInput:
				default:
					what := "the executed input"
					if !same {
						what = "another input"
					}
					w.V("C13", "caller %d sent %s under the key and got a wrong answer\n%sschedule:\n  %s", i, what, describe(), sched)
				}
			}
		} else {
			for i, o := range outs {
				if o.err == nil {
					w.V("C13", "caller %d got a hit although no write was executed for the key\n%s", i, describe())
				}
			}
		}
		st.Case(describe()+sched, replayAfterCommit && base.Kind != "create" && (!concurrent || switches >= 1), func() any {
			return map[string]any{"callers": strings.Split(strings.TrimSpace(describe()), "\n"), "concurrent": concurrent}
		}, "kind:"+base.Kind, fmt.Sprintf("concurrent:%v", concurrent), fmt.Sprintf("winner:%v", winner >= 0))
		st.Add("completed_checks", 1)
	})
}

// ------------------------------------------------------- first-write races on a fresh ledger (C09, C16)

const ruleFirstWrite = "a ledger nobody has written to ('initializing'): 3-5 writers, each on an asset and a destination of its own (nothing but ledger-level locks serialises them), 1..n-1 of them holding a controller chain opened before the first write (they saw the ledger 'initializing'), the others opening it when they start (possibly after the state moved to 'in-use'); drawn interleavings incl. the preempt-before-COMMIT shape. "

func runFirstWriteRace(t *testing.T, id, rule string, quick, thorough int, oracle func(w *World, l *LState, ws []concWriter, outs []concOutcome, s *Sched)) {
	st := stats.New(id, "exploration", ruleFirstWrite+rule, assumePgsim, assumeSched)
	defer st.Write(t)
	n := stats.N(quick, thorough)
	st.Set("requested_checks", n)
	stats.Check(t, n, 909, func(rt *rapid.T) {
		w := NewWorld(rt, st, env.Options{}, id)
		defer w.Close()
		l := w.AddLedger("l1", "b1", features.DefaultFeatures)
		nw := rapid.IntRange(3, 5).Draw(rt, "writers")
		var ws []concWriter
		for i := 0; i < nw; i++ {
			r := TxRequest{Postings: ledger.Postings{ledger.NewPosting("world", fmt.Sprintf("p:%d", i), fmt.Sprintf("A%d", i), big.NewInt(int64(i+1)))}}
			ws = append(ws, concWriter{Desc: "create " + r.describe(), Run: func(c ctrlOf) concOutcome { return c.createTx(r) }})
		}
		w.PreOpen = rapid.IntRange(1, nw-1).Draw(rt, "openedBeforeTheFirstWrite")
		outs, s, ok := w.runWriters(rt, l, ws)
		if !ok {
			return
		}
		for i, o := range outs {
			if o.Err != nil {
				w.V(id, "first writer %d failed: %v\n%s\nschedule:\n  %s", i, o.Err, describeOuts(ws, outs), strings.Join(s.Trace, "\n  "))
			}
		}
		oracle(w, l, ws, outs, s)
		st.Case(fmt.Sprint(w.PreOpen)+strings.Join(s.Trace, "|"), s.Switches >= 1, func() any {
			return map[string]any{"writers": nw, "opened_before_first_write": w.PreOpen, "schedule_len": len(s.Trace), "commit_order": s.CommitOrder()}
		}, fmt.Sprintf("writers:%d", nw), fmt.Sprintf("preopened:%d", w.PreOpen))
		st.Add("completed_checks", 1)
	})
}

func TestC09FirstWrite(t *testing.T) {
	runFirstWriteRace(t, "C09", "Every stored hash must chain from its predecessor in id order; non-trivial = >= 1 context switch inside an open transaction; distinct = by schedule", 600, 1500,
		func(w *World, l *LState, ws []concWriter, outs []concOutcome, s *Sched) {
			w.checkHashChain(l, strings.Join(s.Trace, "\n  "))
		})
}

func TestC16FirstWrite(t *testing.T) {
	runFirstWriteRace(t, "C16", "No writer may fail, and no transaction or log id may be handed out twice; non-trivial = >= 1 context switch inside an open transaction; distinct = by schedule", 600, 1500,
		func(w *World, l *LState, ws []concWriter, outs []concOutcome, s *Sched) {
			seenTx, seenLog := map[uint64]int{}, map[uint64]int{}
			for i, o := range outs {
				if o.Err != nil || o.Tx == nil {
					continue
				}
				if j, dup := seenTx[*o.Tx.ID]; dup {
					w.V("C16", "writers %d and %d both got transaction id %d", j, i, *o.Tx.ID)
				}
				if j, dup := seenLog[*o.Log.ID]; dup {
					w.V("C16", "writers %d and %d both got log id %d", j, i, *o.Log.ID)
				}
				seenTx[*o.Tx.ID], seenLog[*o.Log.ID] = i, i
			}
		})
}
