package e2

import (
	"fmt"
	"math/big"
	"sort"
	"strings"
	"time"

	"github.com/formancehq/go-libs/v5/pkg/query"
	"github.com/formancehq/go-libs/v5/pkg/storage/bun/paginate"
	"github.com/formancehq/go-libs/v5/pkg/storage/postgres"
	"github.com/formancehq/go-libs/v5/pkg/types/pointer"
	libtime "github.com/formancehq/go-libs/v5/pkg/types/time"

	ledger "github.com/formancehq/ledger/internal"
	"github.com/formancehq/ledger/internal/storage/common"
	"github.com/formancehq/ledger/pkg/features"
	"github.com/formancehq/ledger/verifharness/pgsim"
	"github.com/formancehq/ledger/verifharness/refmodel"
)

func lt(t *time.Time) *libtime.Time {
	if t == nil {
		return nil
	}
	v := libtime.New(*t)
	return &v
}

// paginateAll follows next cursors from the first page to the end.
func paginateAll[T any, O any](w *World, what string, first common.InitialPaginatedQuery[O],
	fetch func(q common.PaginatedQuery[O]) (*paginate.Cursor[T], error)) ([]T, int, error) {
	var all []T
	var q common.PaginatedQuery[O] = first
	pages := 0
	for {
		cur, err := fetch(q)
		if err != nil {
			w.checkErr(err)
			return nil, pages, err
		}
		pages++
		all = append(all, cur.Data...)
		if first.PageSize > 0 && len(cur.Data) > int(first.PageSize) {
			w.V("C21", "%s: page of %d items for page size %d", what, len(cur.Data), first.PageSize)
		}
		if !cur.HasMore {
			if cur.Next != "" {
				w.V("C21", "%s: next cursor without hasMore", what)
			}
			return all, pages, nil
		}
		if cur.Next == "" {
			w.V("C21", "%s: hasMore without next cursor", what)
		}
		nq, err := common.UnmarshalCursor[O](cur.Next)
		if err != nil {
			w.V("C21", "%s: next cursor does not decode: %v", what, err)
		}
		q = nq
		if pages > 600 {
			w.V("C21", "%s: pagination does not terminate", what)
			return all, pages, nil // outside the focus of the running check: the walk is abandoned, not repeated for ever
		}
	}
}

// txVisibleAt: the model's view of a transaction at a point in time.
func txAt(tx *refmodel.Tx, pit *time.Time, history bool) (visible bool, reverted bool, meta map[string]string) {
	if pit == nil {
		return true, tx.RevertedAt != nil, tx.Metadata
	}
	if tx.Timestamp.After(*pit) {
		return false, false, nil
	}
	reverted = tx.RevertedAt != nil && !tx.RevertedAt.After(*pit)
	meta = tx.Metadata
	if history {
		meta = refmodel.MetaAt(tx.History, *pit)
		if meta == nil {
			meta = map[string]string{}
		}
	}
	return true, reverted, meta
}

// CheckTransactions lists all transactions (optionally at a point in time)
// and compares every field with the model (C02/C03/C04/C05/C15/C17/C21).
func (w *World) CheckTransactions(l *LState, pit *time.Time, pageSize uint64, order paginate.Order) {
	w.guard(func() { w.checkTransactions(l, pit, pageSize, order) })
}

func (w *World) checkTransactions(l *LState, pit *time.Time, pageSize uint64, order paginate.Order) {
	expand := []string{"volumes"}
	effective := l.Has(features.FeatureMovesHistory, "ON") && l.Has(features.FeatureMovesHistoryPostCommitEffectiveVolumes, "SYNC")
	if effective {
		expand = append(expand, "effectiveVolumes")
	}
	what := fmt.Sprintf("ListTransactions(%s pit=%v pageSize=%d order=%v)", l.Name, pit, pageSize, order)
	got, _, err := paginateAll(w, what, common.InitialPaginatedQuery[any]{PageSize: pageSize, Order: pointer.For(order),
		Options: common.ResourceQuery[any]{PIT: lt(pit), Expand: expand}}, func(q common.PaginatedQuery[any]) (*paginate.Cursor[ledger.Transaction], error) {
		return l.C.ListTransactions(w.Ctx, q)
	})
	if err != nil {
		w.V("C05", "%s failed: %v\nhistory:\n  %s", what, err, l.History())
	}
	history := l.Has(features.FeatureTransactionMetadataHistory, "SYNC")
	var want []*refmodel.Tx
	for _, tx := range l.M.Txs {
		if ok, _, _ := txAt(tx, pit, history); ok {
			want = append(want, tx)
		}
	}
	sort.Slice(want, func(i, j int) bool {
		if order == paginate.OrderAsc {
			return want[i].ID < want[j].ID
		}
		return want[i].ID > want[j].ID
	})
	if len(got) != len(want) {
		ids := []string{}
		for _, g := range got {
			ids = append(ids, fmt.Sprint(*g.ID))
		}
		w.V("C05", "%s returned %d transactions (ids %s), the model has %d\nhistory:\n  %s", what, len(got), strings.Join(ids, ","), len(want), l.History())
	}
	for i, g := range got {
		m := want[i]
		if *g.ID != m.ID {
			w.V("C21", "%s: position %d holds transaction %d, expected %d\nhistory:\n  %s", what, i, *g.ID, m.ID, l.History())
		}
		w.compareTx(l, what, g, m, pit, effective)
	}
	// every transaction read by its id answers like the listing (and is unknown when the listing does not show it)
	for _, m := range l.M.Txs {
		visible, _, _ := txAt(m, pit, history)
		one := fmt.Sprintf("GetTransaction(%s id=%d pit=%v)", l.Name, m.ID, pit)
		g, err := l.C.GetTransaction(w.Ctx, common.ResourceQuery[any]{PIT: lt(pit), Builder: query.Match("id", int(m.ID)), Expand: expand})
		switch {
		case err != nil && postgres.IsNotFoundError(err):
			if visible {
				w.V("C05", "%s: not found, the listing at that point shows it\nhistory:\n  %s", one, l.History())
			}
		case err != nil:
			w.checkErr(err)
			w.V("C05", "%s failed: %v\nhistory:\n  %s", one, err, l.History())
		case !visible:
			w.V("C05", "%s: returned a transaction that does not exist at that point in time (timestamp %s)\nhistory:\n  %s", one, m.Timestamp, l.History())
		default:
			if g.ID == nil || *g.ID != m.ID {
				w.V("C05|C19", "%s: returned transaction %v\nhistory:\n  %s", one, g.ID, l.History())
			}
			w.compareTx(l, one, *g, m, pit, effective)
			if w.St != nil {
				w.St.Add("transactions_read_by_id", 1)
			}
		}
	}
	if len(l.M.Txs) > 0 {
		beyond := l.M.Txs[len(l.M.Txs)-1].ID + 7
		if _, err := l.C.GetTransaction(w.Ctx, common.ResourceQuery[any]{PIT: lt(pit), Builder: query.Match("id", int(beyond)), Expand: expand}); err == nil || !postgres.IsNotFoundError(err) {
			w.checkErr(err)
			w.V("C05|C19", "GetTransaction(%s id=%d): expected not found, got err=%v\nhistory:\n  %s", l.Name, beyond, err, l.History())
		}
	}
	// count agrees with the listing (C20)
	n, err := l.C.CountTransactions(w.Ctx, common.ResourceQuery[any]{PIT: lt(pit)})
	w.checkErr(err)
	if err != nil || n != len(want) {
		w.V("C20", "CountTransactions(pit=%v) = %d (err %v), listing has %d", pit, n, err, len(want))
	}
}

// compareTx: one transaction as returned by a read against the model's transaction at that point in time.
func (w *World) compareTx(l *LState, what string, g ledger.Transaction, m *refmodel.Tx, pit *time.Time, effective bool) {
	history := l.Has(features.FeatureTransactionMetadataHistory, "SYNC")
	_, reverted, meta := txAt(m, pit, history)
	if !postingsEqual(g.Postings, m.Postings) || g.Reference != m.Reference || !tm(g.Timestamp).Equal(m.Timestamp) || !tm(g.InsertedAt).Equal(m.InsertedAt) {
		w.V("C02", "%s: transaction %d read back differently: postings=%s ref=%q ts=%s insertedAt=%s; committed as %+v\nhistory:\n  %s",
			what, m.ID, postingsStr(g.Postings), g.Reference, tm(g.Timestamp), tm(g.InsertedAt), m, l.History())
	}
	if g.IsReverted() != reverted {
		w.V("C05", "%s: transaction %d reverted=%v, model says %v (revertedAt %v)\nhistory:\n  %s", what, m.ID, g.IsReverted(), reverted, m.RevertedAt, l.History())
	}
	if reverted && !tm(*g.RevertedAt).Equal(*m.RevertedAt) {
		w.V("C15", "%s: transaction %d revertedAt=%s, model %s", what, m.ID, tm(*g.RevertedAt), *m.RevertedAt)
	}
	if !metaEqual(map[string]string(g.Metadata), meta) {
		w.V("C17", "%s: transaction %d metadata %v, model says %v (history feature %v, revisions %v)\nhistory:\n  %s",
			what, m.ID, g.Metadata, meta, history, m.History, l.History())
	}
	if d := pcvDiff(g.PostCommitVolumes, l.M.PostCommitAt(m)); d != "" {
		w.V("C03", "%s: transaction %d postCommitVolumes: %s\nhistory:\n  %s", what, m.ID, d, l.History())
	}
	w.checkRenderedTx(l, g, what)
	if effective {
		if d := pcvDiff(g.PostCommitEffectiveVolumes, l.M.PostCommitEffectiveAt(m)); d != "" {
			w.V("C04", "%s: transaction %d postCommitEffectiveVolumes: %s\nhistory:\n  %s", what, m.ID, d, l.History())
		}
	}

}

func volumesByAssetsDiff(got ledger.VolumesByAssets, want map[string]refmodel.Vol) string {
	for asset, wv := range want {
		gv, ok := got[asset]
		if !ok {
			if wv.IsZero() {
				continue
			}
			return fmt.Sprintf("asset %s missing (want %s)", asset, wv)
		}
		if gv.Input.Cmp(wv.In) != 0 || gv.Output.Cmp(wv.Out) != 0 {
			return fmt.Sprintf("asset %s = (%s,%s), want %s", asset, gv.Input, gv.Output, wv)
		}
	}
	for asset, gv := range got {
		if _, ok := want[asset]; !ok && (gv.Input.Sign() != 0 || gv.Output.Sign() != 0) {
			return fmt.Sprintf("unexpected asset %s = (%s,%s)", asset, gv.Input, gv.Output)
		}
	}
	return ""
}

// CheckAccounts lists all accounts with their volumes and compares them with the model (C02/C05/C17/C18/C21).
func (w *World) CheckAccounts(l *LState, pit *time.Time, pageSize uint64) {
	w.guard(func() { w.checkAccounts(l, pit, pageSize) })
}

func (w *World) checkAccounts(l *LState, pit *time.Time, pageSize uint64) {
	moves := l.Has(features.FeatureMovesHistory, "ON")
	effective := moves && l.Has(features.FeatureMovesHistoryPostCommitEffectiveVolumes, "SYNC")
	// expand=volumes needs MOVES_HISTORY=ON and expand=effectiveVolumes the effective-volumes feature, with or without PIT
	var expand []string
	if moves {
		expand = append(expand, "volumes")
	}
	if effective {
		expand = append(expand, "effectiveVolumes")
	}
	what := fmt.Sprintf("ListAccounts(%s pit=%v pageSize=%d expand=%v)", l.Name, pit, pageSize, expand)
	got, _, err := paginateAll(w, what, common.InitialPaginatedQuery[any]{PageSize: pageSize,
		Options: common.ResourceQuery[any]{PIT: lt(pit), Expand: expand}}, func(q common.PaginatedQuery[any]) (*paginate.Cursor[ledger.Account], error) {
		return l.C.ListAccounts(w.Ctx, q)
	})
	if err != nil {
		w.V("C05", "%s failed: %v\nhistory:\n  %s", what, err, l.History())
	}
	var want []*refmodel.Account
	for _, addr := range l.M.SortedAccounts() {
		a := l.M.Accounts[addr]
		if pit != nil && a.AltFirstUsage != nil && !a.AltFirstUsage.After(*pit) && a.FirstUsage.After(*pit) {
			// class of known finding C18-revert-first-usage: whether this account is listed at pit is exactly what the finding is about
			if w.St != nil {
				w.St.Excluded(FindingRevertFirstUsage)
			}
			return
		}
		if pit != nil && a.FirstUsage.After(*pit) {
			continue
		}
		want = append(want, a)
	}
	if len(got) != len(want) {
		var addrs []string
		for _, g := range got {
			addrs = append(addrs, g.Address)
		}
		w.V("C18", "%s returned accounts %v, the model has %d (%v)\nhistory:\n  %s", what, addrs, len(want), l.M.SortedAccounts(), l.History())
	}
	var insVols, effVols refmodel.Volumes
	if pit != nil {
		insVols = l.M.VolumesWindow(pit, nil, true)
		effVols = l.M.VolumesWindow(pit, nil, false)
	} else {
		insVols = l.M.VolumesNow()
		effVols = insVols
	}
	for i, g := range got {
		a := want[i]
		if g.Address != a.Address {
			w.V("C21", "%s: position %d holds %s, expected %s", what, i, g.Address, a.Address)
		}
		w.compareAccount(l, what, g, a, pit, insVols, effVols, moves, effective)
	}
	// every account read by its address answers like the listing
	listed := map[string]bool{}
	for _, a := range want {
		listed[a.Address] = true
	}
	for _, addr := range append(l.M.SortedAccounts(), "nobody:ever:used:this") {
		one := fmt.Sprintf("GetAccount(%s address=%s pit=%v expand=%v)", l.Name, addr, pit, expand)
		g, err := l.C.GetAccount(w.Ctx, common.ResourceQuery[any]{PIT: lt(pit), Builder: query.Match("address", addr), Expand: expand})
		switch {
		case err != nil && postgres.IsNotFoundError(err):
			if listed[addr] {
				w.V("C18", "%s: not found, the listing at that point shows it\nhistory:\n  %s", one, l.History())
			}
		case err != nil:
			w.checkErr(err)
			w.V("C05", "%s failed: %v\nhistory:\n  %s", one, err, l.History())
		case !listed[addr]:
			w.V("C18|C19", "%s: returned an account (%s) the listing at that point does not show\nhistory:\n  %s", one, g.Address, l.History())
		default:
			if g.Address != addr {
				w.V("C18|C19", "%s: returned account %s\nhistory:\n  %s", one, g.Address, l.History())
			}
			w.compareAccount(l, one, *g, l.M.Accounts[addr], pit, insVols, effVols, moves, effective)
			if w.St != nil {
				w.St.Add("accounts_read_by_address", 1)
			}
		}
	}
	n, err := l.C.CountAccounts(w.Ctx, common.ResourceQuery[any]{PIT: lt(pit)})
	w.checkErr(err)
	if err != nil || n != len(want) {
		w.V("C20", "CountAccounts(pit=%v) = %d (err %v), listing has %d", pit, n, err, len(want))
	}
}

// compareAccount: one account as returned by a read against the model's account at that point in time.
func (w *World) compareAccount(l *LState, what string, g ledger.Account, a *refmodel.Account, pit *time.Time, insVols, effVols refmodel.Volumes, moves, effective bool) {
	history := l.Has(features.FeatureAccountMetadataHistory, "SYNC")
	if !tm(g.FirstUsage).Equal(a.FirstUsage) {
		w.V("C18", "%s: account %s firstUsage %s, model says %s\nhistory:\n  %s", what, a.Address, tm(g.FirstUsage), a.FirstUsage, l.History())
	}
	if !tm(g.InsertionDate).Equal(a.InsertionDate) {
		w.V("C18", "%s: account %s insertionDate %s, model says %s\nhistory:\n  %s", what, a.Address, tm(g.InsertionDate), a.InsertionDate, l.History())
	}
	meta := a.Metadata
	if pit != nil && history {
		meta = refmodel.MetaAt(a.History, *pit)
		if meta == nil {
			meta = map[string]string{}
		}
	}
	if !metaEqual(map[string]string(g.Metadata), meta) {
		w.V("C17", "%s: account %s metadata %v, model says %v (history feature %v, revisions %v)\nhistory:\n  %s", what, a.Address, g.Metadata, meta, history, a.History, l.History())
	}
	if moves {
		if d := volumesByAssetsDiff(g.Volumes, insVols[a.Address]); d != "" {
			code := "C02"
			if pit != nil {
				code = "C02|C05"
			}
			w.V(code, "%s: account %s volumes: %s\nhistory:\n  %s", what, a.Address, d, l.History())
		}
	}
	if effective {
		if d := volumesByAssetsDiff(g.EffectiveVolumes, effVols[a.Address]); d != "" {
			w.V("C05", "%s: account %s effectiveVolumes: %s\nhistory:\n  %s", what, a.Address, d, l.History())
		}
	}

}

// CheckStats: GetStats counts the ledger's transactions and accounts (C19: and nobody else's).
func (w *World) CheckStats(l *LState) {
	w.guard(func() {
		got, err := l.C.GetStats(w.Ctx)
		if err != nil {
			w.checkErr(err)
			w.V("C05|C19", "GetStats(%s) failed: %v", l.Name, err)
		}
		if got.Transactions != len(l.M.Txs) || got.Accounts != len(l.M.Accounts) {
			w.V("C19|C18|C08", "GetStats(%s) = %d transactions, %d accounts; the model has %d and %d\nhistory:\n  %s", l.Name, got.Transactions, got.Accounts, len(l.M.Txs), len(l.M.Accounts), l.History())
		}
	})
}

// CheckMovesTable audits the committed rows of the moves table of a ledger with MOVES_HISTORY=ON: in insertion (seq)
// order, every move's post_commit_volumes must be the running fold of the amounts moved so far for its (account, asset) -
// the state right after that move (C03) - and the last one must equal the account's current volumes (C02); every
// point-in-time read is computed from these rows (C05).
func (w *World) CheckMovesTable(l *LState) {
	if !l.Has(features.FeatureMovesHistory, "ON") {
		return
	}
	type key struct{ acc, asset string }
	var rows []map[string]pgsim.Value
	for _, r := range w.Env.Sim.Rows(l.Bucket, "moves") {
		if r["ledger"].S == l.Name {
			rows = append(rows, r)
		}
	}
	sort.Slice(rows, func(i, j int) bool { return rows[i]["seq"].N.Cmp(rows[j]["seq"].N) < 0 })
	in, out := map[key]*big.Int{}, map[key]*big.Int{}
	for _, r := range rows {
		k := key{r["accounts_address"].S, r["asset"].S}
		if in[k] == nil {
			in[k], out[k] = new(big.Int), new(big.Int)
		}
		amt := r["amount"].N
		if amt == nil {
			w.harness("moves row without amount: %v", r)
		}
		if r["is_source"].B {
			out[k].Add(out[k], amt)
		} else {
			in[k].Add(in[k], amt)
		}
		pcv, _ := r["post_commit_volumes"].J.(map[string]any)
		var gotIn, gotOut string
		if pcv != nil {
			gotIn, gotOut = fmt.Sprint(pcv["input"]), fmt.Sprint(pcv["output"])
		} else if c := r["post_commit_volumes"]; len(c.A) == 2 && c.A[0].N != nil && c.A[1].N != nil {
			gotIn, gotOut = c.A[0].N.String(), c.A[1].N.String()
		} else {
			w.harness("moves row with an unreadable post_commit_volumes: %#v", c)
		}
		if gotIn != in[k].String() || gotOut != out[k].String() {
			w.V("C03|C02|C05", "moves row seq=%s (transaction %s, %s %s, source=%v, amount %s) carries post_commit_volumes (%s,%s); the fold of the moves up to it is (%s,%s)\nhistory:\n  %s",
				r["seq"].N, r["transactions_id"].N, k.acc, k.asset, r["is_source"].B, amt, gotIn, gotOut, in[k], out[k], l.History())
		}
	}
	now := l.M.VolumesNow()
	for k := range in {
		want := now.Get(k.acc, k.asset)
		if want.In.Cmp(in[k]) != 0 || want.Out.Cmp(out[k]) != 0 {
			w.V("C02|C03", "the moves of %s %s add up to (%s,%s), the fold of the committed postings is (%s,%s)\nhistory:\n  %s", k.acc, k.asset, in[k], out[k], want.In, want.Out, l.History())
		}
	}
	if w.St != nil {
		w.St.Add("moves_rows_audited", len(rows))
	}
}

// CheckVolumesTable audits the committed rows of accounts_volumes of the ledger against the fold of the committed
// postings (C02): every pair the fold knows has its row with exactly those totals; a row the fold does not know carries
// zeros (it was created to be locked by a balance check).
func (w *World) CheckVolumesTable(l *LState) {
	now := l.M.VolumesNow()
	seen := map[[2]string]bool{}
	for _, r := range w.Env.Sim.Rows(l.Bucket, "accounts_volumes") {
		if r["ledger"].S != l.Name {
			continue
		}
		k := [2]string{r["accounts_address"].S, r["asset"].S}
		if seen[k] {
			w.V("C02", "accounts_volumes holds two rows for %s %s\nhistory:\n  %s", k[0], k[1], l.History())
		}
		seen[k] = true
		in, out := r["input"].N, r["output"].N
		if in == nil || out == nil {
			w.harness("accounts_volumes row without totals: %v", r)
		}
		want := now.Get(k[0], k[1])
		if in.Cmp(want.In) != 0 || out.Cmp(want.Out) != 0 {
			w.V("C02", "accounts_volumes holds (%s,%s) for %s %s, the fold of the committed postings is (%s,%s)\nhistory:\n  %s", in, out, k[0], k[1], want.In, want.Out, l.History())
		}
	}
	for _, k := range now.Keys() {
		if !seen[k] {
			w.V("C02", "accounts_volumes has no row for %s %s although committed postings moved it (%s)\nhistory:\n  %s", k[0], k[1], now.Get(k[0], k[1]), l.History())
		}
	}
}

// groupAddress truncates an address to its first lvl segments (lvl 0 = no grouping).
func groupAddress(addr string, lvl int) string {
	if lvl <= 0 {
		return addr
	}
	parts := strings.Split(addr, ":")
	if len(parts) > lvl {
		parts = parts[:lvl]
	}
	return strings.Join(parts, ":")
}

// CheckVolumes lists volumes (optionally in a window, by either date, grouped) and compares with the fold (C01/C02/C05/C21).
func (w *World) CheckVolumes(l *LState, pit, oot *time.Time, useInsertionDate bool, groupLvl int, pageSize uint64) {
	w.guard(func() { w.checkVolumes(l, pit, oot, useInsertionDate, groupLvl, pageSize) })
}

func (w *World) checkVolumes(l *LState, pit, oot *time.Time, useInsertionDate bool, groupLvl int, pageSize uint64) {
	what := fmt.Sprintf("GetVolumesWithBalances(%s pit=%v oot=%v insertionDate=%v group=%d pageSize=%d)", l.Name, pit, oot, useInsertionDate, groupLvl, pageSize)
	got, _, err := paginateAll(w, what, common.InitialPaginatedQuery[ledger.GetVolumesOptions]{PageSize: pageSize,
		Options: common.ResourceQuery[ledger.GetVolumesOptions]{PIT: lt(pit), OOT: lt(oot), Opts: ledger.GetVolumesOptions{UseInsertionDate: useInsertionDate, GroupLvl: groupLvl}}},
		func(q common.PaginatedQuery[ledger.GetVolumesOptions]) (*paginate.Cursor[ledger.VolumesWithBalanceByAssetByAccount], error) {
			return l.C.GetVolumesWithBalances(w.Ctx, q)
		})
	windowed := pit != nil || oot != nil
	if windowed && !l.Has(features.FeatureMovesHistory, "ON") {
		if err == nil {
			w.V("C35", "%s answered although MOVES_HISTORY is OFF", what)
		}
		return
	}
	if err != nil {
		w.V("C05", "%s failed: %v\nhistory:\n  %s", what, err, l.History())
	}
	var vols refmodel.Volumes
	if windowed {
		vols = l.M.VolumesWindow(pit, oot, useInsertionDate)
	} else {
		vols = l.M.VolumesNow()
	}
	want := refmodel.Volumes{}
	for _, k := range vols.Keys() {
		g := groupAddress(k[0], groupLvl)
		if want[g] == nil {
			want[g] = map[string]refmodel.Vol{}
		}
		cur, ok := want[g][k[1]]
		if !ok {
			cur = refmodel.NewVol()
		}
		v := vols.Get(k[0], k[1])
		want[g][k[1]] = refmodel.Vol{In: new(big.Int).Add(cur.In, v.In), Out: new(big.Int).Add(cur.Out, v.Out)}
	}
	foldCode, zeroCode := "C02", "C01"
	if windowed {
		// a point-in-time / window read that disagrees with the fold is (also) a C05 violation
		foldCode, zeroCode = "C02|C05", "C01|C05"
	}
	seen := map[[2]string]bool{}
	prev := ""
	totals := map[string]*big.Int{}
	for i, g := range got {
		key := [2]string{g.Account, g.Asset}
		if seen[key] {
			w.V("C21", "%s: %s/%s listed twice\nhistory:\n  %s", what, g.Account, g.Asset, l.History())
		}
		seen[key] = true
		if i > 0 && g.Account < prev {
			w.V("C21", "%s: not sorted by account (%s after %s)", what, g.Account, prev)
		}
		prev = g.Account
		wv, ok := want[g.Account][g.Asset]
		if !ok {
			if !windowed && g.Input.Sign() == 0 && g.Output.Sign() == 0 {
				continue // zero row created by balance locking
			}
			w.V(foldCode, "%s: unexpected %s/%s = (%s,%s)\nhistory:\n  %s", what, g.Account, g.Asset, g.Input, g.Output, l.History())
		}
		if g.Input.Cmp(wv.In) != 0 || g.Output.Cmp(wv.Out) != 0 || g.Balance.Cmp(wv.Balance()) != 0 {
			w.V(foldCode, "%s: %s/%s = (%s,%s,bal %s), the fold of committed postings gives %s\nhistory:\n  %s", what, g.Account, g.Asset, g.Input, g.Output, g.Balance, wv, l.History())
		}
		if totals[g.Asset] == nil {
			totals[g.Asset] = new(big.Int)
		}
		totals[g.Asset].Add(totals[g.Asset], g.Balance)
	}
	for _, k := range want.Keys() {
		if !seen[k] {
			w.V(foldCode, "%s: %s/%s missing (the fold gives %s)\nhistory:\n  %s", what, k[0], k[1], want.Get(k[0], k[1]), l.History())
		}
	}
	for asset, tot := range totals {
		if tot.Sign() != 0 {
			w.V(zeroCode, "%s: balances of %s sum to %s, not zero\nhistory:\n  %s", what, asset, tot, l.History())
		}
	}
}

// CheckAggregated compares aggregated balances (now or at a point in time) with the fold; they must sum to zero per asset (C01/C05).
func (w *World) CheckAggregated(l *LState, pit *time.Time, useInsertionDate bool, builder query.Builder, match func(addr string) bool) {
	w.guard(func() { w.checkAggregated(l, pit, useInsertionDate, builder, match) })
}

func (w *World) checkAggregated(l *LState, pit *time.Time, useInsertionDate bool, builder query.Builder, match func(addr string) bool) {
	what := fmt.Sprintf("GetAggregatedBalances(%s pit=%v insertionDate=%v filter=%v)", l.Name, pit, useInsertionDate, builder != nil)
	got, err := l.C.GetAggregatedBalances(w.Ctx, common.ResourceQuery[ledger.GetAggregatedVolumesOptions]{PIT: lt(pit), Builder: builder,
		Opts: ledger.GetAggregatedVolumesOptions{UseInsertionDate: useInsertionDate}})
	w.checkErr(err)
	if pit != nil {
		need := features.FeatureMovesHistoryPostCommitEffectiveVolumes
		ok := l.Has(features.FeatureMovesHistory, "ON") && l.Has(need, "SYNC")
		if useInsertionDate {
			ok = l.Has(features.FeatureMovesHistory, "ON")
		}
		if !ok {
			if err == nil {
				w.V("C35", "%s answered although the needed feature is disabled", what)
			}
			return
		}
	}
	if err != nil {
		w.V("C05", "%s failed: %v\nhistory:\n  %s", what, err, l.History())
	}
	var vols refmodel.Volumes
	if pit != nil {
		vols = l.M.VolumesWindow(pit, nil, useInsertionDate)
	} else {
		vols = l.M.VolumesNow()
	}
	aggCode := "C02"
	if pit != nil {
		aggCode = "C02|C05"
	}
	want := map[string]*big.Int{}
	for _, k := range vols.Keys() {
		if match != nil && !match(k[0]) {
			continue
		}
		if want[k[1]] == nil {
			want[k[1]] = new(big.Int)
		}
		want[k[1]].Add(want[k[1]], vols.Get(k[0], k[1]).Balance())
	}
	for asset, wv := range want {
		gv, ok := got[asset]
		if !ok {
			if wv.Sign() == 0 {
				// an asset whose matching balances cancel out may or may not be listed with 0
				continue
			}
			w.V(aggCode, "%s: asset %s missing, the fold gives %s\nhistory:\n  %s", what, asset, wv, l.History())
		}
		if gv.Cmp(wv) != 0 {
			code := aggCode
			if match == nil {
				code = "C01|" + aggCode
			}
			w.V(code, "%s: aggregated balance of %s is %s, the fold gives %s\nhistory:\n  %s", what, asset, gv, wv, l.History())
		}
	}
	for asset, gv := range got {
		if _, ok := want[asset]; !ok && gv.Sign() != 0 {
			w.V(aggCode, "%s: unexpected asset %s = %s\nhistory:\n  %s", what, asset, gv, l.History())
		}
		if match == nil && gv.Sign() != 0 {
			w.V("C01", "%s: balances of %s over all accounts sum to %s, not zero\nhistory:\n  %s", what, asset, gv, l.History())
		}
	}
}

// CheckLogs lists the journal and compares it with the writes the model recorded (C08/C21).
func (w *World) CheckLogs(l *LState, pageSize uint64, order paginate.Order) []ledger.Log {
	what := fmt.Sprintf("ListLogs(%s pageSize=%d order=%v)", l.Name, pageSize, order)
	got, _, err := paginateAll(w, what, common.InitialPaginatedQuery[any]{PageSize: pageSize, Order: pointer.For(order)},
		func(q common.PaginatedQuery[any]) (*paginate.Cursor[ledger.Log], error) {
			return l.C.ListLogs(w.Ctx, q)
		})
	if err != nil {
		w.V("C08", "%s failed: %v", what, err)
	}
	if len(got) != len(l.M.Logs) {
		w.V("C08", "%s returned %d logs for %d committed writes\nhistory:\n  %s", what, len(got), len(l.M.Logs), l.History())
	}
	for i, g := range got {
		m := l.M.Logs[i]
		if order == paginate.OrderDesc {
			m = l.M.Logs[len(l.M.Logs)-1-i]
		}
		if *g.ID != m.ID || g.Type.String() != m.Type || g.IdempotencyKey != m.IdempotencyKey {
			w.V("C08", "%s: position %d holds log %d %s ik=%q, the model has %d %s ik=%q\nhistory:\n  %s", what, i, *g.ID, g.Type, g.IdempotencyKey, m.ID, m.Type, m.IdempotencyKey, l.History())
		}
	}
	return got
}
