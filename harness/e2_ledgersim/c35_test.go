package e2

import (
	"fmt"
	"sort"
	"strings"
	"testing"
	"time"

	"pgregory.net/rapid"

	"github.com/formancehq/go-libs/v5/pkg/storage/bun/paginate"

	ledger "github.com/formancehq/ledger/internal"
	"github.com/formancehq/ledger/internal/storage/common"
	"github.com/formancehq/ledger/pkg/features"
	"github.com/formancehq/ledger/verifharness/env"
	"github.com/formancehq/ledger/verifharness/gen"
	"github.com/formancehq/ledger/verifharness/stats"
)

// allFeatureSets enumerates the 2*2*3*2*2 = 48 combinations.
func allFeatureSets() []features.FeatureSet {
	keys := features.DefaultFeatures.SortedKeys()
	out := []features.FeatureSet{{}}
	for _, k := range keys {
		var next []features.FeatureSet
		for _, fs := range out {
			for _, v := range features.FeatureConfigurations[k] {
				next = append(next, fs.With(k, v))
			}
		}
		out = next
	}
	return out
}

// ledgerDigest is what must not depend on the feature set.
func ledgerDigest(l *LState) string {
	var sb strings.Builder
	for _, tx := range l.M.Txs {
		sb.WriteString(fmt.Sprintf("tx %d %v ref=%q meta=%v reverted=%v\n", tx.ID, tx.Postings, tx.Reference, sortedMeta(tx.Metadata), tx.RevertedAt != nil))
	}
	vols := l.M.VolumesNow()
	for _, k := range vols.Keys() {
		sb.WriteString(fmt.Sprintf("vol %s/%s %s\n", k[0], k[1], vols.Get(k[0], k[1])))
	}
	for _, a := range l.M.SortedAccounts() {
		sb.WriteString(fmt.Sprintf("acc %s %v\n", a, sortedMeta(l.M.Accounts[a].Metadata)))
	}
	for _, lg := range l.M.Logs {
		sb.WriteString(fmt.Sprintf("log %d %s\n", lg.ID, lg.Type))
	}
	return sb.String()
}

func sortedMeta(m map[string]string) string {
	keys := sortedKeys(m)
	parts := make([]string, len(keys))
	for i, k := range keys {
		parts[i] = fmt.Sprintf("%q=%q", k, m[k])
	}
	return strings.Join(parts, ",")
}

const ruleC35 = "one generated history (8-14 writes: postings creates incl. failing ones, explicit back-dated timestamps, reverts, metadata writes) applied in lockstep to 48 ledgers, one per feature combination (exhaustive over configurations), in one simulated cluster; per write the outcome kind must be the same on all 48; at the end transactions, revert marks, current volumes, current metadata and the log sequence must be identical across the 48, every ledger must agree with its own reference model on all reads, reads needing a disabled feature (PIT/OOT volumes, insertion-date or effective aggregated balances at a PIT, PIT balance filter) must be rejected and all others answered, and log hashes must be present iff HASH_LOGS=SYNC; non-trivial = history with >= 1 revert, >= 1 failing write and >= 4 commits; distinct = by history"

func TestC35(t *testing.T) {
	st := stats.New("C35", "exploration", ruleC35, assumePgsim, "exhaustive over the 48 feature combinations for every generated history; trigger installation is decided by the real DefaultBucket.AddLedger, trigger bodies are the stand-in's ports")
	defer st.Write(t)
	n := stats.N(15, 30)
	st.Set("requested_checks", n)
	st.Set("configurations_per_case", 48)
	sets := allFeatureSets()
	stats.Check(t, n, 35, func(rt *rapid.T) {
		w := NewWorld(rt, st, env.Options{}, "C35")
		defer w.Close()
		for i, fs := range sets {
			w.AddLedger(fmt.Sprintf("l%d", i), fmt.Sprintf("b%d", i%5), fs)
		}
		ref := w.L[0]
		nOps := rapid.IntRange(8, 14).Draw(rt, "nOps")
		commits, failures, reverts := 0, 0, 0
		for op := 0; op < nOps; op++ {
			kind := rapid.IntRange(0, 9).Draw(rt, "opKind")
			switch {
			case kind <= 5 || len(ref.M.Txs) == 0:
				r := w.GenPostingsRequest(rt, ref, 3)
				r.DryRun = false
				var first ErrKind
				for i, l := range w.L {
					out := w.CreateTx(l, r)
					if i == 0 {
						first = out.Kind
						if out.Kind == ErrNone {
							commits++
						} else {
							failures++
						}
					} else if out.Kind != first {
						w.V("C35", "create %s: %q on features {%s} but %q on {%s}", r.describe(), first, ref.Features, out.Kind, l.Features)
					}
				}
			case kind <= 7:
				idx := rapid.IntRange(0, len(ref.M.Txs)-1).Draw(rt, "revertIdx")
				force := rapid.Bool().Draw(rt, "force")
				atEff := rapid.Bool().Draw(rt, "atEffectiveDate")
				var first ErrKind
				for i, l := range w.L {
					out := w.Revert(l, RevertRequest{ID: l.M.Txs[idx].ID, Force: force, AtEffectiveDate: atEff})
					if i == 0 {
						first = out.Kind
						if out.Kind == ErrNone {
							commits++
							reverts++
						} else {
							failures++
						}
					} else if out.Kind != first {
						w.V("C35", "revert of transaction #%d: %q on features {%s} but %q on {%s}", idx, first, ref.Features, out.Kind, l.Features)
					}
				}
			case kind == 8:
				idx := rapid.IntRange(0, len(ref.M.Txs)-1).Draw(rt, "metaIdx")
				m := map[string]string{rapid.SampledFrom(metaKeys).Draw(rt, "mk"): gen.FreeText().Draw(rt, "mv")}
				for _, l := range w.L {
					if k := w.SaveTxMeta(l, l.M.Txs[idx].ID, m, "", false); k != ErrNone {
						w.V("C35", "saveTxMeta failed with %q on {%s}", k, l.Features)
					}
				}
				commits++
			default:
				addr := gen.NonWorldAccount().Draw(rt, "addr")
				m := map[string]string{rapid.SampledFrom(metaKeys).Draw(rt, "mk"): gen.FreeText().Draw(rt, "mv")}
				for _, l := range w.L {
					if k := w.SaveAccountMeta(l, addr, m, false); k != ErrNone {
						w.V("C35", "saveAccountMeta failed with %q on {%s}", k, l.Features)
					}
				}
				commits++
			}
			if rapid.IntRange(0, 3).Draw(rt, "tick") == 0 {
				w.Env.Sim.AdvanceClock(time.Duration(rapid.IntRange(1, 300).Draw(rt, "minutes")) * time.Minute)
			}
		}
		want := ledgerDigest(ref)
		pit := w.genPIT(rt, ref)
		for _, l := range w.L {
			if got := ledgerDigest(l); got != want {
				w.V("C35", "ledger state depends on the feature set:\n--- {%s}\n%s--- {%s}\n%s", ref.Features, want, l.Features, got)
			}
			// every read agrees with the ledger's own model, gated reads are rejected exactly when their feature is off
			w.Focus = nil // any discrepancy on any configuration counts here
			w.CheckTransactions(l, nil, 15, paginate.OrderAsc)
			w.CheckAccounts(l, nil, 15)
			w.CheckVolumes(l, nil, nil, false, 0, 15)
			w.CheckAggregated(l, nil, false, nil, nil)
			w.CheckVolumes(l, pit, nil, false, 0, 15)
			w.CheckVolumes(l, pit, nil, true, 0, 15)
			w.CheckAggregated(l, pit, true, nil, nil)
			w.CheckAggregated(l, pit, false, nil, nil)
			w.CheckTransactions(l, pit, 15, paginate.OrderAsc)
			w.CheckAccounts(l, pit, 15)
			w.Focus = map[string]bool{"C35": true}
			logs := w.CheckLogs(l, 15, paginate.OrderAsc)
			for _, lg := range logs {
				if l.Has(features.FeatureHashLogs, "SYNC") != (len(lg.Hash) > 0) {
					w.V("C35", "ledger {%s}: log %d hash present=%v", l.Features, *lg.ID, len(lg.Hash) > 0)
				}
			}
			// expand=effectiveVolumes on transactions and the PIT balance filter are gated as documented
			_, err := l.C.ListTransactions(w.Ctx, common.InitialPaginatedQuery[any]{PageSize: 5, Options: common.ResourceQuery[any]{Expand: []string{"effectiveVolumes"}}})
			w.checkErr(err)
			if err != nil {
				w.V("C35", "ledger {%s}: ListTransactions(expand=effectiveVolumes) failed: %v", l.Features, err)
			}
			_ = ledger.Transaction{}
		}
		st.Case(want, reverts >= 1 && failures >= 1 && commits >= 4, func() any {
			return map[string]any{"history_on_default_features": ref.Ops}
		}, fmt.Sprintf("commits:%d", min(commits, 10)))
		st.Add("completed_checks", 1)
		st.Add("ledger_histories", len(sets))
	})
}

var _ = sort.Strings
